#!/usr/bin/env python3
# bin/seeded_run.py <seeded/dir> [PROP ...] [--tier quick]: apply a seeded change to /repo, run the
# checks, undo it.  Self-validation of the machinery only; never part of a registered check.
import json
import os
import subprocess
import sys

VERIF = os.path.dirname(os.path.dirname(os.path.abspath(__file__)))


def main():
    args = [a for a in sys.argv[1:] if not a.startswith("--")]
    tier = "quick"
    if "--tier" in sys.argv:
        tier = sys.argv[sys.argv.index("--tier") + 1]
        args = [a for a in args if a != tier]
    d = os.path.abspath(args[0])
    meta = json.load(open(os.path.join(d, "meta.json")))
    props = args[1:] or [meta["property"]]
    st = subprocess.run(["git", "-C", "/repo", "status", "--porcelain"], stdout=subprocess.PIPE, universal_newlines=True).stdout
    if st.strip():
        print("refusing: /repo has uncommitted changes:\n" + st)
        return 2
    subprocess.check_call(["git", "-C", "/repo", "apply", os.path.join(d, "patch.diff")])
    out = {}
    # the evidence files of the unchanged tree must not be replaced by what a run on a seeded change writes
    saved = {}
    for p in props:
        f = os.path.join(VERIF, "evidence", p + ".json")
        saved[f] = open(f).read() if os.path.exists(f) else None
    try:
        for p in props:
            r = subprocess.run([os.path.join(VERIF, "bin", "check"), p, tier], cwd=VERIF, stdout=subprocess.PIPE, stderr=subprocess.STDOUT, universal_newlines=True)
            lines = [l for l in r.stdout.splitlines() if l.startswith(("VIOLATION", "KNOWN-FINDING", "  ", "check crashed"))]
            out[p] = {"exit": r.returncode, "lines": lines[:8]}
            print(p, "exit", r.returncode)
            for l in lines[:6]:
                print("   ", l[:400])
    finally:
        subprocess.check_call(["git", "-C", "/repo", "checkout", "--", "."])
        subprocess.run(["git", "-C", "/repo", "clean", "-fdq"], check=False)
        for f, txt in saved.items():
            if txt is None:
                if os.path.exists(f):
                    os.remove(f)
            else:
                open(f, "w").write(txt)
    res = os.path.join(d, "detected_by.json")
    old = json.load(open(res)) if os.path.exists(res) else {}
    old.update(out)
    json.dump(old, open(res, "w"), indent=1, sort_keys=True)
    return 0


if __name__ == "__main__":
    sys.exit(main())
