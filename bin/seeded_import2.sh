#!/bin/bash
# bin/seeded_import2.sh <ID> <srcdir with MUTANT1/MUTANT2> <name1> <name2>
set -e
id=$1; src=$2
k=1
for name in $3 $4; do
  dst=/verif/seeded/$name; mkdir -p $dst
  cp $src/MUTANT$k/patch.diff $dst/; cp $src/MUTANT$k/meta.json $dst/; rm -rf $dst/demo; cp -r $src/MUTANT$k/demo $dst/demo
  git -C /repo apply --check $dst/patch.diff && echo "$name applies"
  k=$((k+1))
done
