# Shared machinery of bin/check: work directory, regeneration of the Coq tables from the
# repository, the Coq build, evaluation of the model on observed cases, evidence, findings.
import fcntl
import hashlib
import json
import os
import re
import shutil
import subprocess
import sys
import time

VERIF = os.path.dirname(os.path.dirname(os.path.abspath(__file__)))
GOENV = {
    "GOFLAGS": "-mod=mod", "GOPROXY": "off", "GOSUMDB": "off", "GOTOOLCHAIN": "local",
    "LXRBITSIZE": "8", "CGO_CFLAGS": "-w",
}
BAD_WORDS = r"\b(Admitted|admit|Axiom|Axioms|Parameter|Parameters|Conjecture|Conjectures|Unset Guard Checking|bypass_check|Admit Obligations|type-in-type|impredicative-set)\b"


class Violation(Exception):
    def __init__(self, what, replay, found_input=True):
        Exception.__init__(self, what)
        self.what = what
        self.replay = replay
        self.found_input = found_input


class Ctx:
    def __init__(self, prop, tier, replay=None):
        self.prop = prop
        self.tier = tier
        self.replay = replay
        self.seed = int(os.environ.get("VERIF_SEED", "1") or "1")
        self.repo = os.path.abspath(os.environ.get("VERIF_REPO", "/repo"))
        self.t0 = time.time()
        self.work = os.path.join(VERIF, ".work", "%s-%s-%d" % (prop, tier, os.getpid()))
        os.makedirs(self.work, exist_ok=True)
        self.home = os.path.join(self.work, "home")
        os.makedirs(self.home, exist_ok=True)
        self.shared = os.path.join(VERIF, ".work", "shared")
        os.makedirs(self.shared, exist_ok=True)
        self.coqdir = os.path.join(VERIF, "coq")
        self.private_coq = False
        self.coverage = {}
        self.assumptions = []
        self.violations = []     # (what, replay, found_input)
        self.known_hits = []
        self.notes = []
        self.log = open(os.path.join(self.work, "log.txt"), "w")

    # ---------------------------------------------------------------- utilities
    def env(self):
        e = dict(os.environ)
        e.update(GOENV)
        e["HOME"] = self.home
        e["GOCACHE"] = os.environ.get("GOCACHE", os.path.join(VERIF, ".work", "gocache"))
        e["GOMODCACHE"] = "/root/go/pkg/mod"
        e["VERIF_SEED"] = str(self.seed)
        return e

    def run(self, cmd, cwd=None, timeout=1200, check=True, stdin=None, env=None, quiet=False):
        self.log.write("$ %s (cwd=%s)\n" % (" ".join(cmd) if isinstance(cmd, list) else cmd, cwd))
        self.log.flush()
        try:
            p = subprocess.run(cmd, cwd=cwd, env=env or self.env(), input=stdin, timeout=timeout,
                               stdout=subprocess.PIPE, stderr=subprocess.PIPE, universal_newlines=True,
                               shell=isinstance(cmd, str))
        except subprocess.TimeoutExpired as ex:
            self.log.write("TIMEOUT\n")
            if check:
                raise RuntimeError("timeout: %s" % cmd)
            def _s(x):
                return x.decode("utf-8", "replace") if isinstance(x, bytes) else (x or "")
            return 124, _s(ex.stdout), _s(ex.stderr) + "\n[timeout after %ss]" % timeout
        if not quiet:
            self.log.write(p.stdout[-4000:] + "\n" + p.stderr[-4000:] + "\n")
        if check and p.returncode != 0:
            raise RuntimeError("command failed (%d): %s\n%s\n%s" % (p.returncode, cmd, p.stdout[-3000:], p.stderr[-3000:]))
        return p.returncode, p.stdout, p.stderr

    def lock(self, name):
        f = open(os.path.join(self.shared, name + ".lock"), "w")
        fcntl.flock(f, fcntl.LOCK_EX)
        return f

    # ---------------------------------------------------------------- Go side
    def gomod_dir(self, name):
        """Directory of one of our Go modules (gen, harness) aimed at self.repo."""
        src = os.path.join(VERIF, name)
        if self.repo == "/repo":
            # keep go.sum in step with the repository's
            # (atomically, and only when it differs: checks may run concurrently and a go build of another
            # check must never read a half-written go.sum)
            try:
                want = open(os.path.join(self.repo, "go.sum"), "rb").read()
                dst = os.path.join(src, "go.sum")
                have = open(dst, "rb").read() if os.path.exists(dst) else None
                if have != want:
                    tmp = "%s.%d.tmp" % (dst, os.getpid())
                    open(tmp, "wb").write(want)
                    os.replace(tmp, dst)
            except OSError:
                pass
            return src
        dst = os.path.join(self.work, name)
        if not os.path.isdir(dst):
            shutil.copytree(src, dst, ignore=shutil.ignore_patterns(".home", "*.test"))
            gm = open(os.path.join(dst, "go.mod")).read()
            gm = gm.replace("=> /repo", "=> " + self.repo)
            open(os.path.join(dst, "go.mod"), "w").write(gm)
            shutil.copyfile(os.path.join(self.repo, "go.sum"), os.path.join(dst, "go.sum"))
        return dst

    def go_build(self, module, pkg, tags="verif"):
        """Build ./pkg of module against the current working tree of the repository."""
        d = self.gomod_dir(module)
        out = os.path.join(self.work, "bin", module + "_" + pkg.replace("/", "_"))
        os.makedirs(os.path.dirname(out), exist_ok=True)
        lk = self.lock("gobuild")
        try:
            rc, so, se = self.run(["go", "build", "-tags", tags, "-o", out, "./" + pkg], cwd=d, timeout=900, check=False)
        finally:
            lk.close()
        if rc != 0:
            raise BuildBroken("go build %s/%s failed:\n%s" % (module, pkg, se[-3000:]))
        return out

    # ---------------------------------------------------------------- tables
    def regen_tables(self):
        """Re-run the translators against the repository and rewrite coq/Gen/*.v when changed."""
        consts = self.go_build("gen", "consts")
        rc, so, se = self.run([consts, self.repo], check=False)
        if rc != 0:
            raise TieBroken("Gen/Consts.v cannot be regenerated: " + se.strip()[-2000:], "Gen.Consts")
        self._install_gen("Consts.v", so)
        for extra in ("schema", "sites"):
            if os.path.isdir(os.path.join(VERIF, "gen", extra)):
                b = self.go_build("gen", extra)
                rc, so, se = self.run([b, self.repo], check=False, timeout=600)
                if rc != 0:
                    raise TieBroken("Gen/%s.v cannot be regenerated: %s" % (extra.capitalize(), se.strip()[-2000:]),
                                    "Gen." + extra.capitalize())
                self._install_gen(extra.capitalize() + ".v", so)

    def _install_gen(self, name, text):
        if self.repo != "/repo" and not self.private_coq:
            self.make_private_coq()
        path = os.path.join(self.coqdir, "Gen", name)
        lk = self.lock("coq")
        try:
            old = open(path).read() if os.path.exists(path) else None
            if old != text:
                if not self.private_coq and old is not None:
                    # the shared incremental build belongs to the clean /repo tree: a changed
                    # table means the tree is edited, build privately so concurrent checks and
                    # later runs are not disturbed
                    lk.close()
                    lk = None
                    self.make_private_coq()
                    path = os.path.join(self.coqdir, "Gen", name)
                open(path, "w").write(text)
        finally:
            if lk:
                lk.close()

    def make_private_coq(self):
        dst = os.path.join(self.work, "coq")
        if not os.path.isdir(dst):
            lk = self.lock("coq")
            try:
                shutil.copytree(os.path.join(VERIF, "coq"), dst,
                                ignore=shutil.ignore_patterns("*.aux", "*.glob", ".*.d", "*.vos", "*.vok", ".lia.cache", ".nia.cache"))
            finally:
                lk.close()
        self.coqdir = dst
        self.private_coq = True

    # ---------------------------------------------------------------- Coq side
    def coq_files(self):
        out = []
        for sub in ("Gen", "Model", "Lemmas", "Corr", "Props", "Refuted"):
            d = os.path.join(self.coqdir, sub)
            if os.path.isdir(d):
                for f in sorted(os.listdir(d)):
                    if f.endswith(".v"):
                        out.append(sub + "/" + f)
        return out

    def coq_make(self, targets=None, clean=False, timeout=None):
        """Full .vo build (no -vos) of the development, or of the given .vo targets."""
        lk = None if self.private_coq else self.lock("coq")
        try:
            files = self.coq_files()
            proj = open(os.path.join(self.coqdir, "_CoqProject")).read().splitlines()
            proj = [l for l in proj if not l.strip().endswith(".v")]
            open(os.path.join(self.coqdir, "_CoqProject.full"), "w").write("\n".join(proj + files) + "\n")
            self.run(["coq_makefile", "-f", "_CoqProject.full", "-o", "Makefile.coq"], cwd=self.coqdir)
            if clean:
                self.run("find . -name '*.vo' -o -name '*.glob' -o -name '*.aux' -o -name '*.vos' -o -name '*.vok' | xargs rm -f",
                         cwd=self.coqdir)
            if timeout is None:
                timeout = 900 if targets else 2400
            cmd = ["make", "-f", "Makefile.coq", "-j16", "-k"] + (targets or [])
            rc, so, se = self.run(cmd, cwd=self.coqdir, timeout=timeout, check=False)
            return rc, so, se
        finally:
            if lk:
                lk.close()

    def coqc_props(self, prop):
        """Re-compile Props/<prop>.v (always) and return (ok, output) with fresh Print Assumptions."""
        lk = None if self.private_coq else self.lock("coq")
        try:
            args = self.coq_qargs()
            rc, so, se = self.run(["coqc"] + args + ["Props/%s.v" % prop], cwd=self.coqdir, timeout=1200, check=False)
            return rc == 0, so + se
        finally:
            if lk:
                lk.close()

    def coq_qargs(self):
        a = []
        for sub in ("Gen", "Model", "Lemmas", "Corr", "Props", "Refuted"):
            if os.path.isdir(os.path.join(self.coqdir, sub)):
                a += ["-Q", os.path.join(self.coqdir, sub), sub]
        return a + ["-w", "-notation-overridden,-deprecated-hint-without-locality,-deprecated-instance-without-locality"]

    def coq_eval(self, name, text, timeout=1500):
        """Compile a throw-away .v (model evaluated on observed cases) and return coqc's output."""
        d = os.path.join(self.work, "eval")
        os.makedirs(d, exist_ok=True)
        path = os.path.join(d, name + ".v")
        open(path, "w").write(text)
        rc, so, se = self.run(["coqc"] + self.coq_qargs() + [path], cwd=d, timeout=timeout, check=False, quiet=True)
        if rc != 0:
            raise RuntimeError("coqc failed on %s:\n%s" % (path, (so + se)[-3000:]))
        return so

    def hygiene(self):
        """No Admitted / Axiom / ... anywhere in the development."""
        bad = []
        for f in self.coq_files():
            txt = open(os.path.join(self.coqdir, f)).read()
            txt = strip_coq_comments(txt)
            for m in re.finditer(BAD_WORDS, txt):
                bad.append("%s: %s" % (f, m.group(0)))
            # Variable / Hypothesis / Context only inside sections
            depth = 0
            for line in txt.splitlines():
                s = line.strip()
                if re.match(r"^Section\b", s):
                    depth += 1
                elif re.match(r"^End\b", s) and depth > 0:
                    depth -= 1
                elif depth == 0 and re.match(r"^(Variable|Variables|Hypothesis|Hypotheses|Context)\b", s):
                    bad.append("%s: top-level %s" % (f, s.split()[0]))
        return bad

    # ---------------------------------------------------------------- proof stage
    def proof_stage(self, extra_targets=()):
        """Regenerate the tables, build what Props/<id>.v needs, re-check it, scan for hygiene.
        Returns a dict describing obligations; raises ProofBroken when something does not check."""
        self.regen_tables()
        targets = ["Props/%s.vo" % self.prop] + list(extra_targets)
        if os.path.exists(os.path.join(self.coqdir, "Refuted", self.prop + ".v")):
            targets.append("Refuted/%s.vo" % self.prop)
        targets.append("Corr/Pure.vo")
        if self.tier == "thorough":
            # clean rebuild of everything in a private copy
            self.make_private_coq()
            rc, so, se = self.coq_make(None, clean=True)
        else:
            rc, so, se = self.coq_make(targets)
        if rc != 0:
            m = re.search(r'File "([^"]+)", line (\d+)[^\n]*\n(Error:[^\n]*(?:\n[^\n]+){0,6})', so + se)
            where = "%s:%s %s" % (m.group(1), m.group(2), m.group(3)) if m else (se[-1500:])
            raise ProofBroken(where)
        ok, out = self.coqc_props(self.prop)
        if not ok:
            raise ProofBroken("Props/%s.v does not compile:\n%s" % (self.prop, out[-2000:]))
        src = strip_coq_comments(open(os.path.join(self.coqdir, "Props", self.prop + ".v")).read())
        thms = re.findall(r"^\s*(?:Theorem|Lemma|Corollary)\s+([A-Za-z0-9_']+)", src, re.M)
        exs = re.findall(r"^\s*(?:Example|Fact)\s+([A-Za-z0-9_']+)", src, re.M)
        closed = out.count("Closed under the global context")
        axioms = []
        if "Axioms:" in out:
            # every block printed after an "Axioms:" header: one entry per non-indented line, "name : type" or, when the
            # type is long, the name alone with the type on the following indented lines
            inblk = False
            for l in out.splitlines():
                if l.startswith("Axioms:"):
                    inblk = True
                    continue
                if not inblk:
                    continue
                if not l.strip() or l.startswith("Closed under"):
                    inblk = False
                    continue
                if l[0] in " \t":
                    continue
                mm = re.match(r"^([A-Za-z_][A-Za-z0-9_.']*)\s*(:.*)?$", l)
                # axioms of a library are printed with their qualified name; an unqualified line is the output of a following
                # Check / Print command (this development declares no axiom: hygiene scan)
                if mm and "." in mm.group(1):
                    axioms.append(mm.group(1))
                else:
                    inblk = False
        prims = sorted(set(a for a in axioms if a.startswith(("PrimInt63.", "PrimFloat.", "PrimArray."))))
        axioms = [a for a in axioms if a not in prims]
        bad = self.hygiene()
        if bad:
            raise ProofBroken("hygiene: " + "; ".join(bad[:10]))
        refuted = []
        rp = os.path.join(self.coqdir, "Refuted", self.prop + ".v")
        if os.path.exists(rp):
            refuted = re.findall(r"^\s*(?:Theorem|Lemma)\s+([A-Za-z0-9_']+)", strip_coq_comments(open(rp).read()), re.M)
        info = {
            "theorems": thms, "examples": exs, "refuted_statements": refuted,
            "print_assumptions_closed": closed, "axioms_reported": sorted(set(axioms)),
            "kernel_primitives_reported": prims,   # Coq's primitive 63-bit integers / binary64 floats: not axioms of this development
        }
        n = len(thms) + len(exs) + len(refuted)
        self.coverage["obligations"] = self.coverage.get("obligations", 0) + n
        self.coverage["discharged"] = self.coverage.get("discharged", 0) + n
        self.coverage["proof"] = info
        self.coverage["checker_cmd"] = ("coq_makefile -f _CoqProject.full -o Makefile.coq && make -f Makefile.coq -j16 %s"
                                        " && coqc Props/%s.v   (Coq 8.16.1, full .vo build%s)"
                                        % (" ".join(targets) if self.tier == "quick" else "(clean, all files)", self.prop,
                                           "" if self.tier == "quick" else "; then coqchk -silent -o"))
        if self.tier == "thorough" and os.environ.get("VERIF_NO_COQCHK") != "1":
            self.coqchk()
        return info

    def coqchk(self):
        args = []
        for sub in ("Gen", "Model", "Lemmas", "Corr", "Props", "Refuted"):
            if os.path.isdir(os.path.join(self.coqdir, sub)):
                args += ["-Q", sub, sub]
        rc, so, se = self.run(["coqchk", "-silent", "-o"] + args + ["Props." + self.prop], cwd=self.coqdir,
                              timeout=3000, check=False)
        txt = so + se
        self.coverage["coqchk"] = {"exit": rc, "tail": txt[-1500:]}
        if rc != 0:
            raise ProofBroken("coqchk rejected Props.%s: %s" % (self.prop, txt[-1500:]))

    def table_obligation(self, n=1):
        self.coverage["obligations"] = self.coverage.get("obligations", 0) + n
        self.coverage["discharged"] = self.coverage.get("discharged", 0) + n

    # ---------------------------------------------------------------- findings / evidence
    def known_findings(self):
        p = os.path.join(VERIF, "known_findings.jsonl")
        out = []
        if os.path.exists(p):
            for l in open(p):
                l = l.strip()
                if l and not l.startswith("#"):
                    out.append(json.loads(l))
        return out

    def known(self, signature):
        for k in self.known_findings():
            if k.get("status") == "known" and k.get("property") == self.prop and k.get("signature") == signature:
                return k
        return None

    def write_replay(self, name, obj):
        d = os.path.join(VERIF, "evidence", "replays")
        os.makedirs(d, exist_ok=True)
        p = os.path.join(d, "%s-%s.json" % (self.prop, name))
        json.dump(obj, open(p, "w"), indent=1, sort_keys=True)
        return p

    def add_violation(self, what, replay_obj, name="violation", found_input=True, signature=None):
        if signature:
            k = self.known(signature)
            if k:
                self.known_hits.append((signature, k.get("what", what)))
                return
        replay_obj = dict(replay_obj)
        replay_obj.setdefault("property", self.prop)
        replay_obj.setdefault("what", what)
        replay_obj.setdefault("seed", self.seed)
        if signature:
            replay_obj.setdefault("signature", signature)
        p = self.write_replay(name + ("-%d" % len(self.violations) if self.violations else ""), replay_obj)
        self.violations.append((what, p, found_input))

    def finish(self, level="proof"):
        wall = time.time() - self.t0
        cov = self.coverage
        cov.setdefault("evaluations", 0)
        cov.setdefault("distinct_nontrivial", 0)
        cov.setdefault("rule", "")
        cov.setdefault("samples", [])
        tb = list(TRUSTED_BASE)
        ax = (cov.get("proof") or {}).get("axioms_reported") or []
        if ax:
            tb[1] = ("axioms: none declared by this development; the theorems of this property that reason about real numbers / the "
                     "primitive float and integer types (Lemmas/BandLemmas.v through Flocq) depend on these axioms of the standard "
                     "library, as Print Assumptions reports them: " + ", ".join(ax))
        cov.setdefault("trusted_base", tb)
        cov.setdefault("obligations", 0)
        cov.setdefault("discharged", 0)
        cov.setdefault("checker_cmd", "coqc")
        if self.notes:
            cov["notes"] = self.notes
        cov["known_findings_hit"] = [s for s, _ in self.known_hits]
        ev = {
            "property_id": self.prop, "tier": self.tier, "seed": self.seed, "level": level,
            "coverage": cov, "assumptions": self.assumptions, "wall_s": round(wall, 2),
            "violations": len(self.violations),
        }
        os.makedirs(os.path.join(VERIF, "evidence"), exist_ok=True)
        tmp = os.path.join(VERIF, "evidence", ".%s.json.%d" % (self.prop, os.getpid()))
        json.dump(ev, open(tmp, "w"), indent=1, sort_keys=True)
        os.replace(tmp, os.path.join(VERIF, "evidence", self.prop + ".json"))
        seen = set()
        for sig, what in self.known_hits:
            if sig not in seen:
                print("KNOWN-FINDING: property=%s %s" % (self.prop, what))
                seen.add(sig)
        for what, p, found in self.violations:
            print("VIOLATION property=%s replay=%s%s" % (self.prop, p, "" if found else " no-failing-input-found"))
            print("  " + what.replace("\n", "\n  ")[:2000])
        self.log.close()
        if os.environ.get("VERIF_KEEP_WORK") != "1":
            shutil.rmtree(self.work, ignore_errors=True)
        return 1 if self.violations else 0


class ProofBroken(Exception):
    pass


class BuildBroken(Exception):
    pass


class TieBroken(Exception):
    def __init__(self, what, table):
        Exception.__init__(self, what)
        self.table = table


def strip_coq_comments(txt):
    out = []
    depth = 0
    i = 0
    n = len(txt)
    while i < n:
        if txt.startswith("(*", i):
            depth += 1
            i += 2
        elif txt.startswith("*)", i) and depth > 0:
            depth -= 1
            i += 2
        else:
            if depth == 0:
                out.append(txt[i])
            elif txt[i] == "\n":
                out.append("\n")
            i += 1
    return "".join(out)


TRUSTED_BASE = [
    "Coq 8.16.1 kernel (coqc; vm_compute used, native_compute not used); coqchk re-check in the thorough tier",
    "axioms: none declared by this development; Print Assumptions output of every property theorem is recorded in coverage.proof",
    "translator /verif/gen (Go: go/parser + the repository's own packages) producing coq/Gen/*.v on every run",
    "correspondence check: /verif/gen/pure and /verif/harness run the real Go code; the Coq model is evaluated by vm_compute on the observed cases (coq/Corr/*.v)",
    "the hand-written Gallina model (coq/Model/*.v) is tied to the Go code only by the tables and the correspondence runs",
    "Go toolchain, SQLite, encoding/json, math/big, database/sql and the external libraries (grader, LXR, factom) are trusted / treated as oracles",
]


def coq_list(items):
    return "[" + ";\n ".join(items) + "]"


def parse_nat_list(out, name="M"):
    """Parse `M = [a%nat; b%nat]` (possibly wrapped) from coqc output."""
    m = re.search(r"%s\s*=\s*(.*?)\n\s*:\s" % re.escape(name), out, re.S)
    if not m:
        raise RuntimeError("cannot parse coqc output: " + out[-500:])
    body = m.group(1)
    return body


def sha(s):
    return hashlib.sha256(s.encode()).hexdigest()[:16]
