#!/usr/bin/env python3
# Regenerates /verif/MANIFEST.json from the table below (run after adding a check).
import json
import os

VERIF = os.path.dirname(os.path.dirname(os.path.abspath(__file__)))
TECH = "machine-checked proof in Coq + model/implementation correspondence"
TB = ("Trusted: Coq 8.16.1 kernel (vm_compute; coqchk in the thorough tier); no axioms declared (Print Assumptions output recorded per run; "
      "primitive Uint63/Float64 operations are kernel primitives); the translators gen/* ; the hand-written Gallina model, tied to the Go code by "
      "the generated tables and by the correspondence runs only as far as the generators reach; SQLite, database/sql, encoding/json, math/big, "
      "the grader / LXR / factom libraries and the cryptography are oracles. ")

CLAIMS = {
 "C01": ("Coq theorems: the proportional payout with dust (staking payouts, PEG bank yields) is a function of the SET of requests — every enumeration of Go's map gives "
         "each txid the same payout, the dust recipient is the unique maximum under (amount, txid order) — for all request sets; table obligations regenerated from the "
         "source: no iteration over a map and no sort in the code reachable from block application other than the reviewed ones. The model of a block is a function "
         "of the chain (no clock, no order input) and is tied to the node on every table of the ledger; N independent OS processes replay chains with exact ties and "
         "their dumps are compared; a daemon serving API requests during sync is compared with one serving none.", "section 6 C01", ""),
 "C02": ("Coq theorem over all chains and all sequences of events of the sync loop (failed attempts rolled back, SIGKILL before COMMIT returns or right after, restarts, "
         "API requests): the committed database is always the uninterrupted replay of a prefix of the chain and the rest is still to be applied; each block records its "
         "height exactly once; table obligations from the source: every write of a block goes through its sql.Tx, reads that bypass it are the reviewed ones, the journal is on disk with synchronous writes, the height mark is a plain "
         "INSERT under PRIMARY KEY(height). Tie: the real daemon is killed at statement granularity (every distinct call site, before/after COMMIT), re-opened by a fresh "
         "process, compared with the reference state of the recorded height, resumed and compared again; and every block is failed once (at its last statement, inside its "
         "transaction entries, inside its grading rows) and applied again by the same process, the ledger compared with the fault-free run.", "section 6 C02",
         "SQLite's atomic commit / journal and the filesystem are trusted (partial: no executable model can exhibit torn writes). "),
 "C03": ("Coq theorems over all chains (induction over the block list, unbounded Z with the code's uint64/int64 checks): no reachable balance is negative (proved from the "
         "code's own checks, not from the CHECK constraint), a batch is applied completely or leaves every balance untouched, every debit is covered at the moment it is "
         "made; the model of SyncBlock is tied to the real node by replaying generated chains of every era through the unmodified daemon and comparing balances and batch "
         "status block by block; property oracle (no negative cell) on the node's dumps.", "section 6 C03", ""),
 "C04": ("Coq theorems for every state, batch and asset: AddToBalance / SubFromBalance change the supply by exactly their amount and nothing else does; recording a batch "
         "changes each asset's supply by exactly the sum of its transactions' events (transfers: minus outputs to the burn address; conversions: -input, +floor(in*src/dst); "
         "bank-era PEG requests: input only); a transfer whose outputs add up to its input creates and destroys nothing; rewards and burns credit exactly the decided "
         "amounts to the named addresses; and over EVERY chain (without conversions into PEG, distinct batch hashes): each balance cell outside the three special addresses equals "
         "the summed effect of the recorded executed history rows -- no value without a recorded protocol event. Tie: balances (whose column sums are the supplies) compared with the node block by block on chains of every era.", "section 6 C04",
         "The chain-level accounting theorem excludes conversions into PEG (legacy bank payout: covered piecewise and by the bank chains) and the three special addresses (one-time adjustments: C15). "),
 "C05": ("Coq theorems over all byte strings / entries with signature verification as a Section oracle: an accepted entry carries exactly one RCD whose hash is the input "
         "address, of a type enabled at that height, a signature verified over exactly salt||chain||content (message composition injective), salt within +-12h; every "
         "structural failure class is rejected; for RCD-1 one verified triple determines the entry. Model tied to fat2.NewTransactionBatch by differential runs on real "
         "signed entries and their mutations (every single-bit flip in the thorough tier).", "section 6 C05",
         "Known finding (recorded, not repaired): RCD-e signatures are malleable in byte 64 (Refuted/C05.v). "),
 "C06": ("Coq theorem over all blocks: relation rows are never deleted, so an entry hash that counts as executed does so in every later state; both the arrival path and the "
         "holding path consult them (an executed, pending or rejected entry written again has no effect: C08/C17 lemmas); the holding windows of the rated heights partition the heights (each held height is visited by exactly one block of any chain). Tie: chains repeating entries in the same block, "
         "later blocks, across blocks without rates, after execution and after each reject code, compared with the node on balances, status, holding and relation rows.",
         "section 6 C06", "'considered exactly once' for held batches is proved end to end: in every state a held height lies in the window of exactly one rated height (the first rated height above it), and over every chain with increasing heights exactly one block looks at the batches held at a height; a block that ends up unrated runs no holding pass. "),
 "C07": ("Coq theorems over all int64 amounts and uint64 rates: Convert = floor(in*src/dst) with min/max against averages from PIP-10, error exactly on zero rate/average or "
         "int64 overflow, value never increases; chain level: a batch with conversions is only put into holding by its own block and executed by the next block that has "
         "rates, at that block's rates: for every block without winners, whatever it contains, the status of every earlier batch is untouched (theorem over the whole block function); a block that records rates runs the holding pass with exactly the rate map it recorded for its own height and the averages of the last rated height before it, and in that pass an admitted held conversion is executed exactly (one debit, one credit of floor(in*src/dst), no other cell, status = executing height, recorded to_amount = the credit); model of SyncBlock tied to the real node on chains with graded / ungraded patterns, including unrated snapshot heights, and on seed-driven random chains; a daemon under API load against an unloaded one.",
         "section 6 C07", ""),
 "C08": ("Coq theorems: the entries of the transaction chain are processed to the end WHATEVER they contain (totality of apply_tx_block from the invariants hist_closed / "
         "bal_room, which every reachable state is proved to satisfy; exact residual failure codes with no hypothesis on the entries), the holding pass of a rated block cannot "
         "fail outside the PEG-bank era (and inside it without PEG requests); invalid / repeated / recorded entries and garbage blocks are skipped and change nothing; for every "
         "height of the live era (from 2.0.2 on, one-time adjustment heights included) the WHOLE block function returns Done under named hypotheses (oracles answer, well-formed "
         "winning records, fresh synthetic hashes, room below 2^63), with the chain-level corollary, and every excluded case is witnessed Stuck in the model. Partial: heights "
         "below 2.0.2 (closed eras) have no block-level totality theorem. Tie: adversarial chains (garbage on all three chains, truncated and length-compensated JSON, repeated hashes, 0..n ExtIDs) replayed by the real node; "
         "oracle: every block applies.", "section 6 C08", "Known finding: bank-era mixed batches wedge the block (closed era). "),
 "C09": ("Coq theorem over all chains with increasing heights and all sets of restart heights: dropping the in-memory cache anywhere never changes the replayed database; "
         "the averages a block uses are a function of the committed database alone. Tie: chain correspondence on chains with unrated blocks inside the averaging window, "
         "the real daemon restarted at every height of such a chain vs one continuous run, and a daemon serving API requests (some aborted by the client, blocks arriving one at a time) vs one serving none.", "section 6 C09", ""),
 "C10": ("Coq theorem over all chains and all fault sequences whose error propagates: the database reached is the fault-free replay; table obligation from the source: the "
         "sites where an error is discarded, only logged or replaced are exactly the reviewed ones. Tie: every operation of the one-time adjustment blocks and of blocks pricing held conversions with the averages fails once; every distinct SQL call site and factomd request of a chain fails "
         "once on the real daemon, which must then reach the fault-free ledger.", "section 6 C10",
         "Known finding (recorded): errors in and around NullifyBurnAddress are dropped (Refuted/C10.v). A failed COMMIT ends the process (log.Fatal): treated as crash + restart. "),
 "C11": ("Coq theorems for every verdict and every factoid block: the reward step credits each winner's Payout() in PEG at its payout address and changes no other cell; each "
         "valid burn credits exactly its input amount of pFCT to its input address; the grader version by height is the protocol's table for every configuration in mainnet "
         "order (ladders regenerated from the source); which SPR entries reach the staking grader (top-100 filter) and that blocks before 2.0 / SPR verdicts without winners pay no staking record. Tie: the real grader libraries' verdicts are inputs of the model; balances, coinbase and burn history, pn_winners and "
         "pn_grade compared with the node.", "section 6 C11",
         "The graders are oracles (assumed total). Proved about the filter in front of the staking grader: the entries handed to it are exactly those with two external ids whose declared staker id is among the at most 100 largest positive PEG balances of the committed database (top-100 characterised: positive balance, no duplicates, maximality), the paying verdict is the one for exactly those entries, the SPR chain plays no part before 2.0, and an SPR verdict without winners changes nothing in the block. The signature check itself is inside the grader (oracle); the staker id is not bound to the signing key (design section 6 C11). "),
 "C12": ("Coq theorems over all blocks: rates once recorded for a height never change, a block records rates for no other height than its own, and a block whose OPR (and from 2.0 SPR) verdict has no winners records no rates at all and changes the status of no earlier batch (executes no pending conversion); the tolerance band the code computes in binary64 is within 2^-50 (relative) of the stated percentage for every pair of uint64 quotes. Tie: chains playing every "
         "OPR/SPR combination (only OPR, only SPR, both in band, on the edge, outside) in the three band regimes with Coq's binary64 arithmetic, compared on pn_rate and "
         "batch status; oracle on the node's dumps: a rate row never changes or disappears.", "section 6 C12",
         "The binary64 band predicate is linked to the real-number rule by a proved sandwich for ALL uint64 quotes and the four tolerances: kept => |o-s| <= (T + 2^-50) s, and |o-s| <= (T - 2^-50) s => kept (Flocq over Coq's primitive floats; the 25 % band is the exact integer rule below 2^50); these two theorems depend on the standard library's real-number axioms (ClassicalDedekindReals.sig_not_dec, sig_forall_dec, functional_extensionality_dep, Classical_Prop.classic) and on the FloatAxioms / Uint63 specification axioms of the primitive types, all listed by Print Assumptions in the evidence; no other theorem does. eps cannot be 0 (1+0.001 rounds below 1001/1000: a quote exactly 0.1 % above was dropped in the closed 0.1 % era). Known finding in the design: the nil error returned on a band failure before 2.0.2 (closed era) is mirrored by the model. "),
 "C13": ("Coq theorems for every state, pair of assets, height and rate/average pattern: the decision rule for a conversion (insufficient funds, zero rate, one-way pFCT, one-way "
         "small assets / PEG, unconvertible, let through), PEG conversions refused from 2.0 on, a conversion that is let through and can be priced IS executed (applied, never rejected or a failed block) with exactly one debit and one credit of floor(in*src/dst) and no other balance touched, under the necessary and sufficient condition that the credited cell stays within int64; a refused one leaves every "
         "balance untouched; the one-way sets are regenerated from the source. Tie: a slice of all pairs x {act-1, act, act+1} on the real node; a chain where one asset loses its average while keeping its market rate.", "section 6 C13", ""),
 "C14": ("Coq theorems for all stake sets: the total paid never exceeds the cap, equals it to the last unit when the stakes reach it, below it everybody receives his stake; the "
         "stake depends on the two snapshots only through the per-asset minimum; an address absent from the previous snapshot has no stake; order independence; on the ledger, for every state: SnapshotPayouts rotates the snapshots (past := current, current := the balances of that moment), creates only PEG, by exactly the payouts of the sorted positive stakes, at most 4500 PEG x 144 and exactly that when the stakes reach it. Tie: "
         "ConversionSupplySet.Payouts differential and chains over three snapshot periods compared on balances, snapshots and staking rows.", "section 6 C14", ""),
 "C15": ("Coq theorems by computation over the tables regenerated from the source on every run: developer payouts total exactly 2000 PEG x 144 (2000 before 2.0.2), every amount "
         "is the binary64 product of its percentage, percentages sum to 100, cadence = activation and multiple of 144, the one-time adjustments have distinct heights none of "
         "which is a payout height, the minted supply is well-formed; and by induction, for every ledger state: a developer payout raises the PEG supply by exactly that table total and no other asset, the 2.0.4 mint raises every asset's supply by exactly its listed amount, all of it on the mint address. Tie: chains crossing the activations compared on balances and coinbase rows.", "section 6 C15",
         "Known findings in the design (zeroing rows refused / txid collision) are mirrored by the model. "),
 "C16": ("Coq theorems for all request sets: the PEG created from one bank never exceeds it and exhausts it when requests reach it, shares are floor(request*bank/total), yield "
         "plus refund never exceeds the input's value, order independence; on the ledger, for every state and every set of entries made of PEG requests: one bank pass raises the PEG supply by exactly the sum of the yields (<= bank, = bank when reached) and, from V4 on, the bank row keeps its amount and records used and requested. Tie: Payouts and Refund differentials; bank-era chains compared on balances, pn_bank rows, yields "
         "and refunds.", "section 6 C16", "Known finding: mixed bank-era batches (closed era). "),
 "C17": ("Coq theorems: a rejected batch gets exactly its negative code and moves no balance; effects only with a complete execution; whenever a batch is recorded its history rows carry the "
         "credited amounts, its status says the executing height and EVERY balance cell moves by exactly what those rows stand for (arrival path, holding path, and the coinbase-style "
         "writers: rewards, burns, developer and staking payouts); for EVERY chain without conversions into PEG and with distinct batch hashes, replaying the recorded history "
         "reproduces every balance outside the three special addresses (replay_accounts); paging by LIMIT/OFFSET over a fixed order "
         "returns every action exactly once; the history queries of the API layer are modelled (Model/Api.v: count query, data query with every filter, ORDER / LIMIT / OFFSET, the page walk, the status look-up) and proved: on well-formed history tables the reported count is the number of matching actions, the page walk returns each exactly once in order, a query by hash / address / height returns exactly the recorded actions of that entry / involving that address / entered at that height, descending order is the same set; a second batch row for one hash is shown to break paging (the schema allows it); the key and foreign-key facts these theorems need are proved invariants of every chain, the remaining one (one batch row per hash) is tested on the model's final state of every chain by a boolean function proved sound. Tie: the API server runs during the sync with clients polling get-transaction-status; the real SelectTransactionHistoryActionsBy{Hash,Address,Height} / SelectTransactionHistoryStatus of the node's final database walked page by page and compared with the query model evaluated on the MODEL's final state (about 150 walks per chain), whose history tables are also checked for well-formedness; history, lookup, status, holding and relation rows compared with the node; executable oracle 'replaying the recorded "
         "history reproduces every balance' on the node's dumps; the real API server (get-transactions by hash/address/height/txid with every filter and explicit offsets, "
         "get-transaction, get-transaction-status, get-pegnet-balances) walked page by page and compared with plain SELECTs over a read-only connection.", "section 6 C17",
         "The JSON-RPC handlers above the query functions (parameter decoding, nextoffset arithmetic in srv/) are exercised by the API walk, not modelled. "),
 "C18": ("Coq theorem: API requests, as transitions that read the committed database and may rebuild the average cache, interleaved anywhere with block application, never change "
         "the database computed; table obligations from the source: no statement reachable from a handler writes, all run on the pool, the shared fields (of node.Pegnetd, pegnet.BlockSync and pegnet.Pegnet) are the reviewed ones "
         "and every conflicting pair of accesses holds a common mutex or uses sync/atomic. Tie: the real API server hammered from 8 goroutines during sync; thorough: under the race detector.",
         "section 6 C18", "Partial: goroutine interleavings at memory-access granularity are not modelled; the race detector run is supporting evidence. "),
 "C19": ("Coq theorem over all fork tables and all session histories: the final start-up refuses iff a block at or above a fork height was synced by an untracked or too old "
         "build, or some block by a newer build (under stated hypotheses, each shown necessary by a refuted witness); model tied to the real CheckHardForks / InsertSynced on "
         "prepared sqlite databases (exhaustive small histories in the thorough tier).", "section 6 C19",
         "Known finding (recorded): an untracked build run after a tracked one leaves version gaps that are accepted. "),
 "C20": ("Coq theorems over all byte strings: an accepted batch is canonical (exactly the expected keys once each, known tickers, one of transfers/conversion, amounts within "
         "int64, one input address; tolerated variations listed), by the length-accounting argument; FactoidToFactoshi returns exactly the denoted number of base units or "
         "rejects, and accepts everything representable; decode(encode b) = Some b with the parser round trip parse(print v) = Some v (exactly characterised), encode injective, re-encoding of accepted content accepted and canonical; both models tied to the Go parsers by differential runs (structured + malformed streams; exhaustive short strings "
         "in the thorough tier).", "section 6 C20", "The round trip decode(encode b) = Some b is proved (Props/C20roundtrip.v, parser round trip included) for valid batches whose fields have their Go types; the address text codec (base58) is an oracle with an inverse hypothesis. "),
}


def main():
    props = [json.loads(l) for l in open(os.path.join(VERIF, "properties.jsonl"))]
    checks, na = [], []
    for p in props:
        pid = p["id"]
        if pid in CLAIMS:
            text, ref, extra = CLAIMS[pid]
            checks.append({
                "property_id": pid, "quick_cmd": "bin/check %s quick" % pid, "thorough_cmd": "bin/check %s thorough" % pid,
                "evidence_file": "evidence/%s.json" % pid, "replay_cmd_template": "bin/check %s quick --replay {path}" % pid,
                "engine": "coq-model",
                "level_claimed": {"category": "proof", "text": text, "design_ref": "DESIGN.md " + ref},
                "level_note": TB + extra, "technique": TECH})
        else:
            na.append({"property_id": pid, "reason": "check under construction in this session; not yet registered (the technique does apply, see DESIGN.md section 6)"})
    m = {
        "version": 1, "setup_cmd": "bin/setup",
        "hooks": {"guard": "verif",
                  "enable": "go build -tags verif (no hook file exists in /repo: the harness uses exported API only, a wrapping database/sql driver and a fake factomd)",
                  "baseline_off_cmd": "cd /repo && go test -mod=mod -vet=off -count=1 -timeout 25m ./...",
                  "source_commits": [], "add_only": True},
        "engines": [{"name": "coq-model", "path": "coq/", "serves_properties": sorted(CLAIMS),
                     "kind_free_text": "Coq 8.16.1 development: hand-written executable Gallina model of pegnetd (coq/Model), tables regenerated from /repo on every run "
                                       "(gen/ -> coq/Gen), theorems in coq/Props (proofs in coq/Lemmas), correspondence with the real Go code through gen/* and harness/* "
                                       "evaluated by vm_compute (coq/Corr)"}],
        "checks": checks,
        "notes": "All checks go through bin/check <ID> <tier>; see DESIGN.md. known_findings.jsonl lists recorded and fixed defects.",
        "not_applicable": na}
    json.dump(m, open(os.path.join(VERIF, "MANIFEST.json"), "w"), indent=1)
    print("claimed:", sorted(CLAIMS))


if __name__ == "__main__":
    main()
