#!/usr/bin/env python3
# Regenerates /verif/MANIFEST.json from the table below (run after adding a check).
import json
import os

VERIF = os.path.dirname(os.path.dirname(os.path.abspath(__file__)))
TECH = "machine-checked proof in Coq + model/implementation correspondence"
TB = ("Trusted: Coq 8.16.1 kernel (vm_compute; coqchk in the thorough tier); no axioms declared (Print Assumptions output recorded per run; "
      "primitive Uint63/Float64 operations are kernel primitives); the translators gen/* ; the hand-written Gallina model, tied to the Go code by "
      "the generated tables and by the correspondence runs only as far as the generators reach; SQLite, database/sql, encoding/json, math/big, "
      "the grader / LXR / factom libraries and the cryptography are oracles. ")

CLAIMS = {
 "C03": ("Coq theorems over all chains (induction over the block list, unbounded Z with the code's uint64/int64 checks): no reachable balance is "
         "negative (proved from the code's own checks, not from the CHECK constraint), a batch is applied completely or leaves every balance untouched, "
         "every debit is covered at the moment it is made; the model of SyncBlock is tied to the real node by replaying generated chains of every era "
         "through the unmodified daemon and comparing balances and batch status block by block; property oracle (no negative cell) on the node's dumps.",
         "section 6 C03", ""),
 "C05": ("Coq theorems over all byte strings / entries with signature verification as a Section oracle: an accepted entry carries exactly one RCD whose "
         "hash is the input address, of a type enabled at that height, a signature verified over exactly salt||chain||content (message composition "
         "injective), salt within +-12h; every structural failure class is rejected; for RCD-1 one verified triple determines the entry. Model tied to "
         "fat2.NewTransactionBatch by differential runs on real signed entries and their mutations (every single-bit flip in the thorough tier).",
         "section 6 C05", "Known finding (recorded, not repaired): RCD-e signatures are malleable in byte 64 (Refuted/C05.v). "),
 "C07": ("Coq theorems over all int64 amounts and uint64 rates: Convert = floor(in*src/dst) with min/max against averages from PIP-10, error exactly "
         "on zero rate/average or int64 overflow, value never increases; chain level: a batch with conversions is only put into holding by its own block "
         "and executed by the next block that has rates, at that block's rates (model of SyncBlock tied to the real node on chains with graded / ungraded patterns).",
         "section 6 C07", ""),
 "C19": ("Coq theorem over all fork tables and all session histories: the final start-up refuses iff a block at or above a fork height was synced by "
         "an untracked or too old build, or some block by a newer build (under stated hypotheses, each shown necessary by a refuted witness); model tied "
         "to the real CheckHardForks / InsertSynced on prepared sqlite databases (exhaustive small histories in the thorough tier).",
         "section 6 C19", "Known finding (recorded): an untracked build run after a tracked one leaves version gaps that are accepted. "),
 "C20": ("Coq theorems over all byte strings: an accepted batch is canonical (exactly the expected keys once each, known tickers, one of "
         "transfers/conversion, amounts within int64, one input address; tolerated variations listed), by the length-accounting argument; "
         "FactoidToFactoshi returns exactly the denoted number of base units or rejects, and accepts everything representable; both models tied to the "
         "Go parsers by differential runs (structured + malformed streams; exhaustive short strings in the thorough tier).",
         "section 6 C20", "encode/decode round trip is checked by correspondence only (parser round-trip lemma not proved). "),
}


def main():
    props = [json.loads(l) for l in open(os.path.join(VERIF, "properties.jsonl"))]
    checks, na = [], []
    for p in props:
        pid = p["id"]
        if pid in CLAIMS:
            text, ref, extra = CLAIMS[pid]
            checks.append({
                "property_id": pid, "quick_cmd": "bin/check %s quick" % pid, "thorough_cmd": "bin/check %s thorough" % pid,
                "evidence_file": "evidence/%s.json" % pid, "replay_cmd_template": "bin/check %s quick --replay {path}" % pid,
                "engine": "coq-model",
                "level_claimed": {"category": "proof", "text": text, "design_ref": "DESIGN.md " + ref},
                "level_note": TB + extra, "technique": TECH})
        else:
            na.append({"property_id": pid, "reason": "check under construction in this session; not yet registered (the technique does apply, see DESIGN.md section 6)"})
    m = {
        "version": 1, "setup_cmd": "bin/setup",
        "hooks": {"guard": "verif",
                  "enable": "go build -tags verif (no hook file exists in /repo: the harness uses exported API only, a wrapping database/sql driver and a fake factomd)",
                  "baseline_off_cmd": "cd /repo && go test -mod=mod -vet=off -count=1 -timeout 25m ./...",
                  "source_commits": [], "add_only": True},
        "engines": [{"name": "coq-model", "path": "coq/", "serves_properties": sorted(CLAIMS),
                     "kind_free_text": "Coq 8.16.1 development: hand-written executable Gallina model of pegnetd (coq/Model), tables regenerated from /repo on every run "
                                       "(gen/ -> coq/Gen), theorems in coq/Props (proofs in coq/Lemmas), correspondence with the real Go code through gen/* and harness/* "
                                       "evaluated by vm_compute (coq/Corr)"}],
        "checks": checks,
        "notes": "All checks go through bin/check <ID> <tier>; see DESIGN.md. known_findings.jsonl lists recorded and fixed defects.",
        "not_applicable": na}
    json.dump(m, open(os.path.join(VERIF, "MANIFEST.json"), "w"), indent=1)
    print("claimed:", sorted(CLAIMS))


if __name__ == "__main__":
    main()
