#!/bin/bash
# bin/seeded_import.sh /tmp/mut_Cxx <name>: keep a confirmed seeded change under /verif/seeded/<name>/
set -e
src=$1; name=$2; dst=/verif/seeded/$name
mkdir -p $dst
cp $src/MUTANT/patch.diff $dst/patch.diff
cp $src/MUTANT/meta.json $dst/meta.json
rm -rf $dst/demo; cp -r $src/MUTANT/demo $dst/demo
echo imported $dst
