# C10 — Fault transparency: transient upstream/storage errors never change the result.
from . import runprop

KNOWN_SITE = "NullifyBurnAddress"   # known_findings.jsonl: C10-nullify-burn-errors-dropped


def fault(ctx, scenarios, points, pairs, blocks=None):
    found = False
    for sc in scenarios:
        args = ["-kind", "both", "-points", str(points), "-pairs", str(pairs), "-prefix", "snapshot"]
        if blocks:
            args += ["-blocks", blocks]
        recs, summary = runprop.run(ctx, "fault", "scen:" + sc, ctx.seed, args, timeout=2400)
        ctx.coverage.setdefault("distribution", {}).setdefault("fault_runs", []).append(dict(summary, scenario=sc))
        n = int(summary.get("faults_run", 0))
        ctx.coverage["evaluations"] = ctx.coverage.get("evaluations", 0) + n
        ctx.coverage["distinct_nontrivial"] = ctx.coverage.get("distinct_nontrivial", 0) + n
        ctx.coverage["traces_validated_against_impl"] = ctx.coverage.get("traces_validated_against_impl", 0) + n
        fs = [r for r in recs if r.get("cmd") == "fault" and "point" in r]
        ctx.coverage["samples"] = ctx.coverage.get("samples", []) + [
            {"fault": r.get("point") or r.get("point_rpc"), "propagated": r.get("propagated"), "swallowed": r.get("swallowed"), "final_equal": r.get("final_equal")} for r in fs[:3]]
        for r in [r for r in fs if r.get("violation")]:
            pt, prpc = r.get("point") or {}, r.get("point_rpc") or (r.get("point") if (r.get("point") or {}).get("class") == "rpc" else {}) or {}
            site = str((r.get("fired") or {}).get("site", "")) + " " + (str(pt.get("site", "")) if pt.get("class") != "rpc" else "")
            rpc = r.get("fired_rpc") or {}
            where = site.strip() or ("the %s request #%s of block %s" % (rpc.get("method"), rpc.get("index"), rpc.get("block")))
            # known finding: everything inside / around NullifyBurnAddress, whose result DBlockSync discards. Its own
            # dblock-by-height request is request #0 of the two such requests an activation-height block issues.
            sql_known = (KNOWN_SITE in site) if site.strip() else True
            rpc_known = (not rpc) or (rpc.get("method") == "dblock-by-height" and rpc.get("index") == 0 and "of 2" in str(prpc.get("site", "")))
            known = bool(r.get("swallowed")) and sql_known and rpc_known and (bool(site.strip()) or bool(rpc))
            ctx.add_violation("an injected fault at %s (scenario %s seed %d, block %s) was swallowed: the block committed and the final ledger differs from the fault-free run: %s"
                              % (where, sc, ctx.seed, (pt or rpc).get("block"), str(r.get("diff", {}).get("only_ref", ""))[:300]),
                              {"kind": "fault", "scenario": sc, "seed": ctx.seed, "record": r,
                               "replay_cmd": "harness: runprop fault -work <dir> -scenario scen:%s -seed %d -kind %s -blocks %s -points all" % (sc, ctx.seed, r.get("kind"), (pt or rpc).get("block"))},
                              name="fault", signature="C10-nullify-burn-errors-dropped" if known else None)
            found = found or not known
    return found


def run(ctx):
    ctx.coverage["rule"] = ("single injected faults on the real daemon: one failed SQL statement (every distinct call site first) or one failed factomd request (stratified by "
                            "method and per-block request count) of a scenario chain, plus pairs; the daemon then runs on and must reach the fault-free ledger; "
                            "each fault is a distinct non-trivial case")
    ctx.proof_stage(extra_targets=["Lemmas/SyncLemmas.vo", "Lemmas/SitesC10.vo", "Refuted/C10.vo"])
    fault(ctx, ["corners"] if ctx.tier == "quick" else ["corners", "eras", "staking"], 70 if ctx.tier == "quick" else 500, 4 if ctx.tier == "quick" else 40)
    # the one-time adjustment heights (mint at 432, burn of the mint at 433) and blocks that price held conversions
    # with the averages (PIP-10): every operation of those blocks fails once
    fault(ctx, ["align"], "all", 0, blocks="432,433")
    fault(ctx, ["gaps"], "all", 0, blocks="117,121")


def search(ctx, why):
    return fault(ctx, ["corners", "eras"], 200, 10)
