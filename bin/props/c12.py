# C12 — Recorded rates follow the winning records and are immutable.
from . import ledger


def oracle(ctx, res):
    found = False
    for r in res:
        if "error" not in r and not r.get("cr_rates_immutable", True):
            ctx.add_violation("a pn_rate row recorded by the node changed or disappeared in a later dump (scenario %s seed %d)" % (r["scenario"], r["seed"]),
                              {"kind": "chain", "scenario": r["scenario"], "seed": r["seed"], "oracle": "Corr.Chain.impl_rates_immutable"}, name="rates-changed")
            found = True
    return found


def run(ctx):
    ctx.coverage["rule"] = ledger.rule("C12")
    ctx.proof_stage()
    oracle(ctx, ledger.run(ctx))


def search(ctx, why):
    return oracle(ctx, ledger.run(ctx, extra=("gaps",)))
