# C11 — Grading rewards and FCT burns are issued exactly as decided, once
from . import ledger


def run(ctx):
    ctx.coverage["rule"] = ledger.rule("C11")
    ctx.proof_stage()
    ledger.run(ctx)


def search(ctx, why):
    ledger.run(ctx, extra=("rates", "staking"))
    return any(f for _, _, f in ctx.violations)
