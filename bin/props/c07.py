# C07 — Conversions execute later, at the next graded block's rates, exactly.
from . import pure


def run_convert(ctx):
    n = 3000 if ctx.tier == "quick" else 40000
    lines = list(dict.fromkeys(pure.go_cases(ctx, "convert", ctx.seed, n)))
    res = pure.coq_check(ctx, "convert", "convert_case", lines, ["convert_agrees"])
    ok = sum(1 for l in lines if "Some" in l)
    ctx.coverage["evaluations"] = ctx.coverage.get("evaluations", 0) + len(lines)
    ctx.coverage["distinct_nontrivial"] = ctx.coverage.get("distinct_nontrivial", 0) + ok
    ctx.coverage.setdefault("distribution", {})["convert"] = {
        "cases": len(lines), "go_returned_value": ok, "go_returned_error": len(lines) - ok,
        "pip10_active": sum(1 for l in lines if l.startswith("(true"))}
    ctx.coverage["samples"] = ctx.coverage.get("samples", []) + [
        {"convert(pip10, amount, fromRate, fromAvg, toRate, toAvg, go_result)": l} for l in lines[:4]]
    ctx.coverage["traces_validated_against_impl"] = ctx.coverage.get("traces_validated_against_impl", 0) + len(lines)
    for i in res["convert_agrees"][:3]:
        # the model IS the property's formula (C07_convert_exact): a disagreement is a wrong amount
        ctx.add_violation("conversions.Convert disagrees with floor(amount*src/dst) (min/max with averages from PIP-10): %s" % lines[i],
                          {"kind": "convert", "case(pip10,amount,fromRate,fromAvg,toRate,toAvg,go_result)": lines[i],
                           "replay_cmd": "call conversions.Convert with these arguments at height PIP10AverageActivation(-1)"},
                          name="convert")


def run(ctx):
    ctx.coverage["rule"] = ("Convert: seed-derived boundary vectors (0,1,2^32,2^63-1,2^63,2^64-1 +-2, random shifts, products straddling 2^63) "
                            "on both sides of the PIP-10 activation; non-trivial = Go returned a value (not an error); chains: see distribution.chains")
    ctx.proof_stage()
    run_convert(ctx)
    from . import ledger, c18
    ledger.run(ctx)
    # pricing must not depend on what the API served in between: a daemon under API load (rich lists ask for the
    # averages of the height the next block will price with) against one serving nothing
    c18.apiload(ctx, ["gaps"], 8, False, status=False, runs=1)


def search(ctx, why):
    run_convert(ctx)
    return bool(ctx.violations)
