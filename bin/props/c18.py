# C18 — API isolation: reads cannot disturb sync and see only committed blocks.
import os

from . import runprop


def apiload(ctx, scenarios, workers, race, status=True, runs=2):
    found = False
    for sc in scenarios:
        args = ["-workers", str(workers), "-runs", str(runs)]
        if race:
            args += ["-racebin", runprop.binary(ctx, race=True)]
        recs, summary = runprop.run(ctx, "apiload", "scen:" + sc, ctx.seed, args, timeout=2400)
        ctx.coverage.setdefault("distribution", {}).setdefault("apiload_runs", []).append(dict(summary, scenario=sc))
        for r in [r for r in recs if r.get("cmd") == "apiload" and "run" in r]:
            api = r.get("api", {})
            calls = sum(api.get("calls", {}).values()) if isinstance(api.get("calls"), dict) else 0
            ctx.coverage["evaluations"] = ctx.coverage.get("evaluations", 0) + calls
            ctx.coverage["distinct_nontrivial"] = ctx.coverage.get("distinct_nontrivial", 0) + len(api.get("calls", {}) or {})
            ctx.coverage["traces_validated_against_impl"] = ctx.coverage.get("traces_validated_against_impl", 0) + 1
            ctx.coverage["samples"] = ctx.coverage.get("samples", []) + [{"run": r.get("run"), "workers": r.get("workers"), "calls": api.get("calls"),
                                                                             "sync_status_calls": api.get("sync_status_calls"), "uncommitted": api.get("sync_status_uncommitted"),
                                                                             "final_equal": r.get("final_equal"), "race_reports": r.get("race_reports")}][:1]
            rep = {"kind": "apiload", "scenario": sc, "seed": ctx.seed, "record": dict((k, v) for k, v in r.items() if k not in ("log",)),
                   "replay_cmd": "harness: runprop apiload -work <dir> -scenario scen:%s -seed %d -workers %d" % (sc, ctx.seed, workers)}
            if r.get("crashed"):
                ctx.add_violation("the daemon died under API load (scenario %s): %s" % (sc, r.get("fatal")), rep, name="api-crash")
                found = True
            elif r.get("run") != "ref" and r.get("final_equal") is False:
                ctx.add_violation("API load changed the ledger the daemon computed (scenario %s seed %d): %s" % (sc, ctx.seed, str(r.get("diff", {}).get("only_got", ""))[:300]), rep, name="api-ledger")
                found = True
            if status and api.get("sync_status_uncommitted"):
                ctx.add_violation("get-sync-status reported a height whose block was not committed (%s of %s responses, scenario %s)"
                                  % (api.get("sync_status_uncommitted"), api.get("sync_status_calls"), sc), rep, name="api-uncommitted")
                found = True
            if r.get("race_build") and r.get("race_reports"):
                ctx.add_violation("the race detector reports %s data races between API handlers and the sync routine (scenario %s)" % (r.get("race_reports"), sc), rep, name="api-race")
                found = True
    return found


def run(ctx):
    ctx.coverage["rule"] = ("the real API server started in-process; W goroutines POST every read method (rich lists preferred by two of them, get-sync-status polled by one) while "
                            "the real DBlockSync replays a scenario chain; compared: the final ledger with an unloaded run, every get-sync-status answer with the committed height; "
                            "thorough: the same under the Go race detector; evaluations = API calls, non-trivial = distinct methods exercised")
    ctx.proof_stage(extra_targets=["Lemmas/SyncLemmas.vo", "Lemmas/SitesC18.vo"])
    apiload(ctx, ["gaps"] if ctx.tier == "quick" else ["gaps", "eras"], 8, ctx.tier == "thorough")


def search(ctx, why):
    return apiload(ctx, ["gaps", "eras"], 8, False)
