# cases.v correspondences of the pure arithmetic: ConversionSupplySet.Payouts / TotalRequested, Refund
from . import pure


def run_payouts(ctx, n_quick=400, n_thorough=6000):
    n = n_quick if ctx.tier == "quick" else n_thorough
    lines = list(dict.fromkeys(pure.go_cases(ctx, "payouts", ctx.seed, n)))
    res = pure.coq_check(ctx, "payouts", "payouts_case", lines, ["payouts_agrees"], shard=300)
    ctx.coverage["evaluations"] = ctx.coverage.get("evaluations", 0) + len(lines)
    ctx.coverage["distinct_nontrivial"] = ctx.coverage.get("distinct_nontrivial", 0) + sum(1 for l in lines if l.count("((") > 2)
    ctx.coverage.setdefault("distribution", {})["payouts"] = {"cases": len(lines), "with_three_or_more_requests": sum(1 for l in lines if l.count("((") > 2)}
    ctx.coverage["samples"] = ctx.coverage.get("samples", []) + [{"payouts(bank, requests, go_payouts_sorted_by_txid, go_total_requested)": l[:400]} for l in lines[:2]]
    ctx.coverage["traces_validated_against_impl"] = ctx.coverage.get("traces_validated_against_impl", 0) + len(lines)
    for i in res["payouts_agrees"][:3]:
        ctx.add_violation("conversions.ConversionSupplySet.Payouts disagrees with the proportional-with-dust payout of the model on %s" % lines[i][:600],
                          {"kind": "payouts", "case(bank,requests,go_payouts,go_total)": lines[i], "replay_cmd": "gen/pure payouts <seed> <n>"}, name="payouts")
    return bool(res["payouts_agrees"])


def run_refund(ctx, n_quick=1500, n_thorough=20000):
    n = n_quick if ctx.tier == "quick" else n_thorough
    lines = list(dict.fromkeys(pure.go_cases(ctx, "refund", ctx.seed, n)))
    res = pure.coq_check(ctx, "refund", "refund_case", lines, ["refund_agrees"])
    ctx.coverage["evaluations"] = ctx.coverage.get("evaluations", 0) + len(lines)
    ctx.coverage["distinct_nontrivial"] = ctx.coverage.get("distinct_nontrivial", 0) + sum(1 for l in lines if not l.rstrip(")").endswith(" 0"))
    ctx.coverage.setdefault("distribution", {})["refund"] = {"cases": len(lines)}
    ctx.coverage["traces_validated_against_impl"] = ctx.coverage.get("traces_validated_against_impl", 0) + len(lines)
    for i in res["refund_agrees"][:3]:
        ctx.add_violation("conversions.Refund disagrees with the model on %s" % lines[i][:400],
                          {"kind": "refund", "case(pip10,input,yield,inputRate,pegRate,go_refund)": lines[i]}, name="refund")
    return bool(res["refund_agrees"])
