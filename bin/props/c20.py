# C20 — Canonical encoding and exact amounts at the edges.
from . import pure


def decode(line):
    import re
    m = re.match(r"\(\[([0-9;]*)\], (.*)\)$", line)
    s = "".join(chr(int(x)) for x in m.group(1).split(";") if x)
    return {"amount_string": s, "go_result": m.group(2)}


def run_decimal(ctx):
    n = 1500 if ctx.tier == "quick" else 20000
    lines = pure.go_cases(ctx, "factoshi", ctx.seed, n)
    if ctx.tier == "thorough":
        lines += pure.go_cases(ctx, "factoshi-exh", ctx.seed, 6)
    lines = list(dict.fromkeys(lines))
    res = pure.coq_check(ctx, "factoshi", "factoshi_case", lines, ["factoshi_agrees", "factoshi_exact_on"])
    accepted = sum(1 for l in lines if not l.endswith("None)"))
    ctx.coverage["evaluations"] = ctx.coverage.get("evaluations", 0) + len(lines)
    ctx.coverage["distinct_nontrivial"] = ctx.coverage.get("distinct_nontrivial", 0) + accepted
    ctx.coverage.setdefault("distribution", {})["decimal"] = {
        "strings": len(lines), "accepted_by_go": accepted, "rejected_by_go": len(lines) - accepted,
        "longer_than_19_chars": sum(1 for l in lines if l.count(";") >= 19)}
    ctx.coverage["samples"] = ctx.coverage.get("samples", []) + [decode(l) for l in lines[:3] + lines[41:44]]
    # the property's own oracle on the implementation's outputs
    for i in res["factoshi_exact_on"][:5]:
        d = decode(lines[i])
        ctx.add_violation("FactoidToFactoshi(%r) returned %s, which is not the exact value of the string"
                          % (d["amount_string"], d["go_result"]),
                          {"kind": "decimal", "input": d, "replay_cmd": "gen/pure factoshi (call cmd.FactoidToFactoshi on the string)"},
                          name="decimal")
    if res["factoshi_agrees"] and not res["factoshi_exact_on"]:
        d = decode(lines[res["factoshi_agrees"][0]])
        ctx.add_violation("correspondence Model.Decimal.factoid_to_factoshi vs cmd.FactoidToFactoshi no longer checks "
                          "(first disagreement on %r -> %s); the exactness oracle found no altered amount among %d strings"
                          % (d["amount_string"], d["go_result"], len(lines)),
                          {"kind": "correspondence", "correspondence": "Corr.Pure.factoshi_agrees", "first_disagreement": d},
                          name="decimal-corr", found_input=False)
    ctx.coverage["traces_validated_against_impl"] = ctx.coverage.get("traces_validated_against_impl", 0) + len(lines)


def run(ctx):
    ctx.coverage["rule"] = ("decimal strings: fixed edge list + seed-derived random strings over digits and dots (one third "
                            "well-formed) [+ all strings over {0,1,9,.,x} up to length 6 in the thorough tier]; non-trivial = accepted by the Go parser; "
                            "batch JSON: see distribution.json")
    ctx.proof_stage()
    run_decimal(ctx)
    import importlib
    try:
        jm = importlib.import_module("props.c20_json")
    except ImportError:
        jm = None
    if jm:
        jm.run_json(ctx)


def search(ctx, why):
    # a broken proof obligation: look for an altered amount in the implementation
    run_decimal(ctx)
    return bool(ctx.violations)
