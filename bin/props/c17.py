# C17 — History and status tell the truth about the ledger.
from . import ledger


def oracle(ctx, res):
    found = False
    for r in res:
        if "error" not in r and not r.get("cr_history_replays", True):
            ctx.add_violation("replaying the history the node recorded does not reproduce its balances (scenario %s seed %d)" % (r["scenario"], r["seed"]),
                              {"kind": "chain", "scenario": r["scenario"], "seed": r["seed"], "oracle": "Corr.Chain.impl_history_replays on the last dump",
                               "replay_cmd": "harness: chainrun -scenario %s -seed %d" % (r["scenario"], r["seed"])}, name="history-replay")
            found = True
    return found


def run(ctx):
    ctx.coverage["rule"] = ledger.rule("C17") + "; plus the oracle 'replaying the recorded history reproduces every balance' evaluated on the node's final dump of every chain"
    ctx.proof_stage()
    oracle(ctx, ledger.run(ctx))


def search(ctx, why):
    return oracle(ctx, ledger.run(ctx, extra=("bank", "staking")))
