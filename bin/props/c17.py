# C17 — History and status tell the truth about the ledger.
from . import ledger, runprop
import vlib

# API side: runprop history syncs a scenario with the real node, starts the real API server and
# walks get-transactions (by hash, address, height, txid; every filter; explicit offsets),
# get-transaction, get-transaction-status and get-pegnet-balances, comparing with what plain
# SELECTs on a read-only connection say the tables hold.
API_QUICK = ("eras", "dups")
API_MORE = ("staking", "bank", "corners")


def api(ctx, scenarios):
    found = False
    cov = ctx.coverage.setdefault("correspondence", {}).setdefault("api history/status/balances vs the tables", {})
    for sc in scenarios:
        try:
            recs, summary = runprop.run(ctx, "history", "scen:" + sc, ctx.seed, [])
        except vlib.TieBroken as e:
            ctx.add_violation("the API history driver could not run on scenario %s: %s" % (sc, str(e)[:500]),
                              {"kind": "api-history", "scenario": sc, "seed": ctx.seed, "error": str(e)[:2000]},
                              name="api-history-broken", found_input=False)
            found = True
            continue
        cov[sc] = dict((k, v) for k, v in summary.items() if not isinstance(v, (list,)))
        ctx.coverage["evaluations"] = ctx.coverage.get("evaluations", 0) + int(summary.get("queries", 0) or 0)
        ctx.coverage["traces_validated_against_impl"] = ctx.coverage.get("traces_validated_against_impl", 0) + 1
        by = {}
        for r in recs:
            if r.get("cmd") != "history" or "what" not in r:
                continue
            by.setdefault((r.get("kind"), r.get("what"), r.get("method")), []).append(r)
        for (kind, what, method), rs in sorted(by.items(), key=lambda kv: str(kv[0])):
            r = rs[0]
            ctx.add_violation("API %s: %s on %s (scenario %s seed %d): key %s filters %s expected %s got %s — %s (%d such answers)"
                              % (kind, what, method, sc, ctx.seed, r.get("key"), r.get("filters"), r.get("expected"), r.get("got"),
                                 str(r.get("detail"))[:300], len(rs)),
                              {"kind": "api-history", "scenario": sc, "seed": ctx.seed, "first": r, "count": len(rs),
                               "replay_cmd": "harness: go run -tags verif ./cmd/runprop history -work <dir> -scenario scen:%s -seed %d" % (sc, ctx.seed)},
                              name="api-%s-%s" % (kind, what))
            found = True
    return found


def oracle(ctx, res):
    found = False
    for r in res:
        if "error" not in r and not r.get("cr_history_replays", True):
            ctx.add_violation("replaying the history the node recorded does not reproduce its balances (scenario %s seed %d)" % (r["scenario"], r["seed"]),
                              {"kind": "chain", "scenario": r["scenario"], "seed": r["seed"], "oracle": "Corr.Chain.impl_history_replays on the last dump",
                               "replay_cmd": "harness: chainrun -scenario %s -seed %d" % (r["scenario"], r["seed"])}, name="history-replay")
            found = True
    return found


def run(ctx):
    ctx.coverage["rule"] = ledger.rule("C17") + "; plus the oracle 'replaying the recorded history reproduces every balance' evaluated on the node's final dump of every chain"
    ctx.proof_stage()
    oracle(ctx, ledger.run(ctx))
    api(ctx, API_QUICK + (API_MORE if ctx.tier == "thorough" else ()))


def search(ctx, why):
    a = oracle(ctx, ledger.run(ctx, extra=("bank", "staking")))
    b = api(ctx, API_QUICK + API_MORE)
    return a or b
