# C17 — History and status tell the truth about the ledger.
from . import ledger, runprop
import vlib

# API side: runprop history syncs a scenario with the real node, starts the real API server and
# walks get-transactions (by hash, address, height, txid; every filter; explicit offsets),
# get-transaction, get-transaction-status and get-pegnet-balances, comparing with what plain
# SELECTs on a read-only connection say the tables hold.
API_QUICK = ("eras", "dups")
API_MORE = ("staking", "bank", "corners")


def api(ctx, scenarios):
    found = False
    cov = ctx.coverage.setdefault("correspondence", {}).setdefault("api history/status/balances vs the tables", {})
    for sc in scenarios:
        try:
            recs, summary = runprop.run(ctx, "history", "scen:" + sc, ctx.seed, [])
        except vlib.TieBroken as e:
            ctx.add_violation("the API history driver could not run on scenario %s: %s" % (sc, str(e)[:500]),
                              {"kind": "api-history", "scenario": sc, "seed": ctx.seed, "error": str(e)[:2000]},
                              name="api-history-broken", found_input=False)
            found = True
            continue
        cov[sc] = dict((k, v) for k, v in summary.items() if not isinstance(v, (list,)))
        ctx.coverage["evaluations"] = ctx.coverage.get("evaluations", 0) + int(summary.get("queries", 0) or 0)
        ctx.coverage["traces_validated_against_impl"] = ctx.coverage.get("traces_validated_against_impl", 0) + 1
        by = {}
        for r in recs:
            if r.get("cmd") != "history" or "what" not in r:
                continue
            by.setdefault((r.get("kind"), r.get("what"), r.get("method")), []).append(r)
        for (kind, what, method), rs in sorted(by.items(), key=lambda kv: str(kv[0])):
            r = rs[0]
            ctx.add_violation("API %s: %s on %s (scenario %s seed %d): key %s filters %s expected %s got %s — %s (%d such answers)"
                              % (kind, what, method, sc, ctx.seed, r.get("key"), r.get("filters"), r.get("expected"), r.get("got"),
                                 str(r.get("detail"))[:300], len(rs)),
                              {"kind": "api-history", "scenario": sc, "seed": ctx.seed, "first": r, "count": len(rs),
                               "replay_cmd": "harness: go run -tags verif ./cmd/runprop history -work <dir> -scenario scen:%s -seed %d" % (sc, ctx.seed)},
                              name="api-%s-%s" % (kind, what))
            found = True
    return found


def api_model(ctx, res):
    """The history queries of the real API layer on the node's final database against Model/Api.v evaluated on the MODEL's
    final state (Corr/Api.v): same count, same actions batch by batch in history_id order over all pages, same status."""
    found = False
    cov = ctx.coverage.setdefault("correspondence", {}).setdefault("api history queries vs Model/Api.v on the model's state", {"chains": 0, "cases": 0, "chains_where_the_model_did_not_finish": 0, "per_chain": []})
    for r in res:
        a = r.get("api")
        if "error" in r or not a:
            continue
        cov["chains"] += 1
        cov["cases"] += a.get("cases", 0)
        cov["per_chain"].append({"scenario": r["scenario"], "seed": r["seed"], "cases": a.get("cases", 0),
                                 "node_side": r.get("stats", {}).get("api_history_queries"),
                                 "history_tables_well_formed": a.get("history_tables_well_formed")})
        ctx.coverage["evaluations"] = ctx.coverage.get("evaluations", 0) + a.get("cases", 0)
        if not a.get("model_ran"):
            cov["chains_where_the_model_did_not_finish"] += 1
            continue
        if a.get("unparsed"):
            ctx.add_violation("the API/model comparison of scenario %s seed %d could not be read back (%s)" % (r["scenario"], r["seed"], a["unparsed"]),
                              {"kind": "api-model", "scenario": r["scenario"], "seed": r["seed"]}, name="api-model-broken", found_input=False)
            found = True
            continue
        if a["disagreeing_queries"] or a["disagreeing_status"]:
            ctx.add_violation("history queries: the node's answers differ from the verified query model on the model's own state (scenario %s seed %d): "
                              "%d of the get-transactions walks (first: %s) and %d of the status look-ups disagree"
                              % (r["scenario"], r["seed"], len(a["disagreeing_queries"]), str(a.get("first_disagreeing_case"))[:600], len(a["disagreeing_status"])),
                              {"kind": "api-model", "scenario": r["scenario"], "seed": r["seed"], "api": a,
                               "replay_cmd": "harness: chainrun -scenario %s -seed %d ; coqc the file with Corr.Api.api_check" % (r["scenario"], r["seed"])},
                              name="api-model")
            found = True
    return found


def oracle(ctx, res):
    found = api_model(ctx, res)
    for r in res:
        if "error" not in r and not r.get("cr_history_replays", True):
            ctx.add_violation("replaying the history the node recorded does not reproduce its balances (scenario %s seed %d)" % (r["scenario"], r["seed"]),
                              {"kind": "chain", "scenario": r["scenario"], "seed": r["seed"], "oracle": "Corr.Chain.impl_history_replays on the last dump",
                               "replay_cmd": "harness: chainrun -scenario %s -seed %d" % (r["scenario"], r["seed"])}, name="history-replay")
            found = True
    return found


def run(ctx):
    ctx.coverage["rule"] = ledger.rule("C17") + "; plus the oracle 'replaying the recorded history reproduces every balance' evaluated on the node's final dump of every chain"
    ctx.proof_stage()
    oracle(ctx, ledger.run(ctx))
    api(ctx, API_QUICK + (API_MORE if ctx.tier == "thorough" else ()))


def search(ctx, why):
    a = oracle(ctx, ledger.run(ctx, extra=("bank", "staking")))
    b = api(ctx, API_QUICK + API_MORE)
    return a or b
