# C03 — No overdraft; batches are all-or-nothing.
from . import ledger


def oracle(ctx, res):
    found = False
    for r in res:
        if "error" not in r and not r.get("cr_nonneg", True):
            ctx.add_violation("the node's database holds a negative balance cell after scenario %s seed %d" % (r["scenario"], r["seed"]),
                              {"kind": "chain", "scenario": r["scenario"], "seed": r["seed"], "oracle": "Corr.Chain.impl_nonneg"},
                              name="negative-cell")
            found = True
    return found


def run(ctx):
    ctx.coverage["rule"] = ledger.rule("C03")
    ctx.proof_stage()
    oracle(ctx, ledger.run(ctx))


def search(ctx, why):
    return oracle(ctx, ledger.run(ctx, extra=("bankmixed", "dups")))
