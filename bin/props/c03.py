# C03 — No overdraft; batches are all-or-nothing.
from . import chainrun


def run(ctx):
    ctx.coverage["rule"] = ("chains from the scenario library (eras: every activation era with transfers at bal-1/bal/bal+1, several "
                            "transactions on one balance, in-batch credits; bank; staking), seeds derived from VERIF_SEED; every block is an "
                            "evaluation; a chain is non-trivial when it executes and rejects batches; compared: balances and batch status")
    ctx.proof_stage()
    n = 1 if ctx.tier == "quick" else 4
    pairs = [(s, sd) for s in ("eras", "bank", "staking") for sd in chainrun.seeds_for(ctx, n)]
    res = chainrun.check(ctx, pairs, [1, 6], "C03 balances and batch status", functional=False)
    for r in res:
        if "error" in r:
            continue
        if not r.get("cr_nonneg", True):
            ctx.add_violation("the node's database holds a negative balance cell after scenario %s seed %d" % (r["scenario"], r["seed"]),
                              {"kind": "chain", "scenario": r["scenario"], "seed": r["seed"], "oracle": "Corr.Chain.impl_nonneg"},
                              name="negative-cell")
    ctx.coverage["samples"] = ctx.coverage.get("samples", []) + [
        {"scenario": r["scenario"], "seed": r["seed"], "stats": r.get("stats", {})} for r in res[:3]]


def search(ctx, why):
    n = 2
    pairs = [(s, sd) for s in ("eras", "bank", "bankmixed", "staking", "dups") for sd in chainrun.seeds_for(ctx, n)]
    res = chainrun.check(ctx, pairs, [1, 6], "C03 balances and batch status (search after a broken proof)", functional=False)
    found = False
    for r in res:
        if "error" not in r and not r.get("cr_nonneg", True):
            ctx.add_violation("the node's database holds a negative balance cell after scenario %s seed %d" % (r["scenario"], r["seed"]),
                              {"kind": "chain", "scenario": r["scenario"], "seed": r["seed"], "oracle": "Corr.Chain.impl_nonneg"},
                              name="negative-cell")
            found = True
    return found
