# C09 — Restart independence: results do not depend on where the daemon was restarted.
from . import ledger, runprop, c18


def restarts(ctx, scenarios, at):
    found = False
    total = 0
    for sc in scenarios:
        recs, summary = runprop.run(ctx, "restart", "scen:" + sc, ctx.seed, ["-at", at])
        total += summary.get("runs", 0)
        ctx.coverage.setdefault("distribution", {}).setdefault("restart_runs", []).append(dict(summary, scenario=sc))
        bad = [r for r in recs if r.get("cmd") == "restart" and not r.get("ok", True)]
        for r in bad[:3]:
            ctx.add_violation("restarting the real daemon at height(s) %s of scenario %s (seed %d) changes the ledger: first difference at height %s: %s"
                              % (r.get("at"), sc, ctx.seed, r.get("first_diff_height"), str(r.get("diff", {}).get("only_got", ""))[:400]),
                              {"kind": "restart", "scenario": sc, "seed": ctx.seed, "restart_at": r.get("at"), "diff": r.get("diff"),
                               "replay_cmd": "harness: runprop restart -work <dir> -scenario scen:%s -seed %d -at %s" % (sc, ctx.seed, ",".join(str(x) for x in (r.get("at") or [])))},
                              name="restart")
            found = True
    ctx.coverage["evaluations"] = ctx.coverage.get("evaluations", 0) + total
    ctx.coverage["distinct_nontrivial"] = ctx.coverage.get("distinct_nontrivial", 0) + total
    ctx.coverage["traces_validated_against_impl"] = ctx.coverage.get("traces_validated_against_impl", 0) + total
    return found


def run(ctx):
    ctx.coverage["rule"] = (ledger.rule("C09") + "; plus, on the real daemon: one continuous run against runs that stop cleanly and start a fresh process "
                            "at every height of the chain (each restart height is a distinct non-trivial case: the chains have blocks without rates inside the averaging window "
                            "and conversions priced by the average); and a daemon serving API requests, some of them aborted by the client, against one serving none")
    ctx.proof_stage()
    ledger.run(ctx)
    restarts(ctx, ["gaps"] if ctx.tier == "quick" else ["gaps", "eras", "admission", "staking"], "all")
    served(ctx)


def served(ctx):
    """In-memory state accumulated since process start also comes from the API: a daemon that served
    requests (rich lists rebuild the average cache; some clients hang up mid-request) must compute the
    ledger of one that served none."""
    before = len(ctx.violations)
    c18.apiload(ctx, ["gaps"], 8, False, status=False)
    return len(ctx.violations) > before


def search(ctx, why):
    ledger.run(ctx)
    a = restarts(ctx, ["gaps", "eras"], "all")
    b = served(ctx)
    return a or b
