# C20 — the batch-JSON part: Model/Codec.v against the real fat2 decoder (gen/codec), the
# property's own oracle (accepted => canonical, re-encoding round trip) on Go's verdicts, and
# the theorems of Props/C20json.v.  Called by props/c20.py (run_json) and reused by props/c05.py.
import json
import os
import re

import vlib

HEADER = ("From Coq Require Import Uint63.\nFrom Model Require Import Codec Db.\n"
          "From Corr Require Import Codec.\nOpen Scope Z_scope.\n")


def go_codec(ctx, mode, seed, n):
    """Run gen/codec; returns (case lines, distribution dict printed on stderr)."""
    b = ctx.go_build("gen", "codec")
    rc, so, se = ctx.run([b, mode, str(seed), str(n)], timeout=900, quiet=True)
    dist = {}
    for l in se.splitlines():
        l = l.strip()
        if l.startswith("{"):
            try:
                dist = json.loads(l)
            except ValueError:
                pass
    return [l for l in so.splitlines() if l.strip()], dist


def coq_check(ctx, name, typ, lines, preds, shard=700):
    """{pred: [indices of cases where the Coq predicate evaluates to false]}"""
    res = dict((p, []) for p in preds)

    def one(s):
        part = lines[s:s + shard]
        txt = HEADER + "Definition cases : list %s := [\n%s\n].\n" % (typ, ";\n".join(part))
        for i, p in enumerate(preds):
            txt += "Definition M%d := Eval vm_compute in mismatches %s cases.\nPrint M%d.\n" % (i, p, i)
        return s, ctx.coq_eval("%s_%d" % (name, s), txt)

    import concurrent.futures
    with concurrent.futures.ThreadPoolExecutor(max_workers=8) as ex:
        outs = list(ex.map(one, range(0, len(lines), shard)))
    for s, out in outs:
        for i, p in enumerate(preds):
            m = re.search(r"M%d\s*=\s*(.*?)\n\s*:\s*list nat" % i, out, re.S)
            if not m:
                raise RuntimeError("cannot parse coqc output for %s: %s" % (p, out[-400:]))
            res[p] += [s + int(x) for x in re.findall(r"(\d+)%nat", m.group(1))]
    return res


def unpack(term):
    """bytes of the first (ub [...]%uint63) in term"""
    m = re.search(r"\(ub \[([^\]]*)\]%uint63\)", term)
    out = b""
    if m:
        for w in m.group(1).split(";"):
            w = w.strip()
            if w.startswith("0x1"):
                out += bytes.fromhex(w[3:])
    return out


def describe(line):
    m = re.search(r"\(\* (.*) \| (.*) \*\)\s*$", line)
    data = unpack(line)
    return {"mutation": m.group(1) if m else "", "go_verdict": m.group(2) if m else "",
            "input_hex": data.hex(), "input_text": data.decode("latin-1")[:400]}


def merge(a, b):
    for k, v in b.items():
        if isinstance(v, dict):
            merge(a.setdefault(k, {}), v)
        else:
            a[k] = a.get(k, 0) + v


def ensure_built(ctx, targets):
    rc, so, se = ctx.coq_make(targets)
    if rc != 0:
        m = re.search(r'File "([^"]+)", line (\d+)[^\n]*\n(Error:[^\n]*(?:\n[^\n]+){0,6})', so + se)
        raise vlib.ProofBroken("%s:%s %s" % (m.group(1), m.group(2), m.group(3)) if m else (se[-1500:]))


def register_props(ctx, name):
    """Compile Props/<name>.v afresh and add its theorems to the evidence (as proof_stage does)."""
    ok, out = ctx.coqc_props(name)
    if not ok:
        raise vlib.ProofBroken("Props/%s.v does not compile:\n%s" % (name, out[-2000:]))
    src = vlib.strip_coq_comments(open(os.path.join(ctx.coqdir, "Props", name + ".v")).read())
    thms = re.findall(r"^\s*(?:Theorem|Lemma|Corollary)\s+([A-Za-z0-9_']+)", src, re.M)
    exs = re.findall(r"^\s*(?:Example|Fact)\s+([A-Za-z0-9_']+)", src, re.M)
    refuted = []
    rp = os.path.join(ctx.coqdir, "Refuted", name + ".v")
    if os.path.exists(rp):
        refuted = re.findall(r"^\s*(?:Theorem|Lemma)\s+([A-Za-z0-9_']+)", vlib.strip_coq_comments(open(rp).read()), re.M)
    if "Axioms:" in out:
        raise vlib.ProofBroken("Props/%s.v: Print Assumptions reports axioms:\n%s" % (name, out[-1500:]))
    info = ctx.coverage.setdefault("proof", {})
    info["theorems"] = info.get("theorems", []) + thms
    info["examples"] = info.get("examples", []) + exs
    info["refuted_statements"] = info.get("refuted_statements", []) + refuted
    info["print_assumptions_closed"] = info.get("print_assumptions_closed", 0) + out.count("Closed under the global context")
    n = len(thms) + len(exs) + len(refuted)
    ctx.coverage["obligations"] = ctx.coverage.get("obligations", 0) + n
    ctx.coverage["discharged"] = ctx.coverage.get("discharged", 0) + n
    ctx.coverage["checker_cmd"] = ctx.coverage.get("checker_cmd", "") + " && coqc Props/%s.v" % name


def json_cases(ctx, seeds, n):
    lines, dist = [], {}
    for s in seeds:
        l, d = go_codec(ctx, "json", s, n)
        lines += l
        merge(dist, d)
    # drop exact duplicates (the fixed list repeats per seed), keep order
    seen, out = set(), []
    for l in lines:
        k = l.split(" (* ")[0]
        if k not in seen:
            seen.add(k)
            out.append(l)
    return out, dist


def run_json(ctx):
    targets = ["Corr/Codec.vo"]
    have_props = os.path.exists(os.path.join(ctx.coqdir, "Props", "C20json.v"))
    if have_props:
        targets.append("Props/C20json.vo")
        if os.path.exists(os.path.join(ctx.coqdir, "Refuted", "C20json.v")):
            targets.append("Refuted/C20json.vo")
    have_rt = os.path.exists(os.path.join(ctx.coqdir, "Props", "C20roundtrip.v"))
    if have_rt:
        targets.append("Props/C20roundtrip.vo")
    ensure_built(ctx, targets)
    if have_props:
        register_props(ctx, "C20json")
    if have_rt:
        register_props(ctx, "C20roundtrip")

    if ctx.replay:
        try:
            rp = json.load(open(ctx.replay))
        except (OSError, ValueError):
            rp = {}
        if rp.get("kind") == "batch-json" and rp.get("input", {}).get("input_hex") is not None:
            b = ctx.go_build("gen", "codec")
            rc, so, se = ctx.run([b, "one-json", rp["input"]["input_hex"]], quiet=True)
            lines = [l + " (* replay | %s *)" % se.strip() for l in so.splitlines() if l.strip()]
            judge(ctx, lines, {}, search=False)
            return

    if ctx.tier == "quick":
        seeds, n = [ctx.seed], 1500
    else:
        seeds, n = [ctx.seed, ctx.seed + 1, ctx.seed + 2, ctx.seed + 3], 4000
    lines, dist = json_cases(ctx, seeds, n)
    judge(ctx, lines, dist, search=True)


def judge(ctx, lines, dist, search):
    res = coq_check(ctx, "json", "json_case", lines, ["json_agrees", "json_canonical_on", "json_is_plain_canonical"])
    accepted = [i for i, l in enumerate(lines) if re.search(r"\| accept \*\)\s*$", l)]
    variations = sorted(set(res["json_is_plain_canonical"]))
    cov = ctx.coverage
    cov["evaluations"] = cov.get("evaluations", 0) + len(lines)
    cov["distinct_nontrivial"] = cov.get("distinct_nontrivial", 0) + len(accepted)
    cov["traces_validated_against_impl"] = cov.get("traces_validated_against_impl", 0) + len(lines)
    d = cov.setdefault("distribution", {})
    d["json"] = {
        "cases": len(lines),
        "accepted_by_go_and_valid": len(accepted),
        "accepted_using_a_tolerated_variation": len(variations),
        "go_verdict_classes_incl_reject_reasons": dist.get("classes", {}),
        "mutations_applied": dist.get("mutations", {}),
        "mutation_to_verdict": dist.get("cross", {}),
        "not_covered": [c for c in ("reject-syntax", "reject-length", "reject-ticker", "reject-json-type",
                                    "reject-address", "reject-missing-or-empty", "accept", "accept-but-int64")
                        if dist and c not in dist.get("classes", {})],
        "out_of_scope": ["JSON nesting deeper than 10000 (Go rejects; the model does not count depth)",
                         "exact code points of non-ASCII text after unquoting (only whether it can equal an ASCII name / a base58 address matters)"],
    }
    cov["rule"] = (cov.get("rule", "") + " | batch JSON: gen/codec json — structured valid batches (1-3 transactions, transfers or conversion, optional "
                   "metadata) with 0-2 tree mutations (duplicate / unknown / length-compensating / case- escape- and U+017F-variant keys, "
                   "non-canonical numbers, null leaves, bad tickers, transfers+conversion, empty transfers, metadata at both levels, two input "
                   "addresses, amount edges 2^63-1 / 2^63 / 2^64-1, wrong JSON types, special and alternatively spelled addresses, reordering), "
                   "white-space injection, byte-level damage (truncation, bit flip, insertion, trailing text) and a fixed list of 55 syntax edge "
                   "cases; non-trivial = accepted by UnmarshalJSON + ValidData + the int64 bound in Go")
    pick = [i for i in (accepted[:2] + variations[:3] + list(range(60, 63))) if i < len(lines)]
    cov["samples"] = cov.get("samples", []) + [describe(lines[i]) for i in pick]

    # the property's own oracle on the implementation's verdicts
    for i in res["json_canonical_on"][:5]:
        dsc = describe(lines[i])
        ctx.add_violation("fat2 accepts a batch content that is not in the canonical language (or whose re-encoding does not decode "
                          "to the same transactions): %r" % dsc["input_text"][:300],
                          {"kind": "batch-json", "input": dsc,
                           "replay_cmd": "gen/codec one-json <input_hex>   (fat2.TransactionBatch.UnmarshalJSON + ValidData)"},
                          name="json-noncanonical")
    if res["json_agrees"] and not res["json_canonical_on"]:
        first = describe(lines[res["json_agrees"][0]])
        found = False
        if search:
            # neighbourhood / wider search with the property oracle only
            more, _ = json_cases(ctx, [ctx.seed + 101, ctx.seed + 102], 3000)
            r2 = coq_check(ctx, "json_search", "json_case", more, ["json_canonical_on"])
            for i in r2["json_canonical_on"][:3]:
                found = True
                dsc = describe(more[i])
                ctx.add_violation("fat2 accepts a batch content that is not in the canonical language: %r" % dsc["input_text"][:300],
                                  {"kind": "batch-json", "input": dsc, "replay_cmd": "gen/codec one-json <input_hex>"},
                                  name="json-noncanonical")
            cov["evaluations"] += len(more)
        if not found:
            ctx.add_violation("correspondence Model.Codec.decode_batch / valid_data / encode vs fat2.TransactionBatch no longer checks "
                              "(%d of %d cases disagree; first: %r -> Go says %s); the canonical-form oracle found no accepted "
                              "non-canonical content" % (len(res["json_agrees"]), len(lines), first["input_text"][:200], first["go_verdict"]),
                              {"kind": "correspondence", "correspondence": "Corr.Codec.json_agrees", "first_disagreement": first},
                              name="json-corr", found_input=False)
