# C01 — Deterministic replay: same chain, same ledger.
from . import ledger, runprop


def det(ctx, scenarios, procs):
    found = False
    for sc in scenarios:
        recs, summary = runprop.run(ctx, "det", "scen:" + sc, ctx.seed, ["-procs", str(procs)])
        ctx.coverage.setdefault("distribution", {}).setdefault("independent_processes", []).append(dict(summary, scenario=sc))
        ctx.coverage["evaluations"] = ctx.coverage.get("evaluations", 0) + procs
        ctx.coverage["distinct_nontrivial"] = ctx.coverage.get("distinct_nontrivial", 0) + procs
        ctx.coverage["traces_validated_against_impl"] = ctx.coverage.get("traces_validated_against_impl", 0) + procs
        for r in recs:
            if r.get("cmd") == "det" and not r.get("ok", True):
                fd = r.get("first_diff", {})
                ctx.add_violation("two independent daemon processes replaying scenario %s (seed %d) end with different ledgers: %s"
                                  % (sc, ctx.seed, str(fd.get("diff", {}).get("only_got", ""))[:500]),
                                  {"kind": "det", "scenario": sc, "seed": ctx.seed, "procs": procs, "first_diff": fd,
                                   "replay_cmd": "harness: runprop det -work <dir> -scenario scen:%s -seed %d -procs %d" % (sc, ctx.seed, procs)},
                                  name="nondeterministic")
                found = True
    return found


def run(ctx):
    ctx.coverage["rule"] = (ledger.rule("C01") + "; plus N independent OS processes (fresh map seeds) replaying the same chain with the real daemon and comparing "
                            "their canonical dumps, and a daemon under API load against an unloaded one; the chains contain exact ties (equal stakes, equal PEG requests in one batch and across batches)")
    ctx.proof_stage()
    ledger.run(ctx)
    det(ctx, ["ties", "staking"] if ctx.tier == "quick" else ["ties", "staking", "eras", "bank", "top100"], 4 if ctx.tier == "quick" else 16)
    # goroutine scheduling: the same chain replayed by a daemon that serves API requests meanwhile
    from . import c18
    c18.apiload(ctx, ["gaps"], 8, False, status=False, runs=1)


def search(ctx, why):
    ledger.run(ctx)
    return det(ctx, ["ties", "staking", "bank", "eras"], 12)
