# C14 — Holder staking payouts: snapshot minimum, proportional, capped
from . import ledger, purecases


def run(ctx):
    ctx.coverage["rule"] = ledger.rule("C14") + "; ConversionSupplySet.Payouts on seed-derived request sets (ties, totals at bank-1/bank/bank+1, > 2^64 totals)"
    ctx.proof_stage()
    purecases.run_payouts(ctx)
    ledger.run(ctx)


def search(ctx, why):
    purecases.run_payouts(ctx)
    ledger.run(ctx, extra=("eras", "zerocollide"))
    return any(f for _, _, f in ctx.violations)
