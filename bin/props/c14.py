# C14 — Holder staking payouts: snapshot minimum, proportional, capped
from . import ledger, purecases, runprop


def retried_snapshot_blocks(ctx, scenario, blocks, points):
    """a snapshot block that fails after the snapshot step and is retried must pay out exactly as an undisturbed one"""
    recs, summary = runprop.run(ctx, "fault", "scen:" + scenario, ctx.seed, ["-kind", "sql", "-blocks", blocks, "-points", str(points), "-prefix", "snapshot"], timeout=1800)
    ctx.coverage.setdefault("distribution", {}).setdefault("retried_snapshot_blocks", []).append(dict(summary, scenario=scenario, blocks=blocks))
    n = int(summary.get("faults_run", 0))
    ctx.coverage["evaluations"] = ctx.coverage.get("evaluations", 0) + n
    ctx.coverage["traces_validated_against_impl"] = ctx.coverage.get("traces_validated_against_impl", 0) + n
    found = False
    for r in [r for r in recs if r.get("cmd") == "fault" and r.get("violation")][:3]:
        site = str((r.get("fired") or {}).get("site", "")) or str((r.get("point") or {}).get("site", ""))
        ctx.add_violation("a snapshot block of scenario %s (seed %d) that failed once at %s and was retried pays out differently from an undisturbed run: %s"
                          % (scenario, ctx.seed, site, str(r.get("diff", {}).get("only_got", ""))[:300]),
                          {"kind": "fault", "scenario": scenario, "seed": ctx.seed, "record": r,
                           "replay_cmd": "harness: runprop fault -work <dir> -scenario scen:%s -seed %d -kind sql -blocks %s -points all" % (scenario, ctx.seed, blocks)},
                          name="snapshot-retry")
        found = True
    return found


def run(ctx):
    ctx.coverage["rule"] = ledger.rule("C14") + "; ConversionSupplySet.Payouts on seed-derived request sets (ties, totals at bank-1/bank/bank+1, > 2^64 totals)"
    ctx.proof_stage()
    purecases.run_payouts(ctx)
    ledger.run(ctx)
    retried_snapshot_blocks(ctx, "corners", "288", 24 if ctx.tier == "quick" else 200)


def search(ctx, why):
    purecases.run_payouts(ctx)
    ledger.run(ctx, extra=("eras", "zerocollide"))
    return any(f for _, _, f in ctx.violations)
