# Loop-level property drivers on the REAL node (harness/cmd/runprop): determinism across
# processes, crash points, injected faults, restarts, API load.  One JSON object per line.
import json
import os


def binary(ctx, race=False):
    key = "_runprop_race" if race else "_runprop_bin"
    if not getattr(ctx, key, None):
        if race:
            d = ctx.gomod_dir("harness")
            out = os.path.join(ctx.work, "bin", "runprop.race")
            os.makedirs(os.path.dirname(out), exist_ok=True)
            lk = ctx.lock("gobuild")
            try:
                rc, so, se = ctx.run(["go", "build", "-race", "-tags", "verif", "-o", out, "./cmd/runprop"], cwd=d, timeout=1500, check=False)
            finally:
                lk.close()
            if rc != 0:
                raise RuntimeError("race build failed: " + se[-1500:])
            setattr(ctx, key, out)
        else:
            setattr(ctx, key, ctx.go_build("harness", "cmd/runprop"))
    return getattr(ctx, key)


def scratch(ctx, name):
    base = "/dev/shm" if os.path.isdir("/dev/shm") and os.access("/dev/shm", os.W_OK) else ctx.work
    d = os.path.join(base, "verif-%d-%s" % (os.getpid(), name))
    os.makedirs(d, exist_ok=True)
    ctx.scratch_dirs = getattr(ctx, "scratch_dirs", []) + [d]
    return d


def run(ctx, sub, scenario, seed, args, timeout=1500):
    b = binary(ctx)
    d = scratch(ctx, sub + "-" + scenario.replace(":", "_") + "-%d" % seed)
    cmd = [b, sub, "-work", d, "-scenario", scenario, "-seed", str(seed)] + list(args)
    rc, so, se = ctx.run(cmd, timeout=timeout, check=False, quiet=True)
    recs, summary = [], None
    for l in so.splitlines():
        l = l.strip()
        if not l.startswith("{"):
            continue
        try:
            o = json.loads(l)
        except ValueError:
            continue
        if "summary" in o:
            summary = o["summary"]
        else:
            recs.append(o)
    import shutil
    shutil.rmtree(d, ignore_errors=True)
    if rc != 0 or summary is None:
        err = ""
        for o in recs:
            if "error" in o:
                err = str(o["error"])
        import vlib
        e = vlib.TieBroken("the %s driver could not run on this tree (rc %d): %s" % (sub, rc, err or (se or so)[-800:]), "harness.runprop." + sub)
        e.driver_error = err
        e.scenario = scenario
        raise e
    return recs, summary
