# Table-driven part of the ledger property checks: which scenario chains tie the model to the node
# for which property, and on which projection of the observables.
from . import chainrun, runprop

# chains that end in a block no node can apply (recorded finding): no fault-free reference run exists
NO_RETRY = ("bankmixed",)

# tags: 1 pn_addresses 2 snapshot_current 3 snapshot_past 4 pn_rate 5 pn_bank 6 history_txbatch 7 history_transaction
#       8 history_lookup 9 holding 10 address_transactions 11 pn_winners 12 pn_grade 13 synced 14 sync_version
TABLE = {
    # id: (scenarios quick, extra scenarios thorough, tags, functional, what)
    "C03": (["eras", "bankmixed", "corners", "bank", "avgzero", "fuzz"], ["staking", "dups", "admission"], [1, 6], False, "balances and batch status"),
    "C04": (["eras", "bank", "zeroing", "corners", "align", "fuzz"], ["staking", "rates", "admission"], [1], True, "balances (per-asset supply is their column sum)"),
    "C06": (["dups", "corners", "gaps", "fuzz"], ["eras", "bank"], [1, 6, 9, 10], True, "balances, batch status, holding and relation rows"),
    "C07": (["gaps", "corners", "avgzero", "fuzz"], ["eras", "admission", "bank"], [1, 6, 7, 9], True, "balances, execution height and converted amounts"),
    "C08": (["malformed", "dups", "corners", "gaps", "bank"], ["eras", "top100", "zerocollide", "bankmixed"], [13, 14], False, "which blocks apply"),
    "C09": (["gaps"], ["eras", "admission", "avgzero"], [1, 6, 7], True, "balances and converted amounts (pricing)"),
    "C11": (["eras", "corners", "fuzz"], ["top100", "rates", "staking", "zeroing"], [1, 6, 7, 11, 12], True, "PEG/pFCT balances, coinbase and burn history, pn_winners, pn_grade"),
    "C12": (["rates", "corners", "eras", "fuzz"], ["gaps", "staking"], [4, 6], True, "pn_rate rows and batch status"),
    "C13": (["admission", "corners", "avgzero", "fuzz"], ["eras", "rates"], [1, 6], True, "balances and executed codes"),
    "C14": (["staking", "zeroing"], ["eras", "zerocollide", "fuzz"], [1, 2, 3, 6, 7], True, "balances, snapshots and staking coinbase rows"),
    "C15": (["align", "zeroing"], ["eras", "staking", "zerocollide"], [1, 6, 7], True, "balances of the listed addresses and coinbase rows"),
    "C16": (["bank", "fuzz"], ["bankmixed", "eras"], [1, 5, 7], True, "balances, pn_bank rows, yields and refunds"),
    "C17": (["bank", "dups", "corners", "avgzero", "eras", "fuzz"], ["staking", "admission"], [1, 6, 7, 8, 9, 10], True, "history, lookup, status and balances"),
    "C01": (["eras", "staking", "fuzz"], ["bank", "top100"], list(range(1, 13)), True, "every ledger table"),
}


def pairs(ctx, prop, extra=()):
    q, t, tags, functional, what = TABLE[prop]
    scen = list(q) + (list(t) if ctx.tier == "thorough" else []) + list(extra)
    n = 1 if ctx.tier == "quick" else 3
    return [(s, sd) for s in scen for sd in chainrun.seeds_for(ctx, n)]


def retried(ctx, scenarios, stmts=("pn_sync_version",)):
    """Every block applied twice by the same process: the first attempt at each height fails at its last statement
    (the pn_sync_version insert of InsertSynced), DBlockSync rolls back and retries.  What the failed attempt left
    in the daemon's memory must not reach the ledger: the final dump equals that of the fault-free run."""
    import vlib
    found = False
    cov = ctx.coverage.setdefault("correspondence", {}).setdefault("every block retried once (same process) vs fault-free run", {})
    for sc, stmt in [(sc, st) for sc in scenarios for st in stmts]:
        if sc in NO_RETRY:
            continue
        try:
            recs, summary = runprop.run(ctx, "retryall", "scen:" + sc, ctx.seed, ["-stmt", stmt])
        except vlib.TieBroken as e:
            ctx.add_violation("the retry-every-block run could not be made on scenario %s: %s" % (sc, str(e)[:400]),
                              {"kind": "retryall", "scenario": sc, "seed": ctx.seed, "error": str(e)[:1500]}, name="retryall-broken", found_input=False)
            found = True
            continue
        cov[sc + " @ " + stmt] = {"retried_blocks": summary.get("retried_blocks"), "violations": summary.get("violations")}
        ctx.coverage["traces_validated_against_impl"] = ctx.coverage.get("traces_validated_against_impl", 0) + 1
        ctx.coverage["evaluations"] = ctx.coverage.get("evaluations", 0) + int(summary.get("retried_blocks") or 0)
        for r in recs:
            if r.get("cmd") == "retryall" and r.get("ok") is False:
                what = ("the daemon cannot get through the chain when every block fails once: %s" % str(r.get("error"))[:300]) if r.get("stuck") else \
                       ("the ledger differs from the fault-free run: %s" % str((r.get("diff") or {}).get("only_got", ""))[:300])
                ctx.add_violation("a failed and retried block changes the result (scenario %s seed %d, every block's first attempt fails at its first statement on %s): %s"
                                  % (sc, ctx.seed, stmt, what),
                                  {"kind": "retryall", "scenario": sc, "seed": ctx.seed, "record": dict((k, v) for k, v in r.items() if k != "dumps"),
                                   "replay_cmd": "harness: runprop retryall -work <dir> -scenario scen:%s -seed %d -stmt %s" % (sc, ctx.seed, stmt)}, name="retryall")
                found = True
    return found


def run(ctx, prop=None, extra=(), **kw):
    prop = prop or ctx.prop
    q, t, tags, functional, what = TABLE[prop]
    res = chainrun.check(ctx, pairs(ctx, prop, extra), tags, "%s %s" % (prop, what), functional=functional, **kw)
    retried(ctx, list(q)[:2] if ctx.tier == "quick" else list(q) + list(t))
    ctx.coverage["samples"] = ctx.coverage.get("samples", []) + [
        {"chain": "%s seed %d" % (r["scenario"], r["seed"]),
         "stats": dict((k, v) for k, v in r.get("stats", {}).items() if k in ("applied", "entries", "executed", "tx_kinds", "rated_blocks", "snapshot_payouts", "dev_payouts", "peg_requests_paid", "failed_at", "fail_error"))}
        for r in res[:3]]
    return res


def rule(prop):
    q, t, tags, functional, what = TABLE[prop]
    return ("chains of the scenario library %s (thorough: + %s; 1 seed quick / 3 seeds thorough derived from VERIF_SEED) replayed by the real node and by the "
            "model; every block is an evaluation, every chain a distinct non-trivial case; compared on: %s" % (q, t, what))
