# C05 — Spend authorisation (entry level): Model/Codec.v valid_extids / new_transaction_batch
# against fat2.NewTransactionBatch / ValidExtIDs on real signed entries and their mutations.
import json
import re

import vlib
from . import c20_json as cj
from . import chainrun

RCDE_SIGNATURE = "C05-rcde-recovery-byte-ignored"


def fields(line):
    """split the top-level tuple of an extids case line into its component texts"""
    body = line.split(" (* ")[0].strip()
    body = body[1:-1]
    out, depth, cur = [], 0, ""
    for ch in body:
        if ch in "([":
            depth += 1
        elif ch in ")]":
            depth -= 1
        if ch == "," and depth == 0:
            out.append(cur.strip())
            cur = ""
        else:
            cur += ch
    out.append(cur.strip())
    return out


def all_bytes(term):
    out = []
    for m in re.finditer(r"\(ub \[([^\]]*)\]%uint63\)", term):
        b = b""
        for w in m.group(1).split(";"):
            w = w.strip()
            if w.startswith("0x1"):
                b += bytes.fromhex(w[3:])
        out.append(b)
    return out


def describe(line):
    f = fields(line)
    m = re.search(r"\(\* (.*) \| (.*) \*\)\s*$", line)
    ext = all_bytes(f[1]) if len(f) > 1 else []
    return {"mutation": m.group(1) if m else "", "go_verdict": m.group(2) if m else "",
            "chain_hex": (all_bytes(f[0]) or [b""])[0].hex(), "extids_hex": [e.hex() for e in ext],
            "content": (all_bytes(f[2]) or [b""])[0].decode("latin-1")[:300],
            "timestamp": f[3].strip("()"), "height": f[4].strip("()")}


def run(ctx):
    ctx.coverage["rule"] = (
        "gen/codec extids: entries on the transaction chain signed with real ed25519 (RCD-1) and secp256k1 (RCD-e) keys through the factom "
        "library's own signers, 1 / 2 / 3 / 11-12 signers, heights act-1, act, act+1, -1, 0, act+1000, -5, 2^30; mutations: salt at the window "
        "edges +-43199/43200/43201, non-canonical and extreme salts, wrong chain id, swapped RCD/signature, swapped / duplicated pairs, missing / "
        "extra ExtIDs, foreign key, same key twice, RCD-e recovery byte, size errors, RCD type byte, content changed after signing, timestamp "
        "moved, JSON white space added after signing, random bit flips, wrong pair index in the message, unhashed message [+ every single-bit flip of content, every ExtID and the chain "
        "id of short entries in the thorough tier]; non-trivial = accepted by fat2.NewTransactionBatch")
    ctx.proof_stage(extra_targets=["Corr/Codec.vo"])
    evaluate(ctx)
    on_chain(ctx)


def on_chain(ctx):
    """The entry-level rule applied where the daemon applies it: ApplyTransactionBlock hands every entry of the
    block to NewTransactionBatch with the ENTRY's timestamp (block time + minute).  Chain `salts`: transfers whose
    salts sit minutes inside / outside both ends of the window, in late minutes of their blocks."""
    seeds = [ctx.seed] if ctx.tier == "quick" else [ctx.seed, ctx.seed + 1, ctx.seed + 2]
    chainrun.check(ctx, [("salts", sd) for sd in seeds], [1, 6], "C05 which signed entries move balances (salt window on the chain)", functional=True)


def evaluate(ctx):
    if ctx.tier == "quick":
        lines, dist = cj.go_codec(ctx, "extids", ctx.seed, 500)
        fl, fd = cj.go_codec(ctx, "extids-flips", ctx.seed, 0)
    else:
        lines, dist = [], {}
        for s in (ctx.seed, ctx.seed + 1, ctx.seed + 2):
            l, d = cj.go_codec(ctx, "extids", s, 1500)
            lines += l
            cj.merge(dist, d)
        fl, fd = cj.go_codec(ctx, "extids-flips", ctx.seed, 4)
    lines += fl
    cj.merge(dist, fd)
    res = cj.coq_check(ctx, "extids", "extids_case", lines, ["extids_agrees", "extids_authorised_on"], shard=600)
    accepted = [i for i, l in enumerate(lines) if re.search(r"\| accepted \*\)\s*$", l)]
    cov = ctx.coverage
    cov["evaluations"] = cov.get("evaluations", 0) + len(lines)
    cov["distinct_nontrivial"] = cov.get("distinct_nontrivial", 0) + len(accepted)
    cov["traces_validated_against_impl"] = cov.get("traces_validated_against_impl", 0) + len(lines)
    classes = dist.get("classes", {})
    cov.setdefault("distribution", {})["extids"] = {
        "cases": len(lines), "accepted_by_go": len(accepted), "single_bit_flip_cases": len(fl),
        "go_verdict_classes_incl_reject_reasons": classes, "mutations_applied": dist.get("mutations", {}),
        "not_covered": [c for c in ("reject-count", "reject-salt-syntax", "reject-salt-window", "reject-rcd-type-not-active",
                                    "reject-rcd-type-unknown", "reject-rcd-size", "reject-sig-size", "reject-signature",
                                    "reject-rcd-hash", "content-undecodable", "accepted") if c not in classes],
    }
    cov["samples"] = cov.get("samples", []) + [describe(lines[i]) for i in (accepted[:2] + list(range(3, 6))) if i < len(lines)]

    # property oracle 1: every accepted entry is authorised by its single input address
    for i in res["extids_authorised_on"][:5]:
        d = describe(lines[i])
        ctx.add_violation("fat2.NewTransactionBatch accepts an entry that is not authorised by a verified signature of its input "
                          "address over index|salt|chain|content within the salt window at an enabled RCD type: mutation %s" % d["mutation"],
                          {"kind": "entry", "input": d, "replay_cmd": "gen/codec extids (fat2.NewTransactionBatch on the entry)"},
                          name="unauthorised")
    # property oracle 2: one signature, one entry — two accepted entries with different ExtIDs
    # exhibiting the same verified (type, public key, message, signature as passed) triple
    by_triple = {}
    for i in accepted:
        f = fields(lines[i])
        by_triple.setdefault(f[6], {}).setdefault(f[1], i)
    for triple, exts in by_triple.items():
        if len(exts) > 1:
            idx = sorted(exts.values())[:2]
            a, b = describe(lines[idx[0]]), describe(lines[idx[1]])
            diff = [k for k, (x, y) in enumerate(zip(a["extids_hex"], b["extids_hex"])) if x != y]
            ctx.add_violation("one signature authorises several entries: two entries accepted by fat2.NewTransactionBatch differ only in "
                              "ExtID(s) %s (RCD-e signature byte 64, which ValidateRCD0e does not pass to the verifier) and therefore have "
                              "different entry hashes, so the replay filter does not stop the second one" % diff,
                              {"kind": "entry-pair", "first": a, "second": b,
                               "refuted_statement": "Refuted.C05.one_signature_many_entries_rcde_refuted",
                               "replay_cmd": "gen/codec extids-flips <seed> 2 (flip any bit of byte 64 of the RCD-e signature)"},
                              name="rcde-malleable", signature=RCDE_SIGNATURE)
            break
    if res["extids_agrees"] and not ctx.violations:
        first = describe(lines[res["extids_agrees"][0]])
        # neighbourhood: more cases, property oracles only
        more, _ = cj.go_codec(ctx, "extids", ctx.seed + 77, 800)
        r2 = cj.coq_check(ctx, "extids_search", "extids_case", more, ["extids_authorised_on"], shard=600)
        cov["evaluations"] += len(more)
        if r2["extids_authorised_on"]:
            d = describe(more[r2["extids_authorised_on"][0]])
            ctx.add_violation("fat2.NewTransactionBatch accepts an unauthorised entry: mutation %s" % d["mutation"],
                              {"kind": "entry", "input": d}, name="unauthorised")
        else:
            ctx.add_violation("correspondence Model.Codec.valid_extids / new_transaction_batch vs fat2.ValidExtIDs / NewTransactionBatch no longer "
                              "checks (%d of %d cases disagree; first: mutation %s, Go says %s); the authorisation oracle found no "
                              "unauthorised accepted entry" % (len(res["extids_agrees"]), len(lines), first["mutation"], first["go_verdict"]),
                              {"kind": "correspondence", "correspondence": "Corr.Codec.extids_agrees", "first_disagreement": first},
                              name="extids-corr", found_input=False)


def search(ctx, why):
    # a proof obligation or a table broke: look for an unauthorised accepted entry in the implementation
    try:
        cj.ensure_built(ctx, ["Corr/Codec.vo"])
    except vlib.ProofBroken:
        return False
    evaluate(ctx)
    try:
        on_chain(ctx)
    except Exception as e:
        ctx.notes.append("salts chain not evaluated: %r" % (e,))
    return bool(ctx.violations)
