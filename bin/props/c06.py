# C06 — At-most-once execution of an entry (replay protection).
from . import ledger


def run(ctx):
    ctx.coverage["rule"] = ledger.rule("C06") + "; the dups chains repeat entries in the same block, in later blocks, while pending, after execution and after each reject code"
    ctx.proof_stage()
    ledger.run(ctx)


def search(ctx, why):
    ledger.run(ctx, extra=("bank", "gaps"))
    return any(f for _, _, f in ctx.violations)
