# C19 — Version lock: a database synced across a hard fork by an old build is refused.
#
# Proof: coq/Props/C19.v (theorems over all fork tables and all histories of sessions).
# Tie:   gen/forks replays generated upgrade/downgrade histories on the REAL code (pegnet.Init,
#        InsertSynced in committed transactions, SelectSynced, CheckHardForks, NewPegnetd) on a
#        fresh sqlite file per history; coq/Corr/Forks.v evaluates by vm_compute
#          forks_agrees       model = implementation (refused start-ups, blocks committed, verdict
#                             with its reason, resulting pn_sync_version table)
#          forks_property_on  the property's own oracle on the implementation's verdicts: every
#                             tracked start-up refused iff the characterisation holds of the log
#                             of what was really committed.
import concurrent.futures
import json
import os
import re

from . import pure

HEADER = "From Model Require Import Base Forks.\nFrom Corr Require Import Pure Forks.\n"
PREDS = ["forks_agrees", "forks_property_on", "forks_not_excluded_class"]
CASE_RE = re.compile(r"^\(\[(.*?)\], (\d+), \[(.*?)\], (\(?-?\d+\)?), (\d+), \[(.*?)\]\)$")
VERDICTS = {0: "accepted", 1: "refused_fork_check", 2: "refused_downgrade_check", 3: "other_error"}


# ------------------------------------------------------------------ Go side
def scratch_base(ctx):
    # sqlite files of the replays: tmpfs when there is one (a commit per block), else the work dir
    for d in ("/dev/shm",):
        if os.path.isdir(d) and os.access(d, os.W_OK):
            return d
    d = os.path.join(ctx.work, "forksdb")
    os.makedirs(d, exist_ok=True)
    return d


def go_bin(ctx):
    if not getattr(ctx, "_forks_bin", None):
        ctx._forks_bin = ctx.go_build("gen", "forks")
    return ctx._forks_bin


def go_cases(ctx, mode, seed, n, stdin=None, shards=1):
    b = go_bin(ctx)
    sb = scratch_base(ctx)

    def one(i):
        env = ctx.env()
        env["VERIF_SHARD"] = "%d/%d" % (i, shards)
        rc, so, se = ctx.run([b, mode, str(seed), str(n), sb], timeout=3000, quiet=True, env=env, stdin=stdin)
        return so

    if shards == 1:
        outs = [one(0)]
    else:
        with concurrent.futures.ThreadPoolExecutor(max_workers=shards) as ex:
            outs = list(ex.map(one, range(shards)))
    lines, real = [], None
    for so in outs:
        for l in so.splitlines():
            l = l.strip()
            if l.startswith("# real "):
                real = l[len("# real "):]
            elif l.startswith("("):
                lines.append(l)
    return lines, real


# ------------------------------------------------------------------ cases as Python values
def zint(s):
    return int(s.strip("()"))


def parse(line):
    m = CASE_RE.match(line)
    if not m:
        raise RuntimeError("cannot parse case: " + line)
    forks = [[int(a), int(b)] for a, b in re.findall(r"\((\d+), (-?\d+)\)", m.group(1))]
    sessions = []
    for b, n, done in re.findall(r"\((Untracked|Tracked \(?-?\d+\)?), (\d+), (-?\d+)\)", m.group(3)):
        sessions.append({"build": "U" if b == "Untracked" else "T%d" % zint(b.split(" ", 1)[1]), "blocks": int(n), "committed": int(done)})
    rows = [[int(a), int(b)] for a, b in re.findall(r"\((\d+), (-?\d+)\)", m.group(6))]
    return {"forks": forks, "base": int(m.group(2)), "sessions": sessions, "cur": zint(m.group(4)),
            "go_verdict": int(m.group(5)), "rows": rows}


def history_of(c):
    return {"forks": c["forks"], "base": c["base"], "cur": c["cur"],
            "sessions": [[s["build"], s["blocks"]] for s in c["sessions"]]}


def bver(build):
    return -1 if build == "U" else int(build[1:])


def reasons(forks, cur, log):
    """The characterisation of Props/C19.v on a log [(height, build)]: list of reasons to refuse."""
    out = []
    for a, m in forks:
        for h, b in log:
            if h >= a and bver(b) < m:
                out.append(("untracked_at_or_above_fork" if b == "U" else "older_build_at_or_above_fork", a, m, h, b))
    for h, b in log:
        if bver(b) > cur:
            out.append(("newer_build", None, None, h, b))
    return out


def walk(c, strict=False):
    """Mirror of Corr.Forks.forks_property_on. Returns (ok, info)."""
    forks, base, cur = c["forks"], c["base"], c["cur"]
    wf = base >= 0 and cur >= -1 and all(a > base or m <= -1 for a, m in forks) and \
        all(bver(s["build"]) >= -1 for s in c["sessions"])
    top, log, seen_tracked, ordered = base, [], False, True
    bad = []
    startups = []
    for i, s in enumerate(c["sessions"]):
        k = max(0, s["committed"])
        if s["build"] != "U":
            refused = s["committed"] < 0
            rs = reasons(forks, bver(s["build"]), log)
            startups.append((i, refused, rs))
            if (ordered and refused != bool(rs)) or (not ordered and refused and not rs):
                bad.append((i, bver(s["build"]), refused, rs, list(log)))
            seen_tracked = True
        else:
            if seen_tracked and k > 0:
                ordered = False
        log = [(top + j + 1, s["build"]) for j in range(k)] + log
        top += k
    refused = c["go_verdict"] != 0
    rs = reasons(forks, cur, log)
    if (ordered and refused != bool(rs)) or (not ordered and refused and not rs):
        bad.append(("final", cur, refused, rs, list(log)))
    info = {"wf": wf, "ordered": ordered, "log": log, "final_reasons": rs, "bad": bad, "startups": startups,
            "excluded_hit": (not ordered) and (not refused) and bool(rs)}
    ok = (not bad) if (wf or strict) else True
    return ok, info


def describe(c, info):
    out = []
    for which, ver, refused, rs, log in info["bad"]:
        who = "the final start-up" if which == "final" else "the start-up of session %d" % which
        if refused:
            out.append("%s (sync version %d) was REFUSED although every block was synced by an adequate build" % (who, ver))
        else:
            kind, a, m, h, b = rs[0]
            if kind == "newer_build":
                out.append("%s (sync version %d) was ACCEPTED although height %d was synced by the newer build %s" % (who, ver, h, b))
            else:
                out.append("%s (sync version %d) was ACCEPTED although height %d, at or above the fork at %d that requires version %d, was synced by %s"
                           % (who, ver, h, a, m, "a build predating version tracking" if b == "U" else "build " + b))
    return "; ".join(out)


# ------------------------------------------------------------------ the check
def evaluate(ctx, name, lines):
    return pure.coq_check(ctx, name, "forks_case", lines, PREDS, header=HEADER, shard=600)


def crossed(c, info):
    return any(h >= a for a, m in c["forks"] if m >= 0 for h, _ in info["log"])


def neighbourhood(ctx, cases):
    """Replay every neighbour of the given cases on the real code and run the property oracle."""
    inp = "\n".join(json.dumps(history_of(c)) for c in cases) + "\n"
    lines, _ = go_cases(ctx, "neigh", 0, 0, stdin=inp)
    lines = list(dict.fromkeys(lines))
    if not lines:
        return [], 0
    res = evaluate(ctx, "forks_neigh", lines)
    return [lines[i] for i in res["forks_property_on"]], len(lines)


def report_property_failure(ctx, line, name="history"):
    c = parse(line)
    ok, info = walk(c, strict=True)
    what = describe(c, info) or "the property oracle Corr.Forks.forks_property_on fails on this history"
    ctx.add_violation("version lock: " + what,
                      {"kind": "history", "history": history_of(c), "observed": c,
                       "synced_log(height,build)": info["log"], "coq_case": line,
                       "replay_cmd": "bin/check C19 quick --replay <this file>   (gen/forks replay: real Init/InsertSynced/CheckHardForks on a fresh sqlite file)"},
                      name=name)


def run_forced(ctx):
    """Histories whose intermediate start-ups were overridden: any arrangement of versions in the table."""
    quick = ctx.tier == "quick"
    lines, _ = go_cases(ctx, "forced", ctx.seed, 300 if quick else 3000, shards=1 if quick else 8)
    lines = list(dict.fromkeys(lines))
    if not lines:
        return False
    res = pure.coq_check(ctx, "forks_forced", "forks_case", lines, ["forced_agrees", "forced_property_on"], header=HEADER, shard=600)
    ctx.coverage["evaluations"] = ctx.coverage.get("evaluations", 0) + len(lines)
    ctx.coverage.setdefault("distribution", {})["forced_histories"] = {
        "cases": len(lines), "refused_final": sum(1 for l in lines if parse(l)["go_verdict"] != 0)}
    found = False
    for i in res["forced_agrees"][:3]:
        c = parse(lines[i])
        ctx.add_violation("version lock: on a database whose intermediate start-ups were overridden the real CheckHardForks and the verified model disagree "
                          "(final verdict %s, table %s)" % (VERDICTS.get(c["go_verdict"]), c["rows"][:12]),
                          {"kind": "forced-history", "history": history_of(c), "observed": c, "coq_case": lines[i],
                           "replay_cmd": "gen/forks forced <seed> <n>: sessions without start-up checks, then the real CheckHardForks"},
                          name="forced-history")
        found = True
    for i in [i for i in res["forced_property_on"] if i not in res["forced_agrees"]][:3]:
        c = parse(lines[i])
        ctx.add_violation("version lock: the final start-up verdict %s contradicts the characterisation on a database whose intermediate start-ups were overridden"
                          % VERDICTS.get(c["go_verdict"]),
                          {"kind": "forced-history", "history": history_of(c), "observed": c, "coq_case": lines[i]}, name="forced-property")
        found = True
    return found


def run_histories(ctx, searching=False):
    quick = ctx.tier == "quick"
    lines, real = go_cases(ctx, "random", ctx.seed, 400 if quick else 5000, shards=1 if quick else 8)
    n_random = len(lines)
    if not quick:
        exh, _ = go_cases(ctx, "exh", ctx.seed, 3, shards=8)
        lines += exh
    lines = list(dict.fromkeys(lines))
    cases = [parse(l) for l in lines]
    try:
        res = evaluate(ctx, "forks", lines)
    except RuntimeError as e:
        if not searching:
            raise
        # the Coq side does not build (that is why we are searching): use the mirror of the oracle
        ctx.notes.append("Corr.Forks could not be evaluated (%s); the search used the Python mirror of forks_property_on" % str(e)[:200])
        res = {"forks_agrees": [], "forks_property_on": [i for i, c in enumerate(cases) if not walk(c)[0]],
               "forks_not_excluded_class": [i for i, c in enumerate(cases) if walk(c)[1]["excluded_hit"]]}

    # distribution
    dist = {"histories": len(cases), "random_and_fixed": n_random, "exhaustive": len(cases) - n_random if not quick else 0,
            "final_verdict": {}, "final_reason_by_oracle": {}, "intermediate_startups": 0, "intermediate_startups_refused": 0,
            "untracked_first": 0, "untracked_after_tracked": 0, "outside_hypotheses(fork<=base)": 0,
            "legacy_synced_exactly_to_a_fork_height": 0, "on_the_repository_table": 0, "sessions": {}}
    nontrivial = set()
    py_bad = []
    for i, c in enumerate(cases):
        on_real = real is not None and lines[i].startswith(real)
        ok, info = walk(c, strict=on_real)
        if not ok:
            py_bad.append(i)
        v = VERDICTS.get(c["go_verdict"], "other_error")
        dist["final_verdict"][v] = dist["final_verdict"].get(v, 0) + 1
        for k in set(r[0] for r in info["final_reasons"]) or {"none(adequate builds only)"}:
            dist["final_reason_by_oracle"][k] = dist["final_reason_by_oracle"].get(k, 0) + 1
        dist["intermediate_startups"] += len(info["startups"])
        dist["intermediate_startups_refused"] += sum(1 for s in info["startups"] if s[1])
        dist["untracked_first" if info["ordered"] else "untracked_after_tracked"] += 1
        if not info["wf"]:
            dist["outside_hypotheses(fork<=base)"] += 1
        if on_real:
            dist["on_the_repository_table"] += 1
        ns = str(len(c["sessions"]))
        dist["sessions"][ns] = dist["sessions"].get(ns, 0) + 1
        if info["log"] and all(b == "U" for _, b in info["log"]) and \
                any(a == max(h for h, _ in info["log"]) and m >= 0 for a, m in c["forks"]):
            dist["legacy_synced_exactly_to_a_fork_height"] += 1
        if crossed(c, info):
            nontrivial.add(i)
    excluded = res["forks_not_excluded_class"]
    dist["excluded_class_instances_accepted_by_the_real_code"] = len(excluded)
    ctx.coverage["evaluations"] = ctx.coverage.get("evaluations", 0) + len(cases)
    ctx.coverage["distinct_nontrivial"] = ctx.coverage.get("distinct_nontrivial", 0) + len(nontrivial)
    ctx.coverage["distribution"] = dist
    pick = [0, 2, 10, 11, 19, 27] + [len(cases) - 1]
    ctx.coverage["samples"] = [cases[i] for i in pick if i < len(cases)][:6]
    ctx.coverage["traces_validated_against_impl"] = ctx.coverage.get("traces_validated_against_impl", 0) + len(cases)
    if excluded:
        # Refuted/C19.v version_lock_iff_any_order_refuted, seen on the real code
        c = cases[excluded[0]]
        ctx.coverage["refuted_class_witness_on_real_code"] = {
            "statement": "Refuted.C19.version_lock_iff_any_order_refuted (untracked build syncing after a tracked one)",
            "history": history_of(c), "observed": c, "instances": len(excluded)}
        # a genuine defect of the code (an untracked build run on a database after a tracked one leaves
        # heights without a version row; the start-up accepts them): recorded, see known_findings.jsonl
        ctx.add_violation("a database in which a build predating version tracking synced blocks at or above a fork height AFTER a tracked "
                          "build had synced (history %s) is accepted: the heights it synced carry no pn_sync_version row and the back-fill's "
                          "conflict with the tracked fork row is ignored" % json.dumps(history_of(c)),
                          {"kind": "history", "history": history_of(c), "observed": c,
                           "refuted_statement": "Refuted.C19.version_lock_iff_any_order_refuted"},
                          name="untracked-after-tracked", signature="C19-untracked-after-tracked-gap")

    # the property's own oracle on the implementation's verdicts
    bad = sorted(set(res["forks_property_on"]) | set(i for i in py_bad if real is not None and lines[i].startswith(real)))
    for i in bad[:3]:
        report_property_failure(ctx, lines[i])
    if sorted(py_bad) != sorted(bad) and not bad:
        ctx.notes.append("Python mirror of the oracle disagrees with Corr.Forks.forks_property_on on cases %s (machinery)" % py_bad[:5])
    if res["forks_agrees"] and not bad:
        first = [cases[i] for i in res["forks_agrees"][:3]]
        found, nn = neighbourhood(ctx, first)
        dist["neighbourhood_searched"] = nn
        if found:
            for l in found[:3]:
                report_property_failure(ctx, l, name="history-neighbour")
        else:
            c = first[0]
            ctx.add_violation("correspondence Corr.Forks.forks_agrees (Model.Forks.check_hard_forks / sessions vs the real CheckHardForks, InsertSynced) "
                              "no longer checks on %d of %d histories (first: %s -> verdict %s, rows %s); the property oracle found no wrongly "
                              "accepted or refused database among %d histories and %d neighbours of the disagreeing ones"
                              % (len(res["forks_agrees"]), len(cases), json.dumps(history_of(c)), VERDICTS.get(c["go_verdict"]), c["rows"], len(cases), nn),
                              {"kind": "correspondence", "correspondence": "Corr.Forks.forks_agrees",
                               "first_disagreement": {"history": history_of(c), "observed": c},
                               "disagreements": len(res["forks_agrees"])},
                              name="corr", found_input=False)


def run_replay(ctx):
    r = json.load(open(ctx.replay))
    h = r.get("history")
    if not h:
        print("replay file carries no history (kind=%s): nothing to replay on the implementation" % r.get("kind"))
        return
    lines, _ = go_cases(ctx, "replay", 0, 0, stdin=json.dumps(h) + "\n")
    res = evaluate(ctx, "forks_replay", lines)
    ctx.coverage["evaluations"] = len(lines)
    ctx.coverage["samples"] = [parse(l) for l in lines]
    ctx.coverage["traces_validated_against_impl"] = len(lines)
    for i in res["forks_property_on"]:
        report_property_failure(ctx, lines[i], name="replayed")
    if not res["forks_property_on"]:
        print("replay: the history no longer violates the property (%s)" % ("model and code agree" if not res["forks_agrees"] else "model and code disagree"))


RULE = ("histories = (fork table of 1-3 forks incl. {0,-1}, base height, 1-4 sessions each untracked or tracked v in 0..3 syncing 0..6 blocks "
        "with stops at A-1, A, A+1 of the fork heights, final build 0..3), seed-derived, after fixed edge histories and histories on the "
        "repository's own table; every one replayed on the real code on a fresh sqlite file [thorough: + every history of <=3 sessions x "
        "{untracked,0,1,2} x {0,1,2} blocks x 4 placements of 2 forks x final build {1,2}]; non-trivial = some block at or above a real fork "
        "height was synced")


def run(ctx):
    ctx.coverage["rule"] = RULE
    ctx.proof_stage(extra_targets=("Corr/Forks.vo",))
    if ctx.replay:
        run_replay(ctx)
        return
    run_histories(ctx)
    run_forced(ctx)


def search(ctx, why):
    # a proof obligation or a table broke: look for a wrongly accepted / refused database on the real code
    ctx.coverage.setdefault("rule", RULE)
    try:
        ctx.coq_make(["Corr/Forks.vo"])
    except Exception as e:  # the oracle then runs through its Python mirror
        ctx.notes.append("Corr/Forks.vo not rebuilt: %r" % (e,))
    run_histories(ctx, searching=True)
    try:
        run_forced(ctx)
    except Exception as e:
        ctx.notes.append("forced histories not evaluated: %r" % (e,))
    return bool(ctx.violations)
