# C08 — Sync liveness: no chain content can crash the daemon or wedge a block.
from . import ledger

# chains whose last block is deliberately one the unchanged code cannot apply (the model says so too)
KNOWN_STUCK = {
    # scenario -> signature in known_findings.jsonl (status known) of the stuck block it ends with on the unchanged code
    "bankmixed": "C08-bank-era-mixed-batch",
}


def oracle(ctx, res):
    found = False
    for r in res:
        if "error" in r:
            continue
        st = r.get("stats", {})
        if st.get("failed_at"):
            sig = KNOWN_STUCK.get(r["scenario"])
            ctx.add_violation("the real daemon cannot apply block %s of scenario %s (seed %d): %s" % (st.get("failed_at"), r["scenario"], r["seed"], str(st.get("fail_error"))[:300]),
                              {"kind": "chain", "scenario": r["scenario"], "seed": r["seed"], "failed_at": st.get("failed_at"), "error": st.get("fail_error"),
                               "replay_cmd": "harness: chainrun -scenario %s -seed %d (the node retries that height for ever)" % (r["scenario"], r["seed"])},
                              name="wedged", signature=sig)
            found = found or sig is None
    return found


def run(ctx):
    ctx.coverage["rule"] = ledger.rule("C08") + "; the malformed / dups chains carry garbage entries on all three chains, truncated and length-compensated JSON, repeated entry hashes, entries with 0..n ExtIDs"
    ctx.proof_stage()
    oracle(ctx, ledger.run(ctx, stuck_is_violation=True))


def search(ctx, why):
    return oracle(ctx, ledger.run(ctx, extra=("eras", "top100"), stuck_is_violation=True))
