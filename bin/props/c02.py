# C02 — Per-block atomicity and crash consistency of the balance store.
from . import runprop, ledger


def crash(ctx, scenarios, points):
    found = False
    for sc in scenarios:
        try:
            recs, summary = runprop.run(ctx, "crash", "scen:" + sc, ctx.seed, ["-points", str(points), "-prefix", "snapshot"], timeout=2400)
        except Exception as e:
            msg = getattr(e, "driver_error", "")
            if "outcomes [" in msg and msg.count("commit") >= 2:
                # more than one COMMIT while one height is applied: part of the block becomes durable on its own
                ctx.add_violation("applying one block of scenario %s (seed %d) commits more than one SQL transaction (%s): effects of the block are durable before "
                                  "(or without) its sync height, so a crash or failure between the commits leaves a database that is no replayed prefix" % (sc, ctx.seed, msg),
                                  {"kind": "crash", "scenario": sc, "seed": ctx.seed, "driver": msg,
                                   "replay_cmd": "harness: runprop crash -work <dir> -scenario scen:%s -seed %d -points 8 (reference run)" % (sc, ctx.seed)},
                                  name="two-commits")
                found = True
                continue
            raise
        ctx.coverage.setdefault("distribution", {}).setdefault("crash_runs", []).append(dict(summary, scenario=sc))
        n = int(summary.get("points_run", 0))
        ctx.coverage["evaluations"] = ctx.coverage.get("evaluations", 0) + n
        ctx.coverage["distinct_nontrivial"] = ctx.coverage.get("distinct_nontrivial", 0) + n
        ctx.coverage["traces_validated_against_impl"] = ctx.coverage.get("traces_validated_against_impl", 0) + n
        pts = [r for r in recs if r.get("cmd") == "crash" and "point" in r]
        ctx.coverage["samples"] = ctx.coverage.get("samples", []) + [
            {"crash_point": r.get("point"), "synced_after_kill": r.get("synced_after_kill"), "ok": r.get("ok")} for r in pts[:3]]
        for r in [r for r in pts if not r.get("ok", True)][:3]:
            ctx.add_violation("killing the real daemon at %s of scenario %s (seed %d): synced=%s expected=%s, heights ok=%s (%s), dump after kill equal=%s, final equal=%s"
                              % (r.get("point"), sc, ctx.seed, r.get("synced_after_kill"), r.get("expected_synced"), r.get("sync_heights_ok"),
                                 r.get("sync_heights_why"), r.get("kill_dump_equal"), r.get("final_equal")),
                              {"kind": "crash", "scenario": sc, "seed": ctx.seed, "point": r.get("point"), "record": r,
                               "replay_cmd": "harness: runprop crash -work <dir> -scenario scen:%s -seed %d -blocks %s -points all" % (sc, ctx.seed, r.get("point", {}).get("block"))},
                              name="crash")
            found = True
    return found


def run(ctx):
    ctx.coverage["rule"] = ("crash points of the real daemon: (block, statement index on the block's transaction | read through the pool | before COMMIT | after COMMIT) of a "
                            "scenario chain; a sample stratified by (class, kind, call site, SQL) — every distinct call site before any is repeated — each run = replay to the "
                            "previous height, SIGKILL at the point, re-open in a fresh process, compare with the reference state of the recorded sync height, resume to the tip, "
                            "compare again; every crash point is a distinct non-trivial case")
    ctx.proof_stage(extra_targets=["Lemmas/SyncLemmas.vo", "Lemmas/SitesC02.vo"])
    crash(ctx, ["corners"] if ctx.tier == "quick" else ["corners", "eras", "staking", "bank"], 64 if ctx.tier == "quick" else 600)
    # nothing of a failed attempt stays behind: every block fails once -- at its last statement, and in the middle
    # of its transaction entries / its grading rows -- and is applied again by the same process
    ledger.retried(ctx, ["corners"] if ctx.tier == "quick" else ["corners", "eras", "align"],
                   stmts=("pn_sync_version", "pn_history_transaction", "pn_grade"))


def search(ctx, why):
    return crash(ctx, ["corners", "eras"], 200)
