# C13 — Conversion admission rules by height
from . import ledger


def run(ctx):
    ctx.coverage["rule"] = ledger.rule("C13")
    ctx.proof_stage()
    ledger.run(ctx)


def search(ctx, why):
    ledger.run(ctx, extra=("eras", "rates"))
    return any(f for _, _, f in ctx.violations)
