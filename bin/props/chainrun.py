# Chain-level correspondence, shared by the ledger properties.
#
# harness/cmd/chainrun builds a scenario chain, drives the REAL node over it block by block and
# writes one Coq file with the model inputs of every block (grader verdicts from the real
# libraries) and what the node did (applied / failed, canonical dumps).  Coq then evaluates, by
# vm_compute, Corr.Chain.report: the model replayed on the same chain compared with the node on the
# full dump and on the property's projection of it, plus the property oracles on the node's dumps.
import concurrent.futures
import json
import os
import re

TAG_NAMES = {1: "pn_addresses", 2: "snapshot_current", 3: "snapshot_past", 4: "pn_rate", 5: "pn_bank",
             6: "pn_history_txbatch", 7: "pn_history_transaction", 8: "pn_history_lookup",
             9: "pn_transaction_batch_holding", 10: "pn_address_transactions", 11: "pn_winners",
             12: "pn_grade", 13: "pn_metadata.synced", 14: "pn_sync_version"}
KINDS = {1: "model says the block fails, the node applied it", 2: "the node failed / stopped, the model applies the block",
         3: "dumps differ", 4: "grader key the model asked for was not emitted (model and node disagree on grading inputs)",
         5: "fewer observations than blocks"}


def binary(ctx):
    if not getattr(ctx, "_chainrun_bin", None):
        ctx._chainrun_bin = ctx.go_build("harness", "cmd/chainrun")
    return ctx._chainrun_bin


def parse_mismatch(txt):
    """txt: the printed value of an `option mismatch`."""
    txt = " ".join(txt.split())
    if txt.startswith("None"):
        return None
    m = re.match(r"Some \((-?\d+), (-?\d+), (-?\d+), (.*)\)$", txt)
    if not m:
        return {"raw": txt[:2000]}
    d = {"height": int(m.group(1)), "kind": int(m.group(2)), "code": int(m.group(3)),
         "kind_text": KINDS.get(int(m.group(2)), "?")}
    rest = m.group(4)
    rows = re.findall(r"(Some \[[^\]]*\]|None)", rest)
    if rest.startswith("Some") and len(rows) >= 2:
        def row(r):
            return None if r == "None" else [int(x) for x in re.findall(r"-?\d+", r)]
        d["model_row"], d["node_row"] = row(rows[0]), row(rows[1])
        for k in ("model_row", "node_row"):
            if d[k]:
                d["table"] = TAG_NAMES.get(d[k][0], str(d[k][0]))
    return d


def one(ctx, scenario, seed, tags, dump_every=None, window=None):
    b = binary(ctx)
    ident = "%s_%d" % (re.sub(r"[^A-Za-z0-9_]", "_", scenario), seed)
    d = os.path.join(ctx.work, "chain", ident)
    os.makedirs(d, exist_ok=True)
    vfile = os.path.join(d, ident + ".v")
    cmd = [b, "-scenario", scenario, "-seed", str(seed), "-out", vfile, "-work", d, "-name", ident]
    if dump_every:
        cmd += ["-dump-every", str(dump_every)]
    if window:
        cmd += ["-dump-all-from", str(window[0]), "-dump-all-to", str(window[1])]
    rc, so, se = ctx.run(cmd, timeout=900, check=False, quiet=True)
    if rc != 0 or not os.path.exists(vfile):
        return {"scenario": scenario, "seed": seed, "error": "chainrun failed (rc %d): %s" % (rc, se[-1500:])}
    stats = {}
    for l in so.splitlines():
        l = l.strip()
        if l.startswith("{"):
            try:
                stats = json.loads(l)
            except ValueError:
                pass
    txt = open(vfile).read()
    cut = txt.rfind("Definition R_")
    if cut < 0:
        return {"scenario": scenario, "seed": seed, "error": "emitted file has no result definition"}
    txt = txt[:cut]
    txt = txt.replace("From Model Require Import Obs.", "From Model Require Import Obs.\nFrom Corr Require Import Chain Api.", 1)
    tl = "[" + "; ".join(str(t) for t in tags) + "]"
    txt += ("Definition REP := Eval vm_compute in report %s cfg_%s chain_%s obs_%s.\n" % (tl, ident, ident, ident))
    for f in ("cr_full", "cr_proj", "cr_nonneg", "cr_applied", "cr_rates_immutable", "cr_history_replays"):
        txt += "Definition V_%s := Eval vm_compute in %s REP.\nPrint V_%s.\n" % (f, f, f)
    has_api = ("Definition api_%s " % ident) in txt
    if has_api:
        # the history queries of the real API layer against Model/Api.v on the model's final state (Corr/Api.v)
        txt += "Definition AREP := Eval vm_compute in api_check cfg_%s chain_%s api_%s status_%s.\n" % (ident, ident, ident, ident)
        for f in ("ar_ran", "ar_cases", "ar_bad", "ar_bad_status", "ar_wf"):
            txt += "Definition A_%s := Eval vm_compute in %s AREP.\nPrint A_%s.\n" % (f, f, f)
    open(vfile, "w").write(txt)
    rc, so, se = ctx.run(["coqc"] + ctx.coq_qargs() + ["-w", "-inexact-float", vfile], cwd=d, timeout=1500, check=False, quiet=True)
    # the compiled file is large and of no further use
    for ext in (".vo", ".glob", ".vok", ".vos"):
        try:
            os.remove(vfile[:-2] + ext)
        except OSError:
            pass
    if rc != 0:
        return {"scenario": scenario, "seed": seed, "stats": stats, "error": "coqc failed on the emitted chain: %s" % (so + se)[-1500:]}
    res = {"scenario": scenario, "seed": seed, "stats": stats, "file_bytes": len(txt)}
    for f in ("cr_full", "cr_proj", "cr_nonneg", "cr_applied", "cr_rates_immutable", "cr_history_replays"):
        m = re.search(r"V_%s\s*=\s*(.*?)\n\s*:\s" % f, so, re.S)
        if not m:
            res["error"] = "cannot parse coqc output for %s" % f
            return res
        v = m.group(1).strip()
        if f in ("cr_full", "cr_proj"):
            res[f] = parse_mismatch(v)
        else:
            res[f] = (v == "true")
    if has_api:
        api = {}
        for f in ("ar_ran", "ar_cases", "ar_bad", "ar_bad_status", "ar_wf"):
            m = re.search(r"A_%s\s*=\s*(.*?)\n\s*:\s" % f, so, re.S)
            api[f] = " ".join(m.group(1).split()) if m else "?"
        res["api"] = {"model_ran": api["ar_ran"] == "true", "cases": int(re.sub(r"[^0-9]", "", api["ar_cases"]) or 0),
                      "disagreeing_queries": [int(x) for x in re.findall(r"-?\d+", api["ar_bad"])],
                      "disagreeing_status": [int(x) for x in re.findall(r"-?\d+", api["ar_bad_status"])],
                      "history_tables_well_formed": api["ar_wf"] == "true",
                      "unparsed": [f for f in api if api[f] == "?"]}
        if res["api"]["disagreeing_queries"]:
            # keep the text of the first disagreeing case for the replay file
            cases = re.findall(r"^  \(\{\| q_field := .*$", txt, re.M)
            i = res["api"]["disagreeing_queries"][0]
            if i < len(cases):
                lits = dict(re.findall(r"^Definition (z\w+) : Z := (-?\d+)\.$", txt, re.M))
                res["api"]["first_disagreeing_case"] = re.sub(r"\bz\w+\b", lambda m: lits.get(m.group(0), m.group(0)), cases[i])[:1500]
    try:
        os.remove(vfile)
    except OSError:
        pass
    return res


def run_many(ctx, pairs, tags, workers=8):
    binary(ctx)
    with concurrent.futures.ThreadPoolExecutor(max_workers=workers) as ex:
        return list(ex.map(lambda p: one(ctx, p[0], p[1], tags), pairs))


def seeds_for(ctx, n):
    return [ctx.seed + i for i in range(n)]


def check(ctx, pairs, tags, what, functional=True, stuck_is_violation=False, known_stuck=None):
    """Run the scenarios, record coverage, and turn disagreements into violations.
    functional: the property pins the projected observables down, so a difference on the
    projection between the verified model and the node is a concrete failing input."""
    results = run_many(ctx, pairs, tags)
    dist = ctx.coverage.setdefault("distribution", {}).setdefault("chains", [])
    nblocks = 0
    for r in results:
        st = r.get("stats", {})
        dist.append({"scenario": r["scenario"], "seed": r["seed"],
                     "stats": dict((k, v) for k, v in st.items() if k not in ("ident", "rows_per_dump")),
                     "full_dump_agrees": r.get("cr_full") is None and "error" not in r,
                     "projection_agrees": r.get("cr_proj") is None and "error" not in r})
        nblocks += int(st.get("applied", 0) or 0) + (1 if st.get("failed_at") else 0)
    ctx.coverage["evaluations"] = ctx.coverage.get("evaluations", 0) + nblocks
    ctx.coverage["distinct_nontrivial"] = ctx.coverage.get("distinct_nontrivial", 0) + len(results)
    ctx.coverage["traces_validated_against_impl"] = ctx.coverage.get("traces_validated_against_impl", 0) + len(results)
    ctx.coverage.setdefault("correspondence", {})[what] = {
        "projection_tables": [TAG_NAMES.get(t, str(t)) for t in tags],
        "chains": len(results), "blocks": nblocks,
        "chains_agreeing_on_projection": sum(1 for r in results if "error" not in r and r.get("cr_proj") is None),
        "chains_agreeing_on_full_dump": sum(1 for r in results if "error" not in r and r.get("cr_full") is None)}
    for r in results:
        replay = {"kind": "chain", "scenario": r["scenario"], "seed": r["seed"],
                  "replay_cmd": "harness: go run -tags verif ./cmd/chainrun -scenario %s -seed %d -out x.v -work <dir>; "
                                "then coqc the file (Obs.run_chain) — or bin/check %s quick with VERIF_SEED=%d"
                                % (r["scenario"], r["seed"], ctx.prop, ctx.seed)}
        if "error" in r:
            replay["error"] = r["error"]
            ctx.add_violation("chain correspondence (%s, scenario %s seed %d) could not be evaluated: %s"
                              % (what, r["scenario"], r["seed"], r["error"][:600]),
                              replay, name="chain-broken", found_input=False)
            continue
        mm = r.get("cr_proj")
        if mm is not None:
            replay["mismatch"] = mm
            concrete = functional and mm.get("kind") == 3
            if mm.get("kind") == 2 and stuck_is_violation:
                concrete = True
            ctx.add_violation(
                "%s: the node and the verified model disagree on scenario %s seed %d at height %s (%s)%s"
                % (what, r["scenario"], r["seed"], mm.get("height"), mm.get("kind_text", mm.get("raw", "")),
                   (": table %s, model row %s, node row %s" % (mm.get("table"), mm.get("model_row"), mm.get("node_row"))) if mm.get("kind") == 3 else ""),
                replay, name="chain", found_input=concrete)
    return results
