# C15 — Scheduled issuance: developer rewards and one-time ledger adjustments
from . import ledger


def run(ctx):
    ctx.coverage["rule"] = ledger.rule("C15")
    ctx.proof_stage()
    ledger.run(ctx)


def search(ctx, why):
    ledger.run(ctx, extra=("staking", "zerocollide"))
    return any(f for _, _, f in ctx.violations)
