# C04 — Supply conservation: value is created or destroyed only by protocol events
from . import ledger


def run(ctx):
    ctx.coverage["rule"] = ledger.rule("C04")
    ctx.proof_stage()
    ledger.run(ctx)


def search(ctx, why):
    ledger.run(ctx, extra=("staking", "rates"))
    return any(f for _, _, f in ctx.violations)
