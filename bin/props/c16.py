# C16 — PEG conversion bank (legacy era): limit, proportional yield, refund
from . import ledger, purecases


def run(ctx):
    ctx.coverage["rule"] = ledger.rule("C16") + "; ConversionSupplySet.Payouts and Refund on seed-derived vectors"
    ctx.proof_stage()
    purecases.run_payouts(ctx)
    purecases.run_refund(ctx)
    ledger.run(ctx)


def search(ctx, why):
    purecases.run_payouts(ctx)
    purecases.run_refund(ctx)
    ledger.run(ctx, extra=("bankmixed", "eras"))
    return any(f for _, _, f in ctx.violations)
