# cases.v route for pure functions: gen/pure runs the Go code, the Coq model is evaluated on
# the observed (input, output) pairs by vm_compute, mismatching case indices are returned.
import re

HEADER = "From Model Require Import Base Arith Decimal.\nFrom Corr Require Import Pure.\n"


def go_cases(ctx, what, seed, n):
    b = ctx.go_build("gen", "pure")
    rc, so, se = ctx.run([b, what, str(seed), str(n)], timeout=600, quiet=True)
    return [l for l in so.splitlines() if l.strip()]


def coq_check(ctx, name, typ, lines, preds, header=HEADER, shard=600):
    """preds: list of Coq predicates (case -> bool). Returns {pred: [indices of cases where it is false]}."""
    res = dict((p, []) for p in preds)

    def one(s):
        part = lines[s:s + shard]
        txt = header + "Definition cases : list %s := [\n%s\n].\n" % (typ, ";\n".join(part))
        for i, p in enumerate(preds):
            txt += "Definition M%d := Eval vm_compute in mismatches %s cases.\nPrint M%d.\n" % (i, p, i)
        return s, ctx.coq_eval("%s_%d" % (name, s), txt)

    import concurrent.futures
    with concurrent.futures.ThreadPoolExecutor(max_workers=8) as ex:
        outs = list(ex.map(one, range(0, len(lines), shard)))
    for s, out in outs:
        for i, p in enumerate(preds):
            m = re.search(r"M%d\s*=\s*(.*?)\n\s*:\s*list nat" % i, out, re.S)
            if not m:
                raise RuntimeError("cannot parse coqc output for %s: %s" % (p, out[-400:]))
            res[p] += [s + int(x) for x in re.findall(r"(\d+)%nat", m.group(1))]
    return res
