#!/bin/bash
# bin/seeded_queue.sh <name> ...: run the owning property's quick check against each seeded change, one after the other
# (each run patches /repo and restores it). Output: .work/seeded_queue.log
cd /verif
for n in "$@"; do
  echo "=== $n $(date +%T)" >> .work/seeded_queue.log
  python3 bin/seeded_run.py seeded/$n >> .work/seeded_queue.log 2>&1
done
echo "=== queue done $(date +%T)" >> .work/seeded_queue.log
