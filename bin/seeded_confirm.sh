#!/bin/bash
# bin/seeded_confirm.sh <dir-with patch.diff,demo/run.sh,meta.json> <name>
# Confirms a seeded change in a scratch worktree of /repo HEAD (builds, existing suite passes, the
# demonstration passes without and fails with the change), records that in meta.json and keeps it
# as /verif/seeded/<name>/.  Self-validation of the machinery only.
set -u
src=$1; name=$2
export GOFLAGS=-mod=mod GOPROXY=off GOSUMDB=off GOTOOLCHAIN=local CGO_CFLAGS=-w LXRBITSIZE=8
W=$(mktemp -d /tmp/confirm_XXXX)/wt
git -C /repo worktree add --detach -q "$W" HEAD || exit 2
trap 'git -C /repo worktree remove --force "$W" >/dev/null 2>&1; rm -rf "$(dirname "$W")"' EXIT
log=$(dirname "$W")/log
ok() { echo "$1: $2"; }
bash "$src/demo/run.sh" "$W" > $log.clean 2>&1; clean=$?
(cd "$W" && git status --porcelain | grep -q . && { git checkout -q -- .; git clean -fdq; })
git -C "$W" apply "$src/patch.diff" || { echo "patch does not apply"; exit 3; }
(cd "$W" && go build ./... > $log.build 2>&1); build=$?
(cd "$W" && go test -vet=off -count=1 -p 1 ./... > $log.suite 2>&1); suite=$?
if [ $suite -ne 0 ]; then
  # the one test that is flaky offline does not count
  if ! grep '^--- FAIL\|^FAIL' $log.suite | grep -v 'TestConversions_Convert_Random\|node/conversions\|^FAIL$' | grep -q .; then suite=0; fi
fi
bash "$src/demo/run.sh" "$W" > $log.mut 2>&1; mut=$?
echo "clean-demo exit=$clean  build=$build  suite=$suite  demo-with-change exit=$mut"
if [ $clean -eq 0 ] && [ $build -eq 0 ] && [ $suite -eq 0 ] && [ $mut -ne 0 ]; then
  dst=/verif/seeded/$name; mkdir -p $dst; cp "$src/patch.diff" $dst/; rm -rf $dst/demo; cp -r "$src/demo" $dst/demo
  python3 - "$src/meta.json" $dst/meta.json <<'EOF'
import json,sys
m=json.load(open(sys.argv[1]))
m["confirmed_here"]={"how":"bin/seeded_confirm.sh: patch applied in a scratch worktree of /repo HEAD: go build ./..., the whole existing suite (sequentially; TestConversions_Convert_Random ignored), demo/run.sh on the clean tree (exit 0) and with the change (non-zero)","builds":True,"existing_tests_pass":True,"demo_fails_with_change":True,"demo_passes_without_change":True}
json.dump(m,open(sys.argv[2],"w"),indent=1)
EOF
  echo "CONFIRMED and imported as $dst"
else
  echo "NOT confirmed"; tail -15 $log.clean $log.build $log.suite $log.mut 2>/dev/null | tail -60
  exit 1
fi
