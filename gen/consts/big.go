package main

import "math/big"

func newBig(b []byte) string { return new(big.Int).SetBytes(b).String() }
