// gen/consts prints coq/Gen/Consts.v: every datum the proofs consume, read from the
// repository the checks are aimed at (the Go packages are imported, so the values are
// what the compiler sees; items that exist only as code shape are read off the AST).
//
// Usage: consts <repo-root>  > Consts.v
package main

import (
	"fmt"
	"go/ast"
	"go/parser"
	"go/token"
	"math"
	"os"
	"path/filepath"
	"sort"
	"strings"

	"github.com/Factom-Asset-Tokens/factom"
	"github.com/pegnet/pegnetd/config"
	"github.com/pegnet/pegnetd/fat/fat2"
	"github.com/pegnet/pegnetd/node"
	"github.com/pegnet/pegnetd/node/conversions"
	"github.com/pegnet/pegnetd/node/pegnet"
)

func die(f string, a ...interface{}) {
	fmt.Fprintf(os.Stderr, "gen/consts: "+f+"\n", a...)
	os.Exit(3)
}

func z(name string, v interface{}) { fmt.Printf("Definition %s : Z := %v.\n", name, v) }

func addrZ(s string) string {
	a, err := factom.NewFAAddress(s)
	if err != nil {
		die("bad address %q: %v", s, err)
	}
	return bytesZ(a[:])
}

func bytesZ(b []byte) string {
	// big-endian integer value of the bytes, printed in decimal via math/big-free loop
	// (use hex -> Coq has no hex Z literal in 8.16 without Number Notation; decimal it is)
	n := newBig(b)
	return n
}

func parseFile(path string) (*token.FileSet, *ast.File) {
	fs := token.NewFileSet()
	f, err := parser.ParseFile(fs, path, nil, 0)
	if err != nil {
		die("parse %s: %v", path, err)
	}
	return fs, f
}

func findFunc(f *ast.File, name string) *ast.FuncDecl {
	for _, d := range f.Decls {
		if fd, ok := d.(*ast.FuncDecl); ok && fd.Name.Name == name {
			return fd
		}
	}
	return nil
}

func exprString(e ast.Expr) string {
	switch x := e.(type) {
	case *ast.SelectorExpr:
		return exprString(x.X) + "." + x.Sel.Name
	case *ast.Ident:
		return x.Name
	case *ast.BasicLit:
		return x.Value
	case *ast.ParenExpr:
		return exprString(x.X)
	case *ast.CallExpr:
		args := []string{}
		for _, a := range x.Args {
			args = append(args, exprString(a))
		}
		return exprString(x.Fun) + "(" + strings.Join(args, ",") + ")"
	case *ast.BinaryExpr:
		return exprString(x.X) + x.Op.String() + exprString(x.Y)
	case *ast.UnaryExpr:
		return x.Op.String() + exprString(x.X)
	case *ast.IndexExpr:
		return exprString(x.X) + "[" + exprString(x.Index) + "]"
	case *ast.StarExpr:
		return "*" + exprString(x.X)
	}
	return fmt.Sprintf("<%T>", e)
}

// collect all `tx.Conversion == fat2.PTickerXXX` comparisons inside e
func convEqTickers(e ast.Expr, out *[]string) {
	ast.Inspect(e, func(n ast.Node) bool {
		if b, ok := n.(*ast.BinaryExpr); ok && b.Op == token.EQL {
			l, r := exprString(b.X), exprString(b.Y)
			if l == "tx.Conversion" && strings.HasPrefix(r, "fat2.PTicker") {
				*out = append(*out, strings.TrimPrefix(r, "fat2.PTicker"))
			}
		}
		return true
	})
}

var tickerByIdent = map[string]int{}

func activationByName(n string) (uint32, bool) {
	m := map[string]uint32{
		"config.PegnetActivation":                config.PegnetActivation,
		"config.GradingV2Activation":             config.GradingV2Activation,
		"config.TransactionConversionActivation": config.TransactionConversionActivation,
		"config.PEGPricingActivation":            config.PEGPricingActivation,
		"config.OneWaypFCTConversions":           config.OneWaypFCTConversions,
		"config.PegnetConversionLimitActivation": config.PegnetConversionLimitActivation,
		"config.PEGFreeFloatingPriceActivation":  config.PEGFreeFloatingPriceActivation,
		"config.V4OPRUpdate":                     config.V4OPRUpdate,
		"config.V20HeightActivation":             config.V20HeightActivation,
		"config.V20DevRewardsHeightActivation":   config.V20DevRewardsHeightActivation,
		"config.SprSignatureActivation":          config.SprSignatureActivation,
		"config.OneWaySmallAssetsConversions":    config.OneWaySmallAssetsConversions,
		"config.V202EnhanceActivation":           config.V202EnhanceActivation,
		"config.V204EnhanceActivation":           config.V204EnhanceActivation,
		"config.V204BurnMintedTokenActivation":   config.V204BurnMintedTokenActivation,
		"config.PIP10AverageActivation":          config.PIP10AverageActivation,
	}
	v, ok := m[n]
	return v, ok
}

// version ladder of Grade / GradeS: initial `ver := uint8(k)` then a chain of
// `if block.Height >= config.X { ver = n }`. Printed as a list of (activation name, version).
func versionLadder(fd *ast.FuncDecl) (init string, steps [][2]string, ok bool) {
	ok = true
	for _, st := range fd.Body.List {
		switch s := st.(type) {
		case *ast.AssignStmt:
			if len(s.Lhs) == 1 && exprString(s.Lhs[0]) == "ver" && s.Tok == token.DEFINE {
				init = exprString(s.Rhs[0])
			}
		case *ast.IfStmt:
			c, isb := s.Cond.(*ast.BinaryExpr)
			if !isb || exprString(c.X) != "block.Height" {
				continue
			}
			if len(s.Body.List) != 1 {
				continue
			}
			as, isa := s.Body.List[0].(*ast.AssignStmt)
			if !isa || exprString(as.Lhs[0]) != "ver" {
				continue
			}
			if c.Op != token.GEQ || s.Else != nil {
				// shape changed: report the operator so the Coq side sees it
				steps = append(steps, [2]string{c.Op.String() + " " + exprString(c.Y), exprString(as.Rhs[0])})
				ok = false
				continue
			}
			steps = append(steps, [2]string{exprString(c.Y), exprString(as.Rhs[0])})
		}
	}
	return
}

func uint8lit(s string) string {
	s = strings.TrimPrefix(s, "uint8(")
	s = strings.TrimSuffix(s, ")")
	return s
}

func main() {
	if len(os.Args) < 2 {
		die("usage: consts <repo-root>")
	}
	root := os.Args[1]

	fmt.Println("(* GENERATED on every run from the Go sources by /verif/gen/consts — do not edit. *)")
	fmt.Println("From Coq Require Import ZArith List String.")
	fmt.Println("Import ListNotations.")
	fmt.Println("Open Scope Z_scope.")
	fmt.Println("Open Scope string_scope.")
	fmt.Println()
	z("PegnetActivation", config.PegnetActivation)
	z("GradingV2Activation", config.GradingV2Activation)
	z("TransactionConversionActivation", config.TransactionConversionActivation)
	z("PEGPricingActivation", config.PEGPricingActivation)
	z("OneWaypFCTConversions", config.OneWaypFCTConversions)
	z("PegnetConversionLimitActivation", config.PegnetConversionLimitActivation)
	z("PEGFreeFloatingPriceActivation", config.PEGFreeFloatingPriceActivation)
	z("V4OPRUpdate", config.V4OPRUpdate)
	z("V20HeightActivation", config.V20HeightActivation)
	z("V20DevRewardsHeightActivation", config.V20DevRewardsHeightActivation)
	z("SprSignatureActivation", config.SprSignatureActivation)
	z("OneWaySmallAssetsConversions", config.OneWaySmallAssetsConversions)
	z("V202EnhanceActivation", config.V202EnhanceActivation)
	z("V204EnhanceActivation", config.V204EnhanceActivation)
	z("V204BurnMintedTokenActivation", config.V204BurnMintedTokenActivation)
	z("PIP10AverageActivation", config.PIP10AverageActivation)
	z("Fat2RCDEActivation", fat2.Fat2RCDEActivation)
	z("SnapshotRate", pegnet.SnapshotRate)
	z("AveragePeriod", node.AveragePeriod)
	z("AverageRequired", node.AverageRequired)
	z("PerBlock", uint64(conversions.PerBlock))
	z("PerBlockAssetHolders", uint64(conversions.PerBlockAssetHolders))
	z("PerBlockDevelopers", uint64(conversions.PerBlockDevelopers))
	z("BankBaseAmount", uint64(pegnet.BankBaseAmount))
	z("PegnetdSyncVersion", pegnet.PegnetdSyncVersion)
	z("QueryLimit", pegnet.QueryLimit)
	z("PTickerMax", int(fat2.PTickerMax))
	z("PTickerPEG", int(fat2.PTickerPEG))
	z("PTickerUSD", int(fat2.PTickerUSD))
	z("PTickerFCT", int(fat2.PTickerFCT))
	fmt.Println()

	// hard forks
	fmt.Print("Definition hardforks : list (Z * Z) := [")
	for i, f := range pegnet.Hardforks {
		if i > 0 {
			fmt.Print("; ")
		}
		fmt.Printf("(%d, %d)", f.ActivationHeight, f.MinimumVersion)
	}
	fmt.Println("].")

	// tickers
	fmt.Print("Definition ticker_names : list (Z * string) := [")
	for i := 1; i < int(fat2.PTickerMax); i++ {
		if i > 1 {
			fmt.Print("; ")
		}
		fmt.Printf("(%d, \"%s\")", i, fat2.PTicker(i).String())
	}
	fmt.Println("].")
	// StringToTicker must invert String on the valid range
	for i := 1; i < int(fat2.PTickerMax); i++ {
		if fat2.StringToTicker(fat2.PTicker(i).String()) != fat2.PTicker(i) {
			die("ticker table not invertible at %d", i)
		}
	}

	// special addresses
	z("GlobalBurnAddress", addrZ(node.GlobalBurnAddress))
	z("GlobalOldBurnAddress", addrZ(node.GlobalOldBurnAddress))
	z("GlobalMintAddress", addrZ(node.GlobalMintAddress))
	z("BurnRCD", bytesZ(node.BurnRCD[:]))
	coinbase := factom.FsAddress{}.FAAddress()
	z("Fat2CoinbaseAddress", bytesZ(coinbase[:]))
	z("TransactionChainFirstByte", int(config.TransactionChain[0]))

	// developer rewards: address, pct as exact binary64 bit pattern, and the two payouts the
	// code computes (binary64 product truncated to uint64), printed so the Coq side can
	// check its own primitive-float evaluation against them.
	fmt.Print("Definition dev_rewards : list (Z * Z * Z * Z) := [")
	for i, d := range node.DeveloperRewardAddreses {
		if i > 0 {
			fmt.Print(";\n  ")
		}
		pre := uint64((conversions.PerBlockDevelopers / 100) * d.DevRewardPct)
		post := uint64((conversions.PerBlockDevelopers / 100) * d.DevRewardPct * pegnet.SnapshotRate)
		fmt.Printf("(%s, %d, %d, %d)", addrZ(d.DevAddress), math.Float64bits(d.DevRewardPct), pre, post)
	}
	fmt.Println("].")

	fmt.Print("Definition mint_list : list (Z * Z) := [")
	for i, m := range node.MintTotalSupplyMap {
		if i > 0 {
			fmt.Print("; ")
		}
		// amount credited is tokenSupply.Amount*1e8 in uint64 arithmetic
		fmt.Printf("(%d, %d)", int(m.Ticker), m.Amount*1e8)
	}
	fmt.Println("].")

	// ---- items read off the AST of node/sync.go, node/opr.go, node/spr.go ----
	_, fsync := parseFile(filepath.Join(root, "node", "sync.go"))
	atb := findFunc(fsync, "applyTransactionBatch")
	if atb == nil {
		die("applyTransactionBatch not found")
	}
	var pfctOne, smallOne []string
	var pfctAct, smallAct string
	ast.Inspect(atb.Body, func(n ast.Node) bool {
		ifs, ok := n.(*ast.IfStmt)
		if !ok {
			return true
		}
		cs := exprString(ifs.Cond)
		// the guarded return must be the matching error
		ret := ""
		if len(ifs.Body.List) == 1 {
			if r, ok := ifs.Body.List[0].(*ast.ReturnStmt); ok && len(r.Results) == 1 {
				ret = exprString(r.Results[0])
			}
		}
		if ret == "pegnet.PFCTOneWayError" {
			convEqTickers(ifs.Cond, &pfctOne)
			if i := strings.Index(cs, "currentHeight>="); i >= 0 {
				pfctAct = strings.SplitN(cs[i+len("currentHeight>="):], "&&", 2)[0]
			}
		}
		if ret == "pegnet.PSMALLOneWayError" {
			convEqTickers(ifs.Cond, &smallOne)
			if i := strings.Index(cs, "currentHeight>="); i >= 0 {
				smallAct = strings.SplitN(cs[i+len("currentHeight>="):], "&&", 2)[0]
			}
		}
		return true
	})
	tick := func(names []string) string {
		var ids []int
		for _, n := range names {
			t := fat2.StringToTicker("p" + n)
			if n == "PEG" {
				t = fat2.PTickerPEG
			}
			if t == fat2.PTickerInvalid {
				die("unknown ticker ident %s", n)
			}
			ids = append(ids, int(t))
		}
		sort.Ints(ids)
		s := []string{}
		for _, i := range ids {
			s = append(s, fmt.Sprint(i))
		}
		return "[" + strings.Join(s, "; ") + "]"
	}
	if pfctAct != "config.OneWaypFCTConversions" || smallAct != "config.OneWaySmallAssetsConversions" {
		die("one-way guards changed shape: %q %q", pfctAct, smallAct)
	}
	fmt.Printf("Definition oneway_pfct_dests : list Z := %s.\n", tick(pfctOne))
	fmt.Printf("Definition oneway_small_dests : list Z := %s.\n", tick(smallOne))

	ladder := func(file, fn, name string) {
		_, f := parseFile(filepath.Join(root, "node", file))
		fd := findFunc(f, fn)
		if fd == nil {
			die("%s not found", fn)
		}
		init, steps, ok := versionLadder(fd)
		if !ok {
			die("%s: version ladder changed shape: %v", fn, steps)
		}
		fmt.Printf("Definition %s_init : Z := %s.\n", name, uint8lit(init))
		fmt.Printf("Definition %s : list (Z * Z) := [", name)
		for i, s := range steps {
			v, ok := activationByName(s[0])
			if !ok {
				die("%s: unknown activation %s", fn, s[0])
			}
			if i > 0 {
				fmt.Print("; ")
			}
			fmt.Printf("(%d, %s)", v, s[1])
		}
		fmt.Println("].")
		// and symbolically (names) so that schedule-independent statements can be made
		fmt.Printf("Definition %s_names : list (string * Z) := [", name)
		for i, s := range steps {
			if i > 0 {
				fmt.Print("; ")
			}
			fmt.Printf("(\"%s\", %s)", strings.TrimPrefix(s[0], "config."), s[1])
		}
		fmt.Println("].")
	}
	ladder("opr.go", "Grade", "opr_version_ladder")
	ladder("spr.go", "GradeS", "spr_version_ladder")
}
