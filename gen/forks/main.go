// gen/forks replays upgrade / downgrade histories against the REAL version-lock code of the
// repository (pegnet.Init, Pegnet.InsertSynced, SelectSynced, CheckHardForks, node.NewPegnetd)
// on a fresh sqlite file per history and prints, one per line, a Coq term of type
// Corr.Forks.forks_case:
//
//	(forks, base, [(build, blocks asked, blocks committed | -1 start-up refused); ...], cur,
//	 verdict of the final start-up (0 accepted, 1 fork check, 2 downgrade check, 3 other error),
//	 rows of pn_sync_version afterwards ordered by height)
//
// Usage: forks <mode> <seed> <count> [scratch-dir]
//
//	random   <seed> <n>   n seed-derived histories (after a fixed list of edge histories)
//	exh      <seed> <k>   every history of up to k sessions x {untracked,0,1,2} x {0,1,2} blocks
//	                      around 2 forks, 4 fork placements, final build 1 and 2
//	replay   -      -     histories read from stdin (one JSON object per line), replayed as given
//	neigh    -      -     histories read from stdin, every neighbour of each is replayed
//
// JSON history: {"forks":[[0,-1],[12,1]],"base":10,"sessions":[["U",2],["T1",3]],"cur":1}
//
// A tracked session is a real start-up (Init, SelectSynced, CheckHardForks exactly in the
// order of node.NewPegnetd; the final start-up of every 4th history goes through
// node.NewPegnetd itself, so "start-up aborts" is observed too) followed by real InsertSynced calls,
// each in its own committed sql.Tx as in DBlockSync.  An untracked session (a build that
// predates version tracking, which no longer exists in the repository) is the same REPLACE of
// the 'synced' row of pn_metadata that InsertSynced performs, and nothing else.
package main

import (
	"bufio"
	"context"
	"database/sql"
	"encoding/json"
	"fmt"
	"io/ioutil"
	"math/rand"
	"os"
	"path/filepath"
	"strconv"
	"strings"

	_ "github.com/mattn/go-sqlite3"
	"github.com/pegnet/pegnetd/config"
	"github.com/pegnet/pegnetd/node"
	"github.com/pegnet/pegnetd/node/pegnet"
	"github.com/sirupsen/logrus"
	"github.com/spf13/viper"
)

type sess struct {
	Tracked bool
	V       int
	N       int
}

type hist struct {
	Forks    []pegnet.ForkEvent
	Base     uint32
	Sessions []sess
	Cur      int
}

var (
	// forced: every tracked session is started with the hard-fork check overridden
	// (app.DisableHardForkCheck / --no-hf: node.NewPegnetd only logs the refusal), so the table
	// can hold any arrangement of versions; only the final start-up is checked
	forced  bool
	scratch string
	counter int
	// the final start-up of every viaNodeEvery-th history goes through node.NewPegnetd
	// (always in the replay and neigh modes)
	viaNodeEvery = 4
)

func die(format string, a ...interface{}) {
	fmt.Fprintf(os.Stderr, format+"\n", a...)
	if scratch != "" {
		os.RemoveAll(scratch)
	}
	os.Exit(3)
}

func conf(dbfile string) *viper.Viper {
	c := viper.New()
	c.Set(config.SqliteDBPath, dbfile)
	c.Set(config.Server, "http://127.0.0.1:1/v2") // never contacted
	return c
}

// the start of a process: pegnet.Init, then the synced height as NewPegnetd determines it
func open(c *viper.Viper) (*pegnet.Pegnet, uint32) {
	p := pegnet.New(c)
	if err := p.Init(); err != nil {
		die("pegnet.Init: %v", err)
	}
	var height uint32
	if bs, err := p.SelectSynced(context.Background(), p.DB); err != nil {
		if err != sql.ErrNoRows {
			die("SelectSynced: %v", err)
		}
		height = config.PegnetActivation // fresh database
	} else {
		height = bs.Synced
	}
	return p, height
}

// "([forks], base, [" of the printed case
func replayHeader(h hist) string {
	var sb strings.Builder
	sb.WriteString("([")
	for i, f := range h.Forks {
		if i > 0 {
			sb.WriteString("; ")
		}
		fmt.Fprintf(&sb, "(%d, %d)", f.ActivationHeight, f.MinimumVersion)
	}
	fmt.Fprintf(&sb, "], %d, [", h.Base)
	return sb.String()
}

func classify(err error) int {
	switch {
	case err == nil:
		return 0
	case strings.Contains(err.Error(), "a hardfork occurred at height"):
		return 1
	case strings.Contains(err.Error(), "pegnetd downgrade was detected"):
		return 2
	default:
		return 3
	}
}

func replay(h hist) string {
	counter++
	dbfile := filepath.Join(scratch, fmt.Sprintf("h%d.db", counter))
	defer func() {
		for _, suf := range []string{".v4", ".v4-journal", ".v4-wal", ".v4-shm"} {
			os.Remove(dbfile + suf)
		}
	}()
	pegnet.Hardforks = h.Forks
	config.PegnetActivation = h.Base
	c := conf(dbfile)

	var sb strings.Builder
	sb.WriteString(replayHeader(h))

	for i, s := range h.Sessions {
		done := 0
		if s.Tracked {
			pegnet.PegnetdSyncVersion = s.V
			p, height := open(c)
			// with the override the check still runs (and back-fills); only its refusal is ignored
			cerr := p.CheckHardForks(p.DB)
			if cerr != nil && classify(cerr) != 3 && forced {
				cerr = nil
			}
			if cerr != nil {
				if classify(cerr) == 3 {
					die("CheckHardForks: unexpected error %v", cerr)
				}
				done = -1
			} else {
				for k := 0; k < s.N; k++ {
					tx, err := p.DB.Begin()
					if err != nil {
						die("begin: %v", err)
					}
					if err := p.InsertSynced(tx, &pegnet.BlockSync{Synced: height + 1}); err != nil {
						tx.Rollback() // DBlockSync would retry this block for ever
						break
					}
					if err := tx.Commit(); err != nil {
						die("commit: %v", err)
					}
					height++
					done++
				}
			}
			p.DB.Close()
		} else {
			p, height := open(c)
			for k := 0; k < s.N; k++ {
				tx, err := p.DB.Begin()
				if err != nil {
					die("begin: %v", err)
				}
				data, _ := json.Marshal(&pegnet.BlockSync{Synced: height + 1})
				if _, err := tx.Exec("REPLACE INTO pn_metadata (name, value) VALUES ($1, $2)", "synced", data); err != nil {
					die("untracked sync: %v", err)
				}
				if err := tx.Commit(); err != nil {
					die("commit: %v", err)
				}
				height++
				done++
			}
			p.DB.Close()
		}
		if i > 0 {
			sb.WriteString("; ")
		}
		if s.Tracked {
			fmt.Fprintf(&sb, "(Tracked %s, %d, %d)", zs(s.V), s.N, done)
		} else {
			fmt.Fprintf(&sb, "(Untracked, %d, %d)", s.N, done)
		}
	}

	// the final start-up
	pegnet.PegnetdSyncVersion = h.Cur
	var verdict int
	if counter%viaNodeEvery == 0 {
		n, err := node.NewPegnetd(context.Background(), c)
		verdict = classify(err)
		if err != nil && !strings.HasPrefix(err.Error(), "pegnetd database hardfork check failed") {
			verdict = 3
		}
		if n != nil {
			n.Pegnet.DB.Close()
		}
	}
	p, _ := open(c)
	if counter%viaNodeEvery != 0 {
		verdict = classify(p.CheckHardForks(p.DB))
	}
	fmt.Fprintf(&sb, "], %s, %d, [", zs(h.Cur), verdict)

	rows, err := p.DB.Query("SELECT height, version FROM pn_sync_version ORDER BY height")
	if err != nil {
		die("select rows: %v", err)
	}
	first := true
	for rows.Next() {
		var height, version int64
		if err := rows.Scan(&height, &version); err != nil {
			die("scan: %v", err)
		}
		if !first {
			sb.WriteString("; ")
		}
		first = false
		fmt.Fprintf(&sb, "(%d, %d)", height, version)
	}
	rows.Close()
	p.DB.Close()
	sb.WriteString("])")
	return sb.String()
}

func zs(v int) string {
	if v < 0 {
		return fmt.Sprintf("(%d)", v)
	}
	return strconv.Itoa(v)
}

// ------------------------------------------------------------------ generators

func fk(a uint32, m int) pegnet.ForkEvent {
	return pegnet.ForkEvent{ActivationHeight: a, MinimumVersion: m}
}

func fixedHistories() []hist {
	f2 := []pegnet.ForkEvent{fk(0, -1), fk(12, 1)}
	f3 := []pegnet.ForkEvent{fk(0, -1), fk(12, 1), fk(14, 2)}
	U := func(n int) sess { return sess{false, 0, n} }
	T := func(v, n int) sess { return sess{true, v, n} }
	return []hist{
		{f2, 10, nil, 1},
		{f2, 10, []sess{U(1)}, 1},                   // legacy, below the fork
		{f2, 10, []sess{U(2)}, 1},                   // legacy, synced exactly to the fork height
		{f2, 10, []sess{U(3)}, 1},                   // legacy, past the fork
		{f2, 10, []sess{U(1), T(1, 3)}, 1},          // upgraded in time
		{f2, 10, []sess{T(0, 1), T(1, 3)}, 1},       // tracked all along, upgraded in time
		{f2, 10, []sess{T(0, 2), T(1, 3)}, 1},       // old tracked build synced the fork block
		{f3, 10, []sess{T(1, 3), T(2, 3)}, 2},       // two forks, both in time
		{f3, 10, []sess{T(1, 4), T(2, 3)}, 2},       // second fork block by the old build
		{f3, 10, []sess{T(2, 5)}, 1},                // downgrade
		{f3, 10, []sess{T(2, 1)}, 1},                // downgrade below every fork
		{f3, 10, []sess{T(1, 3), U(2), T(2, 2)}, 2}, // untracked build after a tracked one
		{f2, 10, []sess{T(1, 3), U(2)}, 1},          // Refuted/C19.v version_lock_iff_any_order_refuted
		{f2, 10, []sess{T(1, 3), U(2), T(1, 2)}, 1}, // Refuted/C19.v version_lock_gap_between_tracked_sessions_refuted
		{f3, 10, []sess{U(2), T(1, 0), U(1), T(1, 1)}, 1},
		{f3, 10, []sess{T(1, 1), T(1, 1), T(1, 1)}, 1},
		{[]pegnet.ForkEvent{fk(0, -1), fk(5, 1)}, 10, []sess{T(1, 2)}, 1}, // fork below the base height
		{[]pegnet.ForkEvent{fk(0, 0)}, 0, nil, 0},                         // fork {0, 0}: fresh database
		{[]pegnet.ForkEvent{fk(12, 1)}, 10, []sess{U(1), T(1, 1)}, 1},     // table without the {0,-1} entry
		{[]pegnet.ForkEvent{fk(12, 1)}, 10, []sess{U(1), T(1, 2)}, 1},
	}
}

// histories on the fork table, base height and sync version the repository is compiled with
func realHistories() []hist {
	forks := append([]pegnet.ForkEvent{}, pegnet.Hardforks...)
	base, cur := config.PegnetActivation, pegnet.PegnetdSyncVersion
	U := func(n int) sess { return sess{false, 0, n} }
	T := func(v, n int) sess { return sess{true, v, n} }
	hs := []hist{
		{forks, base, nil, cur},
		{forks, base, []sess{T(cur, 2)}, cur},
		{forks, base, []sess{T(cur, 1), T(cur, 2), T(cur, 0)}, cur},
		{forks, base, []sess{U(2)}, cur},
		{forks, base, []sess{U(2), T(cur, 2)}, cur},
		{forks, base, []sess{T(cur+1, 1)}, cur},
		{forks, base, []sess{U(1), T(cur+1, 2), T(cur, 1)}, cur},
	}
	if cur > 0 {
		hs = append(hs, hist{forks, base, []sess{T(cur-1, 2), T(cur, 2)}, cur})
	}
	return hs
}

// realForced: the repository's own fork table with an old build between two forks and an adequate
// one from just below the next fork on (the first start of the adequate build was overridden)
func realForced() []hist {
	var hs []hist
	real := realHistories()
	if len(real) == 0 {
		return hs
	}
	forks := real[0].Forks
	var acts []pegnet.ForkEvent
	for _, f := range forks {
		if f.MinimumVersion > -1 {
			acts = append(acts, f)
		}
	}
	for i := 0; i+1 < len(acts); i++ {
		a, b := acts[i], acts[i+1]
		if b.ActivationHeight <= a.ActivationHeight || b.ActivationHeight-a.ActivationHeight > 3000 {
			continue
		}
		base := a.ActivationHeight - 3
		gap := int(b.ActivationHeight-a.ActivationHeight) - 2
		hs = append(hs, hist{forks, base, []sess{{true, a.MinimumVersion - 1, 8}, {true, b.MinimumVersion, gap + 6}}, b.MinimumVersion})
		hs = append(hs, hist{forks, base, []sess{{true, a.MinimumVersion, 8}, {true, b.MinimumVersion, gap + 6}}, b.MinimumVersion})
	}
	return hs
}

func randomHistory(rng *rand.Rand) hist {
	var h hist
	h.Base = []uint32{0, 1, 10, 10, 10, 100}[rng.Intn(6)]
	nf := 1 + rng.Intn(3)
	if rng.Intn(15) != 0 {
		h.Forks = append(h.Forks, fk(0, -1))
	}
	var heights []uint32
	for len(h.Forks) < nf {
		a := h.Base + 1 + uint32(rng.Intn(8))
		m := len(h.Forks)
		switch rng.Intn(12) {
		case 0:
			m = rng.Intn(4)
		case 1: // a fork at or below the base height (outside the theorem's hypotheses)
			a = h.Base - uint32(rng.Intn(2))
			if a > h.Base {
				a = 0
			}
		}
		h.Forks = append(h.Forks, fk(a, m))
		heights = append(heights, a)
	}
	ns := 1 + rng.Intn(4)
	top := h.Base
	legacy := rng.Intn(2) == 0
	for i := 0; i < ns; i++ {
		var s sess
		untr := rng.Intn(6) == 0
		if legacy && i == 0 {
			untr = rng.Intn(4) != 0
		}
		if !untr {
			s.Tracked = true
			s.V = rng.Intn(4)
			if rng.Intn(3) != 0 { // mostly a plausible upgrade path
				s.V = i
				if s.V > 3 {
					s.V = 3
				}
			}
		}
		s.N = rng.Intn(7)
		if len(heights) > 0 && rng.Intn(3) != 0 { // stop at A-1, A or A+1 of some fork
			target := int(heights[rng.Intn(len(heights))]) + rng.Intn(3) - 1
			if d := target - int(top); d >= 0 && d <= 6 {
				s.N = d
			}
		}
		top += uint32(s.N)
		h.Sessions = append(h.Sessions, s)
	}
	h.Cur = rng.Intn(4)
	if rng.Intn(2) == 0 {
		h.Cur = len(h.Forks) - 1
	}
	return h
}

func exhaustive(k int, emit func(hist)) {
	placements := [][]pegnet.ForkEvent{
		{fk(0, -1), fk(11, 1), fk(12, 2)},
		{fk(0, -1), fk(11, 1), fk(13, 2)},
		{fk(0, -1), fk(12, 1), fk(13, 2)},
		{fk(0, -1), fk(12, 1), fk(14, 2)},
	}
	var opts []sess
	for n := 0; n <= 2; n++ {
		opts = append(opts, sess{false, 0, n})
		for v := 0; v <= 2; v++ {
			opts = append(opts, sess{true, v, n})
		}
	}
	var rec func(prefix []sess, left int, f func([]sess))
	rec = func(prefix []sess, left int, f func([]sess)) {
		f(prefix)
		if left == 0 {
			return
		}
		for _, o := range opts {
			rec(append(append([]sess{}, prefix...), o), left-1, f)
		}
	}
	for _, pl := range placements {
		for cur := 1; cur <= 2; cur++ {
			rec(nil, k, func(ss []sess) { emit(hist{pl, 10, ss, cur}) })
		}
	}
}

func neighbours(h hist, emit func(hist)) {
	cp := func() hist {
		g := hist{Base: h.Base, Cur: h.Cur}
		g.Forks = append([]pegnet.ForkEvent{}, h.Forks...)
		g.Sessions = append([]sess{}, h.Sessions...)
		return g
	}
	emit(cp())
	for d := -1; d <= 1; d += 2 {
		g := cp()
		if g.Cur+d >= 0 {
			g.Cur += d
			emit(g)
		}
		for i := range h.Forks {
			g = cp()
			if a := int64(g.Forks[i].ActivationHeight) + int64(d); a >= 0 {
				g.Forks[i].ActivationHeight = uint32(a)
				emit(g)
			}
			g = cp()
			if g.Forks[i].MinimumVersion+d >= -1 {
				g.Forks[i].MinimumVersion += d
				emit(g)
			}
		}
		for i := range h.Sessions {
			g = cp()
			if g.Sessions[i].N+d >= 0 {
				g.Sessions[i].N += d
				emit(g)
			}
			if g.Sessions[i].Tracked && g.Sessions[i].V+d >= 0 {
				g = cp()
				g.Sessions[i].V += d
				emit(g)
			}
		}
	}
	for i := range h.Sessions {
		g := cp()
		g.Sessions = append(g.Sessions[:i], g.Sessions[i+1:]...)
		emit(g)
		g = cp()
		g.Sessions[i].Tracked = !g.Sessions[i].Tracked
		emit(g)
		// every prefix is a history of its own
		g = cp()
		g.Sessions = g.Sessions[:i]
		emit(g)
	}
	for i := range h.Forks {
		g := cp()
		g.Forks = append(g.Forks[:i], g.Forks[i+1:]...)
		emit(g)
	}
}

// ------------------------------------------------------------------ JSON histories

type jhist struct {
	Forks    [][2]int64      `json:"forks"`
	Base     uint32          `json:"base"`
	Sessions [][]interface{} `json:"sessions"`
	Cur      int             `json:"cur"`
}

func parseHist(line string) hist {
	var j jhist
	if err := json.Unmarshal([]byte(line), &j); err != nil {
		die("bad history %q: %v", line, err)
	}
	h := hist{Base: j.Base, Cur: j.Cur}
	for _, f := range j.Forks {
		h.Forks = append(h.Forks, fk(uint32(f[0]), int(f[1])))
	}
	for _, s := range j.Sessions {
		if len(s) < 2 {
			die("bad session in %q", line)
		}
		b, _ := s[0].(string)
		n, _ := s[1].(float64)
		x := sess{N: int(n)}
		if strings.HasPrefix(b, "T") {
			x.Tracked = true
			v, err := strconv.Atoi(b[1:])
			if err != nil {
				die("bad build %q", b)
			}
			x.V = v
		}
		h.Sessions = append(h.Sessions, x)
	}
	return h
}

func main() {
	if len(os.Args) < 4 {
		fmt.Fprintln(os.Stderr, "usage: forks <random|forced|exh|replay|neigh> <seed> <count> [scratch-dir]")
		os.Exit(2)
	}
	logrus.SetOutput(ioutil.Discard)
	seed, _ := strconv.ParseInt(os.Args[2], 10, 64)
	n, _ := strconv.Atoi(os.Args[3])
	base := ""
	if len(os.Args) > 4 {
		base = os.Args[4]
	}
	var err error
	scratch, err = ioutil.TempDir(base, "forksdb")
	if err != nil {
		die("scratch: %v", err)
	}
	defer os.RemoveAll(scratch)
	// the cases go to the real stdout; whatever the libraries print with fmt.Print* (the LXR
	// table loader does) must not land in the middle of a case line
	out := bufio.NewWriter(os.Stdout)
	os.Stdout = os.Stderr
	defer out.Flush()
	// VERIF_SHARD=i/n: replay only the histories whose ordinal is i modulo n (parallel runs)
	shardI, shardN, ordinal := 0, 1, 0
	if sh := os.Getenv("VERIF_SHARD"); sh != "" {
		if _, err := fmt.Sscanf(sh, "%d/%d", &shardI, &shardN); err != nil || shardN < 1 {
			die("bad VERIF_SHARD %q", sh)
		}
	}
	emit := func(h hist) {
		ordinal++
		if (ordinal-1)%shardN == shardI {
			fmt.Fprintln(out, replay(h))
		}
	}
	switch os.Args[1] {
	case "random":
		rng := rand.New(rand.NewSource(seed))
		real := realHistories()
		fmt.Fprintf(out, "# real %s\n", strings.SplitN(replayHeader(real[0]), "[], ", 2)[0])
		for _, h := range append(real, fixedHistories()...) {
			emit(h)
		}
		for i := 0; i < n; i++ {
			emit(randomHistory(rng))
		}
	case "forced":
		forced = true
		viaNodeEvery = 1 << 30
		rng := rand.New(rand.NewSource(seed + 991))
		for _, h := range append(realForced(), fixedHistories()...) {
			emit(h)
		}
		for i := 0; i < n; i++ {
			h := randomHistory(rng)
			// versions in any order, not mostly an upgrade path
			for j := range h.Sessions {
				if h.Sessions[j].Tracked && rng.Intn(2) == 0 {
					h.Sessions[j].V = rng.Intn(4)
				}
			}
			emit(h)
		}
	case "exh":
		exhaustive(n, emit)
	case "replay", "neigh":
		viaNodeEvery = 1
		sc := bufio.NewScanner(os.Stdin)
		sc.Buffer(make([]byte, 1<<20), 1<<20)
		for sc.Scan() {
			line := strings.TrimSpace(sc.Text())
			if line == "" {
				continue
			}
			if os.Args[1] == "replay" {
				emit(parseHist(line))
			} else {
				neighbours(parseHist(line), emit)
			}
		}
	default:
		fmt.Fprintln(os.Stderr, "unknown:", os.Args[1])
		out.Flush()
		os.RemoveAll(scratch)
		os.Exit(2)
	}
}
