module verifgen

go 1.13

require (
	github.com/Factom-Asset-Tokens/base58 v0.0.0-20181227014902-61655c4dd885
	github.com/Factom-Asset-Tokens/factom v0.0.0-20191114224337-71de98ff5b3e
	github.com/ethereum/go-ethereum v1.9.9
	github.com/mattn/go-sqlite3 v1.11.0
	github.com/pegnet/pegnetd v0.0.0
	github.com/sirupsen/logrus v1.4.2
	github.com/spf13/viper v1.4.0
)

replace github.com/pegnet/pegnetd => /repo

replace github.com/Factom-Asset-Tokens/factom => github.com/Emyrk/factom v0.0.0-20200113153851-17d98c31e1bd

replace crawshaw.io/sqlite => github.com/AdamSLevy/sqlite v0.1.3-0.20191014215059-b98bb18889de

replace github.com/spf13/pflag v1.0.3 => github.com/AdamSLevy/pflag v1.0.4
