// gen/codec runs the REAL fat2 decoder / validator (and fat103 / factom signature checks) on
// generated inputs and prints, one per line, a Coq term holding the input, everything the
// Coq model needs from the outside world for that input (base58check answers, signature
// verification answers, RCD hashes) and what the Go code returned.  bin/props/c20_json.py
// and bin/props/c05.py wrap the lines into a cases file evaluated against Model/Codec.v.
//
// Usage: codec json <seed> <n>      batch contents: structured mostly-valid + malformed stream
//        codec extids <seed> <n>    signed entries and their mutations
//        codec extids-flips <seed> <k>   every single-bit flip of k short signed entries
//        codec one-json <hex>       a single content (replay)
//
// Byte strings are printed as (ub [..]%uint63) (see Corr/Codec.v), 32-byte values as (zb [..]%uint63).
// json line:   (input, [(text, addr)], [(addr, text)], compact_len,
//               option (version, [tx], valid_data, int64_ok, pegtx_ok, roundtrip_ok), option (hex canonical encoding))
// extids line: (hex chain, [hex extid], hex content, timestamp, height, [(hex text, addr)],
//               [(rcdtype, hex pubkey, hex msg, hex sig_as_passed, verified)], [(hex rcd, hash)],
//               option bool (* ValidExtIDs alone, None = content does not decode *), option [tx] (* NewTransactionBatch *))
package main

import (
	"bytes"
	"crypto/ed25519"
	"crypto/sha256"
	"crypto/sha512"
	"encoding/hex"
	"encoding/json"
	"fmt"
	"math/rand"
	"os"
	"reflect"
	"strconv"
	"strings"
	"time"

	"github.com/Factom-Asset-Tokens/base58"
	"github.com/Factom-Asset-Tokens/factom"
	"github.com/Factom-Asset-Tokens/factom/jsonlen"
	"github.com/ethereum/go-ethereum/crypto"
	"github.com/pegnet/pegnetd/config"
	"github.com/pegnet/pegnetd/fat/fat2"
)

var rng *rand.Rand

// ------------------------------------------------------------------ a tiny JSON AST
type node struct {
	kind  byte // 'o' object, 'a' array, 's' string (raw body), 'l' literal text (numbers, true, false, null, junk)
	raw   string
	keys  []string // raw key bodies (between the quotes)
	items []*node
}

func lit(s string) *node  { return &node{kind: 'l', raw: s} }
func str(s string) *node  { return &node{kind: 's', raw: s} }
func arr(xs ...*node) *node { return &node{kind: 'a', items: xs} }
func obj() *node          { return &node{kind: 'o'} }
func (n *node) add(k string, v *node) *node {
	n.keys = append(n.keys, k)
	n.items = append(n.items, v)
	return n
}
func (n *node) clone() *node {
	c := &node{kind: n.kind, raw: n.raw}
	c.keys = append([]string(nil), n.keys...)
	for _, it := range n.items {
		c.items = append(c.items, it.clone())
	}
	return c
}
func (n *node) find(k string) int {
	for i, kk := range n.keys {
		if kk == k {
			return i
		}
	}
	return -1
}
func (n *node) del(i int) {
	n.keys = append(n.keys[:i:i], n.keys[i+1:]...)
	n.items = append(n.items[:i:i], n.items[i+1:]...)
}

var wsProb = 0

func ws(b *bytes.Buffer) {
	if wsProb > 0 && rng.Intn(100) < wsProb {
		for i := rng.Intn(3) + 1; i > 0; i-- {
			b.WriteByte(" \t\n\r"[rng.Intn(4)])
		}
	}
}
func (n *node) write(b *bytes.Buffer) {
	ws(b)
	switch n.kind {
	case 'l':
		b.WriteString(n.raw)
	case 's':
		b.WriteByte('"')
		b.WriteString(n.raw)
		b.WriteByte('"')
	case 'a':
		b.WriteByte('[')
		for i, it := range n.items {
			if i > 0 {
				ws(b)
				b.WriteByte(',')
			}
			it.write(b)
		}
		ws(b)
		b.WriteByte(']')
	case 'o':
		b.WriteByte('{')
		for i, it := range n.items {
			if i > 0 {
				ws(b)
				b.WriteByte(',')
			}
			ws(b)
			b.WriteByte('"')
			b.WriteString(n.keys[i])
			b.WriteByte('"')
			ws(b)
			b.WriteByte(':')
			it.write(b)
		}
		ws(b)
		b.WriteByte('}')
	}
	ws(b)
}
func (n *node) bytes() []byte {
	var b bytes.Buffer
	n.write(&b)
	return b.Bytes()
}

// all object nodes below n
func (n *node) objects(acc *[]*node) {
	if n.kind == 'o' {
		*acc = append(*acc, n)
	}
	for _, it := range n.items {
		it.objects(acc)
	}
}

// ------------------------------------------------------------------ addresses, tickers, amounts
var addrPool []factom.FAAddress
var coinbase = factom.FsAddress{}.FAAddress()

func seedN(label string, i int) [32]byte {
	return sha256.Sum256([]byte(fmt.Sprintf("verifgen/%s/%d", label, i)))
}

func initPool() {
	for i := 0; i < 6; i++ {
		addrPool = append(addrPool, factom.FsAddress(seedN("ed", i)).FAAddress())
	}
	for i := 0; i < 2; i++ {
		addrPool = append(addrPool, factom.EthSecret(seedN("eth", i)).FAAddress())
	}
}

func addrInt(a factom.FAAddress) string { return "(zb " + packed(a[:]) + ")" }

// a spelling of the same payload with other version bytes that still starts with FA and has 52 characters
func altSpelling(a factom.FAAddress) (string, bool) {
	for _, v := range [][]byte{{0x5f, 0xb0}, {0x5f, 0xb2}, {0x5f, 0xa9}, {0x5f, 0xba}, {0x5f, 0xa5}, {0x5f, 0xbf}} {
		s := base58.CheckEncode(a[:], v...)
		if len(s) == 52 && s[:2] == "FA" {
			return s, true
		}
	}
	return "", false
}

func escapeSome(s string) string {
	var b strings.Builder
	for i := 0; i < len(s); i++ {
		if rng.Intn(8) == 0 {
			if rng.Intn(2) == 0 {
				fmt.Fprintf(&b, "\\u%04x", s[i])
			} else {
				fmt.Fprintf(&b, "\\u%04X", s[i])
			}
		} else {
			b.WriteByte(s[i])
		}
	}
	return b.String()
}

func goodTicker() fat2.PTicker { return fat2.PTicker(1 + rng.Intn(int(fat2.PTickerMax)-1)) }

func amountEdge() uint64 {
	edges := []uint64{0, 1, 2, 9, 10, 99, 100, 1e8, 12345678901, 1<<63 - 1, 1 << 63, 1<<64 - 1, 1<<63 - 2, 1 << 62}
	switch rng.Intn(5) {
	case 0:
		return edges[rng.Intn(len(edges))]
	case 1:
		return rng.Uint64() >> uint(rng.Intn(64))
	default:
		return uint64(rng.Int63n(1e10))
	}
}

func u(x uint64) *node { return lit(strconv.FormatUint(x, 10)) }

func tupleNode(a factom.FAAddress, amt uint64) *node {
	return obj().add("address", str(a.String())).add("amount", u(amt))
}
func inputNode(a factom.FAAddress, amt uint64, t fat2.PTicker) *node {
	return tupleNode(a, amt).add("type", str(t.String()))
}

func metaNode(depth int) *node {
	switch rng.Intn(9) {
	case 0:
		return lit("null")
	case 1:
		return lit("true")
	case 2:
		return lit([]string{"0", "-1", "1.5", "1e9", "-0.0E-2", "123456789012345678901234567890"}[rng.Intn(6)])
	case 3:
		return str([]string{"", "memo", "a\\nb", "\\u00e9\\\"q\\\\", "\xc3\xa9", "\\ud83d\\ude00", "\\ud800", "{\\\"x\\\":1}", "sp ace", "\xff\xfe"}[rng.Intn(10)])
	case 4, 5:
		if depth > 2 {
			return lit("false")
		}
		o := obj()
		for i := rng.Intn(3); i > 0; i-- {
			o.add([]string{"a", "memo", "input", "type", "k\\u0041", ""}[rng.Intn(6)], metaNode(depth+1))
		}
		return o
	default:
		if depth > 2 {
			return arr()
		}
		a := arr()
		for i := rng.Intn(3); i > 0; i-- {
			a.items = append(a.items, metaNode(depth+1))
		}
		return a
	}
}

// a structurally valid batch (ValidData passes unless an amount edge says otherwise)
func validBatch() *node {
	in := addrPool[rng.Intn(len(addrPool))]
	ntx := 1 + rng.Intn(3)
	txs := arr()
	for i := 0; i < ntx; i++ {
		t := goodTicker()
		tx := obj()
		if rng.Intn(2) == 0 { // transfers
			k := 1 + rng.Intn(3)
			var sum uint64
			outs := arr()
			for j := 0; j < k; j++ {
				amt := amountEdge()
				if sum+amt < sum {
					amt = 0
				}
				sum += amt
				to := addrPool[rng.Intn(len(addrPool))]
				if rng.Intn(12) == 0 {
					to = coinbase
				}
				outs.items = append(outs.items, tupleNode(to, amt))
			}
			tx.add("input", inputNode(in, sum, t)).add("transfers", outs)
		} else {
			c := goodTicker()
			for c == t {
				c = goodTicker()
			}
			tx.add("input", inputNode(in, amountEdge(), t)).add("conversion", str(c.String()))
		}
		if rng.Intn(5) == 0 {
			tx.add("metadata", metaNode(0))
		}
		txs.items = append(txs.items, tx)
	}
	return obj().add("version", lit("1")).add("transactions", txs)
}

// navigation helpers on a batch-shaped tree (they return nil when the shape is gone)
func txOf(b *node) *node {
	i := b.find("transactions")
	if i < 0 || b.items[i].kind != 'a' || len(b.items[i].items) == 0 {
		return nil
	}
	t := b.items[i].items[rng.Intn(len(b.items[i].items))]
	if t.kind != 'o' {
		return nil
	}
	return t
}
func inputOf(tx *node) *node {
	if tx == nil {
		return nil
	}
	i := tx.find("input")
	if i < 0 || tx.items[i].kind != 'o' {
		return nil
	}
	return tx.items[i]
}
func anyTuple(b *node) *node {
	tx := txOf(b)
	if tx == nil {
		return nil
	}
	i := tx.find("transfers")
	if i >= 0 && tx.items[i].kind == 'a' && len(tx.items[i].items) > 0 && rng.Intn(2) == 0 {
		t := tx.items[i].items[rng.Intn(len(tx.items[i].items))]
		if t.kind == 'o' {
			return t
		}
	}
	return inputOf(tx)
}

func junkValueOfLen(n int) *node {
	// a JSON value with exactly n bytes of compact text
	switch {
	case n <= 0:
		return nil
	case n == 1:
		return lit("7")
	case n == 2:
		return []*node{lit("42"), arr(), obj(), str("")}[rng.Intn(4)]
	case n == 4 && rng.Intn(2) == 0:
		return lit([]string{"null", "true"}[rng.Intn(2)])
	default:
		if rng.Intn(2) == 0 {
			return str(strings.Repeat("x", n-2))
		}
		return lit("1" + strings.Repeat("0", n-1))
	}
}

// add a junk member `,"k":v` of exactly total bytes (total >= 6)
func addJunkOfLen(o *node, total int, key string) bool {
	// ,"key":value  = 1 + 2 + len(key) + 1 + len(value)
	vl := total - 4 - len(key)
	v := junkValueOfLen(vl)
	if v == nil {
		return false
	}
	pos := rng.Intn(len(o.keys) + 1)
	o.keys = append(o.keys[:pos:pos], append([]string{key}, o.keys[pos:]...)...)
	o.items = append(o.items[:pos:pos], append([]*node{v}, o.items[pos:]...)...)
	return true
}

var keyVariants = map[string][]string{
	"address":      {"Address", "ADDRESS", "addresS", "addre\xc5\xbf\xc5\xbf", "addres\xc5\xbf", "\\u0061ddress", "addr\\u0065ss", "address ", "adress", "addr\xc3\xa9ss"},
	"amount":       {"Amount", "AMOUNT", "amounT", "\\u0041mount", "amoun\\u0074", "amount\\u0000"},
	"type":         {"Type", "TYPE", "tYpe", "typ\\u0065", "typ\\u0045"},
	"input":        {"Input", "INPUT", "inpuT", "\\u0069nput"},
	"transfers":    {"Transfers", "TRANSFERS", "tran\xc5\xbffers", "transfer\xc5\xbf", "transfer\\u017f", "transfer\\u017F"},
	"conversion":   {"Conversion", "CONVERSION", "conver\xc5\xbfion", "conver\\u017fion"},
	"metadata":     {"Metadata", "METADATA", "metadatA"},
	"version":      {"Version", "VERSION", "ver\xc5\xbfion", "ver\\u017fion", "versioN"},
	"transactions": {"Transactions", "TRANSACTIONS", "tran\xc5\xbfactions", "transaction\xc5\xbf", "tran\xe2\x84\xaaactions"},
}

func variantOf(k string) string {
	if v, ok := keyVariants[k]; ok && rng.Intn(3) > 0 {
		return v[rng.Intn(len(v))]
	}
	b := []byte(k)
	for i := range b {
		if rng.Intn(3) == 0 && b[i] >= 'a' && b[i] <= 'z' {
			b[i] -= 32
		}
	}
	return string(b)
}

var badNumbers = []string{"05", "5.0", "5e0", "-1", "-0", "18446744073709551616", "18446744073709551615", "1E2", "0.0",
	"00", "1e", "+1", "0x10", "1_000", ".5", "5.", "9223372036854775807", "9223372036854775808", "99999999999999999999", "1.0e1", "-", "\"5\"", "true", "[5]", "{}"}
var badTickers = []string{"", "invalid", "invalid token type", "pXXX", "peg", "PEG ", "pusd", "PUSD", "p", "pU", "PE", "null", "0", "\\\"pUSD\\\"", "\\\"PEG\\\"", "p\\u0055SD", "PE\\u0047", "pUSD\\u0000", "pFCT\\n", "\\\"\\\"pUSD", "FCT", "pPEG", "\xc3\xa9\xc3\xa9"}

// one random mutation of a batch-shaped tree; returns a label
func mutate(b *node) string {
	var objs []*node
	b.objects(&objs)
	pick := func() *node { return objs[rng.Intn(len(objs))] }
	switch rng.Intn(30) {
	case 0: // duplicate key, same value
		o := pick()
		if len(o.keys) == 0 {
			return "noop"
		}
		i := rng.Intn(len(o.keys))
		pos := rng.Intn(len(o.keys) + 1)
		k, v := o.keys[i], o.items[i].clone()
		o.keys = append(o.keys[:pos:pos], append([]string{k}, o.keys[pos:]...)...)
		o.items = append(o.items[:pos:pos], append([]*node{v}, o.items[pos:]...)...)
		return "dup-key-same"
	case 1: // duplicate key, different value
		o := pick()
		if len(o.keys) == 0 {
			return "noop"
		}
		i := rng.Intn(len(o.keys))
		v := []*node{lit("null"), lit("0"), str(""), arr(), obj(), lit("5")}[rng.Intn(6)]
		k := o.keys[i]
		if rng.Intn(2) == 0 {
			k = variantOf(k)
		}
		if rng.Intn(2) == 0 {
			o.keys = append([]string{k}, o.keys...)
			o.items = append([]*node{v}, o.items...)
		} else {
			o.add(k, v)
		}
		return "dup-key-other"
	case 2: // unknown key
		pick().add([]string{"x", "memo", "Address2", "amount ", "", "typ", "inputs", "\\u0078"}[rng.Intn(8)], metaNode(1))
		return "unknown-key"
	case 3: // length compensation: drop type, add 28 junk bytes to the input tuple
		in := inputOf(txOf(b))
		if in == nil {
			return "noop"
		}
		if i := in.find("type"); i >= 0 {
			in.del(i)
			key := []string{"x", "memo", "tYpe2", "addre\xc5\xbf\xc5\xbf", "address", "amount"}[rng.Intn(6)]
			tot := 28
			if rng.Intn(4) == 0 {
				tot += rng.Intn(3) - 1
			}
			if (key == "address" || key == "amount") && rng.Intn(2) == 0 {
				// a duplicate of a real field placed FIRST so that the later one wins
				vl := tot - 4 - len(key)
				v := junkValueOfLen(vl)
				if v != nil {
					in.keys = append([]string{key}, in.keys...)
					in.items = append([]*node{v}, in.items...)
					return "compensate-type-dupfield"
				}
			}
			addJunkOfLen(in, tot, key)
			return "compensate-type"
		}
		return "noop"
	case 4: // length compensation at the transaction level: drop transfers/conversion, add 13
		tx := txOf(b)
		if tx == nil {
			return "noop"
		}
		for _, k := range []string{"transfers", "conversion"} {
			if i := tx.find(k); i >= 0 {
				tx.del(i)
			}
		}
		tot := 13
		if rng.Intn(4) == 0 {
			tot += rng.Intn(3) - 1
		}
		addJunkOfLen(tx, tot, []string{"x", "memo", "ab"}[rng.Intn(3)])
		return "compensate-tx"
	case 5: // case / escape / unicode variant of a key
		o := pick()
		if len(o.keys) == 0 {
			return "noop"
		}
		i := rng.Intn(len(o.keys))
		o.keys[i] = variantOf(o.keys[i])
		return "key-variant"
	case 6: // escapes inside an address string
		t := anyTuple(b)
		if t == nil {
			return "noop"
		}
		if i := t.find("address"); i >= 0 && t.items[i].kind == 's' {
			t.items[i].raw = escapeSome(t.items[i].raw)
			return "address-escapes"
		}
		return "noop"
	case 7: // non-canonical number
		t := anyTuple(b)
		if t == nil || rng.Intn(5) == 0 {
			if i := b.find("version"); i >= 0 {
				b.items[i] = lit(append(badNumbers, "0", "2", "1.0", "01", "1e0", "\"1\"", "null")[rng.Intn(len(badNumbers)+7)])
				return "version-number"
			}
			return "noop"
		}
		if i := t.find("amount"); i >= 0 {
			t.items[i] = lit(badNumbers[rng.Intn(len(badNumbers))])
			return "amount-number"
		}
		return "noop"
	case 8: // null leaves
		switch rng.Intn(8) {
		case 0:
			if t := anyTuple(b); t != nil {
				if i := t.find("amount"); i >= 0 {
					t.items[i] = lit("null")
					// keep the sum right sometimes: null everything of that tx
					return "null-amount"
				}
			}
		case 1:
			if t := anyTuple(b); t != nil {
				if i := t.find("address"); i >= 0 {
					t.items[i] = lit("null")
					return "null-address"
				}
			}
		case 2:
			if in := inputOf(txOf(b)); in != nil {
				if i := in.find("type"); i >= 0 {
					in.items[i] = lit("null")
					return "null-type"
				}
			}
		case 3:
			if tx := txOf(b); tx != nil {
				k := []string{"conversion", "transfers", "input", "metadata"}[rng.Intn(4)]
				if i := tx.find(k); i >= 0 {
					tx.items[i] = lit("null")
				} else {
					tx.add(k, lit("null"))
				}
				return "null-" + k
			}
		case 4:
			k := []string{"version", "transactions"}[rng.Intn(2)]
			if i := b.find(k); i >= 0 {
				b.items[i] = lit("null")
				return "null-" + k
			}
		case 5:
			if i := b.find("transactions"); i >= 0 && b.items[i].kind == 'a' && len(b.items[i].items) > 0 {
				b.items[i].items[rng.Intn(len(b.items[i].items))] = lit("null")
				return "null-tx"
			}
		case 6:
			if tx := txOf(b); tx != nil {
				if i := tx.find("transfers"); i >= 0 && tx.items[i].kind == 'a' && len(tx.items[i].items) > 0 {
					tx.items[i].items[0] = lit("null")
					return "null-tuple"
				}
			}
		case 7: // a whole transfer made of nulls with a zero input: accepted by the code?
			if tx := txOf(b); tx != nil {
				if in := inputOf(tx); in != nil {
					if i := in.find("amount"); i >= 0 {
						in.items[i] = lit("null")
					}
					if j := tx.find("conversion"); j >= 0 {
						tx.del(j)
					}
					if j := tx.find("transfers"); j >= 0 {
						tx.del(j)
					}
					tx.add("transfers", arr(obj().add("address", str(addrPool[0].String())).add("amount", lit("null"))))
					return "null-amounts-consistent"
				}
			}
		}
		return "noop"
	case 9: // tickers
		tx := txOf(b)
		if tx == nil {
			return "noop"
		}
		bad := badTickers[rng.Intn(len(badTickers))]
		if rng.Intn(2) == 0 {
			if in := inputOf(tx); in != nil {
				if i := in.find("type"); i >= 0 {
					switch rng.Intn(6) {
					case 0:
						in.items[i] = lit(strconv.Itoa(rng.Intn(3)))
					case 1:
						in.items[i] = lit("true")
					default:
						in.items[i] = str(bad)
					}
					return "bad-type"
				}
			}
			return "noop"
		}
		v := str(bad)
		switch rng.Intn(8) {
		case 0:
			v = lit(strconv.Itoa(rng.Intn(70)))
		case 1:
			v = arr(str("pUSD"))
		case 2:
			v = obj()
		case 3:
			v = lit("123")
		}
		if i := tx.find("conversion"); i >= 0 {
			tx.items[i] = v
		} else {
			tx.add("conversion", v)
		}
		return "bad-conversion"
	case 10: // transfers and conversion together / empty transfers
		tx := txOf(b)
		if tx == nil {
			return "noop"
		}
		switch rng.Intn(4) {
		case 0:
			if tx.find("conversion") < 0 {
				tx.add("conversion", str(goodTicker().String()))
				return "transfers+conversion"
			}
			if tx.find("transfers") < 0 {
				in := inputOf(tx)
				amt := "1"
				if in != nil {
					if i := in.find("amount"); i >= 0 {
						amt = in.items[i].raw
					}
				}
				tx.add("transfers", arr(obj().add("address", str(addrPool[1].String())).add("amount", lit(amt))))
				return "conversion+transfers"
			}
		case 1:
			if i := tx.find("transfers"); i >= 0 {
				tx.items[i] = arr()
				return "empty-transfers"
			}
			tx.add("transfers", arr())
			return "conversion+empty-transfers"
		case 2:
			if i := tx.find("transfers"); i >= 0 {
				tx.del(i)
				return "no-transfers-no-conversion"
			}
			if i := tx.find("conversion"); i >= 0 {
				tx.del(i)
				return "no-transfers-no-conversion"
			}
		case 3: // conversion into the same type
			if in := inputOf(tx); in != nil {
				if i, j := in.find("type"), tx.find("conversion"); i >= 0 && j >= 0 {
					tx.items[j] = str(in.items[i].raw)
					return "conversion-same-type"
				}
			}
		}
		return "noop"
	case 11: // metadata at either level
		if rng.Intn(2) == 0 {
			b.add("metadata", metaNode(0))
			return "batch-metadata"
		}
		if tx := txOf(b); tx != nil {
			tx.add("metadata", metaNode(0))
			return "tx-metadata"
		}
		return "noop"
	case 12: // two input addresses
		if i := b.find("transactions"); i >= 0 && b.items[i].kind == 'a' {
			other := addrPool[rng.Intn(len(addrPool))]
			tx := obj().add("input", inputNode(other, 5, fat2.PTickerUSD)).add("conversion", str("PEG"))
			b.items[i].items = append(b.items[i].items, tx)
			return "extra-input-address"
		}
		return "noop"
	case 13: // amount edges on the input (sum then usually breaks)
		if in := inputOf(txOf(b)); in != nil {
			if i := in.find("amount"); i >= 0 {
				in.items[i] = lit([]string{"9223372036854775807", "9223372036854775808", "18446744073709551615", "18446744073709551616", "0"}[rng.Intn(5)])
				return "input-amount-edge"
			}
		}
		return "noop"
	case 14: // a big transfer with matching big input
		if tx := txOf(b); tx != nil {
			if in := inputOf(tx); in != nil {
				v := []string{"9223372036854775807", "9223372036854775808", "18446744073709551615"}[rng.Intn(3)]
				if i := in.find("amount"); i >= 0 {
					in.items[i] = lit(v)
				}
				if j := tx.find("conversion"); j >= 0 {
					tx.del(j)
				}
				if j := tx.find("transfers"); j >= 0 {
					tx.del(j)
				}
				tx.add("transfers", arr(obj().add("address", str(addrPool[2].String())).add("amount", lit(v))))
				return "big-transfer"
			}
		}
		return "noop"
	case 15: // wrong JSON types
		switch rng.Intn(6) {
		case 0:
			if t := anyTuple(b); t != nil {
				if i := t.find("address"); i >= 0 {
					t.items[i] = []*node{lit("5"), arr(lit("1")), obj(), lit("true"), str("")}[rng.Intn(5)]
					return "address-wrong-type"
				}
			}
		case 1:
			if tx := txOf(b); tx != nil {
				if i := tx.find("transfers"); i >= 0 {
					tx.items[i] = []*node{obj(), str("x"), lit("1"), lit("false")}[rng.Intn(4)]
					return "transfers-wrong-type"
				}
			}
		case 2:
			if i := b.find("transactions"); i >= 0 {
				b.items[i] = []*node{obj(), str("x"), lit("1"), arr(), arr(lit("1")), arr(arr()), arr(str("x")), arr(lit("true"))}[rng.Intn(8)]
				return "transactions-wrong-type"
			}
		case 3:
			if tx := txOf(b); tx != nil {
				if i := tx.find("input"); i >= 0 {
					tx.items[i] = []*node{arr(), str("x"), lit("1"), obj()}[rng.Intn(4)]
					return "input-wrong-type"
				}
			}
		case 4:
			if tx := txOf(b); tx != nil {
				if i := tx.find("transfers"); i >= 0 && tx.items[i].kind == 'a' {
					tx.items[i].items = append(tx.items[i].items, []*node{arr(), str("x"), lit("1"), obj(), lit("true")}[rng.Intn(5)])
					return "tuple-wrong-type"
				}
			}
		case 5:
			if t := anyTuple(b); t != nil {
				k := []string{"address", "amount", "type"}[rng.Intn(3)]
				if i := t.find(k); i >= 0 {
					t.del(i)
					return "missing-" + k
				}
			}
		}
		return "noop"
	case 16: // special addresses
		t := anyTuple(b)
		if t == nil {
			return "noop"
		}
		if i := t.find("address"); i >= 0 {
			var s string
			lab := ""
			switch rng.Intn(8) {
			case 0:
				s, lab = coinbase.String(), "coinbase-address"
			case 1:
				s, lab = factom.FAAddress{}.String(), "zero-address"
			case 2:
				if a, ok := altSpelling(addrPool[rng.Intn(len(addrPool))]); ok {
					s, lab = a, "alt-spelling-address"
				} else {
					return "noop"
				}
			case 3:
				bs := []byte(addrPool[0].String())
				bs[10+rng.Intn(30)] ^= 1
				s, lab = string(bs), "bad-checksum-address"
			case 4:
				s, lab = factom.FsAddress(seedN("ed", 0)).String(), "secret-address"
			case 5:
				s, lab = addrPool[0].String()[:51], "short-address"
			case 6:
				s, lab = addrPool[0].String()+"1", "long-address"
			case 7:
				s, lab = "FA"+strings.Repeat("0", 50), "non-base58-address"
			}
			t.items[i] = str(s)
			return lab
		}
		return "noop"
	case 17: // reorder keys
		o := pick()
		rng.Shuffle(len(o.keys), func(i, j int) {
			o.keys[i], o.keys[j] = o.keys[j], o.keys[i]
			o.items[i], o.items[j] = o.items[j], o.items[i]
		})
		return "reorder"
	case 18: // empty things
		switch rng.Intn(3) {
		case 0:
			if i := b.find("transactions"); i >= 0 {
				b.items[i] = arr()
				return "no-transactions"
			}
		case 1:
			if tx := txOf(b); tx != nil {
				*tx = *obj()
				return "empty-tx"
			}
		case 2:
			if t := anyTuple(b); t != nil {
				*t = *obj()
				return "empty-tuple"
			}
		}
		return "noop"
	case 19: // string escapes in tickers
		tx := txOf(b)
		if tx == nil {
			return "noop"
		}
		if in := inputOf(tx); in != nil && rng.Intn(2) == 0 {
			if i := in.find("type"); i >= 0 && in.items[i].kind == 's' {
				in.items[i].raw = escapeSome(in.items[i].raw) + []string{"", "", "\\u0000"}[rng.Intn(3)]
				return "type-escapes"
			}
		}
		if i := tx.find("conversion"); i >= 0 && tx.items[i].kind == 's' {
			tx.items[i].raw = escapeSome(tx.items[i].raw)
			return "conversion-escapes"
		}
		return "noop"
	case 20: // sum mismatch
		if in := inputOf(txOf(b)); in != nil {
			if i := in.find("amount"); i >= 0 && in.items[i].kind == 'l' {
				if v, err := strconv.ParseUint(in.items[i].raw, 10, 64); err == nil {
					in.items[i] = u(v + uint64(rng.Intn(3)) - 1)
					return "sum-off-by-one"
				}
			}
		}
		return "noop"
	default:
		return "noop"
	}
}

func byteMutate(data []byte) ([]byte, string) {
	if len(data) == 0 {
		return data, "noop"
	}
	switch rng.Intn(6) {
	case 0:
		return data[:rng.Intn(len(data))], "truncated"
	case 1:
		d := append([]byte(nil), data...)
		d[rng.Intn(len(d))] ^= 1 << uint(rng.Intn(8))
		return d, "bit-flip"
	case 2:
		tail := []string{"x", "{}", ",", "}", " \n", "\x00", "1"}[rng.Intn(7)]
		return append(append([]byte(nil), data...), tail...), "trailing"
	case 3:
		i := rng.Intn(len(data))
		ins := []string{",", "\"", "\\", " ", "\n", "\x01", ":", "{", "[", "\xef\xbb\xbf", "0"}[rng.Intn(11)]
		d := append(append(append([]byte(nil), data[:i]...), ins...), data[i:]...)
		return d, "insert"
	case 4:
		i := rng.Intn(len(data))
		return append(append([]byte(nil), data[:i]...), data[i+1:]...), "delete-byte"
	default:
		return append([]byte(" \t\r\n"), data...), "leading-ws"
	}
}

var fixedJSON = []string{
	``, ` `, `null`, `true`, `1`, `"x"`, `[]`, `{}`, `[{"version":1,"transactions":[]}]`,
	`{"version":1}`, `{"transactions":[]}`, `{"version":1,"transactions":[]}`, `{"version":1,"transactions":null}`,
	`{"version":1,"transactions":[{}]}`, `{"version":1,"transactions":[],"metadata":null}`,
	`{"version":1,"transactions":[]}x`, `{"version":1,"transactions":[]}{}`, `{"version":1,,"transactions":[]}`,
	`{"version":1,"transactions":[],}`, `{"version":1 "transactions":[]}`, `{'version':1,"transactions":[]}`,
	`{"version":01,"transactions":[]}`, `{"version":1.0,"transactions":[]}`, `{"version":1e0,"transactions":[]}`,
	`{"version":-1,"transactions":[]}`, `{"version":18446744073709551616,"transactions":[]}`, `{"version":18446744073709551615,"transactions":[]}`,
	`{"VERSION":1,"TRANSACTIONS":[]}`, `{"version":1,"transactions":[]}`, "{\"ver\xc5\xbfion\":1,\"transactions\":[]}",
	`{"version":1,"version":1,"transactions":[]}`, `{"version":1,"transactions":[],"transactions":[]}`,
	"{\"version\":1,\"transactions\":[\x01]}", `{"version":1,"transactions":["\x"]}`, `{"version":1,"transactions":["\u12G4"]}`,
	`{"version":1,"transactions":[tru]}`, `{"version":1,"transactions":[nul]}`, `{"version":1,"transactions":[truee]}`,
	`{"version":1,"transactions":[1.]}`, `{"version":1,"transactions":[.1]}`, `{"version":1,"transactions":[1e]}`, `{"version":1,"transactions":[1e+]}`,
	`{"version":1,"transactions":[-]}`, `{"version":1,"transactions":[--1]}`, `{"version":1,"transactions":[1 2]}`, `{"version":1,"transactions":[1,]}`,
	`{"version":1,"transactions":[,1]}`, `{"version":1,"transactions":[[[[[[[[[[]]]]]]]]]]}`, `{"version":1,"transactions":[{"a":{"b":{"c":[{}]}}}]}`,
	`{"version":1,"transactions":[]`, `{"version":1,"transactions":[}`, `{"version":1,"transactions":[]]`, `{"version":1:"transactions":[]}`,
	`{"":1,"version":1,"transactions":[]}`, `{"version":1,"transactions":[],"":""}`,
}

// a byte string as a Coq term: (ub [w1; w2; ...]%uint63), each word 0x1 followed by up to 7 bytes
func packed(b []byte) string {
	var ws []string
	for i := 0; i < len(b); i += 7 {
		j := i + 7
		if j > len(b) {
			j = len(b)
		}
		ws = append(ws, "0x1"+hex.EncodeToString(b[i:j]))
	}
	return "[" + strings.Join(ws, ";") + "]%uint63"
}
func hx(b []byte) string { return "(ub " + packed(b) + ")" }

func txCoq(t fat2.Transaction) string {
	var trs []string
	for _, tr := range t.Transfers {
		trs = append(trs, fmt.Sprintf("{| tr_addr := %s; tr_amt := %d |}", addrInt(tr.Address), tr.Amount))
	}
	return fmt.Sprintf("{| tx_addr := %s; tx_type := %d; tx_amt := %d; tx_transfers := [%s]; tx_conv := %d |}",
		addrInt(t.Input.Address), int(t.Input.Type), t.Input.Amount, strings.Join(trs, "; "), int(t.Conversion))
}
func txsCoq(ts []fat2.Transaction) string {
	var xs []string
	for _, t := range ts {
		xs = append(xs, txCoq(t))
	}
	return "[" + strings.Join(xs, "; ") + "]"
}
func bcoq(b bool) string {
	if b {
		return "true"
	}
	return "false"
}

// every JSON string occurring in data (keys and values, duplicates included) that is a valid FA address
func addressTable(data []byte) string {
	seen := map[string]bool{}
	var out []string
	dec := json.NewDecoder(bytes.NewReader(data))
	for {
		tok, err := dec.Token()
		if err != nil {
			break
		}
		if s, ok := tok.(string); ok && !seen[s] {
			seen[s] = true
			var a factom.FAAddress
			if err := a.UnmarshalText([]byte(s)); err == nil {
				out = append(out, fmt.Sprintf("(%s, %s)", hx([]byte(s)), addrInt(a)))
			}
		}
	}
	return "[" + strings.Join(out, "; ") + "]"
}

func stripMeta(ts []fat2.Transaction) []fat2.Transaction {
	out := make([]fat2.Transaction, len(ts))
	for i, t := range ts {
		out[i] = t
		out[i].Metadata = nil
	}
	return out
}

func jsonLine(data []byte) (string, string) {
	var b fat2.TransactionBatch
	err := b.UnmarshalJSON(data)
	clen := len(jsonlen.Compact(data))
	tbl := addressTable(data)
	inv := "[]"
	verdict := "None"
	enc := "None"
	class := "reject-decode"
	if err != nil {
		msg := err.Error()
		switch {
		case !json.Valid(data):
			class = "reject-syntax"
		case strings.Contains(msg, "unexpected JSON length"):
			class = "reject-length"
		case strings.Contains(msg, "invalid token type"):
			class = "reject-ticker"
		case strings.Contains(msg, "cannot unmarshal"), strings.Contains(msg, "invalid use of ,string"):
			class = "reject-json-type"
		case strings.Contains(msg, "unexpected end of JSON input"):
			class = "reject-missing-or-empty"
		case strings.Contains(msg, "invalid character"), strings.Contains(msg, "looking for beginning"):
			class = "reject-syntax"
		case strings.Contains(msg, "checksum"), strings.Contains(msg, "invalid length"), strings.Contains(msg, "invalid prefix"), strings.Contains(msg, "invalid format"):
			class = "reject-address"
		default:
			class = "reject-other"
		}
	} else {
		vd := b.ValidData()
		i64 := true
		for _, t := range b.Transactions {
			if t.Input.Amount > 1<<63-1 {
				i64 = false
			}
		}
		peg := b.ValidatePegTx(0)
		// the property's second half on the implementation: re-encode, decode, same transactions
		rt := true
		if vd == nil {
			re, err := json.Marshal(b)
			if err != nil {
				rt = false
			} else {
				var b2 fat2.TransactionBatch
				if err := b2.UnmarshalJSON(re); err != nil || b2.ValidData() != nil {
					rt = false
				} else if !reflect.DeepEqual(stripMeta(b2.Transactions), stripMeta(b.Transactions)) || b2.Version != b.Version {
					rt = false
				}
			}
			// canonical encoding of the value without metadata
			fresh := fat2.TransactionBatch{Version: b.Version, Transactions: stripMeta(b.Transactions)}
			if ce, err := json.Marshal(fresh); err == nil {
				enc = "(Some " + hx(ce) + ")"
			}
			seen := map[factom.FAAddress]bool{}
			var invs []string
			addA := func(a factom.FAAddress) {
				if !seen[a] {
					seen[a] = true
					invs = append(invs, fmt.Sprintf("(%s, %s)", addrInt(a), hx([]byte(a.String()))))
				}
			}
			for _, t := range b.Transactions {
				addA(t.Input.Address)
				for _, tr := range t.Transfers {
					addA(tr.Address)
				}
			}
			inv = "[" + strings.Join(invs, "; ") + "]"
		}
		verdict = fmt.Sprintf("(Some (%d, %s, %s, %s, %s, %s))", b.Version, txsCoq(b.Transactions),
			bcoq(vd == nil), bcoq(i64), bcoq(peg == nil), bcoq(rt))
		switch {
		case vd == nil && i64:
			class = "accept"
		case vd == nil:
			class = "accept-but-int64"
		default:
			m := vd.Error()
			if i := strings.Index(m, ": "); i >= 0 && strings.HasPrefix(m, "invalid transaction at index") {
				m = m[i+2:]
			}
			if strings.Contains(m, "burn address") {
				m = "invalid input: burn address"
			}
			class = "decoded-invalid: " + m
		}
	}
	return fmt.Sprintf("(%s, %s, %s, %d%%nat, %s, %s)", hx(data), tbl, inv, clen, verdict, enc), class
}

func doJSON(n int) {
	stats := map[string]int{}
	muts := map[string]int{}
	cross := map[string]int{}
	emit := func(data []byte, label string) {
		line, class := jsonLine(data)
		stats[class]++
		for _, l := range strings.Split(label, "+") {
			muts[l]++
			if l != "noop" {
				cross[l+" -> "+class]++
			}
		}
		fmt.Printf("%s (* %s | %s *)\n", line, label, class)
	}
	for _, s := range fixedJSON {
		emit([]byte(s), "fixed")
	}
	// every odd ticker text in both places a ticker is read (input type, conversion), plus escaped spellings of
	// every kind of valid name
	const fa = "FA2jK2HcLnRdS94dEcU27rF3meoJfpUcZPSinpb7AwQvPRY6RL1Q"
	odd := append([]string{}, badTickers...)
	odd = append(odd, "\\u0070USD", "pUS\\u0044", "\\u0050EG", "\\u0070\\u0046\\u0043\\u0054", "\\\"", "\\\\", "pUSD ", " pUSD")
	for _, t := range odd {
		emit([]byte(`{"version":1,"transactions":[{"input":{"address":"`+fa+`","amount":5,"type":"pFCT"},"conversion":"`+t+`"}]}`), "fixed-odd-conversion")
		emit([]byte(`{"version":1,"transactions":[{"input":{"address":"`+fa+`","amount":5,"type":"`+t+`"},"conversion":"pUSD"}]}`), "fixed-odd-type")
	}
	for i := 0; i < n; i++ {
		b := validBatch()
		label := "valid"
		wsProb = 0
		r := rng.Intn(100)
		switch {
		case r < 22: // untouched
		case r < 30:
			wsProb = 10 + rng.Intn(40)
			label = "whitespace"
		case r < 85:
			label = mutate(b)
			if rng.Intn(4) == 0 {
				label += "+" + mutate(b)
			}
			if rng.Intn(8) == 0 {
				wsProb = 20
			}
		default:
			data := b.bytes()
			var l string
			data, l = byteMutate(data)
			emit(data, l)
			continue
		}
		emit(b.bytes(), label)
	}
	var ks []string
	for k, v := range stats {
		ks = append(ks, fmt.Sprintf("%q:%d", k, v))
	}
	var ms []string
	for k, v := range muts {
		ms = append(ms, fmt.Sprintf("%q:%d", k, v))
	}
	var cs []string
	for k, v := range cross {
		cs = append(cs, fmt.Sprintf("%q:%d", k, v))
	}
	fmt.Fprintf(os.Stderr, "{\"classes\":{%s},\"mutations\":{%s},\"cross\":{%s}}\n", strings.Join(ks, ","), strings.Join(ms, ","), strings.Join(cs, ","))
}

// ------------------------------------------------------------------ signed entries
type signer struct {
	s    factom.RCDSigner
	addr factom.FAAddress
	rcde bool
}

func edSigner(i int) signer {
	fs := factom.FsAddress(seedN("ed", i))
	return signer{fs, fs.FAAddress(), false}
}
func ethSigner(i int) signer {
	es := factom.EthSecret(seedN("eth", i))
	return signer{es, es.FAAddress(), true}
}

type rawEntry struct {
	chain   factom.Bytes32
	extids  [][]byte
	content []byte
	ts      int64
}

func (e rawEntry) clone() rawEntry {
	c := rawEntry{chain: e.chain, ts: e.ts, content: append([]byte(nil), e.content...)}
	for _, x := range e.extids {
		c.extids = append(c.extids, append([]byte(nil), x...))
	}
	return c
}

func composeMsg(i int, salt []byte, chain factom.Bytes32, content []byte) []byte {
	msg := []byte(strconv.FormatUint(uint64(i), 10))
	msg = append(msg, salt...)
	msg = append(msg, chain[:]...)
	msg = append(msg, content...)
	return msg
}

func signEntry(content []byte, signers []signer, salt string, ts int64) rawEntry {
	e := rawEntry{chain: config.TransactionChain, content: content, ts: ts, extids: [][]byte{[]byte(salt)}}
	for i, s := range signers {
		h := sha512.Sum512(composeMsg(i, []byte(salt), e.chain, content))
		e.extids = append(e.extids, s.s.RCD(), s.s.Sign(h[:]))
	}
	return e
}

func sha256d(b []byte) [32]byte {
	h := sha256.Sum256(b)
	return sha256.Sum256(h[:])
}

func extidsLine(e rawEntry, height int32) (string, string) {
	chain := e.chain
	fe := factom.Entry{ChainID: &chain, Content: e.content, Timestamp: time.Unix(e.ts, 0)}
	for _, x := range e.extids {
		fe.ExtIDs = append(fe.ExtIDs, factom.Bytes(x))
	}
	// oracle answers: every pair position, computed independently of fat103
	var sigs, rcds []string
	seenR := map[string]bool{}
	if len(e.extids) >= 1 {
		rest := e.extids[1:]
		for i := 0; i+1 < len(rest); i += 2 {
			rcd, sig := rest[i], rest[i+1]
			if !seenR[string(rcd)] {
				seenR[string(rcd)] = true
				h := sha256d(rcd)
				rcds = append(rcds, fmt.Sprintf("(%s, (zb %s))", hx(rcd), packed(h[:])))
			}
			msg := composeMsg(i/2, e.extids[0], e.chain, e.content)
			mh := sha512.Sum512(msg)
			if len(rcd) == 33 && rcd[0] == 1 && len(sig) == 64 {
				ok := ed25519.Verify(rcd[1:], mh[:], sig)
				sigs = append(sigs, fmt.Sprintf("(1, %s, %s, %s, %s)", hx(rcd[1:]), hx(msg), hx(sig), bcoq(ok)))
			}
			if len(rcd) == 65 && rcd[0] == 0x0e && len(sig) == 65 {
				d := sha256d(mh[:])
				ok := crypto.VerifySignature(append([]byte{4}, rcd[1:]...), d[:], sig[:64])
				sigs = append(sigs, fmt.Sprintf("(14, %s, %s, %s, %s)", hx(rcd[1:]), hx(msg), hx(sig[:64]), bcoq(ok)))
			}
		}
	}
	var b fat2.TransactionBatch
	b.Entry = fe
	extv := "None"
	class := "content-undecodable"
	if err := b.UnmarshalJSON(e.content); err == nil {
		err := b.ValidExtIDs(height)
		extv = "(Some " + bcoq(err == nil) + ")"
		if err == nil {
			class = "extids-ok"
		} else {
			msg := err.Error()
			switch {
			case strings.Contains(msg, "invalid number of ExtIDs"):
				class = "reject-count"
			case strings.Contains(msg, "expired"):
				class = "reject-salt-window"
			case strings.Contains(msg, "timestamp salt"):
				class = "reject-salt-syntax"
			case strings.Contains(msg, "validate mask"):
				class = "reject-rcd-type-not-active"
			case strings.Contains(msg, "unsupported RCD"):
				class = "reject-rcd-type-unknown"
			case strings.Contains(msg, "invalid RCD size"):
				class = "reject-rcd-size"
			case strings.Contains(msg, "invalid signature size"):
				class = "reject-sig-size"
			case strings.Contains(msg, "invalid signature"):
				class = "reject-signature"
			case strings.Contains(msg, "unexpected or duplicate"):
				class = "reject-rcd-hash"
			default:
				class = "reject-other"
			}
		}
	}
	full := "None"
	if nb, err := fat2.NewTransactionBatch(fe, height); err == nil {
		full = "(Some " + txsCoq(nb.Transactions) + ")"
		class = "accepted"
	}
	var ex []string
	for _, x := range e.extids {
		ex = append(ex, hx(x))
	}
	return fmt.Sprintf("(%s, [%s], %s, (%d), (%d), %s, [%s], [%s], %s, %s)", hx(e.chain[:]), strings.Join(ex, "; "), hx(e.content),
		e.ts, height, addressTable(e.content), strings.Join(sigs, "; "), strings.Join(rcds, "; "), extv, full), class
}

func contentFor(inputs []signer) []byte {
	var txs []fat2.Transaction
	for _, s := range inputs {
		if rng.Intn(2) == 0 {
			txs = append(txs, fat2.Transaction{Input: fat2.TypedAddressAmountTuple{Address: s.addr, Amount: 5, Type: fat2.PTickerUSD},
				Transfers: []fat2.AddressAmountTuple{{Address: addrPool[rng.Intn(len(addrPool))], Amount: 5}}})
		} else {
			txs = append(txs, fat2.Transaction{Input: fat2.TypedAddressAmountTuple{Address: s.addr, Amount: uint64(1 + rng.Intn(100)), Type: fat2.PTickerFCT},
				Conversion: fat2.PTickerUSD})
		}
	}
	// marshal without ValidData (several input addresses are wanted for the multi-pair path)
	type tb struct {
		Version      uint               `json:"version"`
		Transactions []fat2.Transaction `json:"transactions"`
	}
	c, err := json.Marshal(tb{1, txs})
	if err != nil {
		panic(err)
	}
	return c
}

func heightsAround() []int32 {
	act := int32(fat2.Fat2RCDEActivation)
	return []int32{act - 1, act, act + 1, -1, 0, act + 1000, -5, 1 << 30}
}

func doExtIDs(n int) {
	stats := map[string]int{}
	muts := map[string]int{}
	emit := func(e rawEntry, h int32, label string) {
		line, class := extidsLine(e, h)
		stats[class]++
		muts[label]++
		fmt.Printf("%s (* %s | %s *)\n", line, label, class)
	}
	act := int32(fat2.Fat2RCDEActivation)
	baseTs := int64(1580000000)
	for i := 0; i < n; i++ {
		// signers
		var ss []signer
		k := 1
		switch rng.Intn(12) {
		case 0:
			k = 2
		case 1:
			k = 3
		case 2:
			k = 11 + rng.Intn(2) // two-digit pair indexes
		}
		perm := rng.Perm(14)
		for j := 0; j < k; j++ {
			p := perm[j]
			if p < 10 {
				ss = append(ss, edSigner(p))
			} else {
				ss = append(ss, ethSigner(p-10))
			}
		}
		if k == 1 && rng.Intn(2) == 0 {
			ss[0] = ethSigner(rng.Intn(4))
		}
		content := contentFor(ss)
		ts := baseTs + int64(rng.Intn(1000))*60
		salt := strconv.FormatInt(ts+int64(rng.Intn(1000)), 10)
		h := heightsAround()[rng.Intn(8)]
		e := signEntry(content, ss, salt, ts)
		label := "valid"
		switch rng.Intn(30) {
		case 0, 1, 2, 3, 4:
		case 5: // salt at the window edges
			d := []int64{43200, 43201, -43200, -43201, 43199, -43199, 0}[rng.Intn(7)]
			salt = strconv.FormatInt(ts-d, 10)
			e = signEntry(content, ss, salt, ts)
			label = fmt.Sprintf("salt-edge%+d", d)
		case 6: // non-canonical / extreme salts (signed over, so only the window and syntax decide)
			salt = []string{"+" + salt, "0" + salt, "000" + salt, "-" + salt, salt + " ", " " + salt, "", "+", "-", "1_580_000_000", "0x5e2c", salt + ".0",
				"9223372036854775807", "9223372036854775808", "-9223372036854775808", "-9223372036854775809", "9223372036792640000", "99999999999999999999", "1e9", "\xef\xbc\x91"}[rng.Intn(20)]
			e = signEntry(content, ss, salt, ts)
			label = "salt-syntax"
		case 7: // wrong chain id (signature made for another chain); the untouched entry is validated first, in the same process
			emit(e.clone(), h, "valid")
			e.chain[rng.Intn(32)] ^= 1 << uint(rng.Intn(8))
			label = "wrong-chain"
		case 8: // swapped rcd / sig
			if len(e.extids) >= 3 {
				j := 1 + 2*rng.Intn(len(ss))
				e.extids[j], e.extids[j+1] = e.extids[j+1], e.extids[j]
				label = "swap-rcd-sig"
			}
		case 9: // swapped pairs
			if len(ss) >= 2 {
				e.extids[1], e.extids[3] = e.extids[3], e.extids[1]
				e.extids[2], e.extids[4] = e.extids[4], e.extids[2]
				label = "swap-pairs"
			} else {
				e.extids = append(e.extids, e.extids[1], e.extids[2])
				label = "duplicate-pair"
			}
		case 10: // missing signature / rcd / salt / everything
			switch rng.Intn(5) {
			case 0:
				e.extids = e.extids[:len(e.extids)-1]
			case 1:
				e.extids = append(e.extids[:1:1], e.extids[2:]...)
			case 2:
				e.extids = e.extids[1:]
			case 3:
				e.extids = nil
			case 4:
				e.extids = e.extids[:1]
			}
			label = "missing-extid"
		case 11: // extra extid
			e.extids = append(e.extids, []byte("x"))
			if rng.Intn(2) == 0 {
				e.extids = append(e.extids, []byte("y"))
			}
			label = "extra-extid"
		case 12: // signed by another key than the input address
			other := edSigner(20 + rng.Intn(3))
			if rng.Intn(2) == 0 {
				other = ethSigner(20 + rng.Intn(3))
			}
			ss2 := append([]signer(nil), ss...)
			ss2[rng.Intn(len(ss2))] = other
			e = signEntry(content, ss2, salt, ts)
			label = "foreign-key"
		case 13: // the same key signs twice (two inputs expected)
			if len(ss) >= 2 {
				ss2 := append([]signer(nil), ss...)
				ss2[1] = ss2[0]
				e = signEntry(content, ss2, salt, ts)
				label = "same-key-twice"
			}
		case 14: // RCD-e recovery byte changed (the untouched entry is printed too, at the same height)
			if len(ss) == 1 && !ss[0].rcde {
				ss[0] = ethSigner(rng.Intn(4))
				content = contentFor(ss)
				e = signEntry(content, ss, salt, ts)
			}
			for j := 1; j+1 < len(e.extids); j += 2 {
				if len(e.extids[j+1]) == 65 {
					if rng.Intn(2) == 0 {
						h = act + 1 + int32(rng.Intn(3))
					}
					emit(e.clone(), h, "valid")
					e.extids[j+1][64] ^= byte(1 + rng.Intn(255))
					label = "rcde-recovery-byte"
					break
				}
			}
		case 15: // size errors
			j := 1 + rng.Intn(len(e.extids)-1)
			switch rng.Intn(3) {
			case 0:
				e.extids[j] = e.extids[j][:len(e.extids[j])-1]
			case 1:
				e.extids[j] = append(e.extids[j], 0)
			case 2:
				e.extids[j] = nil
			}
			label = "size"
		case 16: // rcd type byte
			j := 1 + 2*rng.Intn(len(ss))
			e.extids[j][0] = []byte{0, 2, 0x0e, 1, 0xff}[rng.Intn(5)]
			label = "rcd-type-byte"
		case 17: // content changed after signing (the untouched entry is validated first: a verdict must not be remembered per ExtIDs)
			emit(e.clone(), h, "valid")
			c := append([]byte(nil), e.content...)
			p := bytes.Index(c, []byte(`"amount":`))
			if p >= 0 {
				c[p+9] = '7'
			}
			e.content = c
			label = "content-changed"
		case 18: // timestamp far away
			emit(e.clone(), h, "valid")
			e.ts += []int64{86400, -86400, 43201 + 1000, 1 << 40}[rng.Intn(4)]
			label = "timestamp-moved"
		case 19: // random bit flip somewhere in the ExtIDs
			j := rng.Intn(len(e.extids))
			if len(e.extids[j]) > 0 {
				e.extids[j][rng.Intn(len(e.extids[j]))] ^= 1 << uint(rng.Intn(8))
			}
			label = "extid-bit-flip"
		case 20: // random bit flip in the content
			emit(e.clone(), h, "valid")
			c := append([]byte(nil), e.content...)
			c[rng.Intn(len(c))] ^= 1 << uint(rng.Intn(8))
			e.content = c
			label = "content-bit-flip"
		case 21: // signature over the message with a wrong pair index
			if len(ss) == 1 {
				hh := sha512.Sum512(composeMsg(1, []byte(salt), e.chain, content))
				e.extids[2] = ss[0].s.Sign(hh[:])
				label = "wrong-index-salt"
			}
		case 22: // sha512 omitted
			if len(ss) == 1 && !ss[0].rcde {
				e.extids[2] = ed25519.Sign(factom.FsAddress(seedN("ed", 0)).PrivateKey(), composeMsg(0, []byte(salt), e.chain, content))
				label = "unhashed-message"
			}
		case 28, 29: // two (or three) different input addresses, signed by the key of the FIRST one only
			n2 := 2 + rng.Intn(2)
			perm2 := rng.Perm(10)
			ss = nil
			for j := 0; j < n2; j++ {
				ss = append(ss, edSigner(perm2[j]))
			}
			if rng.Intn(3) == 0 {
				ss[0] = ethSigner(rng.Intn(4))
			}
			content = contentFor(ss)
			e = signEntry(content, ss[:1], salt, ts)
			label = "first-input-signs-alone"
		case 24, 25: // JSON white space added to the content after signing: the same batch for a JSON reader, another
			// byte string (and another entry hash) for the chain -- the signature covers the exact bytes
			emit(e.clone(), h, "valid")
			c := append([]byte(nil), e.content...)
			ws := []string{" ", "\n", "\t", "\r\n", "  "}[rng.Intn(5)]
			switch rng.Intn(4) {
			case 0:
				c = append(c, ws...)
			case 1:
				c = append([]byte(ws), c...)
			case 2:
				if p := bytes.IndexByte(c, ':'); p >= 0 {
					c = append(c[:p+1:p+1], append([]byte(ws), c[p+1:]...)...)
				}
			case 3:
				if p := bytes.LastIndexByte(c, '}'); p >= 0 {
					c = append(c[:p:p], append([]byte(ws), c[p:]...)...)
				}
			}
			e.content = c
			label = "content-whitespace"
		case 23: // the salt shifted into the index: "0"+"1580..." vs index 01?
			e.extids[0] = append([]byte("0"), e.extids[0]...)
			label = "salt-leading-zero-after-signing"
		default:
		}
		switch {
		case strings.HasPrefix(label, "valid") && rng.Intn(2) == 0:
			for _, hh := range []int32{act - 1, act, act + 1, -1} {
				emit(e, hh, label)
			}
		default:
			emit(e, h, label)
		}
	}
	var ks, ms []string
	for k, v := range stats {
		ks = append(ks, fmt.Sprintf("%q:%d", k, v))
	}
	for k, v := range muts {
		ms = append(ms, fmt.Sprintf("%q:%d", k, v))
	}
	fmt.Fprintf(os.Stderr, "{\"classes\":{%s},\"mutations\":{%s}}\n", strings.Join(ks, ","), strings.Join(ms, ","))
}

// every single-bit flip of content and ExtIDs (and chain id) of k short valid entries
func doFlips(k int) {
	stats := map[string]int{}
	act := int32(fat2.Fat2RCDEActivation)
	for i := 0; i < k; i++ {
		var s signer
		if i%2 == 0 {
			s = edSigner(i)
		} else {
			s = ethSigner(i)
		}
		tx := fat2.Transaction{Input: fat2.TypedAddressAmountTuple{Address: s.addr, Amount: 5, Type: fat2.PTickerUSD}, Conversion: fat2.PTickerPEG}
		content, err := json.Marshal(fat2.TransactionBatch{Version: 1, Transactions: []fat2.Transaction{tx}})
		if err != nil {
			panic(err)
		}
		ts := int64(1580000000 + 600*i)
		e := signEntry(content, []signer{s}, strconv.FormatInt(ts+7, 10), ts)
		h := act + 1
		line, class := extidsLine(e, h)
		stats[class]++
		fmt.Println(line)
		flip := func(get func(*rawEntry) []byte) {
			n := len(get(&e))
			for p := 0; p < n; p++ {
				for bit := uint(0); bit < 8; bit++ {
					m := e.clone()
					get(&m)[p] ^= 1 << bit
					line, class := extidsLine(m, h)
					stats[class]++
					fmt.Println(line)
				}
			}
		}
		flip(func(m *rawEntry) []byte { return m.content })
		for j := range e.extids {
			jj := j
			flip(func(m *rawEntry) []byte { return m.extids[jj] })
		}
		flip(func(m *rawEntry) []byte { return m.chain[:] })
	}
	var ks []string
	for k, v := range stats {
		ks = append(ks, fmt.Sprintf("%q:%d", k, v))
	}
	fmt.Fprintf(os.Stderr, "{\"classes\":{%s},\"mutations\":{\"single-bit-flip\":%d}}\n", strings.Join(ks, ","), 0)
}

func main() {
	if len(os.Args) < 3 {
		fmt.Fprintln(os.Stderr, "usage: codec json|extids|extids-flips <seed> <n> | one-json <hex>")
		os.Exit(2)
	}
	initPool()
	if os.Args[1] == "one-json" {
		rng = rand.New(rand.NewSource(1))
		data, err := hex.DecodeString(os.Args[2])
		if err != nil {
			panic(err)
		}
		line, class := jsonLine(data)
		fmt.Println(line)
		fmt.Fprintln(os.Stderr, class)
		return
	}
	seed, _ := strconv.ParseInt(os.Args[2], 10, 64)
	n := 100
	if len(os.Args) > 3 {
		n, _ = strconv.Atoi(os.Args[3])
	}
	rng = rand.New(rand.NewSource(seed*7919 + int64(len(os.Args[1]))))
	switch os.Args[1] {
	case "json":
		doJSON(n)
	case "extids":
		doExtIDs(n)
	case "extids-flips":
		doFlips(n)
	default:
		fmt.Fprintln(os.Stderr, "unknown mode")
		os.Exit(2)
	}
}
