// gen/schema prints coq/Gen/Schema.v: the constraints of the database the repository's own
// code creates. A fresh database is opened through pegnet.New(conf) + (*Pegnet).Init() (the
// real createTables / migrations path; no factomd is contacted), and the SQLite that the
// repository links is asked what it made of it: sqlite_master, PRAGMA table_info,
// PRAGMA index_list, PRAGMA index_info. The CHECK clauses are read off sqlite_master.sql.
//
// Usage: schema <repo-root>  > Schema.v
//
// The repo-root argument is only used for a sanity check (the directory must contain
// node/pegnet); the code that runs is the one the binary was built against (module replace).
package main

import (
	"database/sql"
	"fmt"
	"io/ioutil"
	"os"
	"path/filepath"
	"sort"
	"strings"

	_ "github.com/mattn/go-sqlite3" // the driver the daemon registers in node/node.go
	"github.com/pegnet/pegnetd/config"
	"github.com/pegnet/pegnetd/node/pegnet"
	"github.com/sirupsen/logrus"
	"github.com/spf13/viper"
)

var tmpdir string

func die(f string, a ...interface{}) {
	fmt.Fprintf(os.Stderr, "gen/schema: "+f+"\n", a...)
	if tmpdir != "" {
		os.RemoveAll(tmpdir)
	}
	os.Exit(1)
}

func cq(s string) string {
	var b strings.Builder
	b.WriteByte('"')
	for _, r := range s {
		switch {
		case r == '"':
			b.WriteString(`""`)
		case r == '\n' || r == '\t' || r == '\r':
			b.WriteByte(' ')
		case r < 32 || r > 126:
			b.WriteByte('?')
		default:
			b.WriteRune(r)
		}
	}
	b.WriteByte('"')
	return b.String()
}

func cqList(l []string) string {
	q := make([]string, len(l))
	for i, s := range l {
		q[i] = cq(s)
	}
	return "[" + strings.Join(q, "; ") + "]"
}

func normWS(s string) string { return strings.Join(strings.Fields(s), " ") }

// checkClauses returns the text of every CHECK ( ... ) clause of a CREATE TABLE statement,
// in source order, whitespace-normalised. String literals and quoted identifiers are skipped
// so that a parenthesis or the word CHECK inside them is not misread.
func checkClauses(sqlText string) []string {
	var out []string
	s := sqlText
	up := strings.ToUpper(s)
	i := 0
	isIdent := func(c byte) bool {
		return c == '_' || (c >= '0' && c <= '9') || (c >= 'a' && c <= 'z') || (c >= 'A' && c <= 'Z')
	}
	skipQuoted := func(i int) int { // s[i] is a quote; returns index after the closing quote
		q := s[i]
		i++
		for i < len(s) {
			if s[i] == q {
				if i+1 < len(s) && s[i+1] == q {
					i += 2
					continue
				}
				return i + 1
			}
			i++
		}
		return i
	}
	for i < len(s) {
		c := s[i]
		switch {
		case c == '"' || c == '\'' || c == '`':
			i = skipQuoted(i)
		case c == '-' && i+1 < len(s) && s[i+1] == '-':
			for i < len(s) && s[i] != '\n' {
				i++
			}
		case strings.HasPrefix(up[i:], "CHECK") && (i == 0 || !isIdent(s[i-1])) && (i+5 >= len(s) || !isIdent(s[i+5])):
			j := i + 5
			for j < len(s) && (s[j] == ' ' || s[j] == '\t' || s[j] == '\n' || s[j] == '\r') {
				j++
			}
			if j >= len(s) || s[j] != '(' {
				i = j
				continue
			}
			depth := 0
			k := j
			for k < len(s) {
				ch := s[k]
				if ch == '"' || ch == '\'' || ch == '`' {
					k = skipQuoted(k)
					continue
				}
				if ch == '(' {
					depth++
				} else if ch == ')' {
					depth--
					if depth == 0 {
						break
					}
				}
				k++
			}
			if k >= len(s) {
				die("unbalanced CHECK clause in %q", sqlText)
			}
			out = append(out, normWS(s[j+1:k]))
			i = k + 1
		default:
			i++
		}
	}
	return out
}

type uniq struct {
	table string
	cols  []string
}

func main() {
	if len(os.Args) != 2 {
		die("usage: schema <repo-root>")
	}
	repo := os.Args[1]
	if st, err := os.Stat(filepath.Join(repo, "node", "pegnet")); err != nil || !st.IsDir() {
		die("%s does not contain node/pegnet", repo)
	}
	logrus.SetOutput(ioutil.Discard)

	base := os.Getenv("TMPDIR")
	var err error
	tmpdir, err = ioutil.TempDir(base, "genschema")
	if err != nil {
		die("temp dir: %v", err)
	}
	defer os.RemoveAll(tmpdir)

	conf := viper.New()
	conf.Set(config.SqliteDBPath, filepath.Join(tmpdir, "schema.db"))
	p := pegnet.New(conf)
	if err := p.Init(); err != nil {
		die("pegnet.Init: %v", err)
	}
	db := p.DB
	defer db.Close()

	type tbl struct{ name, sql string }
	var tables []tbl
	rows, err := db.Query(`SELECT name, COALESCE(sql,'') FROM sqlite_master WHERE type = 'table' AND name NOT LIKE 'sqlite_%' ORDER BY name`)
	if err != nil {
		die("sqlite_master: %v", err)
	}
	for rows.Next() {
		var t tbl
		if err := rows.Scan(&t.name, &t.sql); err != nil {
			die("sqlite_master scan: %v", err)
		}
		tables = append(tables, t)
	}
	rows.Close()
	if len(tables) == 0 {
		die("no tables created by pegnet.Init")
	}

	var names []string
	var uniques []uniq
	var checks [][2]string
	var notnull [][2]string
	var columns [][2]string
	var plainIndexes []uniq

	for _, t := range tables {
		names = append(names, t.name)

		// columns, NOT NULL, primary key
		type col struct {
			name    string
			notnull int
			pk      int
			typ     string
		}
		var cols []col
		r, err := db.Query(fmt.Sprintf(`PRAGMA table_info(%q)`, t.name))
		if err != nil {
			die("table_info(%s): %v", t.name, err)
		}
		for r.Next() {
			var cid int
			var c col
			var dflt sql.NullString
			if err := r.Scan(&cid, &c.name, &c.typ, &c.notnull, &dflt, &c.pk); err != nil {
				die("table_info(%s) scan: %v", t.name, err)
			}
			cols = append(cols, c)
		}
		r.Close()
		if len(cols) == 0 {
			die("table %s has no columns", t.name)
		}
		var pk []col
		for _, c := range cols {
			columns = append(columns, [2]string{t.name, c.name})
			if c.notnull != 0 {
				notnull = append(notnull, [2]string{t.name, c.name})
			}
			if c.pk > 0 {
				pk = append(pk, c)
			}
		}
		sort.Slice(pk, func(i, j int) bool { return pk[i].pk < pk[j].pk })

		// indexes
		type idx struct {
			name   string
			unique int
			origin string
		}
		var idxs []idx
		r, err = db.Query(fmt.Sprintf(`PRAGMA index_list(%q)`, t.name))
		if err != nil {
			die("index_list(%s): %v", t.name, err)
		}
		for r.Next() {
			var seq, partial int
			var ix idx
			if err := r.Scan(&seq, &ix.name, &ix.unique, &ix.origin, &partial); err != nil {
				die("index_list(%s) scan: %v", t.name, err)
			}
			if partial != 0 {
				continue // a partial index constrains only some rows; not reported as a constraint
			}
			idxs = append(idxs, ix)
		}
		r.Close()
		// index_list reports newest first; print in creation order
		for i, j := 0, len(idxs)-1; i < j; i, j = i+1, j-1 {
			idxs[i], idxs[j] = idxs[j], idxs[i]
		}
		havePKIndex := false
		var tu []uniq
		for _, ix := range idxs {
			var icolNames []string
			r, err := db.Query(fmt.Sprintf(`PRAGMA index_info(%q)`, ix.name))
			if err != nil {
				die("index_info(%s): %v", ix.name, err)
			}
			for r.Next() {
				var seqno, cid int
				var name sql.NullString
				if err := r.Scan(&seqno, &cid, &name); err != nil {
					die("index_info(%s) scan: %v", ix.name, err)
				}
				if !name.Valid {
					icolNames = append(icolNames, "<expr>")
				} else {
					icolNames = append(icolNames, name.String)
				}
			}
			r.Close()
			if ix.unique != 0 {
				if ix.origin == "pk" {
					havePKIndex = true
					tu = append([]uniq{{t.name, icolNames}}, tu...)
				} else {
					tu = append(tu, uniq{t.name, icolNames})
				}
			} else {
				plainIndexes = append(plainIndexes, uniq{t.name, icolNames})
			}
		}
		if len(pk) > 0 && !havePKIndex {
			// INTEGER PRIMARY KEY: alias of the rowid, no index object exists for it
			var pc []string
			for _, c := range pk {
				pc = append(pc, c.name)
			}
			tu = append([]uniq{{t.name, pc}}, tu...)
		}
		uniques = append(uniques, tu...)

		for _, c := range checkClauses(t.sql) {
			checks = append(checks, [2]string{t.name, c})
		}
	}

	var b strings.Builder
	w := func(f string, a ...interface{}) { fmt.Fprintf(&b, f, a...) }
	w("(* GENERATED by gen/schema from the database that pegnet.New(conf).Init() creates. Do not edit. *)\n")
	w("From Coq Require Import String List.\nImport ListNotations.\nOpen Scope string_scope.\n\n")
	w("Definition schema_tables : list string :=\n  %s.\n\n", cqList(names))
	pair := func(name string, l [][2]string) {
		w("Definition %s : list (string * string) := [\n", name)
		for i, e := range l {
			sep := ";"
			if i == len(l)-1 {
				sep = ""
			}
			w("  (%s, %s)%s\n", cq(e[0]), cq(e[1]), sep)
		}
		w("].\n\n")
	}
	ul := func(name string, l []uniq) {
		w("Definition %s : list (string * list string) := [\n", name)
		for i, e := range l {
			sep := ";"
			if i == len(l)-1 {
				sep = ""
			}
			w("  (%s, %s)%s\n", cq(e.table), cqList(e.cols), sep)
		}
		w("].\n\n")
	}
	w("(* one entry per UNIQUE / PRIMARY KEY constraint (unique index, or rowid alias): table, ordered columns *)\n")
	ul("schema_unique", uniques)
	w("(* table, text between the parentheses of each CHECK clause *)\n")
	pair("schema_checks", checks)
	pair("schema_notnull", notnull)
	w("(* all columns, in table order *)\n")
	pair("schema_columns", columns)
	w("(* non-unique indexes (no constraint; listed so that their disappearance is visible) *)\n")
	ul("schema_plain_indexes", plainIndexes)
	// durability settings of the connection pegnet.Init() opens (the default configuration, and with db.mode WAL)
	var pragmas [][2]string
	for _, name := range []string{"journal_mode", "synchronous", "locking_mode", "foreign_keys"} {
		var v string
		if err := db.QueryRow("PRAGMA " + name).Scan(&v); err != nil {
			die("PRAGMA %s: %v", name, err)
		}
		pragmas = append(pragmas, [2]string{name, strings.ToLower(v)})
	}
	w("(* PRAGMA values of the connection pegnet.Init() opens with the default configuration *)\n")
	pair("db_pragmas", pragmas)
	os.Stdout.WriteString(b.String())
}
