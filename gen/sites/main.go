// gen/sites prints coq/Gen/Sites.v: structure tables read off the source of the repository the
// checks are aimed at.
//
// Analysis route: go/parser + go/types with full type information. The packages are listed
// and their dependencies compiled by `go list -export -deps` (run in the repository with an
// alternate -modfile, so neither go.mod nor go.sum of the repository is written); external
// imports are read from the compiler's export data (go/importer "gc" with a lookup function,
// the same mechanism `go vet` uses), the six packages of the repository are type-checked from
// source in dependency order and share one type universe. No golang.org/x/tools dependency.
//
// Sites are keyed by (package.function, verb/callee/canonical expression, hash of the
// normalised source text) - never by line number.
//
// Usage: sites <repo-root>  > Sites.v       (exit 1 when something cannot be extracted)
package main

import (
	"bytes"
	"crypto/sha256"
	"encoding/json"
	"fmt"
	"go/ast"
	"go/constant"
	"go/importer"
	"go/parser"
	"go/printer"
	"go/token"
	"go/types"
	"io"
	"io/ioutil"
	"os"
	"os/exec"
	"path/filepath"
	"sort"
	"strings"
)

var tmpdir string

func die(f string, a ...interface{}) {
	fmt.Fprintf(os.Stderr, "gen/sites: "+f+"\n", a...)
	if tmpdir != "" {
		os.RemoveAll(tmpdir)
	}
	os.Exit(1)
}

// ---------------------------------------------------------------------------------------------
// loading

var relDirs = []string{"fat/fat2", "node/conversions", "node/pegnet", "node", "srv", "cmd"}

type pkgInfo struct {
	path  string
	name  string
	dir   string
	files []*ast.File
	info  *types.Info
	tpkg  *types.Package
}

type listPkg struct {
	ImportPath string
	Name       string
	Dir        string
	GoFiles    []string
	CgoFiles   []string
	Export     string
	Standard   bool
	DepOnly    bool
	ImportMap  map[string]string
	Error      *struct{ Err string }
}

var fset = token.NewFileSet()

type imp struct {
	gc      types.Importer
	ours    map[string]*types.Package
	exports map[string]string
	cur     map[string]string // ImportMap of the package being checked
}

func (i *imp) Import(path string) (*types.Package, error) {
	if m, ok := i.cur[path]; ok {
		path = m
	}
	if p, ok := i.ours[path]; ok {
		return p, nil
	}
	return i.gc.Import(path)
}

func load(repo string) ([]*pkgInfo, string) {
	gomod, err := ioutil.ReadFile(filepath.Join(repo, "go.mod"))
	if err != nil {
		die("cannot read go.mod of %s: %v", repo, err)
	}
	module := ""
	for _, l := range strings.Split(string(gomod), "\n") {
		f := strings.Fields(l)
		if len(f) == 2 && f[0] == "module" {
			module = strings.Trim(f[1], `"`)
		}
	}
	if module == "" {
		die("no module line in %s/go.mod", repo)
	}
	for _, d := range relDirs {
		if st, err := os.Stat(filepath.Join(repo, d)); err != nil || !st.IsDir() {
			die("package directory %s/%s not found", repo, d)
		}
	}
	tmpdir, err = ioutil.TempDir(os.Getenv("TMPDIR"), "gensites")
	if err != nil {
		die("temp dir: %v", err)
	}
	if err := ioutil.WriteFile(filepath.Join(tmpdir, "go.mod"), gomod, 0644); err != nil {
		die("%v", err)
	}
	if gosum, err := ioutil.ReadFile(filepath.Join(repo, "go.sum")); err == nil {
		ioutil.WriteFile(filepath.Join(tmpdir, "go.sum"), gosum, 0644)
	}
	args := []string{"list", "-modfile=" + filepath.Join(tmpdir, "go.mod"), "-mod=mod", "-tags", "verif",
		"-export", "-deps", "-json=ImportPath,Name,Dir,GoFiles,CgoFiles,Export,Standard,DepOnly,ImportMap,Error"}
	for _, d := range relDirs {
		args = append(args, "./"+d)
	}
	cmd := exec.Command("go", args...)
	cmd.Dir = repo
	env := os.Environ()
	setdef := func(k, v string) {
		if os.Getenv(k) == "" {
			env = append(env, k+"="+v)
		}
	}
	setdef("GOPROXY", "off")
	setdef("GOSUMDB", "off")
	setdef("GOTOOLCHAIN", "local")
	setdef("CGO_CFLAGS", "-w")
	env = append(env, "GOFLAGS=-mod=mod", "GOWORK=off")
	cmd.Env = env
	var stderr bytes.Buffer
	cmd.Stderr = &stderr
	out, err := cmd.Output()
	if err != nil {
		die("go list failed (the packages must compile): %v\n%s", err, tail(stderr.String(), 3000))
	}
	dec := json.NewDecoder(bytes.NewReader(out))
	var all []*listPkg
	exports := map[string]string{}
	for {
		var lp listPkg
		if err := dec.Decode(&lp); err == io.EOF {
			break
		} else if err != nil {
			die("go list output: %v", err)
		}
		if lp.Error != nil {
			die("package %s: %s", lp.ImportPath, lp.Error.Err)
		}
		p := lp
		all = append(all, &p)
		if lp.Export != "" {
			exports[lp.ImportPath] = lp.Export
		}
	}
	want := map[string]bool{}
	for _, d := range relDirs {
		want[module+"/"+d] = true
	}
	lookup := func(path string) (io.ReadCloser, error) {
		f, ok := exports[path]
		if !ok {
			return nil, fmt.Errorf("no export data for %q", path)
		}
		return os.Open(f)
	}
	im := &imp{gc: importer.ForCompiler(fset, "gc", lookup), ours: map[string]*types.Package{}, exports: exports}
	var res []*pkgInfo
	for _, lp := range all { // go list -deps prints dependencies first
		if !want[lp.ImportPath] {
			continue
		}
		if len(lp.CgoFiles) > 0 {
			die("package %s uses cgo; not supported by this scanner", lp.ImportPath)
		}
		pi := &pkgInfo{path: lp.ImportPath, name: lp.Name, dir: lp.Dir}
		for _, f := range lp.GoFiles {
			af, err := parser.ParseFile(fset, filepath.Join(lp.Dir, f), nil, 0)
			if err != nil {
				die("parse %s: %v", f, err)
			}
			pi.files = append(pi.files, af)
		}
		pi.info = &types.Info{
			Types:      map[ast.Expr]types.TypeAndValue{},
			Defs:       map[*ast.Ident]types.Object{},
			Uses:       map[*ast.Ident]types.Object{},
			Selections: map[*ast.SelectorExpr]*types.Selection{},
			Implicits:  map[ast.Node]types.Object{},
		}
		var terrs []string
		conf := types.Config{Importer: im, Sizes: types.SizesFor("gc", "amd64"),
			Error: func(err error) { terrs = append(terrs, err.Error()) }}
		im.cur = lp.ImportMap
		tp, _ := conf.Check(lp.ImportPath, fset, pi.files, pi.info)
		if len(terrs) > 0 {
			die("type-check of %s failed:\n%s", lp.ImportPath, strings.Join(terrs, "\n"))
		}
		pi.tpkg = tp
		im.ours[lp.ImportPath] = tp
		res = append(res, pi)
		delete(want, lp.ImportPath)
	}
	for w := range want {
		die("package %s was not listed by go list", w)
	}
	return res, module
}

func tail(s string, n int) string {
	if len(s) > n {
		return s[len(s)-n:]
	}
	return s
}

// ---------------------------------------------------------------------------------------------
// helpers

func src(n ast.Node) string {
	var b bytes.Buffer
	printer.Fprint(&b, token.NewFileSet(), n)
	return strings.Join(strings.Fields(b.String()), " ")
}

func hashOf(s string) string {
	h := sha256.Sum256([]byte(s))
	return fmt.Sprintf("%x", h[:6])
}

func cq(s string) string {
	var b strings.Builder
	b.WriteByte('"')
	for _, r := range s {
		switch {
		case r == '"':
			b.WriteString(`""`)
		case r == '\n' || r == '\t' || r == '\r':
			b.WriteByte(' ')
		case r < 32 || r > 126:
			b.WriteByte('?')
		default:
			b.WriteRune(r)
		}
	}
	b.WriteByte('"')
	return b.String()
}

func unparen(e ast.Expr) ast.Expr {
	for {
		p, ok := e.(*ast.ParenExpr)
		if !ok {
			return e
		}
		e = p.X
	}
}

func qual(p *types.Package) string { return p.Name() }

func typeStr(t types.Type) string { return types.TypeString(t, qual) }

func namedOf(t types.Type) *types.Named {
	for {
		switch x := t.(type) {
		case *types.Pointer:
			t = x.Elem()
			continue
		case *types.Named:
			return x
		}
		return nil
	}
}

func isNamed(t types.Type, pkgPath, name string) bool {
	n := namedOf(t)
	return n != nil && n.Obj().Pkg() != nil && n.Obj().Pkg().Path() == pkgPath && n.Obj().Name() == name
}

var errorType = types.Universe.Lookup("error").Type()

func isErr(t types.Type) bool { return t != nil && types.Identical(t, errorType) }

// name of any function object: pkg.Func or pkg.Type.Method
func funcName(f *types.Func) string {
	pk := "?"
	if f.Pkg() != nil {
		pk = f.Pkg().Name()
	}
	sig := f.Type().(*types.Signature)
	if r := sig.Recv(); r != nil {
		if n := namedOf(r.Type()); n != nil {
			return pk + "." + n.Obj().Name() + "." + f.Name()
		}
		return pk + ".(" + typeStr(r.Type()) + ")." + f.Name()
	}
	return pk + "." + f.Name()
}

// ---------------------------------------------------------------------------------------------
// per function data

type handle struct {
	kind string // pool | nil | param | local | expr | reassigned
	name string
	isTx bool // parameter of type *sql.Tx
}

func (h handle) String() string {
	switch h.kind {
	case "pool", "nil":
		return h.kind
	case "param":
		if h.isTx {
			return "tx"
		}
		return "param:" + h.name
	}
	return h.kind + ":" + h.name
}

type hparam struct {
	name string
	idx  int
	obj  types.Object
	isTx bool
}

type site struct {
	verb   string
	h      handle
	rw     string
	prefix string
	hash   string
}

type call struct {
	callee string
	args   map[string]handle // callee handle parameter name -> handle expression in the caller
	hstr   string
	ref    bool
}

type fn struct {
	name       string
	pi         *pkgInfo
	decl       *ast.FuncDecl
	obj        *types.Func
	hparams    []hparam
	nilDefault map[string]bool
	reassigned map[types.Object]bool
	sites      []site
	calls      []call
	parents    map[ast.Node]ast.Node
	assigns    map[types.Object][]assignSite
	named      map[types.Object]bool // named results
	params     map[types.Object]bool // all parameters and the receiver
}

type assignSite struct {
	rhs     ast.Expr // expression assigned (nil when it is result idx of a multi-value call)
	call    *ast.CallExpr
	idx     int
	elems   []ast.Expr // range over a composite literal
	augment bool       // += and friends
}

var (
	pkgs      []*pkgInfo
	fns       = map[string]*fn{}
	fnOrder   []string
	fnByObj   = map[*types.Func]*fn{}
	ourPath   = map[string]bool{}
	ourNamed  []*types.Named
	sqlVerbs  = map[string]bool{"Exec": true, "Query": true, "QueryRow": true, "Prepare": true, "QueryContext": true, "QueryRowContext": true, "ExecContext": true, "PrepareContext": true}
	beginVerb = map[string]bool{"Begin": true, "BeginTx": true}
)

func isHandleType(t types.Type) (ok bool, isTx bool) {
	if t == nil {
		return false, false
	}
	if p, isp := t.(*types.Pointer); isp {
		if isNamed(p.Elem(), "database/sql", "Tx") {
			return true, true
		}
		if isNamed(p.Elem(), "database/sql", "Conn") {
			return true, false
		}
		return false, false
	}
	if n, isn := t.(*types.Named); isn && n.Obj().Name() == "QueryAble" && n.Obj().Pkg() != nil && ourPath[n.Obj().Pkg().Path()] {
		return true, false
	}
	return false, false
}

func isPoolType(t types.Type) bool {
	p, ok := t.(*types.Pointer)
	return ok && isNamed(p.Elem(), "database/sql", "DB")
}

func isStmtType(t types.Type) bool {
	p, ok := t.(*types.Pointer)
	return ok && isNamed(p.Elem(), "database/sql", "Stmt")
}

func (f *fn) info() *types.Info { return f.pi.info }

func (f *fn) paramOf(o types.Object) *hparam {
	for i := range f.hparams {
		if f.hparams[i].obj == o {
			return &f.hparams[i]
		}
	}
	return nil
}

func (f *fn) classify(e ast.Expr) handle {
	e = unparen(e)
	tv := f.info().Types[e]
	if tv.IsNil() {
		return handle{kind: "nil"}
	}
	if isPoolType(tv.Type) {
		return handle{kind: "pool"}
	}
	if id, ok := e.(*ast.Ident); ok {
		o := f.info().Uses[id]
		if p := f.paramOf(o); p != nil {
			if f.reassigned[o] {
				return handle{kind: "reassigned", name: p.name}
			}
			return handle{kind: "param", name: p.name, isTx: p.isTx}
		}
		return handle{kind: "local", name: id.Name}
	}
	return handle{kind: "expr", name: src(e)}
}

func collectFuncs() {
	for _, pi := range pkgs {
		ourPath[pi.path] = true
	}
	for _, pi := range pkgs {
		sc := pi.tpkg.Scope()
		for _, n := range sc.Names() {
			if tn, ok := sc.Lookup(n).(*types.TypeName); ok {
				if nm, ok := tn.Type().(*types.Named); ok {
					ourNamed = append(ourNamed, nm)
				}
			}
		}
		for _, file := range pi.files {
			for _, d := range file.Decls {
				fd, ok := d.(*ast.FuncDecl)
				if !ok || fd.Body == nil {
					continue
				}
				obj := pi.info.Defs[fd.Name].(*types.Func)
				name := funcName(obj)
				if _, dup := fns[name]; dup {
					for k := 2; ; k++ {
						if _, dup := fns[fmt.Sprintf("%s#%d", name, k)]; !dup {
							name = fmt.Sprintf("%s#%d", name, k)
							break
						}
					}
				}
				f := &fn{name: name, pi: pi, decl: fd, obj: obj, nilDefault: map[string]bool{}, reassigned: map[types.Object]bool{}, named: map[types.Object]bool{}}
				sig := obj.Type().(*types.Signature)
				for i := 0; i < sig.Params().Len(); i++ {
					v := sig.Params().At(i)
					if ok, isTx := isHandleType(v.Type()); ok {
						f.hparams = append(f.hparams, hparam{name: v.Name(), idx: i, obj: v, isTx: isTx})
					}
				}
				f.params = map[types.Object]bool{}
				for i := 0; i < sig.Params().Len(); i++ {
					f.params[sig.Params().At(i)] = true
				}
				if sig.Recv() != nil {
					f.params[sig.Recv()] = true
				}
				for i := 0; i < sig.Results().Len(); i++ {
					if v := sig.Results().At(i); v.Name() != "" {
						f.named[v] = true
					}
				}
				fns[name] = f
				fnByObj[obj] = f
				fnOrder = append(fnOrder, name)
			}
		}
	}
	sort.Strings(fnOrder)
}

// parent map, assignment index, nil-default guards, reassigned handle parameters
func (f *fn) prepare() {
	f.parents = map[ast.Node]ast.Node{}
	f.assigns = map[types.Object][]assignSite{}
	var stack []ast.Node
	ast.Inspect(f.decl, func(n ast.Node) bool {
		if n == nil {
			stack = stack[:len(stack)-1]
			return true
		}
		if len(stack) > 0 {
			f.parents[n] = stack[len(stack)-1]
		}
		stack = append(stack, n)
		return true
	})
	info := f.info()
	objOf := func(e ast.Expr) types.Object {
		id, ok := unparen(e).(*ast.Ident)
		if !ok {
			return nil
		}
		if o := info.Defs[id]; o != nil {
			return o
		}
		return info.Uses[id]
	}
	guardAssign := map[*ast.AssignStmt]bool{}
	ast.Inspect(f.decl, func(n ast.Node) bool {
		ifs, ok := n.(*ast.IfStmt)
		if !ok || ifs.Init != nil || ifs.Else != nil || len(ifs.Body.List) != 1 {
			return true
		}
		be, ok := unparen(ifs.Cond).(*ast.BinaryExpr)
		if !ok || be.Op != token.EQL || !info.Types[be.Y].IsNil() {
			return true
		}
		p := f.paramOf(objOf(be.X))
		as, ok := ifs.Body.List[0].(*ast.AssignStmt)
		if p == nil || !ok || as.Tok != token.ASSIGN || len(as.Lhs) != 1 || len(as.Rhs) != 1 {
			return true
		}
		if objOf(as.Lhs[0]) == p.obj && isPoolType(info.Types[as.Rhs[0]].Type) {
			f.nilDefault[p.name] = true
			guardAssign[as] = true
		}
		return true
	})
	ast.Inspect(f.decl, func(n ast.Node) bool {
		switch s := n.(type) {
		case *ast.AssignStmt:
			for i, l := range s.Lhs {
				o := objOf(l)
				if o == nil {
					continue
				}
				if f.paramOf(o) != nil && !guardAssign[s] {
					f.reassigned[o] = true
				}
				as := assignSite{idx: i, augment: s.Tok != token.ASSIGN && s.Tok != token.DEFINE}
				if len(s.Rhs) == len(s.Lhs) {
					as.rhs = s.Rhs[i]
				} else if len(s.Rhs) == 1 {
					if c, ok := unparen(s.Rhs[0]).(*ast.CallExpr); ok {
						as.call = c
					}
				}
				f.assigns[o] = append(f.assigns[o], as)
			}
		case *ast.ValueSpec:
			for i, id := range s.Names {
				o := info.Defs[id]
				if o == nil {
					continue
				}
				as := assignSite{idx: i}
				if len(s.Values) == len(s.Names) {
					as.rhs = s.Values[i]
				} else if len(s.Values) == 1 {
					if c, ok := unparen(s.Values[0]).(*ast.CallExpr); ok {
						as.call = c
					}
				} else {
					continue
				}
				f.assigns[o] = append(f.assigns[o], as)
			}
		case *ast.RangeStmt:
			if s.Value != nil {
				if o := objOf(s.Value); o != nil {
					if cl, ok := unparen(s.X).(*ast.CompositeLit); ok {
						f.assigns[o] = append(f.assigns[o], assignSite{elems: cl.Elts})
					} else {
						f.assigns[o] = append(f.assigns[o], assignSite{})
					}
				}
			}
		case *ast.UnaryExpr:
			if s.Op == token.AND {
				if o := objOf(s.X); o != nil && f.paramOf(o) != nil {
					f.reassigned[o] = true
				}
			}
		}
		return true
	})
}

// ---------------------------------------------------------------------------------------------
// SQL text resolution

func calleeOf(info *types.Info, c *ast.CallExpr) *types.Func {
	switch x := unparen(c.Fun).(type) {
	case *ast.Ident:
		if fo, ok := info.Uses[x].(*types.Func); ok {
			return fo
		}
	case *ast.SelectorExpr:
		if fo, ok := info.Uses[x.Sel].(*types.Func); ok {
			return fo
		}
	}
	return nil
}

// wrapperOf: functions of the scanned packages whose whole body is `return g(...)` and whose last
// result is an error: for the error bookkeeping a call of such a helper is a call of g (extracting a
// helper around a call does not change which error can be lost where)
var wrapperOf map[string]string

func collectWrappers() {
	wrapperOf = map[string]string{}
	for _, n := range fnOrder {
		f := fns[n]
		if f.decl == nil || f.decl.Body == nil || len(f.decl.Body.List) != 1 || f.obj == nil {
			continue
		}
		ret, ok := f.decl.Body.List[0].(*ast.ReturnStmt)
		if !ok || len(ret.Results) != 1 {
			continue
		}
		c, ok := unparen(ret.Results[0]).(*ast.CallExpr)
		if !ok {
			continue
		}
		sig := f.obj.Type().(*types.Signature)
		if sig.Results().Len() == 0 || !isErr(sig.Results().At(sig.Results().Len()-1).Type()) {
			continue
		}
		wrapperOf[f.name] = calleeText(f.info(), c)
	}
}

func errSource(info *types.Info, c *ast.CallExpr) string {
	name := calleeText(info, c)
	for k := 0; k < 5; k++ {
		w, ok := wrapperOf[name]
		if !ok {
			break
		}
		name = w
	}
	return name
}

func calleeText(info *types.Info, c *ast.CallExpr) string {
	if fo := calleeOf(info, c); fo != nil {
		return funcName(fo)
	}
	return src(c.Fun)
}

// resolveStr returns the possible values of a string expression as far as they can be read
// off the source (constants, single-assignment locals, fmt.Sprintf formats, functions of the
// scanned packages that return such strings). nil = unresolved.
func resolveStr(f *fn, e ast.Expr, depth int) []string {
	if depth > 8 {
		return nil
	}
	info := f.info()
	e = unparen(e)
	if tv, ok := info.Types[e]; ok && tv.Value != nil && tv.Value.Kind() == constant.String {
		return []string{constant.StringVal(tv.Value)}
	}
	switch x := e.(type) {
	case *ast.BinaryExpr:
		if x.Op == token.ADD {
			l := resolveStr(f, x.X, depth+1)
			if l == nil {
				return nil
			}
			r := resolveStr(f, x.Y, depth+1)
			var out []string
			for _, a := range l {
				if r == nil {
					out = append(out, a+"%s")
				}
				for _, b := range r {
					out = append(out, a+b)
				}
			}
			return out
		}
	case *ast.CallExpr:
		fo := calleeOf(info, x)
		if fo == nil {
			return nil
		}
		if fo.Pkg() != nil && fo.Pkg().Path() == "fmt" && fo.Name() == "Sprintf" && len(x.Args) > 0 {
			return resolveStr(f, x.Args[0], depth+1)
		}
		return resolveResult(x, fo, 0, depth+1)
	case *ast.Ident:
		o := info.Uses[x]
		if o == nil {
			return nil
		}
		if v, ok := o.(*types.Var); ok && v.Pkg() != nil && v.Parent() == v.Pkg().Scope() {
			return resolvePkgVar(v, depth+1)
		}
		var out []string
		found := false
		for _, as := range f.assigns[o] {
			if as.augment {
				continue
			}
			found = true
			var r []string
			switch {
			case as.rhs != nil:
				r = resolveStr(f, as.rhs, depth+1)
			case as.call != nil:
				if fo := calleeOf(info, as.call); fo != nil {
					r = resolveResult(as.call, fo, as.idx, depth+1)
				}
			case as.elems != nil:
				for _, el := range as.elems {
					er := resolveStr(f, el, depth+1)
					if er == nil {
						return nil
					}
					r = append(r, er...)
				}
			}
			if r == nil {
				return nil
			}
			out = append(out, r...)
		}
		if !found {
			return nil
		}
		return out
	}
	return nil
}

func resolveResult(c *ast.CallExpr, fo *types.Func, idx int, depth int) []string {
	g := fnByObj[fo]
	if g == nil {
		return nil
	}
	var out []string
	ok := true
	seen := false
	ast.Inspect(g.decl.Body, func(n ast.Node) bool {
		if _, isLit := n.(*ast.FuncLit); isLit {
			return false
		}
		rs, isRet := n.(*ast.ReturnStmt)
		if !isRet {
			return true
		}
		seen = true
		if idx >= len(rs.Results) {
			ok = false
			return true
		}
		r := resolveStr(g, rs.Results[idx], depth+1)
		if r == nil {
			ok = false
			return true
		}
		for _, s := range r {
			if s != "" { // "" is what the error paths return
				out = append(out, s)
			}
		}
		return true
	})
	if !ok || !seen || len(out) == 0 {
		return nil
	}
	return out
}

func resolvePkgVar(v *types.Var, depth int) []string {
	for _, pi := range pkgs {
		if pi.tpkg != v.Pkg() {
			continue
		}
		for _, file := range pi.files {
			for _, d := range file.Decls {
				gd, ok := d.(*ast.GenDecl)
				if !ok {
					continue
				}
				for _, sp := range gd.Specs {
					vs, ok := sp.(*ast.ValueSpec)
					if !ok {
						continue
					}
					for i, id := range vs.Names {
						if pi.info.Defs[id] == v && i < len(vs.Values) {
							dummy := &fn{pi: pi, assigns: map[types.Object][]assignSite{}}
							return resolveStr(dummy, vs.Values[i], depth+1)
						}
					}
				}
			}
		}
	}
	return nil
}

func normSQL(s string) string {
	var lines []string
	for _, l := range strings.Split(s, "\n") {
		if t := strings.TrimSpace(l); strings.HasPrefix(t, "--") {
			continue
		}
		lines = append(lines, l)
	}
	return strings.Join(strings.Fields(strings.Join(lines, "\n")), " ")
}

var writeWords = []string{"INSERT", "UPDATE", "DELETE", "REPLACE", "CREATE", "ALTER", "DROP", "BEGIN", "COMMIT", "END",
	"ROLLBACK", "SAVEPOINT", "RELEASE", "PRAGMA", "VACUUM", "ATTACH", "DETACH", "REINDEX", "ANALYZE", "WITH"}

func classifySQL(s string) string {
	u := strings.ToUpper(strings.TrimLeft(s, "( "))
	word := u
	for i, c := range u {
		if !(c >= 'A' && c <= 'Z') {
			word = u[:i]
			break
		}
	}
	if word == "SELECT" {
		return "R"
	}
	for _, w := range writeWords {
		if word == w {
			return "W"
		}
	}
	return "?"
}

func sqlOf(f *fn, e ast.Expr) (rw, prefix string) {
	c := resolveStr(f, e, 0)
	if len(c) == 0 {
		return "?", "?" + src(e)
	}
	rw = ""
	for _, s := range c {
		k := classifySQL(normSQL(s))
		if rw == "" {
			rw = k
		} else if rw != k {
			rw = "?"
		}
	}
	// every distinct candidate text (a statement chosen by a condition has several), in source order
	seen := map[string]bool{}
	for _, s := range c {
		p := normSQL(s)
		if len(p) > 40 {
			p = p[:40]
		}
		if seen[p] {
			continue
		}
		seen[p] = true
		if prefix != "" {
			prefix += " || "
		}
		prefix += p
	}
	return rw, prefix
}

// ---------------------------------------------------------------------------------------------
// scan of one function: SQL sites and call edges

func implementers(m *types.Func) []*types.Func {
	sig := m.Type().(*types.Signature)
	if sig.Recv() == nil {
		return nil
	}
	it, ok := sig.Recv().Type().Underlying().(*types.Interface)
	if !ok {
		return nil
	}
	var out []*types.Func
	for _, nm := range ourNamed {
		if _, isI := nm.Underlying().(*types.Interface); isI {
			continue
		}
		var recv types.Type
		if types.Implements(nm, it) {
			recv = nm
		} else if types.Implements(types.NewPointer(nm), it) {
			recv = types.NewPointer(nm)
		} else {
			continue
		}
		o, _, _ := types.LookupFieldOrMethod(recv, true, m.Pkg(), m.Name())
		if fo, ok := o.(*types.Func); ok {
			out = append(out, fo)
		}
	}
	return out
}

func (f *fn) scan() {
	info := f.info()
	called := map[*ast.Ident]bool{}
	addCall := func(target *types.Func, c *ast.CallExpr, shift int) {
		g := fnByObj[target]
		if g == nil {
			return
		}
		cl := call{callee: g.name, args: map[string]handle{}, hstr: "-"}
		var parts []string
		for _, hp := range g.hparams {
			i := hp.idx + shift
			if c == nil || i >= len(c.Args) {
				cl.args[hp.name] = handle{kind: "expr", name: "?"}
				parts = append(parts, "?")
				continue
			}
			h := f.classify(c.Args[i])
			cl.args[hp.name] = h
			parts = append(parts, h.String())
		}
		if len(parts) > 0 {
			cl.hstr = strings.Join(parts, ",")
		}
		f.calls = append(f.calls, cl)
	}
	ast.Inspect(f.decl.Body, func(n ast.Node) bool {
		c, ok := n.(*ast.CallExpr)
		if !ok {
			return true
		}
		fo := calleeOf(info, c)
		if fo == nil {
			return true
		}
		shift := 0
		switch x := unparen(c.Fun).(type) {
		case *ast.Ident:
			called[x] = true
		case *ast.SelectorExpr:
			called[x.Sel] = true
			if s := info.Selections[x]; s != nil && s.Kind() == types.MethodExpr {
				shift = 1
			}
		}
		// SQL site?
		sig := fo.Type().(*types.Signature)
		if sig.Recv() != nil {
			rt := sig.Recv().Type()
			sel, _ := unparen(c.Fun).(*ast.SelectorExpr)
			isSQLRecv := isNamed(rt, "database/sql", "DB") || isNamed(rt, "database/sql", "Tx") || isNamed(rt, "database/sql", "Conn")
			if n := namedOf(rt); n != nil && n.Obj().Name() == "QueryAble" && n.Obj().Pkg() != nil && ourPath[n.Obj().Pkg().Path()] {
				isSQLRecv = true
			}
			if sel != nil && isSQLRecv && (sqlVerbs[fo.Name()] || beginVerb[fo.Name()]) {
				st := site{verb: fo.Name(), h: f.classify(sel.X), hash: hashOf(src(c))}
				if beginVerb[fo.Name()] {
					st.rw, st.prefix = "W", "BEGIN (new transaction)"
				} else {
					ai := 0
					if strings.HasSuffix(fo.Name(), "Context") {
						ai = 1
					}
					if ai < len(c.Args) {
						st.rw, st.prefix = sqlOf(f, c.Args[ai])
					} else {
						st.rw, st.prefix = "?", "?"
					}
				}
				f.sites = append(f.sites, st)
			}
			if sel != nil && isNamed(rt, "database/sql", "Stmt") && (sqlVerbs[fo.Name()]) {
				st := site{verb: "Stmt." + fo.Name(), h: handle{kind: "expr", name: "stmt " + src(sel.X)}, rw: "?", prefix: "?", hash: hashOf(src(c))}
				if fo.Name() == "Exec" || fo.Name() == "ExecContext" {
					st.rw = "W"
				}
				// inherit handle and text from the Prepare that defines the statement variable
				if id, ok := unparen(sel.X).(*ast.Ident); ok {
					var defs []*ast.CallExpr
					okAll := true
					for _, as := range f.assigns[info.Uses[id]] {
						var pc *ast.CallExpr
						if as.call != nil {
							pc = as.call
						} else if as.rhs != nil {
							pc, _ = unparen(as.rhs).(*ast.CallExpr)
						}
						if pc == nil {
							okAll = false
							continue
						}
						pf := calleeOf(info, pc)
						ps, _ := unparen(pc.Fun).(*ast.SelectorExpr)
						if pf == nil || ps == nil || !strings.HasPrefix(pf.Name(), "Prepare") {
							okAll = false
							continue
						}
						defs = append(defs, pc)
					}
					if okAll && len(defs) == 1 {
						ps := unparen(defs[0].Fun).(*ast.SelectorExpr)
						st.h = f.classify(ps.X)
						ai := 0
						if strings.HasSuffix(calleeOf(info, defs[0]).Name(), "Context") {
							ai = 1
						}
						st.rw, st.prefix = sqlOf(f, defs[0].Args[ai])
					}
				}
				f.sites = append(f.sites, st)
			}
		}
		// call edge(s)
		if fnByObj[fo] != nil {
			addCall(fo, c, shift)
		} else if fo.Pkg() != nil && ourPath[fo.Pkg().Path()] {
			for _, t := range implementers(fo) {
				addCall(t, c, shift)
			}
		}
		return true
	})
	// references to functions that are not calls (method values, callbacks)
	ast.Inspect(f.decl.Body, func(n ast.Node) bool {
		id, ok := n.(*ast.Ident)
		if !ok || called[id] {
			return true
		}
		if fo, ok := info.Uses[id].(*types.Func); ok {
			if g := fnByObj[fo]; g != nil {
				cl := call{callee: g.name, args: map[string]handle{}, hstr: "-", ref: true}
				for _, hp := range g.hparams {
					cl.args[hp.name] = handle{kind: "expr", name: "function value"}
				}
				if len(g.hparams) > 0 {
					cl.hstr = "?"
				}
				f.calls = append(f.calls, cl)
			}
		}
		return true
	})
}

// ---------------------------------------------------------------------------------------------
// reachability and effective handles

func reach(roots []string) []string {
	seen := map[string]bool{}
	var q []string
	for _, r := range roots {
		if !seen[r] {
			seen[r] = true
			q = append(q, r)
		}
	}
	for len(q) > 0 {
		n := q[0]
		q = q[1:]
		for _, c := range fns[n].calls {
			if !seen[c.callee] {
				seen[c.callee] = true
				q = append(q, c.callee)
			}
		}
	}
	var out []string
	for n := range seen {
		out = append(out, n)
	}
	sort.Strings(out)
	return out
}

type effRow struct{ fn, eff, rw, prefix, origin string }

type bval struct{ v, origin string }

// effective resolves the handle of every SQL site reachable from the roots through the chain
// of call sites: one row per (site, effective handle, function in which that handle was chosen).
func effective(roots []string, rootVal string) []effRow {
	type state struct {
		fn  string
		key string
	}
	vals := map[string]map[int]map[bval]bool{} // fn -> site index -> values
	seen := map[state]bool{}
	type item struct {
		fn string
		b  map[string]bval
	}
	keyOf := func(b map[string]bval) string {
		var ks []string
		for k, v := range b {
			ks = append(ks, k+"="+v.v+"@"+v.origin)
		}
		sort.Strings(ks)
		return strings.Join(ks, ",")
	}
	var q []item
	for _, r := range roots {
		b := map[string]bval{}
		for _, hp := range fns[r].hparams {
			b[hp.name] = bval{rootVal, "root"}
		}
		q = append(q, item{r, b})
	}
	eval := func(h handle, b map[string]bval, cur string) bval {
		switch h.kind {
		case "pool":
			return bval{"pool", cur}
		case "nil":
			return bval{"nil", cur}
		case "param":
			if v, ok := b[h.name]; ok {
				return v
			}
			return bval{"unbound", cur}
		}
		return bval{"other", cur}
	}
	for len(q) > 0 {
		it := q[0]
		q = q[1:]
		st := state{it.fn, keyOf(it.b)}
		if seen[st] {
			continue
		}
		seen[st] = true
		f := fns[it.fn]
		if vals[it.fn] == nil {
			vals[it.fn] = map[int]map[bval]bool{}
		}
		for i, s := range f.sites {
			if vals[it.fn][i] == nil {
				vals[it.fn][i] = map[bval]bool{}
			}
			vals[it.fn][i][eval(s.h, it.b, it.fn)] = true
		}
		for _, c := range f.calls {
			g := fns[c.callee]
			nb := map[string]bval{}
			for _, hp := range g.hparams {
				v := eval(c.args[hp.name], it.b, it.fn)
				if v.v == "nil" && g.nilDefault[hp.name] {
					v = bval{"pool", c.callee}
				}
				nb[hp.name] = v
			}
			q = append(q, item{c.callee, nb})
		}
	}
	var out []effRow
	var names []string
	for n := range vals {
		names = append(names, n)
	}
	sort.Strings(names)
	for _, n := range names {
		for i, s := range fns[n].sites {
			var vs []bval
			for v := range vals[n][i] {
				vs = append(vs, v)
			}
			sort.Slice(vs, func(a, b int) bool {
				if vs[a].v != vs[b].v {
					return vs[a].v < vs[b].v
				}
				return vs[a].origin < vs[b].origin
			})
			for _, v := range vs {
				out = append(out, effRow{n, v.v, s.rw, s.prefix, v.origin})
			}
		}
	}
	return out
}

// ---------------------------------------------------------------------------------------------
// discarded errors

type discard struct{ fn, callee, how, hash string }

var quietPkgs = map[string]bool{"fmt": true, "strings": true, "bytes": true, "github.com/sirupsen/logrus": true}

func lastIsErr(info *types.Info, c *ast.CallExpr) (n int, ok bool) {
	t := info.Types[c].Type
	switch x := t.(type) {
	case *types.Tuple:
		if x.Len() == 0 {
			return 0, false
		}
		return x.Len(), isErr(x.At(x.Len() - 1).Type())
	case nil:
		return 0, false
	default:
		if info.Types[c.Fun].IsType() { // conversion
			return 1, false
		}
		return 1, isErr(t)
	}
}

func isAbruptCall(info *types.Info, c *ast.CallExpr) bool {
	switch x := unparen(c.Fun).(type) {
	case *ast.Ident:
		if _, isB := info.Uses[x].(*types.Builtin); isB && x.Name == "panic" {
			return true
		}
	case *ast.SelectorExpr:
		n := x.Sel.Name
		if strings.HasPrefix(n, "Fatal") || strings.HasPrefix(n, "Panic") || n == "Exit" {
			return true
		}
	}
	return false
}

func hasAbruptCall(info *types.Info, b ast.Node) bool {
	abrupt := false
	ast.Inspect(b, func(n ast.Node) bool {
		switch x := n.(type) {
		case *ast.FuncLit:
			return false
		case *ast.CallExpr:
			if isAbruptCall(info, x) {
				abrupt = true
			}
		}
		return !abrupt
	})
	return abrupt
}

// terminates: the statement list cannot complete normally (syntactic approximation of the
// Go specification's "terminating statement", plus break/continue/goto and fatal calls)
func terminates(info *types.Info, l []ast.Stmt) bool {
	if len(l) == 0 {
		return false
	}
	switch x := l[len(l)-1].(type) {
	case *ast.ReturnStmt, *ast.BranchStmt:
		return true
	case *ast.ExprStmt:
		if c, ok := unparen(x.X).(*ast.CallExpr); ok {
			return isAbruptCall(info, c)
		}
	case *ast.BlockStmt:
		return terminates(info, x.List)
	case *ast.LabeledStmt:
		return terminates(info, []ast.Stmt{x.Stmt})
	case *ast.IfStmt:
		if x.Else == nil {
			return false
		}
		return terminates(info, x.Body.List) && terminates(info, []ast.Stmt{x.Else})
	}
	return false
}

type flow struct {
	f    *fn
	e    types.Object
	outs map[string]bool
	// logged: an `if e != nil { ... }` that does not leave the function was passed (the error was only
	// logged so far); what happens to e afterwards decides: returned or tested again -> handled,
	// overwritten / never looked at again -> "logged"
	logged bool
}

// lost records that the error value disappears here without having been handled
func (w *flow) lost(how string) {
	if w.logged {
		how = "logged"
	}
	w.outs[how] = true
}

func (w *flow) mentions(n ast.Node) bool {
	if n == nil {
		return false
	}
	found := false
	ast.Inspect(n, func(x ast.Node) bool {
		if id, ok := x.(*ast.Ident); ok && (w.f.info().Uses[id] == w.e || w.f.info().Defs[id] == w.e) {
			found = true
		}
		return !found
	})
	return found
}

// testsNonNil: cond is `e != nil`, possibly one conjunct of an && chain
func (w *flow) testsNonNil(cond ast.Expr) bool {
	cond = unparen(cond)
	if be, ok := cond.(*ast.BinaryExpr); ok {
		if be.Op == token.LAND {
			return w.testsNonNil(be.X) || w.testsNonNil(be.Y)
		}
		if be.Op == token.NEQ {
			if id, ok := unparen(be.X).(*ast.Ident); ok && w.f.info().Uses[id] == w.e && w.f.info().Types[be.Y].IsNil() {
				return true
			}
		}
	}
	return false
}

// step returns true when some path falls through the statement without a decisive event
func (w *flow) step(s ast.Stmt) bool {
	info := w.f.info()
	switch x := s.(type) {
	case nil:
		return true
	case *ast.EmptyStmt:
		return true
	case *ast.LabeledStmt:
		return w.step(x.Stmt)
	case *ast.BlockStmt:
		return w.seq(x.List)
	case *ast.AssignStmt:
		for _, r := range x.Rhs {
			if w.mentions(r) {
				return false
			}
		}
		wr := false
		for _, l := range x.Lhs {
			if id, ok := unparen(l).(*ast.Ident); ok {
				if info.Uses[id] == w.e || info.Defs[id] == w.e {
					wr = true
				}
				continue
			}
			if w.mentions(l) {
				return false
			}
		}
		if wr {
			if x.Tok != token.ASSIGN && x.Tok != token.DEFINE {
				return false // err += ... reads
			}
			w.lost("overwritten")
			return false
		}
		return true
	case *ast.ReturnStmt:
		if w.mentions(x) || (len(x.Results) == 0 && w.f.named[w.e]) {
			return false
		}
		w.lost("unchecked")
		return false
	case *ast.BranchStmt:
		return false
	case *ast.IfStmt:
		if x.Init != nil && !w.step(x.Init) {
			return false
		}
		return w.ifFromCond(x)
	case *ast.ForStmt:
		if x.Init != nil && !w.step(x.Init) {
			return false
		}
		if w.mentions(x.Cond) {
			return false
		}
		w.seq(x.Body.List)
		return true
	case *ast.RangeStmt:
		if w.mentions(x.X) {
			return false
		}
		w.seq(x.Body.List)
		return true
	case *ast.SwitchStmt:
		if x.Init != nil && !w.step(x.Init) {
			return false
		}
		if w.mentions(x.Tag) {
			return false
		}
		return w.clauses(x.Body)
	case *ast.TypeSwitchStmt:
		if w.mentions(x.Init) || w.mentions(x.Assign) {
			return false
		}
		return w.clauses(x.Body)
	case *ast.SelectStmt:
		return w.clauses(x.Body)
	case *ast.ExprStmt:
		if w.mentions(x) {
			return false
		}
		if c, ok := unparen(x.X).(*ast.CallExpr); ok && isAbruptCall(info, c) {
			return false
		}
		return true
	default: // send, incdec, go, defer, decl
		return !w.mentions(x)
	}
}

func (w *flow) clauses(b *ast.BlockStmt) bool {
	falls := false
	hasDefault := false
	for _, c := range b.List {
		switch cc := c.(type) {
		case *ast.CaseClause:
			if cc.List == nil {
				hasDefault = true
			}
			for _, e := range cc.List {
				if w.mentions(e) {
					return false
				}
			}
			if w.seq(cc.Body) {
				falls = true
			}
		case *ast.CommClause:
			if cc.Comm == nil {
				hasDefault = true
			} else if !w.step(cc.Comm) {
				continue
			}
			if w.seq(cc.Body) {
				falls = true
			}
		}
	}
	return falls || !hasDefault
}

func (w *flow) ifFromCond(x *ast.IfStmt) bool {
	if w.mentions(x.Cond) {
		if w.testsNonNil(x.Cond) {
			if !terminates(w.f.info(), x.Body.List) {
				if x.Else == nil && !w.logged {
					// keep following the error behind the if: `if err != nil { log }; return x, err`
					// hands it on, `if err != nil { log }; err = ...` loses it
					w.logged = true
					return true
				}
				w.outs["logged"] = true
			} else if ret, isRet := x.Body.List[len(x.Body.List)-1].(*ast.ReturnStmt); isRet && !w.mentions(x.Body) && !hasAbruptCall(w.f.info(), x.Body) {
				// returns without the error: turned into a plain value or into a nil error
				// (a return that carries some other non-nil error expression is not counted)
				info := w.f.info()
				if n := len(ret.Results); n > 0 {
					last := ret.Results[n-1]
					if !isErr(info.Types[last].Type) || info.Types[last].IsNil() {
						w.outs["dropped"] = true
					}
				}
			}
		}
		return false
	}
	f1 := w.seq(x.Body.List)
	f2 := true
	if x.Else != nil {
		f2 = w.step(x.Else)
	}
	return f1 || f2
}

func (w *flow) seq(l []ast.Stmt) bool {
	for _, s := range l {
		if !w.step(s) {
			return false
		}
	}
	return true
}

// after continues the search behind node n (a statement that was fallen through)
func (w *flow) after(n ast.Node) {
	var child ast.Node // the statement of the block just left
	for {
		p := w.f.parents[n]
		switch x := p.(type) {
		case *ast.BlockStmt:
			if !w.seq(restAfter(x.List, n)) {
				return
			}
			child = n
			n = x
		case *ast.CaseClause:
			if !w.seq(restAfter(x.Body, n)) {
				return
			}
			n = w.f.parents[x] // the switch body; its parent is the switch
		case *ast.CommClause:
			if !w.seq(restAfter(x.Body, n)) {
				return
			}
			n = w.f.parents[x]
		case *ast.IfStmt:
			if n == x.Init {
				if !w.ifFromCond(x) {
					return
				}
			}
			n = x
		case *ast.ForStmt:
			if n == x.Init {
				return // rare shape, not followed
			}
			if w.mentions(x.Post) || w.mentions(x.Cond) {
				return
			}
			// next iteration: the statements of the body up to the one we came from
			if n == x.Body && !w.seq(restBefore(x.Body.List, child)) {
				return
			}
			n = x
		case *ast.RangeStmt:
			if n == x.Body && !w.seq(restBefore(x.Body.List, child)) {
				return
			}
			n = x
		case *ast.SwitchStmt, *ast.TypeSwitchStmt, *ast.SelectStmt, *ast.LabeledStmt:
			n = p
		case *ast.FuncDecl, *ast.FuncLit:
			if !w.f.named[w.e] {
				w.lost("unchecked")
			}
			return
		default:
			return
		}
	}
}

func restBefore(l []ast.Stmt, n ast.Node) []ast.Stmt {
	for i, s := range l {
		if s == n {
			return l[:i]
		}
	}
	return nil
}

func restAfter(l []ast.Stmt, n ast.Node) []ast.Stmt {
	for i, s := range l {
		if s == n {
			return l[i+1:]
		}
	}
	return nil
}

func (f *fn) discards() []discard {
	info := f.info()
	var out []discard
	add := func(callee, how string, n ast.Node) {
		out = append(out, discard{f.name, callee, how, hashOf(src(n))})
	}
	quiet := func(c *ast.CallExpr) bool {
		fo := calleeOf(info, c)
		return fo != nil && fo.Pkg() != nil && quietPkgs[fo.Pkg().Path()]
	}
	follow := func(stmt ast.Stmt, lhs ast.Expr, c *ast.CallExpr) {
		id, ok := unparen(lhs).(*ast.Ident)
		if !ok {
			return
		}
		if id.Name == "_" {
			if !quiet(c) {
				add(errSource(info, c), "blank", stmt)
			}
			return
		}
		o := info.Defs[id]
		if o == nil {
			o = info.Uses[id]
		}
		if o == nil {
			return
		}
		if v, ok := o.(*types.Var); ok && v.Pkg() != nil && v.Parent() == v.Pkg().Scope() {
			return // package level variable
		}
		w := &flow{f: f, e: o, outs: map[string]bool{}}
		w.after(stmt)
		var hows []string
		for h := range w.outs {
			hows = append(hows, h)
		}
		sort.Strings(hows)
		for _, h := range hows {
			add(errSource(info, c), h, stmt)
		}
	}
	ast.Inspect(f.decl.Body, func(n ast.Node) bool {
		switch s := n.(type) {
		case *ast.ExprStmt:
			if c, ok := unparen(s.X).(*ast.CallExpr); ok {
				if _, isErrLast := lastIsErr(info, c); isErrLast && !quiet(c) {
					add(errSource(info, c), "blank", s)
				}
			}
		case *ast.AssignStmt:
			if len(s.Rhs) == 1 {
				if c, ok := unparen(s.Rhs[0]).(*ast.CallExpr); ok {
					if k, isErrLast := lastIsErr(info, c); isErrLast && k == len(s.Lhs) {
						follow(s, s.Lhs[k-1], c)
					}
				}
			} else if len(s.Rhs) == len(s.Lhs) {
				for i, r := range s.Rhs {
					if c, ok := unparen(r).(*ast.CallExpr); ok {
						if k, isErrLast := lastIsErr(info, c); isErrLast && k == 1 {
							follow(s, s.Lhs[i], c)
						}
					}
				}
			}
		case *ast.IfStmt:
			// wrong-var: `if E != nil { ... return <other error variable> }`
			f.wrongVar(s, add)
		}
		return true
	})
	return out
}

func (f *fn) wrongVar(s *ast.IfStmt, add func(callee, how string, n ast.Node)) {
	info := f.info()
	var tested []ast.Expr
	var collect func(e ast.Expr)
	collect = func(e ast.Expr) {
		e = unparen(e)
		be, ok := e.(*ast.BinaryExpr)
		if !ok {
			return
		}
		if be.Op == token.LAND {
			collect(be.X)
			collect(be.Y)
			return
		}
		if be.Op == token.NEQ && info.Types[be.Y].IsNil() && isErr(info.Types[be.X].Type) {
			tested = append(tested, unparen(be.X))
		}
	}
	collect(s.Cond)
	for _, E := range tested {
		var eobj types.Object
		if id, ok := E.(*ast.Ident); ok {
			eobj = info.Uses[id]
		}
		etext := src(E)
		mention := false
		var returned *ast.Ident
		ast.Inspect(s.Body, func(n ast.Node) bool {
			switch x := n.(type) {
			case *ast.FuncLit:
				return false
			case *ast.Ident:
				if eobj != nil && info.Uses[x] == eobj {
					mention = true
				}
			case *ast.CallExpr:
				if eobj == nil && src(x) == etext {
					mention = true
				}
			case *ast.ReturnStmt:
				for _, r := range x.Results {
					id, ok := unparen(r).(*ast.Ident)
					if !ok || !isErr(info.Types[id].Type) {
						continue
					}
					o, ok := info.Uses[id].(*types.Var)
					if !ok || o == eobj {
						continue
					}
					if o.Pkg() != nil && o.Parent() == o.Pkg().Scope() {
						continue // sentinel error of the package
					}
					returned = id
				}
			}
			return true
		})
		if returned != nil && !mention {
			// named after what produced the tested error (not after the variables, which a
			// harmless rename would change)
			name := ""
			if c, ok := E.(*ast.CallExpr); ok {
				name = calleeText(info, c)
			} else if eobj != nil {
				set := map[string]bool{}
				for _, as := range f.assigns[eobj] {
					var c *ast.CallExpr
					if as.call != nil {
						c = as.call
					} else if as.rhs != nil {
						c, _ = unparen(as.rhs).(*ast.CallExpr)
					}
					if c != nil {
						set[calleeText(info, c)] = true
					}
				}
				var l []string
				for k := range set {
					l = append(l, k)
				}
				sort.Strings(l)
				name = strings.Join(l, "|")
			}
			if name == "" {
				name = "error value"
			}
			add(name, "wrong-var", s)
		}
	}
}

// ---------------------------------------------------------------------------------------------
// map ranges, sort calls, shared fields

func (f *fn) canon(e ast.Expr) string {
	info := f.info()
	e = unparen(e)
	switch x := e.(type) {
	case *ast.Ident:
		if v, ok := info.Uses[x].(*types.Var); ok {
			if v.Pkg() != nil && v.Parent() == v.Pkg().Scope() {
				return "global:" + v.Pkg().Name() + "." + v.Name()
			}
			return "var:" + typeStr(v.Type())
		}
	case *ast.SelectorExpr:
		if s := info.Selections[x]; s != nil && s.Kind() == types.FieldVal {
			if n := namedOf(s.Recv()); n != nil {
				return "field:" + n.Obj().Name() + "." + x.Sel.Name
			}
			return "field:" + x.Sel.Name
		}
		if v, ok := info.Uses[x.Sel].(*types.Var); ok && v.Pkg() != nil {
			return "global:" + v.Pkg().Name() + "." + v.Name()
		}
	case *ast.CallExpr:
		return "call:" + calleeText(info, x)
	case *ast.StarExpr:
		return f.canon(x.X)
	case *ast.IndexExpr:
		return f.canon(x.X) + "[]"
	}
	return "expr:" + typeStr(info.Types[e].Type)
}

type rangeRow struct{ fn, text, canon, hash string }
type sortRow struct{ fn, what, hash string }

func (f *fn) rangesAndSorts() (rs []rangeRow, ss []sortRow) {
	info := f.info()
	count := map[string]int{}
	ast.Inspect(f.decl.Body, func(n ast.Node) bool {
		switch x := n.(type) {
		case *ast.RangeStmt:
			t := info.Types[x.X].Type
			if t == nil {
				return true
			}
			if _, isMap := t.Underlying().(*types.Map); isMap {
				c := f.canon(x.X)
				count[c]++
				rs = append(rs, rangeRow{f.name, src(x.X), fmt.Sprintf("%s#%d", c, count[c]), hashOf(src(x.Body))})
			}
		case *ast.CallExpr:
			fo := calleeOf(info, x)
			if fo == nil || fo.Pkg() == nil {
				return true
			}
			if fo.Pkg().Path() == "sort" || strings.HasPrefix(strings.ToLower(fo.Name()), "sort") {
				h := ""
				for _, a := range x.Args {
					if fl, ok := unparen(a).(*ast.FuncLit); ok {
						h = hashOf(src(fl))
					}
				}
				if h == "" {
					h = hashOf(src(x))
				}
				ss = append(ss, sortRow{f.name, funcName(fo), h})
			}
		}
		return true
	})
	return
}

type fieldRow struct{ field, fn, rw, mutex, scope string }

var fieldOwner = map[*types.Var]string{}

func collectSharedStructs(nodePath, pegnetPath string) {
	found := 0
	for _, cand := range [][2]string{{nodePath, "Pegnetd"}, {pegnetPath, "BlockSync"}, {pegnetPath, "Pegnet"}} {
		for _, nm := range ourNamed {
			if nm.Obj().Pkg().Path() != cand[0] || nm.Obj().Name() != cand[1] {
				continue
			}
			if st, ok := nm.Underlying().(*types.Struct); ok {
				found++
				for i := 0; i < st.NumFields(); i++ {
					fieldOwner[st.Field(i)] = cand[1]
				}
			}
		}
	}
	if found != 3 {
		die("struct types node.Pegnetd / pegnet.BlockSync / pegnet.Pegnet not found")
	}
}

func (f *fn) sharedFields(scope string) []fieldRow {
	info := f.info()
	// lock events, lexical
	type lockEv struct {
		pos    token.Pos
		mu     string
		lock   bool
		defer_ bool
	}
	var evs []lockEv
	ast.Inspect(f.decl.Body, func(n ast.Node) bool {
		var c *ast.CallExpr
		deferred := false
		switch x := n.(type) {
		case *ast.DeferStmt:
			c, deferred = x.Call, true
		case *ast.CallExpr:
			c = x
		}
		if c == nil {
			return true
		}
		sel, ok := unparen(c.Fun).(*ast.SelectorExpr)
		if !ok {
			return true
		}
		fo, _ := info.Uses[sel.Sel].(*types.Func)
		if fo == nil || fo.Pkg() == nil || fo.Pkg().Path() != "sync" {
			return true
		}
		switch fo.Name() {
		case "Lock", "RLock":
			evs = append(evs, lockEv{c.Pos(), src(sel.X), true, deferred})
		case "Unlock", "RUnlock":
			evs = append(evs, lockEv{c.Pos(), src(sel.X), false, deferred})
		}
		return !deferred
	})
	held := func(p token.Pos) string {
		h := map[string]bool{}
		for _, e := range evs {
			if e.pos >= p {
				continue
			}
			if e.lock {
				h[e.mu] = true
			} else if !e.defer_ {
				delete(h, e.mu)
			}
		}
		var l []string
		for m := range h {
			l = append(l, m)
		}
		sort.Strings(l)
		return strings.Join(l, "+")
	}
	// accesses made through sync/atomic: &x.f as the first argument of atomic.LoadT / StoreT / AddT / ...
	atomicRW := map[ast.Expr]string{}
	atomicAddr := map[ast.Expr]bool{}
	ast.Inspect(f.decl.Body, func(n ast.Node) bool {
		c, ok := n.(*ast.CallExpr)
		if !ok || len(c.Args) == 0 {
			return true
		}
		sel, ok := unparen(c.Fun).(*ast.SelectorExpr)
		if !ok {
			return true
		}
		fo, _ := info.Uses[sel.Sel].(*types.Func)
		if fo == nil || fo.Pkg() == nil || fo.Pkg().Path() != "sync/atomic" {
			return true
		}
		u, ok := unparen(c.Args[0]).(*ast.UnaryExpr)
		if !ok || u.Op != token.AND {
			return true
		}
		rw := "W"
		if strings.HasPrefix(fo.Name(), "Load") {
			rw = "R"
		}
		atomicRW[unparen(u.X)] = rw
		atomicAddr[u] = true
		return true
	})
	writes := map[ast.Expr]bool{}
	var markW func(e ast.Expr)
	markW = func(e ast.Expr) {
		e = unparen(e)
		writes[e] = true
		switch x := e.(type) {
		case *ast.IndexExpr:
			markW(x.X) // m[k] = v writes the map the field holds
		case *ast.StarExpr:
			markW(x.X)
		}
	}
	ast.Inspect(f.decl.Body, func(n ast.Node) bool {
		switch x := n.(type) {
		case *ast.AssignStmt:
			for _, l := range x.Lhs {
				markW(l)
			}
		case *ast.IncDecStmt:
			markW(x.X)
		case *ast.UnaryExpr:
			if x.Op == token.AND && !atomicAddr[x] {
				markW(x.X)
			}
		case *ast.RangeStmt:
			if x.Tok == token.ASSIGN {
				if x.Key != nil {
					markW(x.Key)
				}
				if x.Value != nil {
					markW(x.Value)
				}
			}
		}
		return true
	})
	seen := map[string]bool{}
	var out []fieldRow
	ast.Inspect(f.decl.Body, func(n ast.Node) bool {
		sel, ok := n.(*ast.SelectorExpr)
		if !ok {
			return true
		}
		s := info.Selections[sel]
		if s == nil || s.Kind() != types.FieldVal {
			return true
		}
		v := s.Obj().(*types.Var)
		owner := fieldOwner[v]
		if owner == "" {
			return true
		}
		rw := "R"
		if writes[sel] {
			rw = "W"
		}
		fname := owner + "." + v.Name()
		if owner == "BlockSync" {
			// which BlockSync: the one Pegnetd.Sync points to, or some other value
			switch bx := unparen(sel.X).(type) {
			case *ast.SelectorExpr:
				if bs := info.Selections[bx]; bs == nil || bs.Kind() != types.FieldVal || fieldOwner[bs.Obj().(*types.Var)] != "Pegnetd" {
					fname += "[expr]"
				}
			case *ast.Ident:
				if _, isParam := f.params[info.Uses[bx]]; isParam {
					fname += "[param]"
				} else {
					fname += "[local]"
				}
			default:
				fname += "[expr]"
			}
		}
		mu := held(sel.Pos())
		if arw, ok := atomicRW[sel]; ok {
			rw = arw
			if mu == "" {
				mu = "atomic"
			} else {
				mu = "atomic+" + mu
			}
		}
		row := fieldRow{fname, f.name, rw, mu, scope}
		k := row.field + "|" + row.rw + "|" + row.mutex
		if !seen[k] {
			seen[k] = true
			out = append(out, row)
		}
		return true
	})
	return out
}

// ---------------------------------------------------------------------------------------------

func main() {
	if len(os.Args) != 2 {
		die("usage: sites <repo-root>")
	}
	repo, err := filepath.Abs(os.Args[1])
	if err != nil {
		die("%v", err)
	}
	var module string
	pkgs, module = load(repo)
	os.RemoveAll(tmpdir)
	tmpdir = ""
	collectFuncs()
	collectWrappers()
	for _, n := range fnOrder {
		fns[n].prepare()
	}
	for _, n := range fnOrder {
		fns[n].scan()
	}
	collectSharedStructs(module+"/node", module+"/node/pegnet")

	const dbs, syncBlock = "node.Pegnetd.DBlockSync", "node.Pegnetd.SyncBlock"
	if fns[dbs] == nil {
		die("function %s not found", dbs)
	}
	if fns[syncBlock] == nil {
		die("function %s not found", syncBlock)
	}
	// roots of the block application: what DBlockSync calls with the transaction it began
	var syncRoots []string
	seenRoot := map[string]bool{}
	for _, c := range fns[dbs].calls {
		if c.ref || len(fns[c.callee].hparams) == 0 || seenRoot[c.callee] {
			continue
		}
		seenRoot[c.callee] = true
		syncRoots = append(syncRoots, c.callee)
	}
	sort.Strings(syncRoots)
	if !seenRoot[syncBlock] {
		die("DBlockSync no longer calls SyncBlock with a transaction")
	}
	// DBlockSync must start exactly one transaction on the pool
	nBegin := 0
	for _, s := range fns[dbs].sites {
		if beginVerb[s.verb] && s.h.kind == "pool" {
			nBegin++
		}
	}
	if nBegin == 0 {
		die("DBlockSync: no BeginTx on the pool found")
	}

	// API roots: the values of the jrpc.MethodMap literal in package srv
	var apiRoots []string
	seenAPI := map[string]bool{}
	foundMap := false
	for _, pi := range pkgs {
		if pi.path != module+"/srv" {
			continue
		}
		for _, file := range pi.files {
			ast.Inspect(file, func(n ast.Node) bool {
				cl, ok := n.(*ast.CompositeLit)
				if !ok {
					return true
				}
				nm := namedOf(pi.info.Types[cl].Type)
				if nm == nil || nm.Obj().Name() != "MethodMap" {
					return true
				}
				foundMap = true
				for _, el := range cl.Elts {
					kv, ok := el.(*ast.KeyValueExpr)
					if !ok {
						die("srv method map: element without key")
					}
					var fo *types.Func
					switch v := unparen(kv.Value).(type) {
					case *ast.CallExpr:
						fo = calleeOf(pi.info, v)
					case *ast.SelectorExpr:
						fo, _ = pi.info.Uses[v.Sel].(*types.Func)
					case *ast.Ident:
						fo, _ = pi.info.Uses[v].(*types.Func)
					}
					if fo == nil || fnByObj[fo] == nil {
						die("srv method map: cannot resolve handler %s", src(kv.Value))
					}
					if !seenAPI[fnByObj[fo].name] {
						seenAPI[fnByObj[fo].name] = true
						apiRoots = append(apiRoots, fnByObj[fo].name)
					}
				}
				return true
			})
		}
	}
	if !foundMap || len(apiRoots) == 0 {
		die("srv method map (jrpc.MethodMap literal) not found")
	}
	sort.Strings(apiRoots)

	syncReach := reach(syncRoots)
	apiReach := reach(apiRoots)
	inSync := map[string]bool{dbs: true}
	for _, n := range syncReach {
		inSync[n] = true
	}
	inAPI := map[string]bool{}
	for _, n := range apiReach {
		inAPI[n] = true
	}
	syncScope := append([]string{dbs}, syncReach...)
	sort.Strings(syncScope)

	// ------------------------------------------------------------------ output
	var b strings.Builder
	w := func(f string, a ...interface{}) { fmt.Fprintf(&b, f, a...) }
	tuple := func(xs ...string) string {
		q := make([]string, len(xs))
		for i, x := range xs {
			q[i] = cq(x)
		}
		return "(" + strings.Join(q, ", ") + ")"
	}
	table := func(name, typ string, rows []string) {
		w("Definition %s : list %s := [\n", name, typ)
		for i, r := range rows {
			sep := ";"
			if i == len(rows)-1 {
				sep = ""
			}
			w("  %s%s\n", r, sep)
		}
		w("].\n\n")
	}
	strs := func(l []string) []string {
		o := make([]string, len(l))
		for i, s := range l {
			o[i] = cq(s)
		}
		return o
	}
	const s2, s3, s4, s5 = "(string * string)", "(string * string * string)", "(string * string * string * string)", "(string * string * string * string * string)"

	w("(* GENERATED by gen/sites (go/parser + go/types over fat/fat2, node/conversions, node/pegnet, node, srv, cmd). Do not edit. *)\n")
	w("From Coq Require Import String List.\nImport ListNotations.\nOpen Scope string_scope.\n\n")

	w("(* (function, verb, handle, R|W|?, first 40 characters of the normalised SQL).\n   handle: tx = a *sql.Tx parameter; pool = a *sql.DB; param:<n> = a QueryAble parameter;\n   local:<n> / expr:<e> / reassigned:<n> = anything else. Stmt.* rows inherit handle and text from the\n   Prepare that defines the statement variable. Begin/BeginTx are listed as W. *)\n")
	var rows []string
	for _, n := range fnOrder {
		for _, s := range fns[n].sites {
			rows = append(rows, tuple(n, s.verb, s.h.String(), s.rw, s.prefix))
		}
	}
	nSQL := len(rows)
	table("sql_sites", s5, rows)

	w("(* (caller, callee, handle argument(s) passed, - when the callee takes none; ? for a function value) *)\n")
	rows = nil
	for _, n := range fnOrder {
		seen := map[string]bool{}
		for _, c := range fns[n].calls {
			k := c.callee + "|" + c.hstr
			if seen[k] {
				continue
			}
			seen[k] = true
			rows = append(rows, tuple(n, c.callee, c.hstr))
		}
	}
	nEdges := len(rows)
	table("call_edges", s3, rows)

	w("(* QueryAble parameters that a function replaces by the pool when nil is passed *)\n")
	rows = nil
	for _, n := range fnOrder {
		var ps []string
		for p := range fns[n].nilDefault {
			ps = append(ps, p)
		}
		sort.Strings(ps)
		for _, p := range ps {
			rows = append(rows, tuple(n, p))
		}
	}
	table("nil_defaults_to_pool", s2, rows)

	w("(* functions DBlockSync calls with the transaction it began *)\n")
	table("sync_roots", "string", strs(syncRoots))
	w("(* handlers registered in the jrpc.MethodMap of package srv *)\n")
	table("api_roots", "string", strs(apiRoots))
	table("sync_reachable", "string", strs(syncReach))
	table("api_reachable", "string", strs(apiReach))

	w("(* (function, effective handle tx|pool|nil|other|unbound, R|W|?, SQL prefix, function in which that handle\n   was chosen: root = the block transaction handed to the sync roots). One row per distinct (handle, origin) of a site;\n   a site reached with different handles has several rows (no \"mixed\" value). *)\n")
	rows = nil
	for _, r := range effective(syncRoots, "tx") {
		rows = append(rows, tuple(r.fn, r.eff, r.rw, r.prefix, r.origin))
	}
	nEff := len(rows)
	table("effective_sql", s5, rows)
	rows = nil
	for _, r := range effective(apiRoots, "unbound") {
		rows = append(rows, tuple(r.fn, r.eff, r.rw, r.prefix, r.origin))
	}
	nAPIEff := len(rows)
	table("api_effective_sql", s5, rows)

	w("(* (function, callee, blank|logged|dropped|overwritten|unchecked|wrong-var, hash of the statement); scope: DBlockSync and sync_reachable.\n   Bare calls into fmt, strings, bytes and logrus are not listed. *)\n")
	rows = nil
	for _, n := range syncScope {
		for _, d := range fns[n].discards() {
			rows = append(rows, tuple(d.fn, d.callee, d.how, d.hash))
		}
	}
	nDisc := len(rows)
	table("discarded_errors", s4, rows)

	w("(* (function, ranged expression, canonical form#occurrence, hash of the loop body) *)\n")
	rows = nil
	var srows []string
	for _, n := range syncScope {
		rs, ss := fns[n].rangesAndSorts()
		for _, r := range rs {
			rows = append(rows, tuple(r.fn, r.text, r.canon, r.hash))
		}
		for _, s := range ss {
			srows = append(srows, tuple(s.fn, s.what, s.hash))
		}
	}
	nRanges, nSorts := len(rows), len(srows)
	table("map_ranges", s4, rows)
	w("(* (function, sort function, hash of the less function or of the call) *)\n")
	table("sort_calls", s3, srows)

	w("(* (field, function, R|W, mutexes held (lexically, in the function itself), S|A|SA = reachable from the sync loop / the API / both) *)\n")
	rows = nil
	for _, n := range fnOrder {
		if !inSync[n] && !inAPI[n] {
			continue
		}
		scope := ""
		if inSync[n] {
			scope += "S"
		}
		if inAPI[n] {
			scope += "A"
		}
		for _, r := range fns[n].sharedFields(scope) {
			rows = append(rows, tuple(r.field, r.fn, r.rw, r.mutex, r.scope))
		}
	}
	nFields := len(rows)
	table("shared_fields", s5, rows)

	w("(* hash of the gofmt'ed, comment-free source of every function *)\n")
	rows = nil
	for _, n := range fnOrder {
		rows = append(rows, tuple(n, hashOf(src(fns[n].decl))))
	}
	table("func_hashes", s2, rows)

	os.Stdout.WriteString(b.String())
	fmt.Fprintf(os.Stderr, "gen/sites: %d functions, %d sql sites, %d call edges, %d+%d reachable, %d+%d effective, %d discarded, %d ranges, %d sorts, %d field rows\n",
		len(fnOrder), nSQL, nEdges, len(syncReach), len(apiReach), nEff, nAPIEff, nDisc, nRanges, nSorts, nFields)
}
