// gen/pure runs exported pure(ish) functions of the repository on generated inputs and
// prints, one per line, a Coq term holding the input and what the Go code returned.
// bin/check wraps the lines into a cases file that the Coq model is evaluated against.
//
// Usage: pure <what> <seed> <count>
package main

import (
	"fmt"
	"math"
	"math/big"
	"math/rand"
	"os"
	"sort"
	"strconv"
	"strings"

	"github.com/pegnet/pegnetd/cmd"
	"github.com/pegnet/pegnetd/config"
	"github.com/pegnet/pegnetd/node/conversions"
)

var rng *rand.Rand

func u64edge() uint64 {
	edges := []uint64{0, 1, 2, 3, 7, 100, 1e8, 1e8 + 1, 1 << 31, 1 << 32, 1<<32 + 1, 1 << 53, 1<<62 - 1, 1 << 62,
		1<<63 - 1, 1 << 63, 1<<63 + 1, math.MaxUint64 - 1, math.MaxUint64}
	switch rng.Intn(4) {
	case 0:
		return edges[rng.Intn(len(edges))]
	case 1:
		return rng.Uint64() >> uint(rng.Intn(64))
	case 2:
		return uint64(rng.Int63n(1e12))
	default:
		e := edges[rng.Intn(len(edges))]
		return e + uint64(rng.Intn(5)) - 2
	}
}

func i64edge() int64 {
	switch rng.Intn(8) {
	case 0:
		return -int64(rng.Intn(3)) - 1
	case 1:
		return math.MaxInt64 - int64(rng.Intn(3))
	default:
		return int64(u64edge() >> 1)
	}
}

func optZ(v int64, err error) string {
	if err != nil {
		return "None"
	}
	return fmt.Sprintf("(Some (%d))", v)
}

func zs(v int64) string { return fmt.Sprintf("(%d)", v) }

func doConvert(n int) {
	act := config.PIP10AverageActivation
	for i := 0; i < n; i++ {
		pip := rng.Intn(2) == 0
		h := act - 1
		if pip {
			h = act + uint32(rng.Intn(3))
		}
		amt := i64edge()
		fr, fa, tr, ta := u64edge(), u64edge(), u64edge(), u64edge()
		if rng.Intn(3) == 0 { // products straddling 2^63: amt*fr/tr near 2^63
			tr = 1 + uint64(rng.Intn(1000))
			fr = tr * uint64(1+rng.Intn(4))
			amt = math.MaxInt64/int64(fr/tr) + int64(rng.Intn(5)) - 2
			fa, ta = fr+uint64(rng.Intn(3))-1, tr+uint64(rng.Intn(3))-1
		}
		out, err := conversions.Convert(h, amt, fr, fa, tr, ta)
		fmt.Printf("(%v, %s, %d, %d, %d, %d, %s)\n", pip, zs(amt), fr, fa, tr, ta, optZ(out, err))
	}
}

func doRefund(n int) {
	act := config.PIP10AverageActivation
	for i := 0; i < n; i++ {
		pip := rng.Intn(2) == 0
		h := act - 1
		if pip {
			h = act
		}
		in := i64edge()
		if in < 0 {
			in = -in
		}
		ir, pr := u64edge(), u64edge()
		if rng.Intn(2) == 0 {
			ir, pr = 1+uint64(rng.Int63n(1e12)), 1+uint64(rng.Int63n(1e12))
			in = rng.Int63n(1e15)
		}
		maxy, _ := conversions.Convert(h, in, ir, ir, pr, pr)
		y := int64(0)
		if maxy > 0 && maxy < math.MaxInt64 {
			y = rng.Int63n(maxy + 1)
		} else if maxy == math.MaxInt64 {
			y = rng.Int63n(maxy)
		}
		if rng.Intn(4) == 0 {
			y = maxy
		}
		out := conversions.Refund(h, in, y, ir, pr)
		fmt.Printf("(%v, %s, %s, %d, %d, %s)\n", pip, zs(in), zs(y), ir, pr, zs(out))
	}
}

// Payouts: requests keyed by txid "idx-hash"; the Coq side gets (hash,idx) pairs with the
// hash as an integer. Output sorted by txid so that Go's map order does not matter.
func doPayouts(n int) {
	for i := 0; i < n; i++ {
		bankChoices := []uint64{0, 1, 7, 5000 * 1e8, 4500 * 1e8 * 144, 1 << 63, math.MaxUint64}
		bank := bankChoices[rng.Intn(len(bankChoices))]
		k := rng.Intn(7)
		if rng.Intn(10) == 0 {
			k = 20 + rng.Intn(20)
		}
		set := conversions.NewConversionSupply(bank)
		type req struct {
			hash *big.Int
			idx  int
			amt  uint64
			txid string
		}
		var reqs []req
		nh := 1 + rng.Intn(3)
		hashes := make([]*big.Int, nh)
		for j := range hashes {
			b := make([]byte, 32)
			rng.Read(b)
			if rng.Intn(3) == 0 { // decimal-looking mock hash as used for staking payouts
				b = make([]byte, 32)
				b[31] = byte(rng.Intn(200))
			}
			hashes[j] = new(big.Int).SetBytes(b)
		}
		mode := rng.Intn(5)
		for j := 0; j < k; j++ {
			h := hashes[rng.Intn(nh)]
			idx := rng.Intn(12)
			txid := fmt.Sprintf("%d-%064x", idx, h)
			var amt uint64
			switch mode {
			case 0: // equal requests (ties)
				amt = 1e8
			case 1: // totals around the bank
				if k > 0 {
					amt = bank/uint64(k) + uint64(rng.Intn(3)) - 1
				}
			case 2:
				amt = u64edge()
			case 3:
				amt = uint64(rng.Int63n(1e13))
			default:
				amt = []uint64{0, 0, 5, 5, 9}[rng.Intn(5)]
			}
			if err := set.AddConversion(txid, amt); err != nil {
				continue // duplicate txid
			}
			reqs = append(reqs, req{h, idx, amt, txid})
		}
		pay := set.Payouts()
		var sb strings.Builder
		fmt.Fprintf(&sb, "(%d, [", bank)
		for j, r := range reqs {
			if j > 0 {
				sb.WriteString("; ")
			}
			fmt.Fprintf(&sb, "((%s, %d), %d)", r.hash, r.idx, r.amt)
		}
		sb.WriteString("], [")
		sort.Slice(reqs, func(a, b int) bool {
			if c := reqs[a].hash.Cmp(reqs[b].hash); c != 0 {
				return c < 0
			}
			return reqs[a].idx < reqs[b].idx
		})
		// the payouts Go returned, sorted by txid: a request without a payout entry is left out (the
		// model then disagrees on the list), a payout for an unknown txid is printed with index -1
		first := true
		known := map[string]bool{}
		for _, r := range reqs {
			known[r.txid] = true
			p, ok := pay[r.txid]
			if !ok {
				continue
			}
			if !first {
				sb.WriteString("; ")
			}
			first = false
			fmt.Fprintf(&sb, "((%s, %d), %d)", r.hash, r.idx, p)
		}
		for k, p := range pay {
			if !known[k] {
				if !first {
					sb.WriteString("; ")
				}
				first = false
				fmt.Fprintf(&sb, "((0, (-1)), %d)", p)
			}
		}
		fmt.Fprintf(&sb, "], %d)", set.TotalRequested())
		fmt.Println(sb.String())
	}
}

// FactoidToFactoshi on decimal strings. The string is passed to Coq as a list of byte codes.
func coqBytes(s string) string {
	var sb strings.Builder
	sb.WriteString("[")
	for i := 0; i < len(s); i++ {
		if i > 0 {
			sb.WriteString(";")
		}
		sb.WriteString(strconv.Itoa(int(s[i])))
	}
	sb.WriteString("]")
	return sb.String()
}

func factoshiCase(s string) {
	v, err := cmd.FactoidToFactoshi(s)
	if err != nil {
		fmt.Printf("(%s, None)\n", coqBytes(s))
	} else {
		fmt.Printf("(%s, Some %d)\n", coqBytes(s), v)
	}
}

func doFactoshi(n int) {
	fixed := []string{"", ".", "0", "1", "1.", ".1", "1.0", "0.00000001", "0.000000001", "1.23456789", "1.234567891",
		"184467440737", "184467440738", "184467440737.09551615", "184467440737.09551616", "92233720368.54775807",
		"92233720368.54775808", "9223372036854775807", "9223372036854775808", "99999999999999999999", "00000000000000000001",
		"1e8", "-1", "+1", " 1", "1 ", "1,0", "1..0", "1.0.0", "０", "1\n", "\n1", "0x10", ".00000000", ".99999999", "000.100",
		"18446744073709551615", "18446744073709551616", "184467440737.1", "1.1a", "a"}
	for _, s := range fixed {
		factoshiCase(s)
	}
	alpha := "0123456789.."
	for i := 0; i < n; i++ {
		l := rng.Intn(24)
		b := make([]byte, l)
		for j := range b {
			b[j] = alpha[rng.Intn(len(alpha))]
		}
		if rng.Intn(20) == 0 && l > 0 {
			b[rng.Intn(l)] = "-+e xa\n"[rng.Intn(7)]
		}
		if rng.Intn(3) == 0 { // mostly-valid: digits, one dot
			w := rng.Intn(21)
			f := rng.Intn(10)
			var sb strings.Builder
			for j := 0; j < w; j++ {
				sb.WriteByte(byte('0' + rng.Intn(10)))
			}
			if rng.Intn(4) != 0 {
				sb.WriteByte('.')
				for j := 0; j < f; j++ {
					sb.WriteByte(byte('0' + rng.Intn(10)))
				}
			}
			b = []byte(sb.String())
		}
		factoshiCase(string(b))
	}
}

// all strings over {0,1,9,'.',x} up to length L (exhaustive sweep for the thorough tier)
func doFactoshiExh(L int) {
	alpha := "019.x"
	var rec func(prefix string, l int)
	rec = func(prefix string, l int) {
		factoshiCase(prefix)
		if l == 0 {
			return
		}
		for i := 0; i < len(alpha); i++ {
			rec(prefix+string(alpha[i]), l-1)
		}
	}
	rec("", L)
}

func main() {
	if len(os.Args) < 4 {
		fmt.Fprintln(os.Stderr, "usage: pure <what> <seed> <count>")
		os.Exit(2)
	}
	seed, _ := strconv.ParseInt(os.Args[2], 10, 64)
	n, _ := strconv.Atoi(os.Args[3])
	rng = rand.New(rand.NewSource(seed))
	switch os.Args[1] {
	case "convert":
		doConvert(n)
	case "refund":
		doRefund(n)
	case "payouts":
		doPayouts(n)
	case "factoshi":
		doFactoshi(n)
	case "factoshi-exh":
		doFactoshiExh(n)
	default:
		fmt.Fprintln(os.Stderr, "unknown:", os.Args[1])
		os.Exit(2)
	}
}
