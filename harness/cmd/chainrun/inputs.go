package main

import (
	"bytes"
	"database/sql"
	"encoding/hex"
	"encoding/json"
	"fmt"
	"math/big"
	"sort"
	"strings"

	"verifharness/chain"
	"verifharness/scen"

	"github.com/Factom-Asset-Tokens/factom"
	_ "github.com/mattn/go-sqlite3"
	"github.com/pegnet/pegnet/modules/grader"
	"github.com/pegnet/pegnet/modules/graderStake"
	"github.com/pegnet/pegnet/modules/opr"
	"github.com/pegnet/pegnetd/config"
	"github.com/pegnet/pegnetd/fat/fat2"
)

// runner computes, per block, what the model needs to know, reading the chain
// exactly the way the node does (through the factom client against the fake
// factomd) and the committed database through its own read-only connection.
type runner struct {
	sc     *scen.Scenario
	fc     *chain.FakeChain
	client *factom.Client
	ro     *sql.DB
	st     *Stats
	notes  []string

	// previous winners: WinnersShortHashes() of the most recent earlier block
	// with an OPR EBlock, from our own grader calls
	havePrev  bool
	prev      []string
	prevOlder [][]string // history, for decoys

	// entry hash -> (height, index) of the first appearance on the tx chain
	txSeen map[[32]byte][2]int
}

func newRunner(sc *scen.Scenario, fc *chain.FakeChain, url, dbPath string) *runner {
	c := factom.NewClient()
	c.FactomdServer = url
	ro, err := sql.Open("sqlite3", "file:"+dbPath+"?mode=ro")
	if err != nil {
		panic(err)
	}
	ro.SetMaxOpenConns(1)
	return &runner{sc: sc, fc: fc, client: c, ro: ro, txSeen: map[[32]byte][2]int{}}
}

func (r *runner) close() { r.ro.Close() }

func (r *runner) txChain() [32]byte { return config.TransactionChain }

func (r *runner) note(format string, a ...interface{}) {
	r.notes = append(r.notes, fmt.Sprintf(format, a...))
}

// ---- integer rendering ----

func zBytes(b []byte) string { return new(big.Int).SetBytes(b).String() }

func zInt(v int64) string {
	if v < 0 {
		return fmt.Sprintf("(%d)", v)
	}
	return fmt.Sprintf("%d", v)
}

func zBig(v *big.Int) string {
	if v.Sign() < 0 {
		return "(" + v.String() + ")"
	}
	return v.String()
}

func zU(v uint64) string { return fmt.Sprintf("%d", v) }

func coqList(items []string) string { return "[" + strings.Join(items, "; ") + "]" }

func coqBool(b bool) string {
	if b {
		return "true"
	}
	return "false"
}

// shortHashes encodes WinnersShortHashes(): 16 hex digits as an integer, "" as -1.
func shortHashes(sh []string) []string {
	out := make([]string, 0, len(sh))
	for _, s := range sh {
		if s == "" {
			out = append(out, "(-1)")
			continue
		}
		b, err := hex.DecodeString(s)
		if err != nil {
			// not reachable through the graders (verifyWinnerFormat); keep it distinguishable
			out = append(out, "(-2)")
			continue
		}
		out = append(out, zBytes(b))
	}
	return out
}

// assetCode: 1 for "PEG", the ticker of "p"+name when valid, else minus the
// big-endian integer of the name's bytes.
func assetCode(name string) string {
	if name == "PEG" {
		return "1"
	}
	if t := fat2.StringToTicker("p" + name); t != fat2.PTickerInvalid {
		return fmt.Sprintf("%d", int(t))
	}
	v := new(big.Int).SetBytes([]byte(name))
	if v.Sign() == 0 {
		return "0"
	}
	return "(-" + v.String() + ")"
}

func assetsList(as []opr.AssetUint) string {
	items := make([]string, len(as))
	for i, a := range as {
		items[i] = "(" + assetCode(a.Name) + ", " + zU(a.Value) + ")"
	}
	return coqList(items)
}

func winnerRec(hash []byte, address string, payout int64, pos int, height int32) string {
	addr := "None"
	if a, err := factom.NewFAAddress(address); err == nil {
		addr = "Some " + zBytes(a[:])
	}
	return fmt.Sprintf("{| w_hash := %s; w_addr := %s; w_payout := %s; w_pos := %s; w_height := %s |}",
		zBytes(hash), addr, zInt(payout), zInt(int64(pos)), zInt(int64(height)))
}

// ---- the block ----

// fetched is one EBlock the way SyncBlock gets it.
func (r *runner) fetch(d *factom.DBlock, chainID factom.Bytes32) (*factom.EBlock, error) {
	eb := d.EBlock(chainID)
	if eb == nil {
		return nil, nil
	}
	if err := eb.Get(nil, r.client); err != nil {
		return nil, err
	}
	for i := range eb.Entries {
		if err := eb.Entries[i].Get(nil, r.client); err != nil {
			return nil, err
		}
	}
	return eb, nil
}

func extids(e factom.Entry) [][]byte {
	out := make([][]byte, len(e.ExtIDs))
	for i := range e.ExtIDs {
		out[i] = e.ExtIDs[i]
	}
	return out
}

func (r *runner) inputs(h uint32) (string, error) {
	d := new(factom.DBlock)
	d.Height = h
	if err := d.Get(nil, r.client); err != nil {
		return "", err
	}
	oprEB, err := r.fetch(d, config.OPRChain)
	if err != nil {
		return "", err
	}
	txEB, err := r.fetch(d, config.TransactionChain)
	if err != nil {
		return "", err
	}
	sprEB, err := r.fetch(d, config.SPRChain)
	if err != nil {
		return "", err
	}

	bOPR, err := r.oprInput(h, oprEB)
	if err != nil {
		return "", err
	}
	bSPR, err := r.sprInput(h, sprEB)
	if err != nil {
		return "", err
	}
	bTx := r.txInput(h, txEB)
	bF := "[]"
	if h < r.sc.Schedule.V20HeightActivation {
		bF, err = r.factoidInput(h)
		if err != nil {
			return "", err
		}
	}
	return fmt.Sprintf("{| b_height := %d; b_ts := %d; b_opr := %s; b_spr := %s; b_tx := %s; b_factoid := %s |}",
		h, d.Timestamp.Unix(), bOPR, bSPR, bTx, bF), nil
}

// ---- OPR ----

func (r *runner) gradeOPR(version uint8, h uint32, prev []string, eb *factom.EBlock) (s string, short []string, winners int) {
	defer func() {
		if p := recover(); p != nil {
			r.note("height %d: the OPR grader panicked (version %d): %v", h, version, p)
			s, short, winners = "None", nil, 0
		}
	}()
	g, err := grader.NewGrader(version, int32(h), prev)
	if err != nil {
		return "None", nil, 0
	}
	for _, e := range eb.Entries {
		_ = g.AddOPR(e.Hash[:], extids(e), e.Content)
	}
	gb := g.Grade()
	ws := gb.Winners()
	var wl, gl []string
	for _, w := range ws {
		wl = append(wl, winnerRec(w.EntryHash, w.OPR.GetAddress(), w.Payout(), w.Position(), w.OPR.GetHeight()))
	}
	assets := "[]"
	if len(ws) > 0 {
		for _, w := range gb.Graded() {
			gl = append(gl, winnerRec(w.EntryHash, w.OPR.GetAddress(), w.Payout(), w.Position(), w.OPR.GetHeight()))
		}
		assets = assetsList(ws[0].OPR.GetOrderedAssetsUint())
	}
	sh := gb.WinnersShortHashes()
	return fmt.Sprintf("Some {| v_winners := %s; v_graded := %s; v_short := %s; v_assets := %s |}",
		coqList(wl), coqList(gl), coqList(shortHashes(sh)), assets), sh, len(ws)
}

func prevKey(have bool, prev []string) string {
	if !have {
		return "None"
	}
	return "Some " + coqList(shortHashes(prev))
}

// jsonRoundTrip mirrors InsertGradeBlock + SelectPreviousWinners: what the node
// passes to NewGrader is the JSON round trip of the stored short hashes.
func jsonRoundTrip(sh []string) []string {
	data, _ := json.Marshal(sh)
	var out []string
	_ = json.Unmarshal(data, &out)
	return out
}

func sameStrings(a, b []string) bool {
	if len(a) != len(b) {
		return false
	}
	for i := range a {
		if a[i] != b[i] {
			return false
		}
	}
	return true
}

func (r *runner) oprInput(h uint32, eb *factom.EBlock) (string, error) {
	if eb == nil {
		return "None", nil
	}
	r.st.Entries["opr"] += len(eb.Entries)
	version := scen.OPRVersion(r.sc.Schedule, h)
	var truePrev []string
	if r.havePrev {
		truePrev = jsonRoundTrip(r.prev)
	}
	type alt struct {
		version uint8
		have    bool
		prev    []string
	}
	var alts []alt
	// decoys first: a model that computes the wrong key finds a different verdict
	if r.havePrev {
		alts = append(alts, alt{version, false, nil})
		for i := len(r.prevOlder) - 1; i >= 0 && i >= len(r.prevOlder)-1; i-- {
			if !sameStrings(r.prevOlder[i], r.prev) {
				alts = append(alts, alt{version, true, jsonRoundTrip(r.prevOlder[i])})
			}
		}
	}
	if version > 1 {
		alts = append(alts, alt{version - 1, r.havePrev, truePrev})
	}
	if version < 5 {
		alts = append(alts, alt{version + 1, r.havePrev, truePrev})
	}
	alts = append(alts, alt{version, r.havePrev, truePrev})

	var items []string
	var trueShort []string
	trueOK := false
	for i, a := range alts {
		v, sh, nw := r.gradeOPR(a.version, h, a.prev, eb)
		items = append(items, fmt.Sprintf("(%d, %s, %s)", a.version, prevKey(a.have, a.prev), v))
		if i == len(alts)-1 {
			trueShort, trueOK = sh, v != "None"
			if nw > 0 {
				r.st.OPRWinBlocks++
			}
		}
	}
	r.st.OPRAlts += len(items)
	if trueOK {
		if r.havePrev {
			r.prevOlder = append(r.prevOlder, r.prev)
		}
		r.havePrev, r.prev = true, trueShort
	}
	return "Some {| oi_alts := " + coqList(items) + " |}", nil
}

// ---- SPR ----

type holder struct {
	addr []byte
	bal  uint64
}

// top100 reads the committed database: all rows with peg_balance > 0, balance
// descending then address ascending, first 100.
func (r *runner) top100() ([][]byte, error) {
	rows, err := r.ro.Query(`SELECT address, peg_balance FROM pn_addresses WHERE peg_balance > 0`)
	if err != nil {
		return nil, err
	}
	defer rows.Close()
	var hs []holder
	for rows.Next() {
		var a []byte
		var b int64
		if err := rows.Scan(&a, &b); err != nil {
			return nil, err
		}
		hs = append(hs, holder{append([]byte(nil), a...), uint64(b)})
	}
	if err := rows.Err(); err != nil {
		return nil, err
	}
	sort.SliceStable(hs, func(i, j int) bool {
		if hs[i].bal != hs[j].bal {
			return hs[i].bal > hs[j].bal
		}
		return bytes.Compare(hs[i].addr, hs[j].addr) < 0
	})
	if len(hs) > 100 {
		if hs[99].bal == hs[100].bal {
			r.note("top-100 boundary tie at balance %d: SQLite's row order decides in the node", hs[99].bal)
		}
		hs = hs[:100]
	}
	out := make([][]byte, len(hs))
	for i := range hs {
		out[i] = hs[i].addr
	}
	return out, nil
}

func (r *runner) gradeSPR(version uint8, h uint32, eb *factom.EBlock, idx []int) (s string, winners int) {
	defer func() {
		if p := recover(); p != nil {
			r.note("height %d: the SPR grader panicked (version %d): %v", h, version, p)
			s, winners = "None", 0
		}
	}()
	g, err := graderStake.NewGrader(version, int32(h))
	if err != nil {
		return "None", 0
	}
	for _, i := range idx {
		e := eb.Entries[i]
		_ = g.AddSPR(e.Hash[:], extids(e), e.Content)
	}
	gb := g.Grade()
	ws := gb.Winners()
	var wl []string
	for _, w := range ws {
		wl = append(wl, winnerRec(w.EntryHash, w.SPR.GetAddress(), w.Payout(), w.Position(), w.SPR.GetHeight()))
	}
	assets := "[]"
	if len(ws) > 0 {
		assets = assetsList(ws[0].SPR.GetOrderedAssetsUint())
	}
	return fmt.Sprintf("Some {| v_winners := %s; v_graded := []; v_short := []; v_assets := %s |}", coqList(wl), assets), len(ws)
}

func idxList(idx []int) string {
	items := make([]string, len(idx))
	for i, v := range idx {
		items[i] = fmt.Sprint(v)
	}
	return coqList(items)
}

func sameInts(a, b []int) bool {
	if len(a) != len(b) {
		return false
	}
	for i := range a {
		if a[i] != b[i] {
			return false
		}
	}
	return true
}

func (r *runner) sprInput(h uint32, eb *factom.EBlock) (string, error) {
	if eb == nil {
		return "None", nil
	}
	r.st.Entries["spr"] += len(eb.Entries)
	top, err := r.top100()
	if err != nil {
		return "", err
	}
	isTop := func(b []byte) bool {
		for _, a := range top {
			if bytes.Equal(a, b) {
				return true
			}
		}
		return false
	}
	var entries []string
	var included, all []int
	for i, e := range eb.Entries {
		staker := "None"
		if len(e.ExtIDs) >= 2 && len(e.ExtIDs[1]) == 32 {
			staker = "Some " + zBytes(e.ExtIDs[1])
		}
		entries = append(entries, fmt.Sprintf("{| se_nexts := %d; se_staker := %s |}", len(e.ExtIDs), staker))
		if len(e.ExtIDs) >= 2 {
			all = append(all, i)
			if isTop(e.ExtIDs[1]) {
				included = append(included, i)
			}
		}
	}
	version := scen.SPRVersion(r.sc.Schedule, h)
	type alt struct {
		version uint8
		idx     []int
	}
	var alts []alt
	if !sameInts(all, included) {
		alts = append(alts, alt{version, all})
	}
	if len(included) > 0 {
		alts = append(alts, alt{version, nil}) // decoy: nobody included
	}
	if version > 5 {
		alts = append(alts, alt{version - 1, included})
	}
	if version < 7 {
		alts = append(alts, alt{version + 1, included})
	}
	alts = append(alts, alt{version, included})
	var items []string
	for i, a := range alts {
		v, nw := r.gradeSPR(a.version, h, eb, a.idx)
		items = append(items, fmt.Sprintf("(%d, %s, %s)", a.version, idxList(a.idx), v))
		if i == len(alts)-1 && nw > 0 && h >= r.sc.Schedule.V20HeightActivation {
			r.st.SPRWinBlocks++
		}
	}
	r.st.SPRAlts += len(items)
	return fmt.Sprintf("Some {| si_entries := %s; si_alts := %s |}", coqList(entries), coqList(items)), nil
}

// ---- transaction chain ----

func (r *runner) txInput(h uint32, eb *factom.EBlock) string {
	if eb == nil {
		return "None"
	}
	r.st.Entries["tx"] += len(eb.Entries)
	var items []string
	for i, e := range eb.Entries {
		if _, ok := r.txSeen[*e.Hash]; !ok {
			r.txSeen[*e.Hash] = [2]int{int(h), i}
		} else {
			r.st.TxKinds["repeated_entry"]++
		}
		batch := "None"
		rcde := false
		for j := 1; j < len(e.ExtIDs); j += 2 {
			if len(e.ExtIDs[j]) > 0 && e.ExtIDs[j][0] == factom.RCDType0e {
				rcde = true
			}
		}
		if tb, err := fat2.NewTransactionBatch(e, -1); err == nil {
			var txs []string
			for _, t := range tb.Transactions {
				var trs []string
				for _, tr := range t.Transfers {
					trs = append(trs, fmt.Sprintf("{| tr_addr := %s; tr_amt := %s |}", zBytes(tr.Address[:]), zU(tr.Amount)))
				}
				txs = append(txs, fmt.Sprintf("{| tx_addr := %s; tx_type := %d; tx_amt := %s; tx_transfers := %s; tx_conv := %d |}",
					zBytes(t.Input.Address[:]), int(t.Input.Type), zU(t.Input.Amount), coqList(trs), int(t.Conversion)))
				switch {
				case t.IsPEGRequest():
					r.st.TxKinds["peg_request"]++
				case t.IsConversion():
					r.st.TxKinds["conversion"]++
				default:
					r.st.TxKinds["transfer"]++
				}
			}
			batch = "Some " + coqList(txs)
			r.st.TxKinds["batches"]++
			if rcde {
				r.st.TxKinds["rcde_batches"]++
			}
		} else {
			r.st.TxKinds["undecodable_entry"]++
		}
		items = append(items, fmt.Sprintf("{| e_hash := %s; e_ts := %d; e_batch := %s; e_rcde := %s |}",
			zBytes(e.Hash[:]), e.Timestamp.Unix(), batch, coqBool(rcde)))
	}
	return "Some " + coqList(items)
}

// ---- factoid block ----

func ioList(ios []factom.FactoidTransactionIO) string {
	items := make([]string, len(ios))
	for i, io := range ios {
		items[i] = "(" + zBytes(io.Address[:]) + ", " + zU(io.Amount) + ")"
	}
	return coqList(items)
}

func (r *runner) factoidInput(h uint32) (string, error) {
	fb := new(factom.FBlock)
	fb.Height = h
	if err := fb.Get(nil, r.client); err != nil {
		return "", err
	}
	var items []string
	for i := range fb.Transactions {
		if err := fb.Transactions[i].Get(nil, r.client); err != nil {
			return "", err
		}
		t := fb.Transactions[i]
		items = append(items, fmt.Sprintf("{| f_txid := %s; f_ts := %d; f_inputs := %s; f_outputs := %s; f_ecoutputs := %s |}",
			zBytes(t.TransactionID[:]), t.TimestampSalt.Unix(), ioList(t.FCTInputs), ioList(t.FCTOutputs), ioList(t.ECOutputs)))
		if len(t.FCTInputs) > 0 {
			r.st.Entries["factoid"]++
		}
	}
	return coqList(items), nil
}
