package main

// History queries of the real node on the final database, recorded as cases for Corr/Api.v: the
// model's query functions (Model/Api.v) evaluated on the MODEL's final state must return the same
// count and the same actions, batch by batch in history_id order, as the node's
// SelectTransactionHistoryActionsBy{Hash,Address,Height} walked page by page.

import (
	"fmt"
	"math/big"
	"math/rand"
	"sort"
	"strings"

	"github.com/Factom-Asset-Tokens/factom"
	"github.com/pegnet/pegnetd/fat/fat2"
	"github.com/pegnet/pegnetd/node"
	"github.com/pegnet/pegnetd/node/pegnet"
)

type apiFilter struct {
	transfer, conversion, coinbase, burn bool
	asset                                string
	useIdx                               bool
	idx                                  int
}

func (f apiFilter) actions() string {
	if f.transfer == f.conversion && f.conversion == f.coinbase && f.coinbase == f.burn {
		return "[]"
	}
	var a []string
	if f.transfer {
		a = append(a, "1")
	}
	if f.conversion {
		a = append(a, "2")
	}
	if f.coinbase {
		a = append(a, "3")
	}
	if f.burn {
		a = append(a, "4")
	}
	return coqList(a)
}

func (r *runner) assetOpt(s string) string {
	if s == "" {
		return "None"
	}
	c := r.assetCodeOf(s)
	if c < 0 {
		return fmt.Sprintf("(Some (%d))", c)
	}
	return fmt.Sprintf("(Some %d)", c)
}

// apiCases walks the real history queries. The choice of keys derives from the seed.
func (r *runner) apiCases(n *node.Pegnetd, seed int64) (cases []string, status []string, stats map[string]int, err error) {
	stats = map[string]int{}
	rng := rand.New(rand.NewSource(seed*7919 + 17))
	var hashes, addrs [][]byte
	var heights []int64
	seen := map[string]bool{}
	if err = r.query(`SELECT entry_hash, height FROM pn_history_txbatch ORDER BY history_id`, func(v []interface{}, _ []string) error {
		h := asBytes(v[0])
		if !seen["h"+string(h)] {
			seen["h"+string(h)] = true
			hashes = append(hashes, append([]byte{}, h...))
		}
		k := fmt.Sprint("H", asInt(v[1]))
		if !seen[k] {
			seen[k] = true
			heights = append(heights, asInt(v[1]))
		}
		return nil
	}); err != nil {
		return
	}
	if err = r.query(`SELECT DISTINCT address FROM pn_history_lookup`, func(v []interface{}, _ []string) error {
		addrs = append(addrs, append([]byte{}, asBytes(v[0])...))
		return nil
	}); err != nil {
		return
	}
	sort.Slice(addrs, func(i, j int) bool { return string(addrs[i]) < string(addrs[j]) })
	pick := func(n, max int) []int {
		idx := rng.Perm(n)
		if len(idx) > max {
			idx = idx[:max]
		}
		sort.Ints(idx)
		return idx
	}
	filters := []apiFilter{
		{},
		{transfer: true},
		{conversion: true},
		{coinbase: true, burn: true},
		{asset: "PEG"},
		{asset: "pFCT"},
		{asset: "pUSD", transfer: true, conversion: true},
	}
	walk := func(field string, key string, call func(o pegnet.HistoryQueryOptions) ([]pegnet.HistoryTransaction, int, error), f apiFilter, desc bool) error {
		o := pegnet.HistoryQueryOptions{Desc: desc, Transfer: f.transfer, Conversion: f.conversion, Coinbase: f.coinbase,
			FCTBurn: f.burn, Asset: f.asset, UseTxIndex: f.useIdx, TxIndex: f.idx}
		var rows []string
		count0 := -1
		pages := 0
		for off := 0; ; off += pegnet.QueryLimit {
			o.Offset = off
			acts, count, e := call(o)
			if e != nil {
				return fmt.Errorf("history query %s %s offset %d: %v", field, key, off, e)
			}
			if off == 0 {
				count0 = count
			} else if count != count0 {
				r.note("history query %s: count changed between pages (%d, %d)", field, count0, count)
			}
			pages++
			for _, a := range acts {
				rows = append(rows, fmt.Sprintf("(%s, %d)", zBytes(a.Hash[:]), a.TxIndex))
			}
			if off+pegnet.QueryLimit >= count {
				break
			}
		}
		idx := "None"
		if f.useIdx {
			idx = fmt.Sprintf("(Some %d)", f.idx)
		}
		cases = append(cases, fmt.Sprintf("  ({| q_field := %s %s; q_desc := %s; q_actions := %s; q_asset := %s; q_txindex := %s |}, %d, %s)",
			field, key, coqBool(desc), f.actions(), r.assetOpt(f.asset), idx, count0, coqList(rows)))
		stats["queries"]++
		stats["pages"] += pages
		stats["actions_returned"] += len(rows)
		if pages > 1 {
			stats["multi_page_queries"]++
		}
		if count0 == 0 {
			stats["empty_results"]++
		}
		return nil
	}
	for _, i := range pick(len(hashes), 24) {
		var h32 factom.Bytes32
		copy(h32[:], hashes[i])
		key := zBytes(hashes[i])
		call := func(o pegnet.HistoryQueryOptions) ([]pegnet.HistoryTransaction, int, error) {
			return n.Pegnet.SelectTransactionHistoryActionsByHash(&h32, o)
		}
		fs := append([]apiFilter{}, filters[rng.Intn(len(filters))], apiFilter{}, apiFilter{useIdx: true, idx: rng.Intn(3)})
		for k, f := range fs {
			if e := walk("ByHash", key, call, f, k%2 == 1); e != nil {
				return nil, nil, nil, e
			}
		}
		ht, ex, e := n.Pegnet.SelectTransactionHistoryStatus(&h32)
		if e != nil {
			return nil, nil, nil, e
		}
		status = append(status, fmt.Sprintf("  (%s, %d, %s)", key, ht, zInt(int64(ex))))
	}
	// a hash that is not recorded
	{
		var h32 factom.Bytes32
		h32[0], h32[31] = 0xEE, byte(seed)
		call := func(o pegnet.HistoryQueryOptions) ([]pegnet.HistoryTransaction, int, error) {
			return n.Pegnet.SelectTransactionHistoryActionsByHash(&h32, o)
		}
		if e := walk("ByHash", zBytes(h32[:]), call, apiFilter{}, false); e != nil {
			return nil, nil, nil, e
		}
		ht, ex, e := n.Pegnet.SelectTransactionHistoryStatus(&h32)
		if e != nil {
			return nil, nil, nil, e
		}
		status = append(status, fmt.Sprintf("  (%s, %d, %s)", zBytes(h32[:]), ht, zInt(int64(ex))))
	}
	for _, i := range pick(len(addrs), 10) {
		var a factom.FAAddress
		copy(a[:], addrs[i])
		key := zBytes(addrs[i])
		call := func(o pegnet.HistoryQueryOptions) ([]pegnet.HistoryTransaction, int, error) {
			return n.Pegnet.SelectTransactionHistoryActionsByAddress(&a, o)
		}
		fs := []apiFilter{{}, filters[1+rng.Intn(len(filters)-1)], filters[1+rng.Intn(len(filters)-1)]}
		for k, f := range fs {
			if e := walk("ByAddress", key, call, f, k == 1 || rng.Intn(3) == 0); e != nil {
				return nil, nil, nil, e
			}
		}
	}
	for _, i := range pick(len(heights), 12) {
		h := heights[i]
		call := func(o pegnet.HistoryQueryOptions) ([]pegnet.HistoryTransaction, int, error) {
			return n.Pegnet.SelectTransactionHistoryActionsByHeight(uint32(h), o)
		}
		fs := []apiFilter{{}, filters[1+rng.Intn(len(filters)-1)]}
		for k, f := range fs {
			if e := walk("ByHeight", fmt.Sprint(h), call, f, k == 1); e != nil {
				return nil, nil, nil, e
			}
		}
	}
	_ = big.NewInt
	_ = strings.Join
	_ = fat2.PTickerPEG
	return cases, status, stats, nil
}
