package main

import (
	"bufio"
	"encoding/hex"
	"encoding/json"
	"fmt"
	"math/big"
	"os"
	"regexp"
	"sort"
	"strings"

	"verifharness/scen"

	"github.com/Factom-Asset-Tokens/factom"
	"github.com/pegnet/pegnetd/fat/fat2"
)

// row is one integer row of the canonical dump (Model/Obs.v dump_db).
type row []*big.Int

type obsRec struct {
	ok   bool
	has  bool
	rows []row
}

func bi(v int64) *big.Int   { return big.NewInt(v) }
func bb(b []byte) *big.Int  { return new(big.Int).SetBytes(b) }
func mk(vs ...*big.Int) row { return row(vs) }
func asBytes(v interface{}) []byte {
	switch x := v.(type) {
	case []byte:
		return x
	case string:
		return []byte(x)
	case nil:
		return nil
	}
	panic(fmt.Sprintf("dump: unexpected column type %T", v))
}
func asInt(v interface{}) int64 {
	switch x := v.(type) {
	case int64:
		return x
	case bool:
		if x {
			return 1
		}
		return 0
	}
	panic(fmt.Sprintf("dump: unexpected column type %T (%v), want INTEGER", v, v))
}

// rowLess is Obs.row_ltb: lexicographic, a proper prefix first.
func rowLess(a, b row) bool {
	for i := 0; i < len(a) && i < len(b); i++ {
		if c := a[i].Cmp(b[i]); c != 0 {
			return c < 0
		}
	}
	return len(a) < len(b)
}

var balanceColumn = func() map[string]int64 {
	m := map[string]int64{}
	for t := fat2.PTickerInvalid + 1; t < fat2.PTickerMax; t++ {
		m[strings.ToLower(t.String())+"_balance"] = int64(t)
	}
	return m
}()

// assetCodeOf codes the asset strings of pn_history_transaction:
// "" -> 0, "FCT" -> -1, a ticker string -> its number.
func (r *runner) assetCodeOf(s string) int64 {
	switch s {
	case "":
		return 0
	case "FCT":
		return -1
	}
	if t := fat2.StringToTicker(s); t != fat2.PTickerInvalid {
		return int64(t)
	}
	r.note("pn_history_transaction holds the asset string %q", s)
	return -999
}

func (r *runner) query(q string, f func(vals []interface{}, cols []string) error) error {
	rows, err := r.ro.Query(q)
	if err != nil {
		return fmt.Errorf("%s: %v", q, err)
	}
	defer rows.Close()
	cols, err := rows.Columns()
	if err != nil {
		return err
	}
	for rows.Next() {
		vals := make([]interface{}, len(cols))
		ptrs := make([]interface{}, len(cols))
		for i := range vals {
			ptrs[i] = &vals[i]
		}
		if err := rows.Scan(ptrs...); err != nil {
			return fmt.Errorf("%s: %v", q, err)
		}
		if err := f(vals, cols); err != nil {
			return err
		}
	}
	return rows.Err()
}

// dump mirrors Obs.dump_db over the sqlite file, sorted with Obs.row_ltb.
func (r *runner) dump() (out []row, err error) {
	defer func() {
		if p := recover(); p != nil {
			err = fmt.Errorf("%v", p)
		}
	}()
	for tag, table := range map[int64]string{1: "pn_addresses", 2: "snapshot_current", 3: "snapshot_past"} {
		tag := tag
		err := r.query(`SELECT * FROM "`+table+`"`, func(vals []interface{}, cols []string) error {
			var addr []byte
			for i, c := range cols {
				if c == "address" {
					addr = asBytes(vals[i])
				}
			}
			for i, c := range cols {
				t, ok := balanceColumn[c]
				if !ok {
					continue
				}
				if f, isF := vals[i].(float64); isF {
					// an INTEGER sum that left int64: SQLite keeps a REAL. Reported as the
					// (rounded) value of the float; the model has no such cell.
					r.note("%s.%s holds the REAL %v", table, c, f)
					v, _ := new(big.Float).SetFloat64(f).Int(nil)
					out = append(out, mk(bi(tag), bb(addr), bi(t), v))
					continue
				}
				if v := asInt(vals[i]); v != 0 {
					out = append(out, mk(bi(tag), bb(addr), bi(t), bi(v)))
				}
			}
			return nil
		})
		if err != nil {
			return nil, err
		}
	}
	// pn_rate: tokens that are no ticker are dropped
	if err := r.query(`SELECT height, token, value FROM pn_rate`, func(v []interface{}, _ []string) error {
		if t := fat2.StringToTicker(string(asBytes(v[1]))); t != fat2.PTickerInvalid {
			out = append(out, mk(bi(4), bi(asInt(v[0])), bi(int64(t)), bi(asInt(v[2]))))
		}
		return nil
	}); err != nil {
		return nil, err
	}
	if err := r.query(`SELECT height, bank_amount, bank_used, total_requested FROM pn_bank`, func(v []interface{}, _ []string) error {
		out = append(out, mk(bi(5), bi(asInt(v[0])), bi(asInt(v[1])), bi(asInt(v[2])), bi(asInt(v[3]))))
		return nil
	}); err != nil {
		return nil, err
	}
	if err := r.query(`SELECT entry_hash, height, blockorder, timestamp, executed FROM pn_history_txbatch`, func(v []interface{}, _ []string) error {
		out = append(out, mk(bi(6), bb(asBytes(v[0])), bi(asInt(v[1])), bi(asInt(v[2])), bi(asInt(v[3])), bi(asInt(v[4]))))
		return nil
	}); err != nil {
		return nil, err
	}
	if err := r.query(`SELECT entry_hash, tx_index, action_type, from_address, from_asset, from_amount, to_asset, to_amount, outputs FROM pn_history_transaction`, func(v []interface{}, _ []string) error {
		rw := mk(bi(7), bb(asBytes(v[0])), bi(asInt(v[1])), bi(asInt(v[2])), bb(asBytes(v[3])),
			bi(r.assetCodeOf(string(asBytes(v[4])))), bi(asInt(v[5])),
			bi(r.assetCodeOf(string(asBytes(v[6])))), bi(asInt(v[7])))
		blob := asBytes(v[8])
		var outs []struct {
			Address string `json:"address"`
			Amount  int64  `json:"amount"`
		}
		if len(blob) > 0 {
			if err := json.Unmarshal(blob, &outs); err != nil {
				return fmt.Errorf("pn_history_transaction.outputs %q: %v", blob, err)
			}
		}
		rw = append(rw, bi(int64(len(outs))))
		for _, o := range outs {
			a, err := factom.NewFAAddress(o.Address)
			if err != nil {
				return fmt.Errorf("pn_history_transaction.outputs address %q: %v", o.Address, err)
			}
			rw = append(rw, bb(a[:]), bi(o.Amount))
		}
		out = append(out, rw)
		return nil
	}); err != nil {
		return nil, err
	}
	if err := r.query(`SELECT entry_hash, tx_index, address FROM pn_history_lookup`, func(v []interface{}, _ []string) error {
		out = append(out, mk(bi(8), bb(asBytes(v[0])), bi(asInt(v[1])), bb(asBytes(v[2]))))
		return nil
	}); err != nil {
		return nil, err
	}
	if err := r.query(`SELECT entry_hash, height FROM pn_transaction_batch_holding`, func(v []interface{}, _ []string) error {
		out = append(out, mk(bi(9), bb(asBytes(v[0])), bi(asInt(v[1]))))
		return nil
	}); err != nil {
		return nil, err
	}
	if err := r.query(`SELECT entry_hash, address, tx_index, "to", conversion FROM pn_address_transactions`, func(v []interface{}, _ []string) error {
		out = append(out, mk(bi(10), bb(asBytes(v[0])), bb(asBytes(v[1])), bi(asInt(v[2])), bi(asInt(v[3])), bi(asInt(v[4]))))
		return nil
	}); err != nil {
		return nil, err
	}
	if err := r.query(`SELECT height, position, entryhash, payout FROM pn_winners`, func(v []interface{}, _ []string) error {
		out = append(out, mk(bi(11), bi(asInt(v[0])), bi(asInt(v[1])), bb(asBytes(v[2])), bi(asInt(v[3]))))
		return nil
	}); err != nil {
		return nil, err
	}
	if err := r.query(`SELECT height, shorthashes FROM pn_grade`, func(v []interface{}, _ []string) error {
		rw := mk(bi(12), bi(asInt(v[0])))
		var sh []string
		if err := json.Unmarshal(asBytes(v[1]), &sh); err != nil {
			return fmt.Errorf("pn_grade.shorthashes: %v", err)
		}
		for _, s := range shortHashes(sh) {
			x, ok := new(big.Int).SetString(strings.Trim(s, "()"), 10)
			if !ok {
				return fmt.Errorf("short hash %q", s)
			}
			rw = append(rw, x)
		}
		out = append(out, rw)
		return nil
	}); err != nil {
		return nil, err
	}
	if err := r.query(`SELECT value FROM pn_metadata WHERE name = 'synced'`, func(v []interface{}, _ []string) error {
		var bs struct{ Synced int64 }
		if err := json.Unmarshal(asBytes(v[0]), &bs); err != nil {
			return err
		}
		out = append(out, mk(bi(13), bi(bs.Synced)))
		return nil
	}); err != nil {
		return nil, err
	}
	if err := r.query(`SELECT height, version FROM pn_sync_version`, func(v []interface{}, _ []string) error {
		out = append(out, mk(bi(14), bi(asInt(v[0])), bi(asInt(v[1]))))
		return nil
	}); err != nil {
		return nil, err
	}
	sort.SliceStable(out, func(i, j int) bool { return rowLess(out[i], out[j]) })
	return out, nil
}

// ---- statistics from the final database ----

func (r *runner) count(q string, args ...interface{}) int {
	var n int
	if err := r.ro.QueryRow(q, args...).Scan(&n); err != nil {
		r.note("stat query %q: %v", q, err)
		return -1
	}
	return n
}

func (r *runner) finalStats() error {
	st := r.st
	// status of the transaction-chain entries
	for hash := range r.txSeen {
		h := hash
		var ex int64
		err := r.ro.QueryRow(`SELECT executed FROM pn_history_txbatch WHERE entry_hash = ? LIMIT 1`, h[:]).Scan(&ex)
		switch {
		case err != nil:
			st.Executed["no_row"]++
		case ex == 0:
			st.Executed["pending"]++
		case ex > 0:
			st.Executed["applied"]++
		default:
			st.Executed[fmt.Sprint(ex)]++
		}
	}
	st.ConvExecuted = r.count(`SELECT COUNT(*) FROM pn_history_transaction t JOIN pn_history_txbatch b ON t.entry_hash = b.entry_hash WHERE t.action_type = 2 AND b.executed > 0`)
	st.PegRequests = r.count(`SELECT COUNT(*) FROM pn_history_transaction t WHERE t.action_type = 2 AND t.to_asset = 'PEG' AND length(t.outputs) > 0`)
	st.RatedBlocks = r.count(`SELECT COUNT(DISTINCT height) FROM pn_rate`)
	st.BankRows = r.count(`SELECT COUNT(*) FROM pn_bank`)
	for h := (st.First + 143) / 144 * 144; h <= st.Last; h += 144 {
		id := mockHash(fmt.Sprintf("%064d", h))
		st.SnapPayouts += r.count(`SELECT COUNT(*) FROM pn_history_transaction WHERE entry_hash = ? AND action_type = 3`, id)
		for j := 1; j <= 20; j++ {
			id := mockHash(fmt.Sprintf("%02d%062d", j, h))
			st.DevPayouts += r.count(`SELECT COUNT(*) FROM pn_history_transaction WHERE entry_hash = ? AND action_type = 3`, id)
		}
	}
	if d := r.sc.Schedule.V20DevRewardsHeightActivation; d < r.sc.Schedule.V202EnhanceActivation && d >= st.First && d <= st.Last {
		for j := 0; j < 64; j++ {
			id := mockHash(fmt.Sprintf("%064d", d-uint32(j)))
			st.ZeroingRows += r.count(`SELECT COUNT(*) FROM pn_history_txbatch WHERE entry_hash = ? AND height = ?`, id, d)
		}
	}
	// expectations
	st.ExpectTotal = len(r.sc.Expect)
	for _, e := range r.sc.Expect {
		if e.Height < st.First || e.Height > st.Last {
			st.ExpectFailed = append(st.ExpectFailed, fmt.Sprintf("%s: height %d outside the chain", e.Label, e.Height))
			continue
		}
		hs := r.fc.EntryHashes(e.Height, r.txChain())
		if e.Index >= len(hs) {
			st.ExpectFailed = append(st.ExpectFailed, fmt.Sprintf("%s: no entry %d at height %d", e.Label, e.Index, e.Height))
			continue
		}
		var ex int64
		err := r.ro.QueryRow(`SELECT executed FROM pn_history_txbatch WHERE entry_hash = ? LIMIT 1`, hs[e.Index][:]).Scan(&ex)
		got := "no row"
		if err == nil {
			got = fmt.Sprint(ex)
		}
		want := fmt.Sprint(e.Executed)
		if e.Executed == scen.NoRow {
			want = "no row"
		}
		if st.FailedAt != 0 && e.Height >= st.FailedAt {
			continue // never reached
		}
		if got != want {
			st.ExpectFailed = append(st.ExpectFailed, fmt.Sprintf("%s (%d#%d): executed %s, expected %s", e.Label, e.Height, e.Index, got, want))
		}
	}
	return nil
}

func mockHash(s string) []byte {
	b, err := hex.DecodeString(s)
	if err != nil {
		panic(err)
	}
	return b
}

// ---- the Coq file ----

func rowString(rw row) string {
	items := make([]string, len(rw))
	for i, v := range rw {
		items[i] = zBig(v)
	}
	return "[" + strings.Join(items, ";") + "]"
}

// emit writes the Coq file. Formats:
//
//	plain: every integer an inline decimal literal, every recorded dump spelled
//	       out in full inside obs_X (Coq needs ~11 ms per 256-bit literal: slow)
//	named: every literal of 7 or more digits is stated once as `Definition z_N : Z`
//	       and referenced by name
//	delta: named, and every dump after the first is `upd <previous dump> <rows
//	       that disappeared> <rows that appeared>`; vm_compute rebuilds the full
//	       sorted dump before run_chain compares it
func emit(path, ident string, sc *scen.Scenario, blocks []string, obs []*obsRec, format string, apiCases, apiStatus []string) (int64, error) {
	s := sc.Schedule
	var body strings.Builder
	fmt.Fprintf(&body, "Definition cfg_%s : cfg := {| c_PegnetActivation := %d; c_GradingV2Activation := %d; c_TransactionConversionActivation := %d; "+
		"c_PEGPricingActivation := %d; c_OneWaypFCTConversions := %d; c_PegnetConversionLimitActivation := %d; "+
		"c_PEGFreeFloatingPriceActivation := %d; c_V4OPRUpdate := %d; c_V20HeightActivation := %d; c_V20DevRewardsHeightActivation := %d; "+
		"c_SprSignatureActivation := %d; c_OneWaySmallAssetsConversions := %d; c_V202EnhanceActivation := %d; c_V204EnhanceActivation := %d; "+
		"c_V204BurnMintedTokenActivation := %d; c_PIP10AverageActivation := %d; c_Fat2RCDEActivation := %d; c_AveragePeriod := %d |}.\n",
		ident, s.PegnetActivation, s.GradingV2Activation, s.TransactionConversionActivation, s.PEGPricingActivation,
		s.OneWaypFCTConversions, s.PegnetConversionLimitActivation, s.PEGFreeFloatingPriceActivation, s.V4OPRUpdate,
		s.V20HeightActivation, s.V20DevRewardsHeightActivation, s.SprSignatureActivation, s.OneWaySmallAssetsConversions,
		s.V202EnhanceActivation, s.V204EnhanceActivation, s.V204BurnMintedTokenActivation, s.PIP10AverageActivation,
		s.Fat2RCDEActivation, s.AveragePeriod)
	fmt.Fprintf(&body, "Definition chain_%s : list block := [\n", ident)
	for i, b := range blocks {
		sep := ";"
		if i == len(blocks)-1 {
			sep = ""
		}
		fmt.Fprintf(&body, "  %s%s\n", b, sep)
	}
	fmt.Fprintf(&body, "].\n")

	rowsString := func(rows []row) string {
		var sb strings.Builder
		sb.WriteString("[")
		for j, rw := range rows {
			if j > 0 {
				sb.WriteString(";")
			}
			sb.WriteString(rowString(rw))
		}
		sb.WriteString("]")
		return sb.String()
	}
	first := sc.Schedule.PegnetActivation + 1
	var obsLines []string
	var prevRows []row
	prevName := ""
	for i, o := range obs {
		h := first + uint32(i)
		rows := "None"
		if o.has {
			switch {
			case format != "delta":
				rows = "Some " + rowsString(o.rows)
			case prevName == "":
				prevName = fmt.Sprintf("d_%s_%d", ident, h)
				fmt.Fprintf(&body, "Definition %s : list row := %s.\n", prevName, rowsString(o.rows))
				rows = "Some " + prevName
				prevRows = o.rows
			default:
				del, add := diffRows(prevRows, o.rows)
				name := fmt.Sprintf("d_%s_%d", ident, h)
				fmt.Fprintf(&body, "Definition %s : list row := upd %s %s %s.\n", name, prevName, rowsString(del), rowsString(add))
				rows = "Some " + name
				prevName, prevRows = name, o.rows
			}
		}
		obsLines = append(obsLines, fmt.Sprintf("  {| o_ok := %s; o_rows := %s |}", coqBool(o.ok), rows))
	}
	fmt.Fprintf(&body, "Definition obs_%s : list obs := [\n%s\n].\n", ident, strings.Join(obsLines, ";\n"))
	fmt.Fprintf(&body, "Definition api_%s : list (hq * Z * list (hash * Z)) := [\n%s\n].\n", ident, strings.Join(apiCases, ";\n"))
	fmt.Fprintf(&body, "Definition status_%s : list (hash * Z * Z) := [\n%s\n].\n", ident, strings.Join(apiStatus, ";\n"))
	fmt.Fprintf(&body, "Definition R_%s := Eval vm_compute in run_chain cfg_%s genesis empty_cache chain_%s obs_%s.\n", ident, ident, ident, ident)
	fmt.Fprintf(&body, "Print R_%s.\n", ident)

	text := body.String()
	var dict strings.Builder
	if format != "plain" {
		names := map[string]int{}
		var order []string
		text = bigLiteral.ReplaceAllStringFunc(text, func(lit string) string {
			k, ok := names[lit]
			if !ok {
				k = len(order)
				names[lit] = k
				order = append(order, lit)
			}
			return fmt.Sprintf("z%s_%d", ident, k)
		})
		for k, lit := range order {
			fmt.Fprintf(&dict, "Definition z%s_%d : Z := %s.\n", ident, k, lit)
		}
	}

	f, err := os.Create(path)
	if err != nil {
		return 0, err
	}
	w := bufio.NewWriterSize(f, 1<<20)
	fmt.Fprintf(w, "(* GENERATED by harness/cmd/chainrun: scenario %s, seed %d, format %s. Do not edit. *)\n", sc.Name, sc.Seed, format)
	for _, n := range sc.Notes {
		fmt.Fprintf(w, "(* %s *)\n", strings.NewReplacer("(*", "( *", "*)", "* )").Replace(n))
	}
	fmt.Fprintf(w, "From Model Require Import Api.\nFrom Model Require Import Obs.\nOpen Scope Z_scope.\n")
	if format == "delta" {
		// the rows of [old] that are not in [del], merged with the sorted [add]
		fmt.Fprintf(w, "Definition upd (old del add : list row) : list row :=\n  merge_rows (filter (fun r => negb (existsb (list_Z_eqb r) del)) old) add.\n")
	}
	w.WriteString(dict.String())
	w.WriteString(text)
	if err := w.Flush(); err != nil {
		return 0, err
	}
	if err := f.Close(); err != nil {
		return 0, err
	}
	fi, err := os.Stat(path)
	if err != nil {
		return 0, err
	}
	return fi.Size(), nil
}

var bigLiteral = regexp.MustCompile(`\b[0-9]{7,}\b`)

func rowEq(a, b row) bool {
	if len(a) != len(b) {
		return false
	}
	for i := range a {
		if a[i].Cmp(b[i]) != 0 {
			return false
		}
	}
	return true
}

// diffRows: both lists sorted by rowLess; returns old\new and new\old (sorted).
func diffRows(old, cur []row) (del, add []row) {
	i, j := 0, 0
	for i < len(old) && j < len(cur) {
		switch {
		case rowEq(old[i], cur[j]):
			i++
			j++
		case rowLess(old[i], cur[j]):
			del = append(del, old[i])
			i++
		default:
			add = append(add, cur[j])
			j++
		}
	}
	del = append(del, old[i:]...)
	add = append(add, cur[j:]...)
	return
}
