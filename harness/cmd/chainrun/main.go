// Command chainrun ties the Coq model (coq/Model/Obs.v run_chain) to the real
// node at chain level: it builds a scenario, materializes it, drives the real
// unmodified node block by block over a fresh database and writes ONE Coq file
// holding the model inputs of every block (with the verdicts of the real
// grader libraries) and what the node did (applied / failed, canonical dumps).
//
//	chainrun -scenario <name> -seed <n> -out <file.v> -work <dir>
//	         [-dump-every N] [-dump-all-from H -dump-all-to H] [-name <ident suffix>]
//
// One JSON line with statistics is printed on stdout.
package main

import (
	"encoding/json"
	"flag"
	"fmt"
	"os"
	"path/filepath"
	"regexp"
	"sort"
	"time"

	"verifharness/chain"
	"verifharness/scen"
)

func main() {
	var (
		scenario  = flag.String("scenario", "", "scenario name (see scen.Names)")
		seed      = flag.Int64("seed", 1, "seed")
		out       = flag.String("out", "", "Coq file to write")
		work      = flag.String("work", "", "scratch directory (a fresh database is created below it)")
		dumpEvery = flag.Int("dump-every", 16, "record the full dump at every N-th block")
		dumpFrom  = flag.Uint("dump-all-from", 0, "record every dump from this height ...")
		dumpTo    = flag.Uint("dump-all-to", 0, "... to this height")
		name      = flag.String("name", "", "identifier suffix (default <scenario>_<seed>)")
		list      = flag.Bool("list", false, "list the scenarios and exit")
		format    = flag.String("format", "delta", "plain | named | delta (see emit)")
	)
	flag.Parse()
	if *list {
		for _, n := range scen.Names() {
			fmt.Println(n)
		}
		return
	}
	if *scenario == "" || *out == "" || *work == "" {
		fmt.Fprintln(os.Stderr, "usage: chainrun -scenario <name> -seed <n> -out <file.v> -work <dir> [-dump-every N] [-dump-all-from H -dump-all-to H] [-name <ident suffix>]")
		os.Exit(2)
	}
	ident := *name
	if ident == "" {
		ident = fmt.Sprintf("%s_%d", *scenario, *seed)
	}
	ident = regexp.MustCompile(`[^A-Za-z0-9_]`).ReplaceAllString(ident, "_")

	// pegnetd prints to stdout here and there; keep ours clean.
	realStdout := os.Stdout
	if devnull, err := os.OpenFile(os.DevNull, os.O_WRONLY, 0); err == nil {
		os.Stdout = devnull
	}

	if *format != "plain" && *format != "named" && *format != "delta" {
		fmt.Fprintln(os.Stderr, "chainrun: -format must be plain, named or delta")
		os.Exit(2)
	}
	st, err := run(*scenario, *seed, ident, *out, *work, *dumpEvery, uint32(*dumpFrom), uint32(*dumpTo), *format)
	if err != nil {
		fmt.Fprintln(os.Stderr, "chainrun:", err)
		os.Exit(1)
	}
	line, _ := json.Marshal(st)
	fmt.Fprintln(realStdout, string(line))
}

// Stats is the statistics line.
type Stats struct {
	Scenario     string           `json:"scenario"`
	Seed         int64            `json:"seed"`
	Ident        string           `json:"ident"`
	First        uint32           `json:"first"`
	Last         uint32           `json:"last"`
	Applied      int              `json:"applied"`
	FailedAt     uint32           `json:"failed_at,omitempty"`
	FailError    string           `json:"fail_error,omitempty"`
	Entries      map[string]int   `json:"entries"`  // per chain
	TxKinds      map[string]int   `json:"tx_kinds"` // decoded transactions by kind (+ undecodable entries, burns, ...)
	Executed     map[string]int   `json:"executed"` // pn_history_txbatch.executed of transaction-chain entries: codes < 0, "pending", "applied"
	ConvExecuted int              `json:"conversions_executed"`
	PegRequests  int              `json:"peg_requests_paid"`
	SnapPayouts  int              `json:"snapshot_payouts"`
	DevPayouts   int              `json:"dev_payouts"`
	ZeroingRows  int              `json:"zeroing_rows"`
	OPRAlts      int              `json:"opr_alternatives"`
	SPRAlts      int              `json:"spr_alternatives"`
	OPRWinBlocks int              `json:"opr_blocks_with_winners"`
	SPRWinBlocks int              `json:"spr_blocks_with_winners"`
	RatedBlocks  int              `json:"rated_blocks"`
	BankRows     int              `json:"bank_rows"`
	Dumps        int              `json:"dumps"`
	DumpRows     map[string]int   `json:"rows_per_dump"`
	ExpectTotal  int              `json:"expect_total"`
	ExpectFailed []string         `json:"expect_failed,omitempty"`
	Notes        []string         `json:"notes,omitempty"`
	NodeMillis   int64            `json:"node_ms"`
	TotalMillis  int64            `json:"total_ms"`
	OutBytes     int64            `json:"out_bytes"`
	API          map[string]int   `json:"api_history_queries,omitempty"`
	Balances     map[string]int64 `json:"-"`
}

func run(scenario string, seed int64, ident, out, work string, dumpEvery int, dumpFrom, dumpTo uint32, format string) (*Stats, error) {
	t0 := time.Now()
	sc, err := scen.Build(scenario, seed)
	if err != nil {
		return nil, err
	}
	sc.Schedule.Apply()
	chain.QuietLogs()

	fc, err := chain.Materialize(sc.Blocks)
	if err != nil {
		return nil, fmt.Errorf("materialize: %v", err)
	}
	if fc.First() != sc.Schedule.PegnetActivation+1 {
		return nil, fmt.Errorf("scenario starts at %d, a fresh node needs %d", fc.First(), sc.Schedule.PegnetActivation+1)
	}
	srv := fc.Serve()
	defer srv.Close()

	dbDir := filepath.Join(work, "db-"+ident)
	if err := os.RemoveAll(dbDir); err != nil {
		return nil, err
	}
	if err := os.MkdirAll(dbDir, 0777); err != nil {
		return nil, err
	}
	dbFile := filepath.Join(dbDir, "pegnet.db")
	n, err := chain.NewNode(dbFile, chain.ServerURL(srv))
	if err != nil {
		return nil, fmt.Errorf("NewNode: %v", err)
	}
	defer chain.CloseNode(n)
	if n.Sync.Synced != sc.Schedule.PegnetActivation {
		return nil, fmt.Errorf("fresh node starts at %d", n.Sync.Synced)
	}

	r := newRunner(sc, fc, chain.ServerURL(srv), chain.DBPath(dbFile))
	defer r.close()

	st := &Stats{
		Scenario: scenario, Seed: seed, Ident: ident,
		First: fc.First(), Last: fc.Last(),
		Entries:  map[string]int{"opr": 0, "spr": 0, "tx": 0, "factoid": 0},
		TxKinds:  map[string]int{},
		Executed: map[string]int{},
		DumpRows: map[string]int{},
	}
	r.st = st

	always := map[uint32]bool{}
	s := sc.Schedule
	for _, h := range []uint32{s.PegnetActivation, s.GradingV2Activation, s.TransactionConversionActivation,
		s.PEGPricingActivation, s.OneWaypFCTConversions, s.PegnetConversionLimitActivation,
		s.PEGFreeFloatingPriceActivation, s.V4OPRUpdate, s.V20HeightActivation, s.V20DevRewardsHeightActivation,
		s.SprSignatureActivation, s.OneWaySmallAssetsConversions, s.V202EnhanceActivation, s.V204EnhanceActivation,
		s.V204BurnMintedTokenActivation, s.PIP10AverageActivation, s.Fat2RCDEActivation} {
		always[h] = true
	}
	for _, h := range sc.DumpAt {
		always[h] = true
	}
	wantDump := func(h uint32) bool {
		if always[h] || h%144 == 0 || h == fc.Last() {
			return true
		}
		if dumpEvery > 0 && (h-fc.First()+1)%uint32(dumpEvery) == 0 {
			return true
		}
		if dumpTo != 0 && h >= dumpFrom && h <= dumpTo {
			return true
		}
		return false
	}

	var blocks []string
	var obs []*obsRec
	var nodeTime time.Duration
	for h := fc.First(); h <= fc.Last(); h++ {
		blk, err := r.inputs(h)
		if err != nil {
			return nil, fmt.Errorf("height %d: computing the model inputs: %v", h, err)
		}
		blocks = append(blocks, blk)

		t1 := time.Now()
		serr := chain.StepBlock(n, h)
		nodeTime += time.Since(t1)
		if serr != nil {
			st.FailedAt = h
			st.FailError = firstLine(serr.Error())
			obs = append(obs, &obsRec{ok: false})
			// the database is what the previous block left: record it there
			if len(obs) >= 2 && obs[len(obs)-2].rows == nil {
				rows, err := r.dump()
				if err != nil {
					return nil, err
				}
				obs[len(obs)-2].rows = rows
				obs[len(obs)-2].has = true
				st.DumpRows[fmt.Sprint(h-1)] = len(rows)
			}
			break
		}
		st.Applied++
		o := &obsRec{ok: true}
		if wantDump(h) {
			rows, err := r.dump()
			if err != nil {
				return nil, fmt.Errorf("height %d: dump: %v", h, err)
			}
			o.rows, o.has = rows, true
			st.DumpRows[fmt.Sprint(h)] = len(rows)
		}
		obs = append(obs, o)
	}
	st.NodeMillis = nodeTime.Milliseconds()
	st.Dumps = len(st.DumpRows)

	if err := r.finalStats(); err != nil {
		return nil, err
	}
	st.Notes = append(st.Notes, r.notes...)
	sort.Strings(st.ExpectFailed)

	if err := os.MkdirAll(filepath.Dir(out), 0777); err != nil {
		return nil, err
	}
	// the history queries of the real API layer on the final database (only when the whole chain was applied)
	var apiCases, apiStatus []string
	if st.FailedAt == 0 {
		var apiStats map[string]int
		apiCases, apiStatus, apiStats, err = r.apiCases(n, seed)
		if err != nil {
			return nil, err
		}
		st.API = apiStats
	}
	size, err := emit(out, ident, sc, blocks, obs, format, apiCases, apiStatus)
	if err != nil {
		return nil, err
	}
	st.OutBytes = size
	st.TotalMillis = time.Since(t0).Milliseconds()
	return st, nil
}

func firstLine(s string) string {
	for i, c := range s {
		if c == '\n' {
			return s[:i]
		}
	}
	return s
}
