#!/bin/bash
# usage: runscen.sh <scenario> <seed> [model-dir]: chainrun + coqc; one summary line on stdout,
# files under /verif/.work/emitter/{out,results}. Build the binary first:
#   cd /verif/harness && go build -tags verif -o /verif/.work/emitter/bin/chainrun ./cmd/chainrun
export GOFLAGS=-mod=mod GOPROXY=off GOSUMDB=off GOTOOLCHAIN=local GOMODCACHE=/root/go/pkg/mod GOCACHE=/verif/.work/gocache CGO_CFLAGS=-w LXRBITSIZE=8 HOME=/verif/.work/home
E=/verif/.work/emitter
n=$1; s=$2; M=${3:-/verif/coq/Model}
id=${n}_${s}
$E/bin/chainrun -scenario $n -seed $s -out $E/out/$id.v -work $E/work > $E/results/$id.json 2> $E/results/$id.err || { echo "$id: chainrun FAILED: $(cat $E/results/$id.err | tail -3)"; exit 1; }
t0=$(date +%s.%N)
( cd $E/out && coqc -Q /verif/coq/Gen Gen -Q $M Model -w -notation-overridden,-inexact-float $id.v > $E/results/$id.log 2>&1 )
t1=$(date +%s.%N)
ct=$(echo "$t1 - $t0" | bc)
res=$(grep -A3 "^R_$id" $E/results/$id.log | tr '\n' ' ' | cut -c1-400)
[ -z "$res" ] && res="COQC ERROR: $(head -c 400 $E/results/$id.log)"
sz=$(stat -c %s $E/out/$id.v)
echo "$id: size=$sz coqc=${ct}s $res | $(python3 -c "
import json,sys
d=json.load(open('$E/results/$id.json'))
print('applied=%d/%d failed_at=%s node_ms=%d expect_failed=%s notes=%s'%(d['applied'],d['last']-d['first']+1,d.get('failed_at'),d['node_ms'],d.get('expect_failed'),d.get('notes')))
")"
