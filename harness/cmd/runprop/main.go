// Command runprop checks loop-level properties (C01, C02, C09, C10, C18)
// directly on the real, unmodified pegnetd code. See ../../drv/README.md.
//
//	runprop det     -work D -scenario S -seed N -procs P
//	runprop crash   -work D -scenario S -seed N -points K|all [-blocks ..] [-prefix replay|snapshot] [-resume R]
//	runprop fault   -work D -scenario S -seed N -kind sql|rpc|both -points K|all [-pairs P] [...]
//	runprop restart -work D -scenario S -seed N -at all|h1,h2,..
//	runprop apiload -work D -scenario S -seed N -workers W [-runs R] [-racebin B]
//	runprop history -work D -scenario S -seed N [-limit L] [-combos K] [-fullkeys K]
//	runprop scenario -scenario S -seed N          (prints a description of the chain)
//
// stdout: one JSON object per line, the last one is {"cmd":..,"summary":{..}}.
// stderr: progress. Exit 0: ran to completion (violations are data), 2:
// internal error.
package main

import (
	"flag"
	"fmt"
	"os"
	"path/filepath"
	"runtime"
	"time"

	"verifharness/chain"
	"verifharness/drv"
)

func main() {
	// pegnetd and LXR print to stdout; keep the real one for JSON only.
	os.Stdout = os.Stderr
	if len(os.Args) < 2 {
		usage()
	}
	cmd := os.Args[1]
	if cmd == "child" {
		fs := flag.NewFlagSet("child", flag.ExitOnError)
		job := fs.String("job", "", "job file")
		fs.Parse(os.Args[2:])
		os.Exit(drv.ChildMain(*job))
	}

	fs := flag.NewFlagSet(cmd, flag.ExitOnError)
	c := &drv.Common{}
	fs.StringVar(&c.Work, "work", "", "scratch directory (required)")
	fs.StringVar(&c.Scenario, "scenario", "eras", "scenario name")
	fs.Int64Var(&c.Seed, "seed", 1, "scenario seed")
	fs.IntVar(&c.Jobs, "j", runtime.NumCPU(), "parallel child processes")
	fs.DurationVar(&c.Timeout, "timeout", 5*time.Minute, "timeout of one sync call in a child")
	fs.StringVar(&c.DBMode, "dbmode", "", "pegnetd db.mode setting (sqlite DSN parameters, e.g. _sync=0); default: as the daemon")
	fs.BoolVar(&c.Verbose, "v", false, "keep pegnetd's log output in the child logs")

	procs := fs.Int("procs", 3, "det: number of processes")
	perHeight := fs.Bool("perheight", false, "det/restart: also compare the dump hash after every block (through the transparent wrapper driver)")
	o := &drv.CrashOptions{}
	fs.StringVar(&o.Points, "points", "32", "crash/fault: number of sampled points, or all")
	fs.StringVar(&o.Blocks, "blocks", "all", "crash/fault: restrict points to these blocks (h1,h2,a-b)")
	fs.StringVar(&o.Prefix, "prefix", "replay", "crash/fault: how a child reaches block h-1: replay (from scratch) or snapshot (copy of the reference database after h-1)")
	fs.IntVar(&o.Resume, "resume", 0, "crash/fault: continue only this many blocks past the injection block and compare with the reference state of that height (0 = to the tip)")
	fs.BoolVar(&o.Keep, "keep", false, "crash/fault: keep the directories of passing points")
	fs.StringVar(&o.Kind, "kind", "both", "fault: sql, rpc or both")
	retryStmt := fs.String("stmt", "pn_sync_version", "retryall: the first attempt at every block fails at the first block statement containing this text")
	fs.IntVar(&o.Pairs, "pairs", 0, "fault: additionally this many sampled (sql, rpc) pairs within one block")
	at := fs.String("at", "all", "restart: all or h1,h2,a-b")
	multi := fs.Bool("multi", true, "restart: one more run that restarts at all chosen heights")
	a := &drv.APILoadOptions{}
	fs.IntVar(&a.Workers, "workers", 8, "apiload: API client goroutines")
	fs.IntVar(&a.Runs, "runs", 1, "apiload: number of loaded runs with this binary")
	fs.StringVar(&a.RaceBin, "racebin", "", "apiload: a runprop binary built with -race; adds one loaded run under the race detector")
	fs.StringVar(&a.Mix, "mix", "all", "apiload: all (every read method), norich (without get-rich-list/get-global-rich-list), status (get-sync-status only)")
	fs.IntVar(&a.PauseUs, "pause", 0, "apiload: microseconds a worker sleeps between calls")
	hi := &drv.HistoryOptions{}
	fs.IntVar(&hi.Limit, "limit", 50, "history: the page size get-transactions promises")
	fs.IntVar(&hi.Combos, "combos", 4, "history: seed-chosen filter combinations per key")
	fs.IntVar(&hi.FullKeys, "fullkeys", 30, "history: keys per kind that get every filter combination")
	fs.Parse(os.Args[2:])

	if cmd == "scenario" {
		os.Exit(describeScenario(c))
	}
	if c.Work == "" {
		fmt.Fprintln(os.Stderr, "-work <dir> is required")
		os.Exit(2)
	}
	abs, err := filepath.Abs(c.Work)
	if err != nil {
		fmt.Fprintln(os.Stderr, err)
		os.Exit(2)
	}
	c.Work = abs
	if err := os.MkdirAll(c.Work, 0777); err != nil {
		fmt.Fprintln(os.Stderr, err)
		os.Exit(2)
	}
	exe, err := os.Executable()
	if err != nil {
		fmt.Fprintln(os.Stderr, err)
		os.Exit(2)
	}
	c.Exe = exe
	if !c.Verbose {
		chain.QuietLogs()
	}

	switch cmd {
	case "det":
		os.Exit(drv.CmdDet(c, *procs, *perHeight))
	case "crash":
		os.Exit(drv.CmdCrash(c, o))
	case "fault":
		os.Exit(drv.CmdFault(c, o))
	case "restart":
		os.Exit(drv.CmdRestart(c, *at, *multi, *perHeight))
	case "retryall":
		os.Exit(drv.CmdRetryAll(c, *retryStmt))
	case "apiload":
		os.Exit(drv.CmdAPILoad(c, a))
	case "history":
		os.Exit(drv.CmdHistory(c, hi))
	}
	usage()
}

func usage() {
	fmt.Fprintln(os.Stderr, "usage: runprop det|crash|fault|retryall|restart|apiload|history|scenario -work <dir> -scenario <name> -seed <n> [flags]")
	os.Exit(2)
}

func describeScenario(c *drv.Common) int {
	sched, blocks, err := drv.BuiltinScenario(c.Scenario, c.Seed)
	if err != nil {
		fmt.Fprintln(os.Stderr, err)
		return 2
	}
	nOPR, nSPR, nTx, nF, empty := 0, 0, 0, 0, 0
	for _, b := range blocks {
		nOPR += len(b.OPR)
		nSPR += len(b.SPR)
		nTx += len(b.Tx)
		nF += len(b.Factoid)
		if len(b.OPR)+len(b.SPR)+len(b.Tx)+len(b.Factoid) == 0 {
			empty++
		}
	}
	drv.Emit(map[string]interface{}{"cmd": "scenario", "scenario": c.Scenario, "seed": c.Seed, "first": blocks[0].Height,
		"last": blocks[len(blocks)-1].Height, "blocks": len(blocks), "empty_blocks": empty, "opr_entries": nOPR, "spr_entries": nSPR,
		"tx_entries": nTx, "factoid_txs": nF, "schedule": sched})
	return 0
}
