package chain

import (
	"context"
	"database/sql"
	"fmt"
	"io/ioutil"
	"runtime/debug"
	"sync"
	"sync/atomic"
	"time"

	"github.com/pegnet/pegnetd/config"
	"github.com/pegnet/pegnetd/fat/fat2"
	"github.com/pegnet/pegnetd/node"
	"github.com/pegnet/pegnetd/node/pegnet"
	"github.com/sirupsen/logrus"
	"github.com/spf13/viper"
)

// Schedule holds every activation height / tunable that is a package level
// variable in pegnetd. Apply assigns them all.
type Schedule struct {
	// config/activations.go
	PegnetActivation                uint32
	GradingV2Activation             uint32
	TransactionConversionActivation uint32
	PEGPricingActivation            uint32
	OneWaypFCTConversions           uint32
	PegnetConversionLimitActivation uint32
	PEGFreeFloatingPriceActivation  uint32
	V4OPRUpdate                     uint32
	V20HeightActivation             uint32
	V20DevRewardsHeightActivation   uint32
	SprSignatureActivation          uint32
	OneWaySmallAssetsConversions    uint32
	V202EnhanceActivation           uint32
	V204EnhanceActivation           uint32
	V204BurnMintedTokenActivation   uint32
	PIP10AverageActivation          uint32
	// fat/fat2/activations.go
	Fat2RCDEActivation uint32
	// node/average.go; Apply also sets node.AverageRequired = AveragePeriod/2
	AveragePeriod uint64
	// node/pegnet/admin.go
	Hardforks          []pegnet.ForkEvent
	PegnetdSyncVersion int
}

// mainnet is captured at package init, before anybody can call Apply.
var mainnet = capture()

func capture() Schedule {
	return Schedule{
		PegnetActivation:                config.PegnetActivation,
		GradingV2Activation:             config.GradingV2Activation,
		TransactionConversionActivation: config.TransactionConversionActivation,
		PEGPricingActivation:            config.PEGPricingActivation,
		OneWaypFCTConversions:           config.OneWaypFCTConversions,
		PegnetConversionLimitActivation: config.PegnetConversionLimitActivation,
		PEGFreeFloatingPriceActivation:  config.PEGFreeFloatingPriceActivation,
		V4OPRUpdate:                     config.V4OPRUpdate,
		V20HeightActivation:             config.V20HeightActivation,
		V20DevRewardsHeightActivation:   config.V20DevRewardsHeightActivation,
		SprSignatureActivation:          config.SprSignatureActivation,
		OneWaySmallAssetsConversions:    config.OneWaySmallAssetsConversions,
		V202EnhanceActivation:           config.V202EnhanceActivation,
		V204EnhanceActivation:           config.V204EnhanceActivation,
		V204BurnMintedTokenActivation:   config.V204BurnMintedTokenActivation,
		PIP10AverageActivation:          config.PIP10AverageActivation,
		Fat2RCDEActivation:              fat2.Fat2RCDEActivation,
		AveragePeriod:                   node.AveragePeriod,
		Hardforks:                       append([]pegnet.ForkEvent(nil), pegnet.Hardforks...),
		PegnetdSyncVersion:              pegnet.PegnetdSyncVersion,
	}
}

// MainnetSchedule returns the values compiled into the pegnetd source.
func MainnetSchedule() Schedule {
	s := mainnet
	s.Hardforks = append([]pegnet.ForkEvent(nil), mainnet.Hardforks...)
	return s
}

// CurrentSchedule returns the values the package variables hold right now.
func CurrentSchedule() Schedule { return capture() }

// Apply assigns all package variables. Not safe while a node is syncing.
func (s Schedule) Apply() {
	config.PegnetActivation = s.PegnetActivation
	config.GradingV2Activation = s.GradingV2Activation
	config.TransactionConversionActivation = s.TransactionConversionActivation
	config.PEGPricingActivation = s.PEGPricingActivation
	config.OneWaypFCTConversions = s.OneWaypFCTConversions
	config.PegnetConversionLimitActivation = s.PegnetConversionLimitActivation
	config.PEGFreeFloatingPriceActivation = s.PEGFreeFloatingPriceActivation
	config.V4OPRUpdate = s.V4OPRUpdate
	config.V20HeightActivation = s.V20HeightActivation
	config.V20DevRewardsHeightActivation = s.V20DevRewardsHeightActivation
	config.SprSignatureActivation = s.SprSignatureActivation
	config.OneWaySmallAssetsConversions = s.OneWaySmallAssetsConversions
	config.V202EnhanceActivation = s.V202EnhanceActivation
	config.V204EnhanceActivation = s.V204EnhanceActivation
	config.V204BurnMintedTokenActivation = s.V204BurnMintedTokenActivation
	config.PIP10AverageActivation = s.PIP10AverageActivation
	fat2.Fat2RCDEActivation = s.Fat2RCDEActivation
	node.AveragePeriod = s.AveragePeriod
	node.AverageRequired = s.AveragePeriod / 2
	pegnet.Hardforks = append([]pegnet.ForkEvent(nil), s.Hardforks...)
	pegnet.PegnetdSyncVersion = s.PegnetdSyncVersion
}

// FatalExit is the panic value used instead of os.Exit when pegnetd calls
// logrus' Fatal (see TrapFatal).
type FatalExit struct {
	Code    int
	Message string // the fatal log line: message plus fields
}

func (f FatalExit) String() string {
	return fmt.Sprintf("pegnetd called log.Fatal (exit %d): %s", f.Code, f.Message)
}

var (
	trapOnce  sync.Once
	lastFatal atomic.Value // string
)

type fatalHook struct{}

func (fatalHook) Levels() []logrus.Level { return []logrus.Level{logrus.FatalLevel} }
func (fatalHook) Fire(e *logrus.Entry) error {
	lastFatal.Store(fmt.Sprintf("%s %v", e.Message, e.Data))
	return nil
}

// TrapFatal replaces the exit function of logrus' standard logger, so that the
// log.Fatal calls in DBlockSync ("unable to roll back transaction") panic with
// a FatalExit in the calling goroutine instead of killing the test process.
// SyncTo and StepBlock recover that panic and return it as an error. NewNode,
// SyncTo and StepBlock call TrapFatal themselves. This is process-global
// logrus state, nothing in /repo is touched.
func TrapFatal() {
	trapOnce.Do(func() {
		logrus.AddHook(fatalHook{})
		logrus.StandardLogger().ExitFunc = func(code int) {
			msg, _ := lastFatal.Load().(string)
			panic(FatalExit{Code: code, Message: msg})
		}
	})
}

// QuietLogs discards pegnetd's logrus output (with a 1ms retry period a wedged
// node logs thousands of "failed to sync height" lines).
func QuietLogs() { logrus.SetOutput(ioutil.Discard) }

// DBPath returns the sqlite file pegnetd really uses for a given app.dbpath:
// pegnet.Init appends ".v4" to the configured path.
func DBPath(dbFile string) string { return dbFile + ".v4" }

// NewNode builds the viper configuration and calls the real node.NewPegnetd.
// dbFile is the value of app.dbpath; the sqlite file is DBPath(dbFile).
// factomdURL is ServerURL(srv). Call CloseNode before re-opening the same file.
func NewNode(dbFile string, factomdURL string) (*node.Pegnetd, error) {
	TrapFatal()
	conf := viper.New() // a private viper, so several nodes can coexist
	conf.Set(config.SqliteDBPath, dbFile)
	conf.Set(config.Server, factomdURL)
	conf.Set(config.DBlockSyncRetryPeriod, time.Millisecond)
	// app.Network is left empty: InitChainsFromConfig then keeps the mainnet
	// chain ids that config.OPRChain etc. are initialised with.
	return node.NewPegnetd(context.Background(), conf)
}

// CloseNode closes the node's database handle.
func CloseNode(n *node.Pegnetd) error { return n.Pegnet.DB.Close() }

// SyncTo reveals the chain up to tip and runs the real DBlockSync until the
// node has committed block tip.
//
// On timeout the context is cancelled in the middle of a block. The real node
// then runs into log.Fatal: database/sql has already rolled the ctx-bound
// transaction back, so the explicit tx.Rollback() in DBlockSync returns
// sql.ErrTxDone, which the loop treats as fatal. That exit is trapped (see
// TrapFatal) and appended to the timeout error; the in-memory Sync.Synced and
// the database stay consistent (the block is simply not applied).
func SyncTo(n *node.Pegnetd, fc *FakeChain, tip uint32, timeout time.Duration) error {
	TrapFatal()
	fc.SetTip(tip)
	ctx, cancel := context.WithCancel(context.Background())
	defer cancel()
	done := make(chan error, 1)
	go func() {
		defer func() {
			if r := recover(); r != nil {
				if f, ok := r.(FatalExit); ok {
					done <- fmt.Errorf("%s", f.String())
					return
				}
				done <- fmt.Errorf("panic in DBlockSync at height %d: %v\n%s", synced(n)+1, r, debug.Stack())
				return
			}
			done <- nil
		}()
		n.DBlockSync(ctx)
	}()

	stop := func() error {
		cancel()
		select {
		case err := <-done:
			return err
		case <-time.After(10 * time.Second):
			return fmt.Errorf("DBlockSync did not return within 10s after cancel")
		}
	}

	deadline := time.Now().Add(timeout)
	// DBlockSync bumps Sync.Synced BEFORE InsertSynced/Commit, and the sql.Tx
	// is bound to ctx (cancel => rollback). So reaching tip is not enough: we
	// wait until the loop has gone round to its next `heights` poll, which
	// only happens after the commit of block tip.
	heightsAtTip := -1
	for {
		select {
		case err := <-done:
			if err != nil {
				return err
			}
			return fmt.Errorf("DBlockSync returned unexpectedly at height %d", synced(n))
		default:
		}
		if s := synced(n); s >= tip {
			c := fc.Count("heights", -1)
			if heightsAtTip < 0 {
				heightsAtTip = c
			} else if c > heightsAtTip {
				if err := stop(); err != nil {
					return err
				}
				if s := synced(n); s < tip {
					return fmt.Errorf("node fell back to height %d after reaching %d", s, tip)
				}
				return nil
			}
		} else {
			heightsAtTip = -1
		}
		if time.Now().After(deadline) {
			err := stop()
			h := synced(n) + 1
			msg := fmt.Sprintf("timeout after %v: stuck at height %d (synced=%d, tip=%d), %d dblock-by-height requests for height %d",
				timeout, h, h-1, tip, fc.Count("dblock-by-height", int64(h)), h)
			if err != nil {
				msg += "; after cancel: " + err.Error()
			}
			return fmt.Errorf("%s", msg)
		}
		time.Sleep(200 * time.Microsecond)
	}
}

// synced reads n.Sync.Synced. The sync goroutine writes it without
// synchronisation (pegnetd's own API does the same in GetCurrentSync).
func synced(n *node.Pegnetd) uint32 { return atomic.LoadUint32(&n.Sync.Synced) }

// StepBlock performs exactly one iteration of the inner loop of DBlockSync
// (node/sync.go lines 85-144) for block height, which must be Synced+1, using
// exported API only. Differences to the original: errors are returned instead
// of logged+retried, where the original calls log.Fatal after a failed
// Rollback this returns the error, and after a recovered panic the transaction
// is rolled back.
func StepBlock(n *node.Pegnetd, height uint32) (err error) {
	TrapFatal()
	var tx *sql.Tx
	defer func() {
		if r := recover(); r != nil {
			if tx != nil {
				tx.Rollback() // harness courtesy: do not leave the connection locked
			}
			if f, ok := r.(FatalExit); ok {
				err = fmt.Errorf("%s", f.String())
				return
			}
			err = fmt.Errorf("panic in StepBlock at height %d: %v\n%s", height, r, debug.Stack())
		}
	}()
	d := n
	if height != d.Sync.Synced+1 {
		return fmt.Errorf("StepBlock(%d): node is at %d, can only sync %d", height, d.Sync.Synced, d.Sync.Synced+1)
	}
	ctx := context.Background()

	tx, err = d.Pegnet.DB.BeginTx(ctx, nil)
	if err != nil {
		return fmt.Errorf("failed to start transaction: %v", err)
	}

	// One time operations before the main logic; return values ignored as in
	// the original.
	if d.Sync.Synced+1 == config.V20DevRewardsHeightActivation {
		d.NullifyBurnAddress(ctx, tx, d.Sync.Synced+1)
	}
	if d.Sync.Synced+1 == config.V202EnhanceActivation {
		d.NullifyBurnAddress(ctx, tx, d.Sync.Synced+1)
	}

	if err := d.SyncBlock(ctx, tx, d.Sync.Synced+1); err != nil {
		if rerr := tx.Rollback(); rerr != nil {
			return fmt.Errorf("failed to sync height: %v; unable to roll back transaction: %v", err, rerr)
		}
		return fmt.Errorf("failed to sync height: %v", err)
	}

	next := &pegnet.BlockSync{Synced: d.Sync.Synced + 1}
	err = d.Pegnet.InsertSynced(tx, next)
	if err != nil {
		if rerr := tx.Rollback(); rerr != nil {
			return fmt.Errorf("unable to update synced metadata: %v; unable to roll back transaction: %v", err, rerr)
		}
		return fmt.Errorf("unable to update synced metadata: %v", err)
	}

	err = tx.Commit()
	if err != nil {
		// The original calls tx.Rollback() here too (which yields
		// sql.ErrTxDone after a failed Commit, and then log.Fatal).
		rerr := tx.Rollback()
		return fmt.Errorf("unable to commit transaction: %v (rollback: %v)", err, rerr)
	}
	atomic.StoreUint32(&d.Sync.Synced, next.Synced)
	return nil
}
