package chain

import (
	"crypto/ed25519"
	"crypto/sha256"
	"encoding/binary"
	"fmt"
	"sync"
	"time"

	"github.com/Factom-Asset-Tokens/factom"
	"github.com/Factom-Asset-Tokens/factom/varintf"
	"github.com/pegnet/pegnetd/config"
)

// RawEntry is one Factom entry. The chain id is implied by the list of the
// AbsBlock it is placed in (OPR / SPR / Tx).
type RawEntry struct {
	ExtIDs  [][]byte
	Content []byte
}

// FTxIO is one factoid transaction input or output. For FCT inputs/outputs the
// address is the RCD hash (the 32 bytes behind an FA... address), for EC
// outputs it is the EC public key.
type FTxIO struct {
	Address [32]byte
	Amount  uint64
}

// FTx is one factoid transaction (not the coinbase, which is always generated).
type FTx struct {
	// TimestampSaltMs is the 6 byte millisecond timestamp of the transaction
	// header. 0 means "dblock time in ms + 1 + index".
	TimestampSaltMs uint64

	FCTInputs, FCTOutputs, ECOutputs []FTxIO

	// InputKeys is optional. The binary format requires one RCD1 + 64 byte
	// signature per FCT input, but the factom library used by pegnetd never
	// verifies them (FactoidTransaction.Decode only parses). When InputKeys[i]
	// is an ed25519 key it is used for input i (then the transaction is fully
	// valid if FCTInputs[i].Address == InputKeys[i].FAAddress()); otherwise a
	// throwaway key derived from the input address signs.
	InputKeys []SignerKey
}

// AbsBlock is the abstract description of one directory block.
type AbsBlock struct {
	Height uint32
	// TimestampMin is the DBlock timestamp in minutes since the unix epoch
	// (the DBlock header stores minutes). 0 means "previous + 10", or
	// DefaultTimestampMin for the first block.
	TimestampMin uint32
	// A nil (or empty) slice means that chain has NO EBlock in this DBlock.
	OPR, SPR, Tx []RawEntry
	// TxMinute is optional and parallel to Tx: the minute marker 1..10 the
	// entry falls under (default 1). Must be non-decreasing. The entry
	// timestamp seen by pegnetd is dblock time + minute.
	TxMinute []int
	// Factoid lists the factoid transactions besides the coinbase. A valid
	// FBlock is produced for every height.
	Factoid []FTx
}

// DefaultTimestampMin is used for the first block if it has TimestampMin 0
// (2019-06-09, well inside the 6 byte ms range of factoid transactions).
const DefaultTimestampMin uint32 = 26000000

// EBlockInfo is what the model side needs to know about a materialized EBlock.
type EBlockInfo struct {
	ChainID     [32]byte
	KeyMR       [32]byte
	PrevKeyMR   [32]byte
	Sequence    uint32
	EntryHashes [][32]byte
	EntryTimes  []int64 // unix seconds, = dblock time + minute*60
}

type blockData struct {
	abs         AbsBlock
	timestamp   time.Time
	dblockRaw   []byte
	dblockKeyMR [32]byte
	fblockRaw   []byte
	fblockKeyMR [32]byte
	coinbaseID  [32]byte
	ftxIDs      [][32]byte // parallel to abs.Factoid
	eblocks     map[[32]byte]*EBlockInfo
}

type rawObject struct {
	kind   string // "dblock", "eblock", "entry", "fblock", "ftx"
	height uint32 // first height the object appears at
	data   []byte
}

// FakeChain is a fully materialized synthetic chain plus the state of the fake
// factomd that serves it (see server.go).
type FakeChain struct {
	// Tip is what the `heights` call reports. It is read with atomic loads by
	// the server; use SetTip while a node is syncing.
	Tip uint32

	// Fail is the fault hook: if it returns true for a request the server
	// answers with HTTP 500 + JSON-RPC internal error. Calls are serialized.
	// Set it with SetFail while a node is syncing.
	Fail func(r Req) bool

	first  uint32
	blocks []*blockData
	raw    map[[32]byte]*rawObject

	mu     sync.Mutex // guards reqs, counts, Fail
	failMu sync.Mutex // serializes Fail invocations
	reqs   []Req
	counts map[countKey]int
}

// chainIDs returns the three tracked chains in the order the node fetches them.
func chainIDs() (opr, tx, spr [32]byte) {
	return config.OPRChain, config.TransactionChain, config.SPRChain
}

// EntryHash returns the entry hash the entry will have on the given chain.
// Format: factom.Entry.MarshalBinary, hash = factom.ComputeEntryHash.
func EntryHash(chainID [32]byte, e RawEntry) [32]byte {
	data, err := marshalEntry(chainID, e)
	if err != nil {
		panic(err)
	}
	return factom.ComputeEntryHash(data)
}

func marshalEntry(chainID [32]byte, e RawEntry) ([]byte, error) {
	cid := factom.Bytes32(chainID)
	fe := factom.Entry{ChainID: &cid, Content: e.Content}
	for _, x := range e.ExtIDs {
		fe.ExtIDs = append(fe.ExtIDs, factom.Bytes(x))
	}
	return fe.MarshalBinary() // errors if the entry exceeds 10 KiB
}

// Materialize builds real binary DBlocks / EBlocks / Entries / FBlocks for the
// abstract blocks. Every produced block is parsed back with the factom
// library's UnmarshalBinary, so all merkle roots / hashes are guaranteed to be
// what the node will verify and compute.
func Materialize(blocks []AbsBlock) (*FakeChain, error) {
	if len(blocks) == 0 {
		return nil, fmt.Errorf("no blocks")
	}
	fc := &FakeChain{
		first:  blocks[0].Height,
		raw:    make(map[[32]byte]*rawObject),
		counts: make(map[countKey]int),
	}
	oprC, txC, sprC := chainIDs()

	var prevD *factom.DBlock
	var prevF *factom.FBlock
	prevE := make(map[[32]byte]*factom.EBlock)
	prevMin := uint32(0)

	for i, b := range blocks {
		if b.Height != fc.first+uint32(i) {
			return nil, fmt.Errorf("block %d: height %d is not contiguous (want %d)", i, b.Height, fc.first+uint32(i))
		}
		if b.TimestampMin == 0 {
			if i == 0 {
				b.TimestampMin = DefaultTimestampMin
			} else {
				b.TimestampMin = prevMin + 10
			}
		}
		prevMin = b.TimestampMin
		bd := &blockData{
			abs:       b,
			timestamp: time.Unix(int64(b.TimestampMin)*60, 0),
			eblocks:   make(map[[32]byte]*EBlockInfo),
		}

		// Entry blocks.
		for _, c := range []struct {
			id      [32]byte
			entries []RawEntry
			minutes []int
		}{{oprC, b.OPR, nil}, {txC, b.Tx, b.TxMinute}, {sprC, b.SPR, nil}} {
			if len(c.entries) == 0 {
				continue
			}
			info, parsed, err := fc.buildEBlock(bd, c.id, c.entries, c.minutes, prevE[c.id])
			if err != nil {
				return nil, fmt.Errorf("height %d chain %x: %v", b.Height, c.id[:4], err)
			}
			bd.eblocks[c.id] = info
			prevE[c.id] = parsed
		}

		// Factoid block.
		f, err := fc.buildFBlock(bd, prevF)
		if err != nil {
			return nil, fmt.Errorf("height %d fblock: %v", b.Height, err)
		}
		prevF = f

		// Directory block.
		d, err := fc.buildDBlock(bd, prevD)
		if err != nil {
			return nil, fmt.Errorf("height %d dblock: %v", b.Height, err)
		}
		prevD = d

		fc.blocks = append(fc.blocks, bd)
	}
	fc.Tip = blocks[len(blocks)-1].Height
	return fc, nil
}

func (fc *FakeChain) addRaw(hash [32]byte, kind string, height uint32, data []byte) {
	if _, ok := fc.raw[hash]; ok {
		return // e.g. the same entry replayed in a later block: same hash, same bytes
	}
	fc.raw[hash] = &rawObject{kind: kind, height: height, data: data}
}

// buildEBlock writes the entries and the EBlock.
//
// EBlock format (factom.EBlock.UnmarshalBinary):
//
//	header: ChainID(32) BodyMR(32) PrevKeyMR(32) PrevFullHash(32) Sequence(4) DBHeight(4) ObjectCount(4)
//	body:   32 byte objects: entry hashes, and after the entries of a minute
//	        the minute marker 00..0m (m = 1..10). The last object must be a marker.
//	BodyMR = merkle root over the raw objects (leaves not hashed),
//	KeyMR  = sha256(sha256(header) | BodyMR).
func (fc *FakeChain) buildEBlock(bd *blockData, chainID [32]byte, entries []RawEntry, minutes []int, prev *factom.EBlock) (*EBlockInfo, *factom.EBlock, error) {
	if minutes != nil && len(minutes) != len(entries) {
		return nil, nil, fmt.Errorf("TxMinute has %d elements for %d entries", len(minutes), len(entries))
	}
	info := &EBlockInfo{ChainID: chainID}
	var objects [][]byte
	curMin := 0
	for i, e := range entries {
		m := 1
		if minutes != nil && minutes[i] != 0 {
			m = minutes[i]
		}
		if m < 1 || m > 10 {
			return nil, nil, fmt.Errorf("entry %d: minute %d out of range 1..10", i, m)
		}
		if m < curMin {
			return nil, nil, fmt.Errorf("entry %d: minutes must be non-decreasing", i)
		}
		if curMin != 0 && m > curMin {
			objects = append(objects, minuteMarker(curMin))
		}
		curMin = m

		data, err := marshalEntry(chainID, e)
		if err != nil {
			return nil, nil, fmt.Errorf("entry %d: %v", i, err)
		}
		h := factom.ComputeEntryHash(data)
		fc.addRaw(h, "entry", bd.abs.Height, data)
		hh := h
		objects = append(objects, hh[:])
		info.EntryHashes = append(info.EntryHashes, h)
		info.EntryTimes = append(info.EntryTimes, bd.timestamp.Unix()+int64(m)*60)
	}
	objects = append(objects, minuteMarker(curMin))

	bodyMR, err := factom.ComputeEBlockBodyMR(objects)
	if err != nil {
		return nil, nil, err
	}
	raw := make([]byte, 0, factom.EBlockHeaderLen+32*len(objects))
	raw = append(raw, chainID[:]...)
	raw = append(raw, bodyMR[:]...)
	var seq uint32
	if prev != nil {
		raw = append(raw, prev.KeyMR[:]...)
		raw = append(raw, prev.FullHash[:]...)
		seq = prev.Sequence + 1
		info.PrevKeyMR = *prev.KeyMR
	} else {
		raw = append(raw, make([]byte, 64)...) // first EBlock of the chain: zero PrevKeyMR / PrevFullHash
	}
	raw = appendU32(raw, seq)
	raw = appendU32(raw, bd.abs.Height)
	raw = appendU32(raw, uint32(len(objects)))
	for _, o := range objects {
		raw = append(raw, o...)
	}

	// Parse back exactly the way DBlock.Get + EBlock.Get do it.
	cid := factom.Bytes32(chainID)
	parsed := &factom.EBlock{ChainID: &cid, Timestamp: bd.timestamp, Height: bd.abs.Height}
	if err := parsed.UnmarshalBinary(raw); err != nil {
		return nil, nil, fmt.Errorf("self-check: %v", err)
	}
	if len(parsed.Entries) != len(entries) {
		return nil, nil, fmt.Errorf("self-check: %d entries parsed, want %d", len(parsed.Entries), len(entries))
	}
	for i := range parsed.Entries {
		if parsed.Entries[i].Timestamp.Unix() != info.EntryTimes[i] || *parsed.Entries[i].Hash != info.EntryHashes[i] {
			return nil, nil, fmt.Errorf("self-check: entry %d hash/timestamp mismatch", i)
		}
	}
	info.KeyMR = *parsed.KeyMR
	info.Sequence = seq
	fc.addRaw(info.KeyMR, "eblock", bd.abs.Height, raw)
	return info, parsed, nil
}

func minuteMarker(m int) []byte {
	o := make([]byte, 32)
	o[31] = byte(m)
	return o
}

func appendU32(b []byte, v uint32) []byte {
	var x [4]byte
	binary.BigEndian.PutUint32(x[:], v)
	return append(b, x[:]...)
}

// buildFBlock writes the factoid block.
//
// FBlock format (factom.FBlock.UnmarshalBinary):
//
//	header: FChainID 00..0f (32) BodyMR(32) PrevKeyMR(32) PrevLedgerKeyMR(32)
//	        ExchangeRate(8) DBHeight(4) ExpansionSize(varint, 0) TxCount(4) BodySize(4)
//	body:   transactions; a single 0x00 byte between/after them is an
//	        end-of-minute marker, exactly 10 markers per block. We put every
//	        transaction in minute 1, i.e. all 10 markers follow the last tx.
//	BodyMR = merkle root over hashed leaves [tx0 .. txN, 10 x {0x00}],
//	KeyMR  = merkle(sha256(header), BodyMR).
//
// The library does not compare the header BodyMR with the computed one, but we
// write the right value anyway.
func (fc *FakeChain) buildFBlock(bd *blockData, prev *factom.FBlock) (*factom.FBlock, error) {
	tsMs := uint64(bd.timestamp.Unix()) * 1000
	// Coinbase: version 2, no inputs, no outputs, no signatures.
	txs := []factom.FactoidTransaction{newFactoidTx(tsMs)}
	for i, a := range bd.abs.Factoid {
		ms := a.TimestampSaltMs
		if ms == 0 {
			ms = tsMs + 1 + uint64(i)
		}
		if len(a.FCTInputs) > 255 || len(a.FCTOutputs) > 255 || len(a.ECOutputs) > 255 {
			return nil, fmt.Errorf("tx %d: too many inputs/outputs", i)
		}
		t := newFactoidTx(ms)
		t.FCTInputs = toIOs(a.FCTInputs)
		t.FCTOutputs = toIOs(a.FCTOutputs)
		t.ECOutputs = toIOs(a.ECOutputs)
		ledger, err := t.MarshalLedgerBinary()
		if err != nil {
			return nil, err
		}
		for j, in := range a.FCTInputs {
			var priv ed25519.PrivateKey
			if j < len(a.InputKeys) {
				if fs, ok := a.InputKeys[j].signer.(factom.FsAddress); ok {
					priv = fs.PrivateKey()
				}
			}
			if priv == nil {
				seed := sha256.Sum256(append([]byte("verifharness throwaway ftx key"), in.Address[:]...))
				priv = ed25519.NewKeyFromSeed(seed[:])
			}
			var rcd factom.RCD1
			copy(rcd[:], priv.Public().(ed25519.PublicKey))
			t.Signatures = append(t.Signatures, factom.FactoidTransactionSignature{
				ReedeemCondition: rcd,
				SignatureBlock:   ed25519.Sign(priv, ledger),
			})
		}
		txs = append(txs, t)
	}

	var body []byte
	var elements [][]byte
	for i := range txs {
		data, err := txs[i].MarshalBinary()
		if err != nil {
			return nil, err
		}
		body = append(body, data...)
		elements = append(elements, data)
	}
	for m := 0; m < 10; m++ {
		body = append(body, factom.FBlockMinuteMarker)
		elements = append(elements, []byte{factom.FBlockMinuteMarker})
	}
	bodyMR, err := factom.ComputeFBlockBodyMR(elements)
	if err != nil {
		return nil, err
	}

	fchain := factom.FBlockChainID()
	raw := append([]byte{}, fchain[:]...)
	raw = append(raw, bodyMR[:]...)
	if prev != nil {
		raw = append(raw, prev.KeyMR[:]...)
		raw = append(raw, prev.LedgerKeyMR[:]...)
	} else {
		raw = append(raw, make([]byte, 64)...)
	}
	var rate [8]byte
	binary.BigEndian.PutUint64(rate[:], 90900) // EC exchange rate, arbitrary
	raw = append(raw, rate[:]...)
	raw = appendU32(raw, bd.abs.Height)
	raw = append(raw, varintf.Encode(0)...) // header expansion size
	raw = appendU32(raw, uint32(len(txs)))
	raw = appendU32(raw, uint32(len(body)))
	raw = append(raw, body...)

	parsed := new(factom.FBlock)
	if err := parsed.UnmarshalBinary(raw); err != nil {
		return nil, fmt.Errorf("self-check: %v", err)
	}
	if len(parsed.Transactions) != len(txs) || parsed.Height != bd.abs.Height {
		return nil, fmt.Errorf("self-check: parsed %d txs at height %d", len(parsed.Transactions), parsed.Height)
	}
	for i := range parsed.Transactions {
		pt := &parsed.Transactions[i]
		if !pt.IsPopulated() {
			// pegnetd calls Transactions[i].Get, which must be a no-op.
			return nil, fmt.Errorf("self-check: tx %d not populated after FBlock decode", i)
		}
		if i == 0 {
			bd.coinbaseID = *pt.TransactionID
		} else {
			bd.ftxIDs = append(bd.ftxIDs, *pt.TransactionID)
		}
		data, _ := txs[i].MarshalBinary()
		fc.addRaw(*pt.TransactionID, "ftx", bd.abs.Height, data)
	}
	bd.fblockRaw = raw
	bd.fblockKeyMR = *parsed.KeyMR
	fc.addRaw(bd.fblockKeyMR, "fblock", bd.abs.Height, raw)
	return parsed, nil
}

func newFactoidTx(ms uint64) factom.FactoidTransaction {
	var t factom.FactoidTransaction
	t.Version = 2
	t.TimestampSalt = time.Unix(0, int64(ms)*1e6)
	// Non-nil empty slices: FactoidTransaction.IsPopulated / MarshalBinary need them.
	t.FCTInputs = []factom.FactoidTransactionIO{}
	t.FCTOutputs = []factom.FactoidTransactionIO{}
	t.ECOutputs = []factom.FactoidTransactionIO{}
	t.Signatures = []factom.FactoidTransactionSignature{}
	return t
}

func toIOs(in []FTxIO) []factom.FactoidTransactionIO {
	out := make([]factom.FactoidTransactionIO, len(in))
	for i, x := range in {
		out[i] = factom.FactoidTransactionIO{Amount: x.Amount, Address: x.Address}
	}
	return out
}

// buildDBlock writes the directory block.
//
// DBlock format (factom.DBlock.UnmarshalBinary):
//
//	header: Version 0x00, NetworkID(4) BodyMR(32) PrevKeyMR(32) PrevFullHash(32)
//	        Timestamp in minutes(4) DBHeight(4) BlockCount(4)
//	body:   (ChainID(32) KeyMR(32))*, ascending by ChainID, starting with the
//	        admin block 00..0a, EC block 00..0c and factoid block 00..0f.
//	BodyMR = merkle root over the hashed 64 byte elements,
//	KeyMR  = sha256(sha256(header) | BodyMR).
func (fc *FakeChain) buildDBlock(bd *blockData, prev *factom.DBlock) (*factom.DBlock, error) {
	type pair struct{ chain, keymr [32]byte }
	// The admin and EC blocks are never fetched by pegnetd; any hash will do.
	pairs := []pair{
		{factom.ABlockChainID(), sha256.Sum256([]byte(fmt.Sprintf("verifharness ablock %d", bd.abs.Height)))},
		{factom.ECBlockChainID(), sha256.Sum256([]byte(fmt.Sprintf("verifharness ecblock %d", bd.abs.Height)))},
		{factom.FBlockChainID(), bd.fblockKeyMR},
	}
	var ebs []pair
	for id, info := range bd.eblocks {
		ebs = append(ebs, pair{id, info.KeyMR})
	}
	// ascending ChainID
	for i := 1; i < len(ebs); i++ {
		for j := i; j > 0 && string(ebs[j].chain[:]) < string(ebs[j-1].chain[:]); j-- {
			ebs[j], ebs[j-1] = ebs[j-1], ebs[j]
		}
	}
	pairs = append(pairs, ebs...)

	var body []byte
	var elements [][]byte
	for _, p := range pairs {
		el := append(append([]byte{}, p.chain[:]...), p.keymr[:]...)
		elements = append(elements, el)
		body = append(body, el...)
	}
	bodyMR, err := factom.ComputeDBlockBodyMR(elements)
	if err != nil {
		return nil, err
	}
	netID := factom.MainnetID()
	raw := []byte{0x00}
	raw = append(raw, netID[:]...)
	raw = append(raw, bodyMR[:]...)
	if prev != nil {
		raw = append(raw, prev.KeyMR[:]...)
		raw = append(raw, prev.FullHash[:]...)
	} else {
		raw = append(raw, make([]byte, 64)...)
	}
	raw = appendU32(raw, bd.abs.TimestampMin)
	raw = appendU32(raw, bd.abs.Height)
	raw = appendU32(raw, uint32(len(pairs)))
	raw = append(raw, body...)

	parsed := new(factom.DBlock)
	if err := parsed.UnmarshalBinary(raw); err != nil {
		return nil, fmt.Errorf("self-check: %v", err)
	}
	for id := range bd.eblocks {
		if parsed.EBlock(id) == nil {
			return nil, fmt.Errorf("self-check: eblock %x not found in dblock", id[:4])
		}
	}
	bd.dblockRaw = raw
	bd.dblockKeyMR = *parsed.KeyMR
	fc.addRaw(bd.dblockKeyMR, "dblock", bd.abs.Height, raw)
	return parsed, nil
}

// ---- accessors for the model side ----

func (fc *FakeChain) block(height uint32) *blockData {
	if height < fc.first || height >= fc.first+uint32(len(fc.blocks)) {
		return nil
	}
	return fc.blocks[height-fc.first]
}

// First and Last return the lowest and highest materialized height.
func (fc *FakeChain) First() uint32 { return fc.first }
func (fc *FakeChain) Last() uint32  { return fc.first + uint32(len(fc.blocks)) - 1 }

// Block returns the abstract block at height (with defaults such as
// TimestampMin filled in), or nil.
func (fc *FakeChain) Block(height uint32) *AbsBlock {
	if bd := fc.block(height); bd != nil {
		b := bd.abs
		return &b
	}
	return nil
}

// EBlock returns the materialized EBlock of the chain at height, if any.
func (fc *FakeChain) EBlock(height uint32, chainID [32]byte) (EBlockInfo, bool) {
	if bd := fc.block(height); bd != nil {
		if info, ok := bd.eblocks[chainID]; ok {
			return *info, true
		}
	}
	return EBlockInfo{}, false
}

// EntryHashes returns the entry hashes of the chain's EBlock at height, in
// EBlock order (nil if there is no EBlock).
func (fc *FakeChain) EntryHashes(height uint32, chainID [32]byte) [][32]byte {
	info, _ := fc.EBlock(height, chainID)
	return info.EntryHashes
}

// EntryTimes returns the unix timestamps pegnetd sees for those entries.
func (fc *FakeChain) EntryTimes(height uint32, chainID [32]byte) []int64 {
	info, _ := fc.EBlock(height, chainID)
	return info.EntryTimes
}

// EBlockKeyMR returns the KeyMR of the chain's EBlock at height.
func (fc *FakeChain) EBlockKeyMR(height uint32, chainID [32]byte) ([32]byte, bool) {
	info, ok := fc.EBlock(height, chainID)
	return info.KeyMR, ok
}

// DBlockKeyMR, FBlockKeyMR: key merkle roots of the blocks at height.
func (fc *FakeChain) DBlockKeyMR(height uint32) [32]byte { return fc.block(height).dblockKeyMR }
func (fc *FakeChain) FBlockKeyMR(height uint32) [32]byte { return fc.block(height).fblockKeyMR }

// DBlockTime returns the DBlock timestamp (unix seconds) at height.
func (fc *FakeChain) DBlockTime(height uint32) int64 { return fc.block(height).timestamp.Unix() }

// FactoidTxIDs returns the transaction ids (sha256 of the ledger part) of
// AbsBlock.Factoid at height, in order; the coinbase is not included.
func (fc *FakeChain) FactoidTxIDs(height uint32) [][32]byte {
	if bd := fc.block(height); bd != nil {
		return bd.ftxIDs
	}
	return nil
}

// FactoidTxTimes returns the unix second timestamps of those transactions
// (pegnetd stores TimestampSalt.Unix() for burns).
func (fc *FakeChain) FactoidTxTimes(height uint32) []int64 {
	bd := fc.block(height)
	if bd == nil {
		return nil
	}
	var out []int64
	for i, a := range bd.abs.Factoid {
		ms := a.TimestampSaltMs
		if ms == 0 {
			ms = uint64(bd.timestamp.Unix())*1000 + 1 + uint64(i)
		}
		out = append(out, int64(ms/1000))
	}
	return out
}
