package chain

import (
	"encoding/hex"
	"fmt"
	"math/rand"
	"os"
	"path/filepath"
	"sort"
	"strings"
	"testing"
	"time"

	"github.com/Factom-Asset-Tokens/factom"
	"github.com/pegnet/pegnetd/config"
	"github.com/pegnet/pegnetd/fat/fat2"
	"github.com/pegnet/pegnetd/node"
	"github.com/pegnet/pegnetd/node/pegnet"
)

// compressedSchedule squeezes the mainnet activation order into 100..180.
func compressedSchedule() Schedule {
	return Schedule{
		PegnetActivation:                100,
		GradingV2Activation:             110,
		TransactionConversionActivation: 120,
		PEGPricingActivation:            125,
		OneWaypFCTConversions:           130,
		PegnetConversionLimitActivation: 135,
		PEGFreeFloatingPriceActivation:  135,
		V4OPRUpdate:                     140,
		Fat2RCDEActivation:              140,
		V20HeightActivation:             150,
		V20DevRewardsHeightActivation:   155,
		SprSignatureActivation:          155,
		OneWaySmallAssetsConversions:    165,
		V202EnhanceActivation:           165,
		V204EnhanceActivation:           170,
		V204BurnMintedTokenActivation:   175,
		PIP10AverageActivation:          180,
		AveragePeriod:                   8,
		Hardforks: []pegnet.ForkEvent{
			{ActivationHeight: 0, MinimumVersion: -1},
			{ActivationHeight: 140, MinimumVersion: 1},
			{ActivationHeight: 150, MinimumVersion: 2},
		},
		PegnetdSyncVersion: 2,
	}
}

func oprVersion(h uint32) uint8 {
	v := uint8(1)
	if h >= config.GradingV2Activation {
		v = 2
	}
	if h >= config.PEGFreeFloatingPriceActivation {
		v = 3
	}
	if h >= config.V4OPRUpdate {
		v = 4
	}
	if h >= config.V20HeightActivation {
		v = 5
	}
	return v
}

func hx(b [32]byte) string { return hex.EncodeToString(b[:]) }

func grep(lines []string, parts ...string) []string {
	var out []string
next:
	for _, l := range lines {
		for _, p := range parts {
			if !strings.Contains(l, p) {
				continue next
			}
		}
		out = append(out, l)
	}
	return out
}

func TestMainnetScheduleRoundTrip(t *testing.T) {
	m := MainnetSchedule()
	if m.PegnetActivation != 206421 || m.AveragePeriod != 288 || len(m.Hardforks) != 3 {
		t.Fatalf("unexpected mainnet schedule: %+v", m)
	}
	defer m.Apply()
	compressedSchedule().Apply()
	if config.PegnetActivation != 100 || node.AverageRequired != 4 || fat2.Fat2RCDEActivation != 140 ||
		pegnet.Hardforks[2].ActivationHeight != 150 {
		t.Fatal("Apply did not assign the package variables")
	}
	if got := MainnetSchedule(); got.PegnetActivation != 206421 {
		t.Fatal("MainnetSchedule must not follow Apply")
	}
}

// TestGeneratorsAgainstGraders feeds every generator version into the real
// grader modules directly.
func TestGeneratorsAgainstGraders(t *testing.T) {
	rng := rand.New(rand.NewSource(7))
	for v := uint8(1); v <= 5; v++ {
		set := GenOPRSet(rng, v, 1234, nil, 30, nil, nil)
		sh, winners, err := GradeOPRSet(v, 1234, nil, set)
		if err != nil {
			t.Fatal(err)
		}
		if len(winners) != OPRWinnerCount(v) || len(sh) != OPRWinnerCount(v) || sh[0] == "" {
			t.Fatalf("opr v%d: %d winners, shorthashes %v", v, len(winners), sh)
		}
		// second block referencing the winners of the first
		set2 := GenOPRSet(rng, v, 1235, sh, 30, nil, nil)
		_, winners2, err := GradeOPRSet(v, 1235, sh, set2)
		if err != nil || len(winners2) != OPRWinnerCount(v) {
			t.Fatalf("opr v%d second block: %d winners, err %v", v, len(winners2), err)
		}
	}
	var stakers []StakerKey
	for i := 0; i < 30; i++ {
		stakers = append(stakers, NewStakerKey(SeedN("staker", i)))
	}
	// determinism: same seed, same chain
	mk := func() [32]byte {
		r := rand.New(rand.NewSource(99))
		k := NewRCDeKey(SeedN("det", 0))
		content, _ := BatchJSON(Conversion(k.FAAddress(), fat2.PTickerFCT, 1, fat2.PTickerUSD))
		fc, err := Materialize([]AbsBlock{{
			Height:  7,
			OPR:     GenOPRSet(r, 5, 7, nil, 3, nil, nil),
			SPR:     GenSPRSet(r, 6, 7, 3, nil, stakers),
			Tx:      []RawEntry{SignedBatchEntry(content, []SignerKey{k}, 1)},
			Factoid: []FTx{{FCTInputs: []FTxIO{{Amount: 1}}}},
		}})
		if err != nil {
			t.Fatal(err)
		}
		return fc.DBlockKeyMR(7)
	}
	if mk() != mk() {
		t.Fatal("generation is not deterministic")
	}
	for v := uint8(5); v <= 7; v++ {
		set := GenSPRSet(rng, v, 99, 30, nil, stakers)
		winners, err := GradeSPRSet(v, 99, set)
		if err != nil || len(winners) != 25 {
			t.Fatalf("spr v%d: %d winners, err %v", v, len(winners), err)
		}
	}
}

// TestSignedBatchAgainstFat2 checks both signer types against fat2's validator.
func TestSignedBatchAgainstFat2(t *testing.T) {
	defer MainnetSchedule().Apply()
	compressedSchedule().Apply()
	to := NewEd25519Key(SeedN("to", 0)).FAAddress()
	for name, k := range map[string]SignerKey{"ed25519": NewEd25519Key(SeedN("k", 1)), "rcde": NewRCDeKey(SeedN("k", 2))} {
		if !strings.HasPrefix(k.String(), "FA") {
			t.Fatalf("%s: address %s", name, k)
		}
		content, err := BatchJSON(Transfer(k.FAAddress(), fat2.PTickerFCT, 5, to))
		if err != nil {
			t.Fatal(err)
		}
		ts := int64(DefaultTimestampMin) * 60
		e := SignedBatchEntry(content, []SignerKey{k}, ts)
		fc, err := Materialize([]AbsBlock{{Height: 200, Tx: []RawEntry{e}}})
		if err != nil {
			t.Fatal(err)
		}
		if fc.EntryTimes(200, config.TransactionChain)[0] != ts+60 {
			t.Fatal("entry time")
		}
		// decode through the factom library + fat2 like the node does
		entry := toFactomEntry(config.TransactionChain, e, time.Unix(ts+60, 0))
		if _, err := fat2.NewTransactionBatch(entry, 200); err != nil {
			t.Fatalf("%s: fat2 rejects the batch at height 200: %v", name, err)
		}
		_, err = fat2.NewTransactionBatch(entry, 130) // below Fat2RCDEActivation
		if (err != nil) != (name == "rcde") {
			t.Fatalf("%s at height 130: err=%v", name, err)
		}
	}
}

func TestSyncAgainstRealNode(t *testing.T) {
	defer MainnetSchedule().Apply()
	sched := compressedSchedule()
	sched.Apply()
	if !testing.Verbose() {
		QuietLogs()
	}

	rng := rand.New(rand.NewSource(1))
	burner := NewEd25519Key(SeedN("burner", 0))
	friend := NewEd25519Key(SeedN("friend", 0))
	const (
		first, last = 101, 139
		burnHeight  = 118
		xferHeight  = 122
		convHeight  = 124
		burnAmount  = 100 * 1e8
		xferAmount  = 10 * 1e8
		convAmount  = 5 * 1e8
	)
	// FCT = 4 USD, everything else (k+1) USD.
	price := func(i int, name string) uint64 {
		if name == "FCT" {
			return 4 * 1e8
		}
		if name == "USD" {
			return 1 * 1e8
		}
		return DefaultAssetValue(5)(i, name)
	}
	miner := func(i int) string { return NewEd25519Key(SeedN("miner", i)).String() }

	var blocks []AbsBlock
	var prevWinners []string
	for h := uint32(first); h <= last; h++ {
		b := AbsBlock{Height: h}
		v := oprVersion(h)
		b.OPR = GenOPRSet(rng, v, int32(h), prevWinners, 30, price, miner)
		sh, winners, err := GradeOPRSet(v, int32(h), prevWinners, b.OPR)
		if err != nil || len(winners) == 0 {
			t.Fatalf("height %d: no winners (err %v)", h, err)
		}
		prevWinners = sh
		ts := int64(DefaultTimestampMin+10*(h-first)) * 60 // = dblock time, see Materialize defaults
		switch h {
		case burnHeight:
			// FCT burn: 1 FCT input, no FCT output, 1 EC output of 0 to node.BurnRCD.
			b.Factoid = []FTx{
				{ // ordinary transfer, must be ignored
					FCTInputs:  []FTxIO{{Address: friend.FAAddress(), Amount: 3e8}},
					FCTOutputs: []FTxIO{{Address: burner.FAAddress(), Amount: 2e8}},
				},
				{
					FCTInputs: []FTxIO{{Address: burner.FAAddress(), Amount: burnAmount}},
					ECOutputs: []FTxIO{{Address: node.BurnRCD, Amount: 0}},
					InputKeys: []SignerKey{burner},
				},
			}
		case xferHeight:
			content, err := BatchJSON(Transfer(burner.FAAddress(), fat2.PTickerFCT, xferAmount, friend.FAAddress()))
			if err != nil {
				t.Fatal(err)
			}
			b.Tx = []RawEntry{SignedBatchEntry(content, []SignerKey{burner}, ts)}
		case convHeight:
			content, err := BatchJSON(Conversion(burner.FAAddress(), fat2.PTickerFCT, convAmount, fat2.PTickerUSD))
			if err != nil {
				t.Fatal(err)
			}
			b.Tx = []RawEntry{SignedBatchEntry(content, []SignerKey{burner}, ts)}
			b.TxMinute = []int{7}
		}
		blocks = append(blocks, b)
	}
	fc, err := Materialize(blocks)
	if err != nil {
		t.Fatal(err)
	}
	if fc.DBlockTime(xferHeight) != int64(DefaultTimestampMin+10*(xferHeight-first))*60 {
		t.Fatal("timestamp default changed")
	}
	srv := fc.Serve()
	defer srv.Close()

	dir, err := os.MkdirTemp("", "verifharness")
	if err != nil {
		t.Fatal(err)
	}
	defer os.RemoveAll(dir)
	dbFile := filepath.Join(dir, "a", "pegnet.db")

	n, err := NewNode(dbFile, ServerURL(srv))
	if err != nil {
		t.Fatal(err)
	}
	if n.Sync.Synced != sched.PegnetActivation {
		t.Fatalf("fresh node starts at %d", n.Sync.Synced)
	}

	// Phase 1: DBlockSync up to 115, with the first dblock request of 110 and
	// one entry fetch at 112 failing (the node must simply retry).
	failed := map[string]bool{}
	fc.SetFail(func(r Req) bool {
		key := ""
		if r.Method == "dblock-by-height" && r.Height == 110 {
			key = "dblock110"
		}
		if r.Method == "raw-data" && r.Kind == "entry" && r.Height == 112 {
			key = "entry112"
		}
		if key != "" && !failed[key] {
			failed[key] = true
			return true
		}
		return false
	})
	if err := SyncTo(n, fc, 115, 60*time.Second); err != nil {
		t.Fatal(err)
	}
	fc.SetFail(nil)
	if len(failed) != 2 || fc.Count("dblock-by-height", 110) != 2 || fc.Count("dblock-by-height", 111) != 1 {
		t.Fatalf("fault injection: failed=%v, dblock requests 110:%d 111:%d", failed,
			fc.Count("dblock-by-height", 110), fc.Count("dblock-by-height", 111))
	}
	if fc.Count("dblock-by-height", 116) != 0 {
		t.Fatal("node looked beyond the tip")
	}

	// Phase 2: a wedged block is reported with its height.
	fc.SetFail(func(r Req) bool { return r.Method == "fblock-by-height" && r.Height == 117 })
	err = SyncTo(n, fc, 118, 300*time.Millisecond)
	if err == nil || !strings.Contains(err.Error(), "stuck at height 117") {
		t.Fatalf("expected a stuck-at-117 error, got %v", err)
	}
	t.Logf("wedged node reported as: %v", err)
	fc.SetFail(nil)

	// Phase 3: restart on the same file, then StepBlock for two blocks.
	if err := CloseNode(n); err != nil {
		t.Fatal(err)
	}
	n, err = NewNode(dbFile, ServerURL(srv))
	if err != nil {
		t.Fatal(err)
	}
	if n.Sync.Synced != 116 {
		t.Fatalf("restarted node is at %d, want 116", n.Sync.Synced)
	}
	if err := StepBlock(n, 119); err == nil {
		t.Fatal("StepBlock must refuse a non-consecutive height")
	}
	for h := uint32(117); h <= 118; h++ {
		if err := StepBlock(n, h); err != nil {
			t.Fatal(err)
		}
	}

	// Phase 4: the rest with DBlockSync, chain revealed in two steps.
	if err := SyncTo(n, fc, 130, 60*time.Second); err != nil {
		t.Fatal(err)
	}
	if err := SyncTo(n, fc, last, 60*time.Second); err != nil {
		t.Fatal(err)
	}

	// A second node on another file in the same process, one go.
	dbFile2 := filepath.Join(dir, "b", "pegnet.db")
	n2, err := NewNode(dbFile2, ServerURL(srv))
	if err != nil {
		t.Fatal(err)
	}
	if err := SyncTo(n2, fc, last, 60*time.Second); err != nil {
		t.Fatal(err)
	}

	dump, err := Dump(dbFile)
	if err != nil {
		t.Fatal(err)
	}
	dump2, err := Dump(DBPath(dbFile2))
	if err != nil {
		t.Fatal(err)
	}
	if testing.Verbose() {
		fmt.Println("---- dump ----")
		for _, l := range dump {
			fmt.Println(l)
		}
		fmt.Println("---- end dump ----")
	}
	// Restart artifact of the real node: CheckHardForks, run by NewPegnetd on a
	// non-fresh database, records the height-0 "fork" as synced with version -1.
	const restartLine = "pn_sync_version height=0 version=-1"
	if len(grep(dump, restartLine)) != 1 || len(grep(dump2, restartLine)) != 0 {
		t.Errorf("expected %q only in the restarted node", restartLine)
	}
	dump2 = append(dump2, restartLine)
	sort.Strings(dump2)
	if strings.Join(dump, "\n") != strings.Join(dump2, "\n") {
		t.Error("the interrupted/restarted node and the straight node disagree")
		in := func(set []string) map[string]bool {
			m := map[string]bool{}
			for _, l := range set {
				m[l] = true
			}
			return m
		}
		m1, m2 := in(dump), in(dump2)
		for _, l := range dump {
			if !m2[l] {
				t.Logf("only in node 1: %s", l)
			}
		}
		for _, l := range dump2 {
			if !m1[l] {
				t.Logf("only in node 2: %s", l)
			}
		}
	}

	expect := func(what string, want int, parts ...string) []string {
		t.Helper()
		got := grep(dump, parts...)
		if (want >= 0 && len(got) != want) || (want < 0 && len(got) == 0) {
			t.Errorf("%s: %d lines match %q, want %d", what, len(got), parts, want)
		}
		return got
	}
	B, F := hx(burner.FAAddress()), hx(friend.FAAddress())
	burnTx := hx(fc.FactoidTxIDs(burnHeight)[1])
	xferHash := hx(fc.EntryHashes(xferHeight, config.TransactionChain)[0])
	convHash := hx(fc.EntryHashes(convHeight, config.TransactionChain)[0])

	// burner got pFCT: 100 - 10 transferred - 5 converted
	expect("burner pFCT", 1, fmt.Sprintf("pn_addresses bal %s pfct_balance %d", B, uint64(burnAmount-xferAmount-convAmount)))
	expect("burn history", 1, "pn_history_txbatch ", "entry_hash="+burnTx, fmt.Sprintf("height=%d", burnHeight), fmt.Sprintf("executed=%d", burnHeight))
	expect("burn history tx", 1, "pn_history_transaction ", "entry_hash="+burnTx, "from_asset=FCT", "to_asset=pFCT", fmt.Sprintf("from_amount=%d", uint64(burnAmount)))
	// the transfer executed in its own block
	expect("friend pFCT", 1, fmt.Sprintf("pn_addresses bal %s pfct_balance %d", F, uint64(xferAmount)))
	expect("transfer executed", 1, "pn_history_txbatch ", "entry_hash="+xferHash, fmt.Sprintf("executed=%d", xferHeight),
		fmt.Sprintf("timestamp=%d", fc.EntryTimes(xferHeight, config.TransactionChain)[0]))
	expect("transfer relations", 2, "pn_address_transactions ", "entry_hash="+xferHash)
	// the conversion was held and executed in the next graded block, at 4 USD per FCT
	expect("burner pUSD", 1, fmt.Sprintf("pn_addresses bal %s pusd_balance %d", B, uint64(convAmount*4)))
	expect("conversion executed", 1, "pn_history_txbatch ", "entry_hash="+convHash, fmt.Sprintf("height=%d", convHeight), fmt.Sprintf("executed=%d", convHeight+1),
		fmt.Sprintf("timestamp=%d", fc.DBlockTime(convHeight)+7*60))
	expect("conversion amount", 1, "pn_history_transaction ", "entry_hash="+convHash, "to_asset=pUSD", fmt.Sprintf("to_amount=%d", uint64(convAmount*4)))
	expect("holding row", 1, "pn_transaction_batch_holding ", "entry_hash="+convHash, fmt.Sprintf("height=%d", convHeight),
		"eblock_keymr="+hx(mustKeyMR(t, fc, convHeight, config.TransactionChain)))
	// rates for every block, graded blocks, winners, PEG for miners
	expect("rates", last-first+1, "pn_rate ", "token=pFCT", "value=400000000")
	expect("grades", last-first+1, "pn_grade ")
	// pn_winners holds the whole graded set (up to 50), winners have a payout
	expect("v1 graded", 30, "pn_winners height=105 ")
	expect("v1 winners", 8, "pn_winners height=105 ", "payout=45000000000")
	expect("v2 winners", 25, "pn_winners height=125 ", "payout=20000000000")
	expect("miners got PEG", -1, "pn_addresses bal ", " peg_balance ")
	expect("synced", 1, "pn_metadata name=synced value="+hex.EncodeToString([]byte(fmt.Sprintf(`{"Synced":%d}`, last))))
	expect("sync versions", last-first+1, "pn_sync_version ", "version=2")

	// request log sanity
	reqs := fc.Requests()
	if len(reqs) == 0 || reqs[0].Method != "heights" || reqs[0].N != 0 {
		t.Errorf("request log starts with %+v", reqs[:1])
	}
	if c := fc.Count("fblock-by-height", 120); c != 2 { // once per node
		t.Errorf("fblock-by-height 120 requested %d times", c)
	}
}

func mustKeyMR(t *testing.T, fc *FakeChain, h uint32, chain [32]byte) [32]byte {
	k, ok := fc.EBlockKeyMR(h, chain)
	if !ok {
		t.Fatalf("no eblock at %d", h)
	}
	return k
}

// toFactomEntry decodes the entry the way the node receives it (raw bytes ->
// factom.Entry.UnmarshalBinary) and stamps the EBlock-derived timestamp.
func toFactomEntry(chain [32]byte, e RawEntry, ts time.Time) factom.Entry {
	data, err := marshalEntry(chain, e)
	if err != nil {
		panic(err)
	}
	var fe factom.Entry
	if err := fe.UnmarshalBinary(data); err != nil {
		panic(err)
	}
	fe.Timestamp = ts
	return fe
}

// TestSyncThroughAllActivations drives the node across every activation of
// the compressed schedule (heights 101..182): v4/v5 OPRs, SPR versions 5, 6
// and 7 from stakers that are top-100 PEG holders, an RCD-e signed transfer,
// the two NullifyBurnAddress heights, token mint / un-mint, a snapshot payout
// (height 144 = pegnet.SnapshotRate) and a PIP-10 conversion.
func TestSyncThroughAllActivations(t *testing.T) {
	defer MainnetSchedule().Apply()
	sched := compressedSchedule()
	sched.V20HeightActivation = 142 // so that snapshot height 144 is a 2.0 block
	sched.Hardforks[2].ActivationHeight = 142
	sched.Apply()
	if !testing.Verbose() {
		QuietLogs()
	}
	rng := rand.New(rand.NewSource(2))
	const first, last = 101, 182
	price := func(i int, name string) uint64 {
		if name == "FCT" {
			return 4 * 1e8
		}
		if name == "USD" {
			return 1 * 1e8
		}
		return DefaultAssetValue(5)(i, name)
	}
	miner := func(i int) string { return NewEd25519Key(SeedN("miner", i)).String() }
	var stakers []StakerKey // the miners double as stakers: they hold PEG
	for i := 0; i < 30; i++ {
		stakers = append(stakers, NewStakerKey(SeedN("miner", i)))
	}
	burner := NewEd25519Key(SeedN("burner", 0))
	ethKey := NewRCDeKey(SeedN("eth", 0))

	var blocks []AbsBlock
	var prevWinners []string
	for h := uint32(first); h <= last; h++ {
		b := AbsBlock{Height: h}
		v := oprVersion(h)
		b.OPR = GenOPRSet(rng, v, int32(h), prevWinners, 30, price, miner)
		sh, winners, err := GradeOPRSet(v, int32(h), prevWinners, b.OPR)
		if err != nil || len(winners) == 0 {
			t.Fatalf("height %d: no winners (err %v)", h, err)
		}
		prevWinners = sh
		if h >= config.V20HeightActivation {
			sv := uint8(5)
			if h >= config.SprSignatureActivation {
				sv = 6
			}
			if h >= config.V202EnhanceActivation {
				sv = 7
			}
			b.SPR = GenSPRSet(rng, sv, int32(h), 30, price, stakers)
		}
		ts := int64(DefaultTimestampMin+10*(h-first)) * 60
		batch := func(k SignerKey, tx fat2.Transaction) RawEntry {
			content, err := BatchJSON(tx)
			if err != nil {
				t.Fatal(err)
			}
			return SignedBatchEntry(content, []SignerKey{k}, ts)
		}
		switch h {
		case 121:
			b.Factoid = []FTx{{
				FCTInputs: []FTxIO{{Address: burner.FAAddress(), Amount: 50e8}},
				ECOutputs: []FTxIO{{Address: node.BurnRCD}},
			}}
		case 139: // RCD-e not yet valid (needs height > Fat2RCDEActivation): entry ignored
			b.Tx = []RawEntry{batch(ethKey, Transfer(ethKey.FAAddress(), fat2.PTickerFCT, 1e8, burner.FAAddress()))}
		case 140:
			b.Tx = []RawEntry{batch(burner, Transfer(burner.FAAddress(), fat2.PTickerFCT, 20e8, ethKey.FAAddress()))}
		case 143: // RCD-e signed transfer back
			b.Tx = []RawEntry{batch(ethKey, Transfer(ethKey.FAAddress(), fat2.PTickerFCT, 5e8, burner.FAAddress()))}
		case 181: // conversion under PIP-10 (rates == averages here)
			b.Tx = []RawEntry{batch(burner, Conversion(burner.FAAddress(), fat2.PTickerFCT, 1e8, fat2.PTickerUSD))}
		}
		blocks = append(blocks, b)
	}
	fc, err := Materialize(blocks)
	if err != nil {
		t.Fatal(err)
	}
	srv := fc.Serve()
	defer srv.Close()
	dir, err := os.MkdirTemp("", "verifharness")
	if err != nil {
		t.Fatal(err)
	}
	defer os.RemoveAll(dir)
	dbFile := filepath.Join(dir, "pegnet.db")
	n, err := NewNode(dbFile, ServerURL(srv))
	if err != nil {
		t.Fatal(err)
	}
	if err := SyncTo(n, fc, last, 120*time.Second); err != nil {
		t.Fatal(err)
	}
	dump, err := Dump(dbFile)
	if err != nil {
		t.Fatal(err)
	}
	expect := func(what string, want int, parts ...string) {
		t.Helper()
		got := grep(dump, parts...)
		if (want >= 0 && len(got) != want) || (want < 0 && len(got) == 0) {
			t.Errorf("%s: %d lines match %q, want %d", what, len(got), parts, want)
		}
	}
	E, B := hx(ethKey.FAAddress()), hx(burner.FAAddress())
	expect("rcd-e holder", 1, fmt.Sprintf("pn_addresses bal %s pfct_balance %d", E, uint64(15e8)))
	expect("burner pFCT", 1, fmt.Sprintf("pn_addresses bal %s pfct_balance %d", B, uint64(50e8-20e8+5e8-1e8)))
	expect("burner pUSD", 1, fmt.Sprintf("pn_addresses bal %s pusd_balance %d", B, uint64(4e8)))
	expect("early rcd-e entry ignored", 0, "entry_hash="+hx(fc.EntryHashes(139, config.TransactionChain)[0]))
	expect("rates in every block", last-first+1, "pn_rate ", "token=pFCT", "value=400000000")
	expect("bank rows V4..V20", 2, "pn_bank ") // 140, 141
	for _, h := range []uint32{142, 155, 165, last} {
		// 25 OPR winners (360 PEG) + 25 SPR winners (180 PEG) have history rows
		expect(fmt.Sprintf("opr payouts %d", h), 25, "pn_winners ", fmt.Sprintf("height=%d ", h), "payout=36000000000")
		paid := 0
		for _, eh := range fc.EntryHashes(h, config.SPRChain) {
			paid += len(grep(dump, "pn_history_transaction ", "entry_hash="+hx(eh), "to_asset=PEG", "to_amount=18000000000"))
		}
		if paid != 25 {
			t.Errorf("height %d: %d SPR payouts, want 25", h, paid)
		}
	}
	expect("spr payouts overall", (last-142+1)*25, "pn_history_transaction ", "to_asset=PEG", "to_amount=18000000000")
	expect("snapshot at 144", -1, "snapshot_current addr ")
	expect("staking payout tx at 144", -1, "pn_history_txbatch ", fmt.Sprintf("entry_hash=%064d", 144))
	// the two NullifyBurnAddress heights fetch the dblock twice
	for _, h := range []int64{155, 165} {
		if c := fc.Count("dblock-by-height", h); c != 2 {
			t.Errorf("dblock-by-height %d requested %d times, want 2", h, c)
		}
	}
	if c := fc.Count("dblock-by-height", 156); c != 1 {
		t.Errorf("dblock-by-height 156 requested %d times", c)
	}
	// no factoid block fetches from 2.0 on
	if fc.Count("fblock-by-height", 141) != 1 || fc.Count("fblock-by-height", 142) != 0 {
		t.Errorf("fblock requests: 141:%d 142:%d", fc.Count("fblock-by-height", 141), fc.Count("fblock-by-height", 142))
	}
	if testing.Verbose() {
		for _, l := range grep(dump, "pn_addresses bal", "peg_balance") {
			fmt.Println(l)
		}
	}
}

// TestPanicIsReported: an SPR entry with a single ExtID used to make
// node.GradeS index out of range (extids[1]); /repo now skips such entries
// ("fix: ignore SPR chain entries with fewer than two external ids"), so both
// SyncTo and StepBlock must apply the block. (The panic -> error path of
// SyncTo/StepBlock is unchanged; there is no known panicking input left to
// exercise it with.)
func TestPanicIsReported(t *testing.T) {
	defer MainnetSchedule().Apply()
	s := compressedSchedule()
	s.V20HeightActivation = 101
	s.Hardforks[2].ActivationHeight = 101
	s.Apply()
	QuietLogs()
	fc, err := Materialize([]AbsBlock{{Height: 101, SPR: []RawEntry{{ExtIDs: [][]byte{{5}}, Content: []byte("x")}}}})
	if err != nil {
		t.Fatal(err)
	}
	srv := fc.Serve()
	defer srv.Close()
	dir, err := os.MkdirTemp("", "verifharness")
	if err != nil {
		t.Fatal(err)
	}
	defer os.RemoveAll(dir)

	n, err := NewNode(filepath.Join(dir, "sync.db"), ServerURL(srv))
	if err != nil {
		t.Fatal(err)
	}
	if err := SyncTo(n, fc, 101, 30*time.Second); err != nil {
		t.Fatalf("SyncTo: %v", err)
	}
	if n.Sync.Synced != 101 {
		t.Fatalf("Synced = %d after SyncTo", n.Sync.Synced)
	}

	n2, err := NewNode(filepath.Join(dir, "step.db"), ServerURL(srv))
	if err != nil {
		t.Fatal(err)
	}
	if err := StepBlock(n2, 101); err != nil {
		t.Fatalf("StepBlock: %v", err)
	}
	if n2.Sync.Synced != 101 {
		t.Fatalf("Synced = %d after StepBlock", n2.Sync.Synced)
	}
}
