package chain

import (
	"crypto/ed25519"
	"crypto/sha256"
	"crypto/sha512"
	"encoding/hex"
	"encoding/json"
	"fmt"
	"math/rand"
	"strconv"

	"github.com/Factom-Asset-Tokens/factom"
	"github.com/pegnet/pegnet/modules/grader"
	"github.com/pegnet/pegnet/modules/graderStake"
	"github.com/pegnet/pegnet/modules/opr"
	"github.com/pegnet/pegnetd/config"
	"github.com/pegnet/pegnetd/fat/fat2"
)

// ---- keys ----

// SignerKey is a FAT-2 signer: either an ed25519 key (RCD type 0x01) or a
// secp256k1 key (RCD type 0x0e, "RCD-e", accepted above fat2.Fat2RCDEActivation).
// It wraps the factom library's own RCDSigner implementations
// (factom.FsAddress / factom.EthSecret), so RCD layout, address derivation
// (sha256d(RCD)) and signature format are the library's.
type SignerKey struct {
	signer factom.RCDSigner
	addr   [32]byte
}

// NewEd25519Key: RCD = 0x01 | pubkey(32), signature = ed25519(64).
func NewEd25519Key(seed [32]byte) SignerKey {
	fs := factom.FsAddress(seed)
	return SignerKey{signer: fs, addr: fs.FAAddress()}
}

// NewRCDeKey: RCD = 0x0e | uncompressed secp256k1 pubkey without the 0x04
// prefix (64), signature = 65 bytes (r|s|recovery id) over sha256d(msg).
// The seed must be a valid secp256k1 scalar (practically always true).
func NewRCDeKey(seed [32]byte) SignerKey {
	es := factom.EthSecret(seed)
	if es.PrivateKey() == nil {
		panic("seed is not a valid secp256k1 private key")
	}
	return SignerKey{signer: es, addr: es.FAAddress()}
}

// FAAddress is the RCD hash, i.e. the 32 bytes stored in pn_addresses.address.
func (k SignerKey) FAAddress() [32]byte { return k.addr }

// String is the human readable FA... address.
func (k SignerKey) String() string { return factom.FAAddress(k.addr).String() }

// RCD and Sign expose the underlying factom.RCDSigner.
func (k SignerKey) RCD() []byte            { return k.signer.RCD() }
func (k SignerKey) Sign(msg []byte) []byte { return k.signer.Sign(msg) }

// FAString renders any 32 byte RCD hash as FA... address.
func FAString(addr [32]byte) string { return factom.FAAddress(addr).String() }

// StakerKey is what an SPR needs: the ed25519 key that signs the content and
// the 32 address bytes that go into ExtIDs[1] / (as FA string) into the content.
type StakerKey struct {
	Priv    ed25519.PrivateKey
	Address [32]byte
}

// NewStakerKey derives the staker from the same seed as NewEd25519Key, so the
// staker address equals NewEd25519Key(seed).FAAddress().
func NewStakerKey(seed [32]byte) StakerKey {
	fs := factom.FsAddress(seed)
	return StakerKey{Priv: fs.PrivateKey(), Address: fs.FAAddress()}
}

// SeedN is a convenience: a deterministic seed from a label and a number.
func SeedN(label string, i int) [32]byte {
	return sha256.Sum256([]byte(fmt.Sprintf("verifharness/%s/%d", label, i)))
}

// ---- FAT-2 transaction batches ----

// SignedBatchEntry builds the ExtIDs of a FAT-2 transaction batch entry on
// config.TransactionChain exactly like fat103.Sign:
//
//	ExtIDs[0]      = decimal unix timestamp salt (must be within +-12h of the
//	                 entry timestamp = dblock time + minute)
//	ExtIDs[1+2i]   = RCD of signer i
//	ExtIDs[2+2i]   = signature of signer i over
//	                 sha512( decimal(i) | ExtIDs[0] | chainID | content )
//
// fat2 demands exactly one signer: the single input address of the batch.
func SignedBatchEntry(contentJSON []byte, keys []SignerKey, tsUnix int64) RawEntry {
	chainID := config.TransactionChain
	salt := []byte(strconv.FormatInt(tsUnix, 10))
	e := RawEntry{Content: contentJSON, ExtIDs: [][]byte{salt}}
	for i, k := range keys {
		msg := []byte(strconv.FormatUint(uint64(i), 10))
		msg = append(msg, salt...)
		msg = append(msg, chainID[:]...)
		msg = append(msg, contentJSON...)
		h := sha512.Sum512(msg)
		e.ExtIDs = append(e.ExtIDs, k.RCD(), k.Sign(h[:]))
	}
	return e
}

// BatchJSON marshals version 1 batch content with fat2's own marshaller (which
// also runs fat2's ValidData). The decoder is length-strict, so the content
// must be exactly this compact form.
func BatchJSON(txs ...fat2.Transaction) ([]byte, error) {
	return json.Marshal(fat2.TransactionBatch{Version: 1, Transactions: txs})
}

// Transfer builds a fat2 transfer transaction of one asset to one receiver.
func Transfer(from [32]byte, ticker fat2.PTicker, amount uint64, to [32]byte) fat2.Transaction {
	return fat2.Transaction{
		Input:     fat2.TypedAddressAmountTuple{Address: from, Amount: amount, Type: ticker},
		Transfers: []fat2.AddressAmountTuple{{Address: to, Amount: amount}},
	}
}

// Conversion builds a fat2 conversion transaction.
func Conversion(from [32]byte, ticker fat2.PTicker, amount uint64, to fat2.PTicker) fat2.Transaction {
	return fat2.Transaction{
		Input:      fat2.TypedAddressAmountTuple{Address: from, Amount: amount, Type: ticker},
		Conversion: to,
	}
}

// ---- OPR ----

// OPRAssets returns the asset list a grader version expects.
func OPRAssets(version uint8) []string {
	switch version {
	case 1:
		return opr.V1Assets
	case 2, 3:
		return opr.V2Assets
	case 4:
		return opr.V4Assets
	default:
		return opr.V5Assets
	}
}

// OPRWinnerCount is the number of winners (and previous-winner slots).
func OPRWinnerCount(version uint8) int {
	if version == 1 {
		return 10
	}
	return 25
}

// DefaultAssetValue prices asset k of every record at (k+1) * 1e8.
func DefaultAssetValue(version uint8) func(i int, name string) uint64 {
	idx := map[string]int{}
	for k, n := range OPRAssets(version) {
		idx[n] = k
	}
	return func(i int, name string) uint64 { return uint64(idx[name]+1) * 1e8 }
}

// GenOPRSet produces n oracle price records that grader version `version`
// accepts for `height`.
//
// Entry layout (modules/grader vN_util.go Validate*, modules/testutils/opr.go):
//
//	ExtIDs[0] = nonce (8 random bytes here)
//	ExtIDs[1] = self reported difficulty = first 8 bytes of
//	            LXR.Hash( sha256(content) | nonce ), big endian; the grader
//	            recomputes it with grader.LX and drops mismatches
//	ExtIDs[2] = version byte
//	Content   = v1: JSON opr.V1Content (float prices = value/1e8, the node
//	            converts back with round(f*1e8));
//	            v2..v5: protobuf opr.V2Content {Address, ID, Height, Winners, Assets}
//
// prevWinners are the 16 hex digit short hashes of the previous graded block
// (grader WinnersShortHashes); nil/empty means "no previous winners yet":
// 10 (v1) or 25 empty strings. v2 also accepts a 10 element list (the block
// right after the v1 -> v2 switch).
// Constraints enforced by the graders: v1 all prices but PNT non-zero, v2 all
// but PEG non-zero, v3+ all non-zero; at least 10 (v1) / 25 records to get
// winners; payout address must be a valid FA address; ID alphanumeric.
func GenOPRSet(rng *rand.Rand, version uint8, height int32, prevWinners []string, n int,
	assetValue func(i int, name string) uint64, payoutAddr func(i int) string) []RawEntry {

	grader.InitLX() // idempotent; honours LXRBITSIZE exactly like node.NewPegnetd does
	if assetValue == nil {
		assetValue = DefaultAssetValue(version)
	}
	if payoutAddr == nil {
		payoutAddr = func(i int) string { return NewEd25519Key(SeedN("miner", i)).String() }
	}
	if len(prevWinners) == 0 {
		prevWinners = make([]string, OPRWinnerCount(version))
	}
	assets := OPRAssets(version)

	out := make([]RawEntry, 0, n)
	for i := 0; i < n; i++ {
		id := fmt.Sprintf("miner%04d", i)
		var content []byte
		var err error
		if version == 1 {
			o := &opr.V1Content{
				CoinbaseAddress: payoutAddr(i),
				Dbht:            height,
				WinPreviousOPR:  prevWinners,
				FactomDigitalID: id,
				Assets:          make(opr.V1AssetList),
			}
			for _, name := range assets {
				o.Assets[name] = float64(assetValue(i, name)) / 1e8
			}
			content, err = o.Marshal()
		} else {
			o := &opr.V2Content{
				Address: payoutAddr(i),
				ID:      id,
				Height:  height,
				Assets:  make([]uint64, len(assets)),
			}
			for _, w := range prevWinners {
				b, herr := hex.DecodeString(w)
				if herr != nil {
					panic("previous winner is not hex: " + w)
				}
				o.Winners = append(o.Winners, b) // "" -> empty bytes, still encoded as an element
			}
			for k, name := range assets {
				o.Assets[k] = assetValue(i, name)
			}
			content, err = o.Marshal()
		}
		if err != nil {
			panic(err)
		}
		nonce := make([]byte, 8)
		rng.Read(nonce)
		oprHash := sha256.Sum256(content)
		diff := grader.LX.Hash(append(oprHash[:], nonce...))
		out = append(out, RawEntry{
			ExtIDs:  [][]byte{nonce, append([]byte{}, diff[:8]...), {version}},
			Content: content,
		})
	}
	return out
}

// GradeOPRSet runs the real grader module over a generated set, the same way
// node.Grade does, and returns the short hashes that become the next block's
// previous winners plus the winning entries' indexes (nil if no winners).
// It is meant for building chains (the next OPR set needs the winners), not
// as the model under test.
func GradeOPRSet(version uint8, height int32, prevWinners []string, set []RawEntry) (shortHashes []string, winners []int, err error) {
	grader.InitLX()
	g, err := grader.NewGrader(version, height, prevWinners)
	if err != nil {
		return nil, nil, err
	}
	index := map[string]int{}
	for i, e := range set {
		h := EntryHash(config.OPRChain, e)
		index[string(h[:])] = i
		g.AddOPR(h[:], e.ExtIDs, e.Content) // bad records are ignored like in the node
	}
	gb := g.Grade()
	for _, w := range gb.Winners() {
		winners = append(winners, index[string(w.EntryHash)])
	}
	return gb.WinnersShortHashes(), winners, nil
}

// ---- SPR ----

// GenSPRSet produces n staking price records for graderStake version 5, 6 or 7
// (= S1, S2, S3), record i belonging to stakers[i].
//
// Entry layout (modules/graderStake s1_util.go / s2_util.go / s3_util.go and
// pegnet's spr.CreateSPREntry):
//
//	ExtIDs[0] = version byte (5, 6, 7)
//	ExtIDs[1] = the staker's 32 raw address bytes (RCD hash). pegnetd's GradeS
//	            drops the record unless these bytes are the `address` of one
//	            of the top 100 PEG holders in pn_addresses -- read through a
//	            separate DB connection, i.e. as of the last COMMITTED block.
//	ExtIDs[2] = ed25519 public key (32) | signature (64) over the content.
//	            Only checked by versions 6 and 7 (v5 just needs 3 ExtIDs);
//	            the key is NOT tied to ExtIDs[1] or the payout address.
//	Content   = protobuf opr.V2Content {Address: payout FA string (also the
//	            duplicate filter key), Height, Assets: the 74 opr.V5Assets, all
//	            non-zero}; ID and Winners are unused.
//
// 25 distinct payout addresses are needed for winners.
func GenSPRSet(rng *rand.Rand, version uint8, height int32, n int,
	assetValue func(i int, name string) uint64, stakers []StakerKey) []RawEntry {

	if n > len(stakers) {
		panic("GenSPRSet: fewer stakers than records")
	}
	if assetValue == nil {
		assetValue = DefaultAssetValue(5)
	}
	_ = rng // the SPR format has no free/random fields; kept for a uniform signature
	out := make([]RawEntry, 0, n)
	for i := 0; i < n; i++ {
		o := &opr.V2Content{
			Address: FAString(stakers[i].Address),
			Height:  height,
			Assets:  make([]uint64, len(opr.V5Assets)),
		}
		for k, name := range opr.V5Assets {
			o.Assets[k] = assetValue(i, name)
		}
		content, err := o.Marshal()
		if err != nil {
			panic(err)
		}
		pub := stakers[i].Priv.Public().(ed25519.PublicKey)
		sig := append(append([]byte{}, pub...), ed25519.Sign(stakers[i].Priv, content)...)
		out = append(out, RawEntry{
			ExtIDs:  [][]byte{{version}, append([]byte{}, stakers[i].Address[:]...), sig},
			Content: content,
		})
	}
	return out
}

// GradeSPRSet runs the real graderStake module over a set (without pegnetd's
// top-100 filter) and returns the indexes of the winners, nil if none.
func GradeSPRSet(version uint8, height int32, set []RawEntry) ([]int, error) {
	g, err := graderStake.NewGrader(version, height)
	if err != nil {
		return nil, err
	}
	index := map[string]int{}
	for i, e := range set {
		h := EntryHash(config.SPRChain, e)
		index[string(h[:])] = i
		if err := g.AddSPR(h[:], e.ExtIDs, e.Content); err != nil {
			return nil, fmt.Errorf("record %d: %v", i, err)
		}
	}
	var winners []int
	for _, w := range g.Grade().Winners() {
		winners = append(winners, index[string(w.EntryHash)])
	}
	return winners, nil
}
