// Package chain is a differential-testing harness for pegnetd: it fabricates
// a synthetic Factom chain, serves it through a fake factomd JSON-RPC API and
// drives the real, unmodified pegnetd sync code against it.
package chain

import (
	_ "github.com/mattn/go-sqlite3"
	_ "github.com/pegnet/pegnetd/node"
)
