// Package chain is a differential-testing harness for pegnetd: it fabricates a
// synthetic Factom chain (chain.go), serves it through a fake factomd JSON-RPC
// API (server.go), drives the real, unmodified pegnetd sync code against it
// (node.go), dumps the resulting sqlite state canonically (dump.go) and
// generates valid OPR / SPR / FAT-2 entries (gen.go).
package chain
