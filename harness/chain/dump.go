package chain

import (
	"crypto/sha256"
	"database/sql"
	"encoding/hex"
	"fmt"
	"os"
	"sort"
	"strings"

	_ "github.com/mattn/go-sqlite3"
)

// dumpTable describes how one table is rendered.
type dumpTable struct {
	name    string
	address bool            // pn_addresses layout: addr/bal lines
	skip    map[string]bool // columns left out
	sha     map[string]bool // columns rendered as hex(sha256(value))
}

var dumpTables = []dumpTable{
	{name: "pn_addresses", address: true},
	{name: "snapshot_current", address: true},
	{name: "snapshot_past", address: true},
	{name: "pn_rate"},
	{name: "pn_bank"},
	{name: "pn_history_txbatch", skip: map[string]bool{"history_id": true}},
	{name: "pn_history_transaction"},
	{name: "pn_history_lookup"},
	{name: "pn_transaction_batch_holding", skip: map[string]bool{"id": true}, sha: map[string]bool{"entry_data": true}},
	{name: "pn_address_transactions"},
	{name: "pn_winners"},
	{name: "pn_grade"},
	{name: "pn_metadata"},
	{name: "pn_sync_version", skip: map[string]bool{"unix_timestamp": true}},
}

// Dump returns a canonical, sorted text dump of the pegnetd database, one line
// per row. dbFile may be either the app.dbpath given to NewNode or the real
// file name (DBPath(dbFile)).
//
// Line formats (every line starts with the table name):
//
//	<addresses-table> addr <addrhex>                       one per row
//	<addresses-table> bal <addrhex> <column> <value>       one per non-zero *_balance column
//	<other-table> col1=v1 col2=v2 ...                      columns in table order
//
// Values: INTEGER as decimal, REAL with %v, TEXT verbatim, BLOB as lowercase
// hex, NULL as NULL. Left out: row ids (pn_addresses.id, history_id,
// holding id) and pn_sync_version.unix_timestamp (wall clock);
// pn_transaction_batch_holding.entry_data is shown as hex(sha256(data)).
func Dump(dbFile string) ([]string, error) {
	path := dbFile
	if _, err := os.Stat(path); err != nil {
		path = DBPath(dbFile)
		if _, err := os.Stat(path); err != nil {
			return nil, fmt.Errorf("no database at %s or %s", dbFile, path)
		}
	}
	db, err := sql.Open("sqlite3", "file:"+path+"?mode=ro")
	if err != nil {
		return nil, err
	}
	defer db.Close()

	var lines []string
	for _, t := range dumpTables {
		rows, err := db.Query(`SELECT * FROM "` + t.name + `"`)
		if err != nil {
			return nil, fmt.Errorf("%s: %v", t.name, err)
		}
		cols, err := rows.Columns()
		if err != nil {
			rows.Close()
			return nil, err
		}
		for rows.Next() {
			vals := make([]interface{}, len(cols))
			ptrs := make([]interface{}, len(cols))
			for i := range vals {
				ptrs[i] = &vals[i]
			}
			if err := rows.Scan(ptrs...); err != nil {
				rows.Close()
				return nil, fmt.Errorf("%s: %v", t.name, err)
			}
			if t.address {
				lines = append(lines, addressLines(t.name, cols, vals)...)
				continue
			}
			var sb strings.Builder
			sb.WriteString(t.name)
			for i, c := range cols {
				if t.skip[c] {
					continue
				}
				v := vals[i]
				if t.sha[c] {
					if b, ok := v.([]byte); ok {
						s := sha256.Sum256(b)
						v = s[:]
					}
				}
				sb.WriteString(" " + c + "=" + formatValue(v))
			}
			lines = append(lines, sb.String())
		}
		err = rows.Err()
		rows.Close()
		if err != nil {
			return nil, fmt.Errorf("%s: %v", t.name, err)
		}
	}
	sort.Strings(lines)
	return lines, nil
}

func addressLines(table string, cols []string, vals []interface{}) []string {
	addr := "?"
	for i, c := range cols {
		if c == "address" {
			addr = formatValue(vals[i])
		}
	}
	out := []string{fmt.Sprintf("%s addr %s", table, addr)}
	for i, c := range cols {
		if !strings.HasSuffix(c, "_balance") {
			continue
		}
		if n, ok := vals[i].(int64); ok && n == 0 {
			continue
		}
		out = append(out, fmt.Sprintf("%s bal %s %s %s", table, addr, c, formatValue(vals[i])))
	}
	return out
}

func formatValue(v interface{}) string {
	switch x := v.(type) {
	case nil:
		return "NULL"
	case []byte:
		return hex.EncodeToString(x)
	case string:
		return x
	case int64:
		return fmt.Sprintf("%d", x)
	case float64:
		return fmt.Sprintf("%v", x)
	case bool:
		if x {
			return "1"
		}
		return "0"
	default:
		return fmt.Sprintf("%v", x)
	}
}
