package chain

import (
	"encoding/hex"
	"encoding/json"
	"io/ioutil"
	"net/http"
	"net/http/httptest"
	"sync/atomic"
)

// Req is one logged JSON-RPC request.
type Req struct {
	N      int    // arrival order, starting at 0
	Method string // "heights", "dblock-by-height", "fblock-by-height", "raw-data", ...
	Height int64  // the height parameter; for raw-data the height the object belongs to; -1 if unknown
	Hash   string // lowercase hex hash parameter of raw-data, "" otherwise
	Kind   string // for raw-data: "dblock", "eblock", "entry", "fblock", "ftx"; "" otherwise / unknown
}

type countKey struct {
	method string
	height int64
}

// SetTip atomically changes the height reported by `heights`.
func (fc *FakeChain) SetTip(tip uint32) { atomic.StoreUint32(&fc.Tip, tip) }

// GetTip atomically reads the height reported by `heights`.
func (fc *FakeChain) GetTip() uint32 { return atomic.LoadUint32(&fc.Tip) }

// SetFail installs the fault hook (nil removes it); safe while serving.
func (fc *FakeChain) SetFail(f func(r Req) bool) {
	fc.mu.Lock()
	fc.Fail = f
	fc.mu.Unlock()
}

// Requests returns a copy of the request log in arrival order.
func (fc *FakeChain) Requests() []Req {
	fc.mu.Lock()
	defer fc.mu.Unlock()
	return append([]Req(nil), fc.reqs...)
}

// Count returns how many requests with that method and height arrived so far
// (failed ones included). For "heights" use height -1.
func (fc *FakeChain) Count(method string, height int64) int {
	fc.mu.Lock()
	defer fc.mu.Unlock()
	return fc.counts[countKey{method, height}]
}

// ResetRequests clears the log and the counters.
func (fc *FakeChain) ResetRequests() {
	fc.mu.Lock()
	fc.reqs = nil
	fc.counts = make(map[countKey]int)
	fc.mu.Unlock()
}

// ServerURL is the app.Server value for NewNode: the factom client POSTs to
// exactly the configured URL (pegnetd's default is "http://localhost:8088/v2"),
// and the fake server listens on /v2.
func ServerURL(srv *httptest.Server) string { return srv.URL + "/v2" }

// Serve starts the fake factomd. JSON-RPC 2.0 over HTTP POST on /v2.
func (fc *FakeChain) Serve() *httptest.Server {
	mux := http.NewServeMux()
	mux.HandleFunc("/v2", fc.handle)
	return httptest.NewServer(mux)
}

type rpcError struct {
	Code    int    `json:"code"`
	Message string `json:"message"`
}

func (fc *FakeChain) handle(w http.ResponseWriter, r *http.Request) {
	body, _ := ioutil.ReadAll(r.Body)
	var in struct {
		ID     json.RawMessage `json:"id"`
		Method string          `json:"method"`
		Params struct {
			Height *int64 `json:"height"`
			Hash   string `json:"hash"`
		} `json:"params"`
	}
	if err := json.Unmarshal(body, &in); err != nil {
		writeRPC(w, http.StatusBadRequest, nil, nil, &rpcError{-32700, "Parse error"})
		return
	}

	rq := Req{Method: in.Method, Height: -1, Hash: in.Params.Hash}
	if in.Params.Height != nil {
		rq.Height = *in.Params.Height
	}
	var obj *rawObject
	if in.Method == "raw-data" {
		var h [32]byte
		if b, err := hex.DecodeString(in.Params.Hash); err == nil && len(b) == 32 {
			copy(h[:], b)
			obj = fc.raw[h] // fc.raw is immutable after Materialize
		}
		if obj != nil {
			rq.Height = int64(obj.height)
			rq.Kind = obj.kind
		}
	}

	fc.mu.Lock()
	rq.N = len(fc.reqs)
	fc.reqs = append(fc.reqs, rq)
	fc.counts[countKey{rq.Method, rq.Height}]++
	fail := fc.Fail
	fc.mu.Unlock()

	if fail != nil {
		fc.failMu.Lock()
		f := fail(rq)
		fc.failMu.Unlock()
		if f {
			// The jsonrpc2 client turns any status other than 200/400 into
			// an error ("http: 500 Internal Server Error").
			writeRPC(w, http.StatusInternalServerError, in.ID, nil, &rpcError{-32603, "Internal error"})
			return
		}
	}

	tip := fc.GetTip()
	notFound := func(msg string) {
		// factomd answers missing objects with HTTP 400 + a JSON-RPC error,
		// which the client returns as jsonrpc2.Error.
		writeRPC(w, http.StatusBadRequest, in.ID, nil, &rpcError{-32008, msg})
	}
	switch in.Method {
	case "heights":
		// factom.Heights reads these four fields.
		writeRPC(w, http.StatusOK, in.ID, map[string]interface{}{
			"directoryblockheight": tip,
			"leaderheight":         tip,
			"entryblockheight":     tip,
			"entryheight":          tip,
		}, nil)
	case "dblock-by-height":
		// DBlock.Get reads result.rawdata (hex) and result.dblock.keymr.
		bd := fc.blockForRequest(in.Params.Height, tip)
		if bd == nil {
			notFound("Block not found")
			return
		}
		writeRPC(w, http.StatusOK, in.ID, map[string]interface{}{
			"dblock":  map[string]interface{}{"keymr": hex.EncodeToString(bd.dblockKeyMR[:])},
			"rawdata": hex.EncodeToString(bd.dblockRaw),
		}, nil)
	case "fblock-by-height":
		// FBlock.Get reads only result.rawdata.
		bd := fc.blockForRequest(in.Params.Height, tip)
		if bd == nil {
			notFound("Block not found")
			return
		}
		writeRPC(w, http.StatusOK, in.ID, map[string]interface{}{
			"fblock":  map[string]interface{}{"keymr": hex.EncodeToString(bd.fblockKeyMR[:])},
			"rawdata": hex.EncodeToString(bd.fblockRaw),
		}, nil)
	case "raw-data":
		// EBlock.Get / Entry.Get / FactoidTransaction.Get read result.data.
		if obj == nil || obj.height > tip {
			notFound("Entry not found")
			return
		}
		writeRPC(w, http.StatusOK, in.ID, map[string]interface{}{"data": hex.EncodeToString(obj.data)}, nil)
	default:
		writeRPC(w, http.StatusBadRequest, in.ID, nil, &rpcError{-32601, "Method not found"})
	}
}

// blockForRequest hides blocks above the tip, like a factomd that has not
// reached them yet.
func (fc *FakeChain) blockForRequest(h *int64, tip uint32) *blockData {
	if h == nil || *h < 0 || *h > int64(tip) {
		return nil
	}
	return fc.block(uint32(*h))
}

func writeRPC(w http.ResponseWriter, status int, id json.RawMessage, result interface{}, e *rpcError) {
	if len(id) == 0 {
		id = json.RawMessage("null")
	}
	// The client insists on "jsonrpc":"2.0", the echoed integer id, and on
	// exactly one of result / error.
	out := map[string]interface{}{"jsonrpc": "2.0", "id": id}
	if e != nil {
		out["error"] = e
	} else {
		out["result"] = result
	}
	data, _ := json.Marshal(out)
	w.Header().Set("Content-Type", "application/json")
	w.WriteHeader(status)
	w.Write(data)
}
