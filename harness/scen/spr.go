package scen

import (
	"crypto/ed25519"

	"verifharness/chain"

	"github.com/pegnet/pegnet/modules/opr"
)

// SPRRecord builds one staking price record whose staker id (ExtIDs[1], what
// pegnetd looks up among the top PEG holders) and payout address (content
// Address, what graderStake deduplicates on and pegnetd pays) differ.
func SPRRecord(version uint8, height uint32, price PriceFn, staker chain.StakerKey, payoutFA string) chain.RawEntry {
	o := &opr.V2Content{
		Address: payoutFA,
		Height:  int32(height),
		Assets:  make([]uint64, len(opr.V5Assets)),
	}
	for k, name := range opr.V5Assets {
		o.Assets[k] = price(0, name)
	}
	content, err := o.Marshal()
	if err != nil {
		panic(err)
	}
	pub := staker.Priv.Public().(ed25519.PublicKey)
	sig := append(append([]byte{}, pub...), ed25519.Sign(staker.Priv, content)...)
	return chain.RawEntry{
		ExtIDs:  [][]byte{{version}, append([]byte{}, staker.Address[:]...), sig},
		Content: content,
	}
}
