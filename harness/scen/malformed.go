package scen

import (
	"fmt"
	"strings"

	"verifharness/chain"

	"github.com/pegnet/pegnetd/config"
	"github.com/pegnet/pegnetd/fat/fat2"
)

func init() { Register("malformed", buildMalformed) }

// malformed: the malformed stream on all three chains. Whether an entry is a
// valid FAT-2 batch is decided by the real fat2 / fat103 code in the emitter
// (the model is told e_batch = None / Some); what this scenario checks at chain
// level is that undecodable entries leave no trace whatsoever, that the valid
// but unusual encodings (upper-case keys, white space, escapes) execute like
// any other, and that garbage on the OPR / SPR chains neither stops the block
// nor changes the verdict bookkeeping.
//
// Transaction chain (all signed correctly unless the mutation is about the
// signature): bit flips in the content and in every ExtID, RCD / signature
// swapped, duplicated, missing, signed for another chain id, salt at +-12 h +-
// 1 s, RCD-e below its activation, truncated JSON, duplicate / unknown /
// case-variant keys, junk keys compensating the length check, non-canonical
// numbers, string escapes, ticker-0 tuples, amounts at 2^63-1 / 2^63,
// coinbase input address, two input addresses, transfers that do not add up.
func buildMalformed(seed int64) (*Scenario, error) {
	s := Sched(100, 101, 101, 101, 104, 106, 110, 118, 120, 122, 130, 131, 132)
	b := NewB(seed, s, 128)
	rng := b.Rng
	FCT, USD := fat2.PTickerFCT, fat2.PTickerUSD
	alice, bob := Key("alice", 0), Key("bob", 0)
	eth := EthKey("eth", 0)
	A, Bo, E := alice.FAAddress(), bob.FAAddress(), eth.FAAddress()
	As, Bs := alice.String(), bob.String()
	b.Burn(101, alice, 5000*fct+uint64(rng.Intn(1000)))
	b.Burn(101, bob, 100*fct)
	rate := func(h uint32) { b.OPR(h, 25, hprice(seed, h), nil) }
	rate(102)
	garbageOPR(b, 102)
	b.TxE(102, 102, "pFCT for the RCD-e address", alice, Xfer(A, FCT, 50*fct, E))
	b.TxE(102, 103, "pUSD", alice, Conv(A, FCT, 100*fct, USD))
	rate(103)

	sign := func(h uint32, content string) chain.RawEntry {
		return chain.SignedBatchEntry([]byte(content), []chain.SignerKey{alice}, b.TS(h))
	}
	good := func(amount uint64) string {
		return fmt.Sprintf(`{"version":1,"transactions":[{"input":{"address":"%s","amount":%d,"type":"pFCT"},"transfers":[{"address":"%s","amount":%d}]}]}`, As, amount, Bs, amount)
	}
	cp := func(e chain.RawEntry) chain.RawEntry {
		o := chain.RawEntry{Content: append([]byte(nil), e.Content...)}
		for _, x := range e.ExtIDs {
			o.ExtIDs = append(o.ExtIDs, append([]byte(nil), x...))
		}
		return o
	}
	amt := uint64(1000)
	next := func() uint64 { amt++; return amt }
	add := func(h uint32, want int64, label string, e chain.RawEntry) {
		b.Expect(h, b.Raw(h, 1, e), want, label)
	}

	// ---- 104: signature / ExtID mutations -----------------------------------------------
	h := uint32(104)
	add(h, int64(h), "reference: the unmutated batch", sign(h, good(next())))
	base := sign(h, good(next()))
	for i := 0; i < len(base.ExtIDs); i++ {
		m := cp(base)
		m.ExtIDs[i][rng.Intn(len(m.ExtIDs[i]))] ^= 1 << uint(rng.Intn(8))
		add(h, NoRow, fmt.Sprintf("bit flip in ExtID %d", i), m)
	}
	m := cp(base)
	m.Content[20+rng.Intn(40)] ^= 0x01
	add(h, NoRow, "bit flip in the content", m)
	m = cp(base)
	m.ExtIDs[1], m.ExtIDs[2] = m.ExtIDs[2], m.ExtIDs[1]
	add(h, NoRow, "RCD and signature swapped", m)
	m = cp(base)
	m.ExtIDs = append(m.ExtIDs, m.ExtIDs[1], m.ExtIDs[2])
	add(h, NoRow, "RCD/signature pair duplicated", m)
	m = cp(base)
	m.ExtIDs = m.ExtIDs[:2]
	add(h, NoRow, "signature missing", m)
	m = cp(base)
	m.ExtIDs = m.ExtIDs[:1]
	add(h, NoRow, "RCD and signature missing", m)
	m = cp(base)
	m.ExtIDs = m.ExtIDs[1:]
	add(h, NoRow, "salt missing", m)
	m = cp(base)
	m.ExtIDs = nil
	add(h, NoRow, "no ExtIDs", m)
	// signed for another chain: the signed message contains the chain id
	func() {
		saved := config.TransactionChain
		config.TransactionChain = config.OPRChain
		e := sign(h, good(next()))
		config.TransactionChain = saved
		add(h, NoRow, "signed for the OPR chain id", e)
	}()
	// two signers
	add(h, NoRow, "signed by two keys", chain.SignedBatchEntry([]byte(good(next())), []chain.SignerKey{alice, bob}, b.TS(h)))
	add(h, NoRow, "signed by the receiver", chain.SignedBatchEntry([]byte(good(next())), []chain.SignerKey{bob}, b.TS(h)))

	// ---- 105: the salt window: entry time = dblock time + 60 s --------------------------------
	h = 105
	et := b.TS(h) + 60
	for _, c := range []struct {
		salt int64
		want int64
		l    string
	}{
		{et - 12*3600, int64(h), "salt exactly 12 h old"},
		{et - 12*3600 - 1, NoRow, "salt 12 h 1 s old"},
		{et - 12*3600 + 1, int64(h), "salt 12 h less 1 s old"},
		{et + 12*3600, int64(h), "salt exactly 12 h ahead"},
		{et + 12*3600 + 1, NoRow, "salt 12 h 1 s ahead"},
		{et + 12*3600 - 1, int64(h), "salt 12 h less 1 s ahead"},
	} {
		add(h, c.want, c.l, chain.SignedBatchEntry([]byte(good(next())), []chain.SignerKey{alice}, c.salt))
	}
	for i, salt := range []string{"", "-5", "+1560000000", "1560000000.0", "0x5cfc0e80", " 1560000000", "99999999999999999999"} {
		e := chain.SignedBatchEntry([]byte(good(next())), []chain.SignerKey{alice}, b.TS(h))
		e2 := cp(e)
		e2.ExtIDs[0] = []byte(salt)
		add(h, NoRow, fmt.Sprintf("unparsable / re-written salt %d", i), e2)
	}

	// ---- 106: JSON shape -------------------------------------------------------------------
	h = 106
	tx := func(amount uint64) string {
		return fmt.Sprintf(`{"input":{"address":"%s","amount":%d,"type":"pFCT"},"transfers":[{"address":"%s","amount":%d}]}`, As, amount, Bs, amount)
	}
	type jc struct {
		want    int64
		label   string
		content string
	}
	g := good(next())
	cases := []jc{
		{NoRow, "truncated JSON", g[:len(g)-1]},
		{NoRow, "truncated JSON (half)", g[:len(g)/2]},
		{NoRow, "empty content", ""},
		{NoRow, "JSON null", "null"},
		{NoRow, "JSON array", "[" + g + "]"},
		{NoRow, "trailing garbage", good(next()) + "x"},
		{int64(h), "trailing white space (compacted away)", good(next()) + " \n"},
		{int64(h), "white space between tokens", strings.NewReplacer(":", " : ", ",", " ,\n").Replace(good(next()))},
		{int64(h), "upper-case keys", strings.NewReplacer(`"version"`, `"VERSION"`, `"transactions"`, `"Transactions"`, `"input"`, `"INPUT"`, `"amount"`, `"Amount"`).Replace(good(next()))},
		{NoRow, "duplicate key version", `{"version":1,` + good(next())[1:]},
		{NoRow, "unknown key", `{"version":1,"transactions":[` + tx(next()) + `],"note":1}`},
		{NoRow, "metadata key at batch level (length check ignores it)", `{"version":1,"transactions":[` + tx(next()) + `],"metadata":1}`},
		{int64(h), "metadata key inside a transaction", fmt.Sprintf(`{"version":1,"transactions":[{"input":{"address":"%s","amount":7,"type":"pFCT"},"transfers":[{"address":"%s","amount":7}],"metadata":{"a":[1,2]}}]}`, As, Bs)},
		{NoRow, "version 0", strings.Replace(good(next()), `"version":1`, `"version":0`, 1)},
		{NoRow, "version as string", strings.Replace(good(next()), `"version":1`, `"version":"1"`, 1)},
		{NoRow, "version 1.0", strings.Replace(good(next()), `"version":1`, `"version":1.0`, 1)},
		{NoRow, "version 1e0", strings.Replace(good(next()), `"version":1`, `"version":1e0`, 1)},
		{NoRow, "version 01", strings.Replace(good(next()), `"version":1`, `"version":01`, 1)},
		{NoRow, "amount 5.0", fmt.Sprintf(`{"version":1,"transactions":[{"input":{"address":"%s","amount":5.0,"type":"pFCT"},"transfers":[{"address":"%s","amount":5}]}]}`, As, Bs)},
		{NoRow, "amount 5e0", fmt.Sprintf(`{"version":1,"transactions":[{"input":{"address":"%s","amount":5e0,"type":"pFCT"},"transfers":[{"address":"%s","amount":5}]}]}`, As, Bs)},
		{NoRow, "amount 05", fmt.Sprintf(`{"version":1,"transactions":[{"input":{"address":"%s","amount":05,"type":"pFCT"},"transfers":[{"address":"%s","amount":5}]}]}`, As, Bs)},
		{NoRow, "amount -5", fmt.Sprintf(`{"version":1,"transactions":[{"input":{"address":"%s","amount":-5,"type":"pFCT"},"transfers":[{"address":"%s","amount":-5}]}]}`, As, Bs)},
		{NoRow, "amount as string", fmt.Sprintf(`{"version":1,"transactions":[{"input":{"address":"%s","amount":"5","type":"pFCT"},"transfers":[{"address":"%s","amount":5}]}]}`, As, Bs)},
		{NoRow, "type in lower case", fmt.Sprintf(`{"version":1,"transactions":[{"input":{"address":"%s","amount":5,"type":"pfct"},"transfers":[{"address":"%s","amount":5}]}]}`, As, Bs)},
		{NoRow, "type FCT", fmt.Sprintf(`{"version":1,"transactions":[{"input":{"address":"%s","amount":5,"type":"FCT"},"transfers":[{"address":"%s","amount":5}]}]}`, As, Bs)},
		{NoRow, "type as number", fmt.Sprintf(`{"version":1,"transactions":[{"input":{"address":"%s","amount":5,"type":23},"transfers":[{"address":"%s","amount":5}]}]}`, As, Bs)},
		{NoRow, "type missing", fmt.Sprintf(`{"version":1,"transactions":[{"input":{"address":"%s","amount":5},"transfers":[{"address":"%s","amount":5}]}]}`, As, Bs)},
		{NoRow, "type missing, a junk key of the compensating length", fmt.Sprintf(`{"version":1,"transactions":[{"input":{"address":"%s","amount":5,"xxxxxxxxxxxxxxxxxxxxxxxxxxxxxxxxxx":1},"transfers":[{"address":"%s","amount":5}]}]}`, As, Bs)},
		{NoRow, "escaped type string", fmt.Sprintf(`{"version":1,"transactions":[{"input":{"address":"%s","amount":5,"type":"p\u0046CT"},"transfers":[{"address":"%s","amount":5}]}]}`, As, Bs)},
		{int64(h), "escaped address (plain JSON string decoding)", fmt.Sprintf(`{"version":1,"transactions":[{"input":{"address":"\u0046%s","amount":5,"type":"pFCT"},"transfers":[{"address":"%s","amount":5}]}]}`, As[1:], Bs)},
		{NoRow, "input address with a bad checksum", fmt.Sprintf(`{"version":1,"transactions":[{"input":{"address":"%sx","amount":5,"type":"pFCT"},"transfers":[{"address":"%s","amount":5}]}]}`, As[:len(As)-1], Bs)},
		{NoRow, "transfers do not add up", fmt.Sprintf(`{"version":1,"transactions":[{"input":{"address":"%s","amount":6,"type":"pFCT"},"transfers":[{"address":"%s","amount":5}]}]}`, As, Bs)},
		{NoRow, "transfers exceed the input", fmt.Sprintf(`{"version":1,"transactions":[{"input":{"address":"%s","amount":4,"type":"pFCT"},"transfers":[{"address":"%s","amount":5}]}]}`, As, Bs)},
		{NoRow, "transfers and conversion", fmt.Sprintf(`{"version":1,"transactions":[{"input":{"address":"%s","amount":5,"type":"pFCT"},"transfers":[{"address":"%s","amount":5}],"conversion":"pUSD"}]}`, As, Bs)},
		{NoRow, "neither transfers nor conversion", fmt.Sprintf(`{"version":1,"transactions":[{"input":{"address":"%s","amount":5,"type":"pFCT"}}]}`, As)},
		{NoRow, "empty transfers", fmt.Sprintf(`{"version":1,"transactions":[{"input":{"address":"%s","amount":0,"type":"pFCT"},"transfers":[]}]}`, As)},
		{NoRow, "conversion into itself", fmt.Sprintf(`{"version":1,"transactions":[{"input":{"address":"%s","amount":5,"type":"pFCT"},"conversion":"pFCT"}]}`, As)},
		{NoRow, "conversion into an unknown ticker", fmt.Sprintf(`{"version":1,"transactions":[{"input":{"address":"%s","amount":5,"type":"pFCT"},"conversion":"pXYZ"}]}`, As)},
		{NoRow, "conversion with an empty string", fmt.Sprintf(`{"version":1,"transactions":[{"input":{"address":"%s","amount":5,"type":"pFCT"},"conversion":""}]}`, As)},
		{NoRow, "two input addresses", fmt.Sprintf(`{"version":1,"transactions":[%s,{"input":{"address":"%s","amount":1,"type":"pFCT"},"transfers":[{"address":"%s","amount":1}]}]}`, tx(next()), Bs, As)},
		{NoRow, "empty transaction list", `{"version":1,"transactions":[]}`},
		{NoRow, "transactions null", `{"version":1,"transactions":null}`},
		{NoRow, "amount 2^63", fmt.Sprintf(`{"version":1,"transactions":[{"input":{"address":"%s","amount":9223372036854775808,"type":"pFCT"},"transfers":[{"address":"%s","amount":9223372036854775808}]}]}`, As, Bs)},
		{-1, "amount 2^63-1", fmt.Sprintf(`{"version":1,"transactions":[{"input":{"address":"%s","amount":9223372036854775807,"type":"pFCT"},"transfers":[{"address":"%s","amount":9223372036854775807}]}]}`, As, Bs)},
		{NoRow, "amount 2^64", fmt.Sprintf(`{"version":1,"transactions":[{"input":{"address":"%s","amount":18446744073709551616,"type":"pFCT"},"transfers":[{"address":"%s","amount":18446744073709551616}]}]}`, As, Bs)},
		{NoRow, "coinbase input address", fmt.Sprintf(`{"version":1,"transactions":[{"input":{"address":"%s","amount":5,"type":"pFCT"},"transfers":[{"address":"%s","amount":5}]}]}`, "FA1zT4aFpEvcnPqPCigB3fvGu4Q4mTXY22iiuV69DqE1pNhdF2MC", Bs)},
	}
	for _, c := range cases {
		add(h, c.want, c.label, sign(h, c.content))
	}
	// the same transfers array twice as separate keys: duplicate key inside a transaction
	add(h, NoRow, "duplicate transfers key", sign(h, fmt.Sprintf(`{"version":1,"transactions":[{"input":{"address":"%s","amount":5,"type":"pFCT"},"transfers":[{"address":"%s","amount":5}],"transfers":[{"address":"%s","amount":5}]}]}`, As, Bs, Bs)))

	// ---- 108..: RCD-e below / at / above the activation (110) ---------------------------------
	for _, hh := range []uint32{109, 110, 111} {
		e := chain.SignedBatchEntry([]byte(fmt.Sprintf(`{"version":1,"transactions":[{"input":{"address":"%s","amount":%d,"type":"pFCT"},"transfers":[{"address":"%s","amount":%d}]}]}`, eth.String(), hh, As, hh)), []chain.SignerKey{eth}, b.TS(hh))
		want := int64(NoRow)
		if hh > 110 {
			want = int64(hh)
		}
		add(hh, want, fmt.Sprintf("RCD-e signed at %d", hh), e)
		// RCD-e with the 65th signature byte altered: still valid above the activation, another entry hash
		e2 := cp(e)
		e2.ExtIDs[2][64] ^= 0x01
		add(hh, want, fmt.Sprintf("RCD-e signed at %d, recovery byte altered", hh), e2)
		// unknown RCD type
		e3 := cp(e)
		e3.ExtIDs[1][0] = 0x02
		add(hh, NoRow, fmt.Sprintf("RCD type 2 at %d", hh), e3)
	}
	// the altered copy spends the same funds a second time: harmless here (distinct amounts are small)

	// ---- garbage on the grading chains, before and in 2.0 ---------------------------------------
	rate(107)
	garbageOPR(b, 107)
	garbageSPR(b, 107) // SPR entries before 2.0: GradeS runs, its result is unused
	rate(112)
	rate(118)
	b.SPR(118, hprice(seed, 118), Stakers("miner", 25))
	garbageOPR(b, 118)
	garbageSPR(b, 118)
	b.Blk(119).SPR = append(b.Blk(119).SPR, chain.RawEntry{ExtIDs: [][]byte{{5}}, Content: []byte("x")}) // one ExtID, alone in its block
	b.Blk(120).OPR = append(b.Blk(120).OPR, chain.RawEntry{Content: []byte("only garbage on the OPR chain")})
	garbageSPR(b, 121)
	b.TxE(122, 124, "a conversion through all that", alice, Conv(A, USD, fct, fat2.PTickerEUR))
	rate(124)
	garbageTx(b, 125, alice)
	rate(126)
	b.Dump(104, 105, 106, 107, 109, 110, 111, 118, 119, 120, 121, 124, 125)
	_ = Bo
	return b.Finish()
}
