package scen

import (
	"testing"

	"verifharness/chain"
)

// Every scenario builds, starts right after PegnetActivation, is contiguous,
// materializes, and is deterministic in (name, seed): two builds give the same
// directory-block key merkle root at the tip, a different seed a different one.
func TestScenariosBuildDeterministically(t *testing.T) {
	defer chain.MainnetSchedule().Apply()
	for _, name := range Names() {
		name := name
		t.Run(name, func(t *testing.T) {
			tip := func(seed int64) [32]byte {
				sc, err := Build(name, seed)
				if err != nil {
					t.Fatal(err)
				}
				if len(sc.Blocks) == 0 || sc.Blocks[0].Height != sc.Schedule.PegnetActivation+1 {
					t.Fatalf("first block %d, activation %d", sc.Blocks[0].Height, sc.Schedule.PegnetActivation)
				}
				sc.Schedule.Apply()
				fc, err := chain.Materialize(sc.Blocks)
				if err != nil {
					t.Fatal(err)
				}
				for _, e := range sc.Expect {
					if e.Height < fc.First() || e.Height > fc.Last() || e.Index >= len(fc.Block(e.Height).Tx) {
						t.Fatalf("expectation %q points nowhere (%d#%d)", e.Label, e.Height, e.Index)
					}
				}
				return fc.DBlockKeyMR(fc.Last())
			}
			a, b, c := tip(1), tip(1), tip(2)
			if a != b {
				t.Fatal("not deterministic in the seed")
			}
			if a == c {
				t.Fatal("the seed does not matter")
			}
		})
	}
}
