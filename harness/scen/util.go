package scen

import (
	"github.com/Factom-Asset-Tokens/factom"
)

func mustFA(s string) [32]byte {
	a, err := factom.NewFAAddress(s)
	if err != nil {
		panic(err)
	}
	return a
}
