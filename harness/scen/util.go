package scen

import (
	"github.com/Factom-Asset-Tokens/factom"
)

func mustFA(s string) [32]byte {
	a, err := factom.NewFAAddress(s)
	if err != nil {
		panic(err)
	}
	return a
}

// Uniq returns the unsigned heights of l without duplicates, in order.
func uniq(l []uint32) []uint32 {
	seen := map[uint32]bool{}
	var out []uint32
	for _, h := range l {
		if !seen[h] {
			seen[h] = true
			out = append(out, h)
		}
	}
	return out
}
