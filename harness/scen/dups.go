package scen

import (
	"github.com/pegnet/pegnetd/fat/fat2"
)

func init() { Register("dups", buildDups) }

// dups: the same entry (same bytes, same entry hash) written to the
// transaction chain more than once: in the same block, in the next block,
// across unrated gaps, while pending, after execution and after every reject
// code; an RCD-e entry first seen below its activation (no trace) and again
// above it (executes then).
//
//	101 tx activation, 106 one-way pFCT, 112 conversion limit, 116 V4 / RCD-e,
//	124 2.0, 126 dev rewards, 128 2.0.2 / one-way small assets
func buildDups(seed int64) (*Scenario, error) {
	s := Sched(100, 101, 101, 101, 106, 112, 116, 124, 126, 128, 140, 141, 142)
	b := NewB(seed, s, 136)
	rng := b.Rng
	FCT, USD, PEG, EUR := fat2.PTickerFCT, fat2.PTickerUSD, fat2.PTickerPEG, fat2.PTickerEUR
	alice, bob, carol := Key("alice", 0), Key("bob", 0), Key("carol", 0)
	eth := EthKey("eth", 0)
	A, Bo, C, E := alice.FAAddress(), bob.FAAddress(), carol.FAAddress(), eth.FAAddress()
	j := uint64(rng.Intn(1000))
	rate := func(h uint32) { b.OPR(h, 25, hprice(seed, h), nil) }
	rep := func(h, from uint32, idx int, want int64, label string) {
		b.Expect(h, b.Repeat(h, from, idx), want, label)
	}

	b.Burn(101, alice, 5000*fct+j)
	b.Burn(101, bob, 100*fct)
	rate(102)
	// executed transfer: three copies in one block, one in the next, one much later
	t1 := b.TxE(102, 102, "transfer", alice, Xfer(A, FCT, 10*fct+j, Bo))
	rep(102, 102, t1, 102, "transfer: second copy in the block")
	rep(102, 102, t1, 102, "transfer: third copy in the block")
	rep(103, 102, t1, 102, "transfer: copy in the next block")
	// rejected transfer (-1): copies in the block, later, and after the funds arrived
	t2 := b.TxE(102, -1, "transfer without funds", carol, Xfer(C, FCT, 5*fct, A))
	rep(102, 102, t2, -1, "unfunded transfer: second copy in the block")
	b.TxE(103, 103, "the funds arrive", alice, Xfer(A, FCT, 50*fct, C))
	rep(104, 102, t2, -1, "unfunded transfer: copy after the funds arrived")
	// pending conversion: copies in the block, next block (unrated), after execution
	k1 := b.TxE(103, 105, "conversion", alice, Conv(A, FCT, 1000*fct, USD))
	rep(103, 103, k1, 105, "conversion: second copy in the block (holding is UNIQUE)")
	rep(104, 103, k1, 105, "conversion: copy while pending")
	rate(105)
	rep(105, 103, k1, 105, "conversion: copy in the block that executes it")
	rep(106, 103, k1, 105, "conversion: copy after execution")
	// conversion rejected at execution for lack of funds
	k2 := b.TxE(105, -1, "conversion without funds", bob, Conv(Bo, USD, fct, EUR))
	rate(106)
	rep(107, 105, k2, -1, "unfunded conversion: copy after the reject")
	// -3: into pFCT from 106 on
	k3 := b.TxE(106, -3, "into pFCT", alice, Conv(A, USD, fct, FCT))
	rep(106, 106, k3, -3, "into pFCT: second copy in the block")
	rate(108)
	rep(108, 106, k3, -3, "into pFCT: copy in the rejecting block")
	rep(109, 106, k3, -3, "into pFCT: copy later")
	// -4: into an asset that has no rate yet (pAUD arrives with V4)
	k4 := b.TxE(108, -4, "into pAUD before V4", alice, Conv(A, USD, fct, fat2.PTickerAUD))
	rate(110)
	rep(110, 108, k4, -4, "zero rate: copy in the rejecting block")
	rep(111, 108, k4, -4, "zero rate: copy later")
	// PEG request: pending over a gap, copies on the way, after payment
	k5 := b.TxE(112, 115, "PEG request", alice, Conv(A, USD, 10*fct, PEG))
	rep(113, 112, k5, 115, "PEG request: copy while pending (1)")
	rep(114, 112, k5, 115, "PEG request: copy while pending (2)")
	rate(115)
	rep(115, 112, k5, 115, "PEG request: copy in the paying block")
	rep(117, 112, k5, 115, "PEG request: copy after payment")
	// RCD-e: a copy below the activation leaves no trace, the copy above executes
	b.TxE(113, 113, "pFCT for the RCD-e address", alice, Xfer(A, FCT, 20*fct, E))
	e1 := b.Tx(115, eth, Xfer(E, FCT, fct+j, A))
	b.Expect(115, e1, 117, "RCD-e transfer first seen below the activation")
	e2 := b.Tx(116, eth, Conv(E, FCT, 2*fct+j, USD))
	b.Expect(116, e2, 118, "RCD-e conversion first seen at the activation height")
	rate(116)
	rep(117, 115, e1, 117, "RCD-e transfer: copy above the activation")
	rep(117, 116, e2, 118, "RCD-e conversion: copy above the activation (goes to holding now)")
	rate(118)
	rep(119, 115, e1, 117, "RCD-e transfer: another copy")
	// -2: PEG request entered at 122, 2.0 at 124
	k6 := b.TxE(122, -2, "PEG request reaching 2.0", alice, Conv(A, USD, fct, PEG))
	rep(123, 122, k6, -2, "PEG request reaching 2.0: copy while pending")
	rate(124)
	rep(124, 122, k6, -2, "PEG request reaching 2.0: copy in the rejecting block")
	rep(125, 122, k6, -2, "PEG request reaching 2.0: copy later")
	// -5: small asset from 128
	k7 := b.TxE(127, -5, "into pDCR", alice, Conv(A, USD, fct, fat2.PTickerDCR))
	rate(128)
	rep(129, 127, k7, -5, "into pDCR: copy later")
	rep(129, 127, k7, -5, "into pDCR: and again in the same block")
	// a conversion pending at the end, with a copy
	k8 := b.TxE(131, 0, "pending at the end", alice, Conv(A, USD, fct, EUR))
	rep(132, 131, k8, 0, "pending at the end: copy")
	rep(136, 131, k8, 0, "pending at the end: copy in the last block")
	// amount 0
	z := b.TxE(130, 130, "transfer of 0", carol, Xfer(C, FCT, 0, Bo))
	rep(130, 130, z, 130, "transfer of 0: copy in the block")
	rep(133, 130, z, 130, "transfer of 0: copy later")
	var all []uint32
	for h := uint32(102); h <= 136; h++ {
		all = append(all, h)
	}
	b.Dump(all...)
	return b.Finish()
}
