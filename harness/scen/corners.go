package scen

import (
	"fmt"

	"verifharness/chain"

	"github.com/pegnet/pegnetd/fat/fat2"
)

func init() { Register("corners", buildCorners) }

// corners: alignments that only matter when two rules meet.
//
//	101..103  burns; 104 rated (last 1.0 era block is 107; 2.0 starts at 108)
//	107       a conversion INTO PEG written in the last 1.0 block: due at 108 = V20HeightActivation,
//	          where it must be refused (-2) although the rates it waits for are 2.0 rates; a pUSD -> pEUR
//	          conversion written in the same block executes at 108
//	110..113  SPR-only rated heights (no OPR winners: pn_winners gets no row, pn_rate does): a conversion
//	          held at 109 is rejected at 110 for insufficient funds, the address is funded at 111 and 112
//	          is rated again: the rejected batch must not be looked at a second time
//	143/144   a conversion written at 143; 144 is a snapshot height WITHOUT any rates (both snapshots run
//	          with the most recent earlier rates from 2.0.2 on, here before it: see below) -- the held
//	          conversion must wait for 145, the next rated block, and use 145's rates
//	287/288   the same after 2.0.2 (V202 = 200): the snapshot at 288 falls back to the most recent rates
//	          for the valuation only; the held conversion still waits for 289
func buildCorners(seed int64) (*Scenario, error) {
	s := Sched(100, 101, 101, 101, 101, 101, 101, 108, 150, 200, 310, 320, 330)
	b := NewB(seed, s, 292)
	rng := b.Rng
	FCT, USD, EUR, PEG, JPY := fat2.PTickerFCT, fat2.PTickerUSD, fat2.PTickerEUR, fat2.PTickerPEG, fat2.PTickerJPY
	alice, bob, carol := Key("alice", 0), Key("bob", 0), Key("carol", 0)
	A, Bo, C := alice.FAAddress(), bob.FAAddress(), carol.FAAddress()
	stakers := Stakers("miner", 26)
	rateOPR := func(h uint32) { b.OPR(h, 25+rng.Intn(2), hprice(seed, h), nil) }
	rateSPR := func(h uint32) { b.SPR(h, hprice(seed, h), stakers) }

	b.Burn(101, alice, 9000*fct+uint64(rng.Intn(1000)))
	b.Burn(102, bob, 4000*fct)
	for h := uint32(103); h <= 106; h++ {
		rateOPR(h) // the miners collect PEG: they are the stakers later
	}
	b.TxE(104, 105, "alice gets pUSD", alice, Conv(A, FCT, 3000*fct, USD))
	b.TxE(105, 106, "bob gets pEUR", bob, Conv(Bo, FCT, 1000*fct, EUR))
	// across the 2.0 activation
	b.TxE(107, -2, "into PEG, written in the last 1.0 block, due at the 2.0 activation", alice, Conv(A, USD, 100*fct, PEG))
	b.TxE(107, 108, "ordinary conversion across the activation", alice, Conv(A, USD, 50*fct, EUR))
	rateOPR(107)
	rateOPR(108)
	// SPR-only heights
	b.TxE(109, -1, "carol converts what she does not have yet", carol, Conv(C, USD, 100*fct, EUR))
	rateSPR(110)
	b.TxE(111, 111, "carol is funded after the rejection", alice, Xfer(A, USD, 150*fct, C))
	// a staking record whose staker id is an address that HAS a row in pn_addresses but holds no PEG
	// (it only ever received pFCT): it is not a top PEG holder and must not be graded, although fewer
	// than 100 addresses hold PEG
	drained := Staker("drained", 0)
	b.TxE(111, 111, "a pFCT-only address", bob, Xfer(Bo, FCT, fct, drained.Address))
	withDrained := append([]chain.StakerKey{drained}, stakers...)
	b.SPR(112, hprice(seed, 112), withDrained)
	b.SPR(113, hprice(seed, 113), withDrained)
	rateOPR(114)
	b.TxE(114, 115, "carol's later, funded conversion", carol, Conv(C, USD, 20*fct, JPY))
	rateOPR(115)
	// all-or-nothing: every transaction of the batch is covered by the balance on its own, the batch as a
	// whole is not -- rejected (-1) with no effect, on the arrival path and on the holding path
	dave := Key("dave", 0)
	D := dave.FAAddress()
	b.TxE(116, 116, "dave is funded with 100 pUSD", alice, Xfer(A, USD, 100*fct, D))
	b.TxE(117, -1, "two transfers of 60: each covered, together not", dave, Xfer(D, USD, 60*fct, Bo), Xfer(D, USD, 60*fct, C))
	b.TxE(118, -1, "two conversions of 60: each covered, together not", dave, Conv(D, USD, 60*fct, EUR), Conv(D, USD, 60*fct, JPY))
	rateOPR(119)
	b.TxE(119, 120, "60 + 40: exactly the balance", dave, Conv(D, USD, 60*fct, EUR), Conv(D, USD, 40*fct, JPY))
	rateOPR(120)
	// outputs that name the sender itself, and the same recipient twice: every output is recorded
	b.TxE(121, 121, "change output and a repeated recipient", alice,
		XferN(A, USD, Out(Bo, 70*fct), Out(A, 30*fct)), XferN(A, USD, Out(C, 10*fct), Out(C, 5*fct+uint64(rng.Intn(1000)))))
	// outputs that add up to the input only modulo 2^64 (each below 2^63): not a valid transaction
	b.TxJSON(122, dave, fmt.Sprintf(`{"version":1,"transactions":[{"input":{"address":"%s","amount":5,"type":"pEUR"},"transfers":[{"address":"%s","amount":6000000000000000000},{"address":"%s","amount":6000000000000000000},{"address":"%s","amount":6446744073709551621}]}]}`,
		dave.String(), bob.String(), carol.String(), alice.String()))
	// an input above int64 (a conversion has no outputs to bound it)
	b.TxJSON(122, dave, fmt.Sprintf(`{"version":1,"transactions":[{"input":{"address":"%s","amount":9223372036854775808,"type":"pEUR"},"conversion":"pUSD"}]}`, dave.String()))
	// first snapshot height without rates (before 2.0.2)
	for h := uint32(140); h <= 143; h++ {
		rateOPR(h)
	}
	b.TxE(143, 145, "held over the unrated snapshot block 144", alice, Conv(A, USD, 10*fct, JPY))
	b.TxE(144, 145, "written in the unrated snapshot block", bob, Conv(Bo, EUR, 5*fct, USD))
	rateOPR(145)
	rateOPR(146)
	// after 2.0.2 an output to the burn address is destroyed; the outputs listed after it are still paid
	b.TxE(283, 283, "burn output first, then a recipient", alice, XferN(A, USD, Out(BurnAddr(), 10*fct), Out(Bo, 90*fct+uint64(rng.Intn(1000)))))
	// second one, after 2.0.2
	for h := uint32(284); h <= 287; h++ {
		rateOPR(h)
		rateSPR(h)
	}
	b.TxE(287, 289, "held over the unrated snapshot block 288", alice, Conv(A, USD, 11*fct, EUR))
	b.TxE(288, 289, "written in the unrated snapshot block", bob, Xfer(Bo, FCT, fct, A), Conv(Bo, EUR, 6*fct, USD))
	b.OPR(289, 25, Prices(11, 10, nil), nil) // 10 % dearer than before: the rates of 289 are not those of 287
	b.SPR(289, Prices(11, 10, nil), stakers)
	rateOPR(290)
	b.Dump(107, 108, 109, 110, 111, 112, 113, 116, 117, 119, 120, 121, 143, 144, 145, 287, 288, 289)
	return b.Finish()
}
