package scen

import (
	"verifharness/chain"

	"github.com/pegnet/pegnetd/fat/fat2"
)

func init() { Register("staking", buildStaking) }

// staking: three snapshot periods (144, 288, 432) on a schedule where
//
//	2.0 = 104 (burns at 101..103 fund everybody)
//	144  first snapshot: nothing in snapshot_past, nobody is paid
//	150  developer rewards / SPR signatures
//	288  second snapshot, before 2.0.2: rated block; developer rewards of one block
//	300  2.0.2
//	432  third snapshot in 2.0.2: the OPR/SPR pair of that block disagrees on one
//	     asset (its rate becomes 0 and holdings of it stop counting); developer
//	     rewards of 144 blocks; by seed the block is unrated instead (the most
//	     recent earlier rates are used)
//
// Holders: two with exactly equal stake, one that moves funds out after 144 and
// back before 288 (the minimum counts), one that arrives after 144, one that
// leaves before 288, PEG-only holders (the miners: PEG never counts), the
// zero-amount address. A whale whose stake alone exceeds the 4500*144 PEG cap
// sits on one address at 144 and on another at 288 (not paid at 288: the second
// payout is 1:1 below the cap) and stays put until 432 (the third payout is
// proportional).
func buildStaking(seed int64) (*Scenario, error) {
	s := Sched(100, 101, 101, 101, 101, 101, 101, 104, 150, 300, 310, 320, 430)
	b := NewB(seed, s, 436)
	rng := b.Rng
	FCT, USD, PEG, EUR, XBT := fat2.PTickerFCT, fat2.PTickerUSD, fat2.PTickerPEG, fat2.PTickerEUR, fat2.PTickerXBT
	h := func(i int) chain.SignerKey { return Key("staker", i) }
	a := func(i int) [32]byte { return h(i).FAAddress() }
	whale := Key("whale", 0)
	stakers := Stakers("miner", 26)
	rateOPR := func(ht uint32) { b.OPR(ht, 25+rng.Intn(2), hprice(seed, ht), nil) }
	rateSPR := func(ht uint32) { b.SPR(ht, hprice(seed, ht), stakers) }

	// funding: 1 pFCT = 4 USD
	j := uint64(rng.Intn(1000))
	b.Burn(101, h(0), 1000*fct+j)
	b.Burn(101, h(1), 500*fct)
	b.Burn(101, h(2), 500*fct) // equal to holder 1
	b.Burn(102, h(3), 2000*fct)
	b.Burn(102, h(4), 800*fct)
	b.Burn(102, h(5), 300*fct)
	b.Burn(103, h(6), 100*fct)
	b.Burn(103, whale, 400000*fct) // 1.6 M USD: above the 648 000 PEG cap on its own
	rateOPR(105)
	rateOPR(106)
	b.TxE(106, 107, "holder 0 diversifies", h(0), Conv(a(0), FCT, 300*fct, USD), Conv(a(0), FCT, 100*fct, EUR), Conv(a(0), FCT, 50*fct, XBT))
	b.TxE(106, -2, "holder 6 converts everything into PEG: refused in 2.0", h(6), Conv(a(6), FCT, 100*fct, PEG))
	// a holder of several assets in amounts that are not round: every asset's pUSD value has a fractional part, each
	// is cut off on its own (the stake is the sum of the floors, not the floor of the sum)
	JPY, GBP, CAD := fat2.PTickerJPY, fat2.PTickerGBP, fat2.PTickerCAD
	b.TxE(106, 107, "holder 0: three more assets", h(0), Conv(a(0), FCT, 30*fct, JPY), Conv(a(0), FCT, 30*fct, GBP), Conv(a(0), FCT, 30*fct, CAD))
	b.TxE(108, 108, "odd amounts of five assets to holder 13", h(0),
		Xfer(a(0), EUR, 100000001+uint64(rng.Intn(4)), a(13)), Xfer(a(0), XBT, 100000003, a(13)), Xfer(a(0), JPY, 100000001+uint64(rng.Intn(4)), a(13)),
		Xfer(a(0), GBP, 100000002+uint64(rng.Intn(4)), a(13)), Xfer(a(0), CAD, 100000003+uint64(rng.Intn(4)), a(13)))
	rateOPR(107)
	b.TxE(108, 108, "holder 5 sends PEG-less funds to the amount-0 address", h(5), Xfer(a(5), FCT, 0, a(7)))
	// the whale hides until after the second snapshot: everything sits on a side address and comes back later
	b.TxE(108, 108, "whale parks its funds", whale, Xfer(whale.FAAddress(), FCT, 400000*fct, a(8)))
	b.TxE(109, 109, "... and the side address sends them on before the snapshot", h(8), Xfer(a(8), FCT, 400000*fct, a(9)))
	for ht := uint32(140); ht <= 143; ht++ {
		rateOPR(ht)
	}
	rateOPR(144)
	rateSPR(144)
	// movements between 144 and 288
	b.TxE(150, 150, "holder 3 moves 1500 out ...", h(3), Xfer(a(3), FCT, 1500*fct, a(10)))
	b.TxE(151, 151, "holder 4 leaves for good", h(4), Xfer(a(4), FCT, 800*fct, a(11)))
	b.TxE(200, 200, "... and 1000 back", h(10), Xfer(a(10), FCT, 1000*fct, a(3)))
	b.TxE(201, 201, "holder 12 arrives after the first snapshot", h(5), Xfer(a(5), FCT, 100*fct, a(12)))
	// the whale: on a(9) at 144, on its own address at 288 (the minimum of the two snapshots is 0 for both)
	b.TxE(250, 250, "the whale's funds come home", h(9), Xfer(a(9), FCT, 400000*fct, whale.FAAddress()))
	b.TxE(260, 261, "a quarter of it into pXBT (the asset that will lose its rate)", whale, Conv(whale.FAAddress(), FCT, 100000*fct, XBT))
	rateOPR(261)
	rateOPR(286)
	rateSPR(286)
	b.TxE(286, 287, "conversion right before the snapshot", h(0), Conv(a(0), USD, 100*fct, EUR))
	rateOPR(287)
	b.TxE(287, 288, "conversion executed in the snapshot block (after the snapshot)", h(1), Conv(a(1), FCT, 100*fct, USD))
	rateOPR(288)
	rateSPR(288)
	rateOPR(289)
	// between 288 and 432
	b.TxE(291, 292, "holder 2 converts a little: no longer equal to holder 1", h(2), Conv(a(2), FCT, fct, USD))
	rateOPR(292)
	rateSPR(300) // 2.0.2: SPR v7
	b.TxE(301, 301, "to the burn address", h(11), Xfer(a(11), FCT, 100*fct, BurnAddr()))
	rateOPR(428)
	rateSPR(428)
	rateOPR(430) // PIP-10 from here on
	rateOPR(431)
	switch seed % 3 {
	case 0:
		b.Note("staking: 432 is unrated: SnapshotPayouts uses the rates of 431")
	default:
		// pXBT twice as dear for the miners as for the stakers: out of the 25 % band
		b.OPR(432, 25, Prices(1, 1, map[string]uint64{"XBT": BasePrice("XBT") * 2}), nil)
		b.SPR(432, Prices(1, 1, nil), stakers)
		b.Note("staking: at 432 the pXBT rate is zeroed by the band")
	}
	rateOPR(434)
	b.Dump(143, 145, 287, 289, 431, 433)
	return b.Finish()
}
