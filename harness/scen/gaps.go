package scen

import (
	"github.com/pegnet/pegnetd/fat/fat2"
)

func init() { Register("gaps", buildGaps) }

// gaps: PIP-10 is active from 110 on with AveragePeriod 8 / AverageRequired 4.
// Blocks without any rates are spread through the averaging window so that the
// averages are unavailable (fewer than 4 rated heights among the last 8), then
// available again; conversions are entered before, inside and after the gaps.
//
//	101..102  burns (2.0 starts at 103: no burns later)
//	104..107  rated (OPR v5), conversions before PIP-10
//	110       PIP-10; rated. The averages a block uses are those of the most
//	          recent EARLIER rated height: at 110 the window 100..107 (4 rated)
//	111..116  unrated; 117 rated: averages of 110, window 103..110 (5 rated):
//	          everything entered in 110..116 executes
//	118       averages of 117: window 110..117 holds 2 rated heights: all
//	          averages 0, Convert fails, applyTransactionBatch returns nil before
//	          writing: the batch stays pending for ever (never retried: the next
//	          block only looks at the heights from 118 on)
//	119, 120  the same with 2 and 3 rated heights; 121: 4, available again
//	then a seed-chosen rated / unrated pattern up to 175 with conversions in
//	seed-chosen blocks
func buildGaps(seed int64) (*Scenario, error) {
	s := Sched(100, 101, 101, 101, 101, 101, 101, 103, 104, 105, 106, 107, 110)
	b := NewB(seed, s, 175)
	rng := b.Rng
	alice, bob := Key("alice", 0), Key("bob", 0)
	A, Bo := alice.FAAddress(), bob.FAAddress()
	FCT, USD, EUR, JPY := fat2.PTickerFCT, fat2.PTickerUSD, fat2.PTickerEUR, fat2.PTickerJPY

	b.Burn(101, alice, 5000*fct+uint64(rng.Intn(1000)))
	b.Burn(102, bob, 3000*fct)
	rated := map[uint32]bool{}
	rate := func(h uint32) {
		rated[h] = true
		b.OPR(h, 25+rng.Intn(2), hprice(seed, h), nil)
	}
	for h := uint32(104); h <= 107; h++ {
		rate(h)
	}
	b.TxE(104, 105, "before PIP-10", alice, Conv(A, FCT, 1000*fct, USD))
	b.TxE(106, 107, "before PIP-10 (2)", bob, Conv(Bo, FCT, 500*fct, EUR))
	b.TxE(108, 110, "entered before PIP-10, executed at its activation", alice, Conv(A, USD, 10*fct, EUR))
	rate(110)
	b.TxE(110, 117, "entered at the activation, executed after the gap", alice, Conv(A, USD, 11*fct, JPY))
	b.TxE(111, 117, "entered in the gap", alice, Conv(A, USD, 12*fct, EUR))
	b.TxE(114, 117, "transfer + conversion in the gap", bob, Conv(Bo, EUR, 3*fct, USD), Xfer(Bo, FCT, fct, A))
	b.TxE(115, 115, "plain transfer in the gap", bob, Xfer(Bo, FCT, 2*fct, A))
	rate(117)
	b.TxE(117, 0, "window 110..117 holds two rated heights", alice, Conv(A, USD, 13*fct, EUR))
	rate(118)
	b.TxE(118, 0, "window 111..118 holds two", alice, Conv(A, USD, 14*fct, EUR))
	rate(119)
	b.TxE(119, 0, "window 112..119 holds three", alice, Conv(A, USD, 15*fct, EUR))
	rate(120)
	b.TxE(120, 121, "averages available again", alice, Conv(A, USD, 16*fct, EUR))
	rate(121)

	// seed-chosen tail
	run := 0
	on := true
	for h := uint32(122); h <= 175; h++ {
		if run == 0 {
			on = !on
			if on {
				run = 1 + rng.Intn(5)
			} else {
				run = 1 + rng.Intn(7)
			}
		}
		run--
		if on {
			rate(h)
		}
		switch rng.Intn(4) {
		case 0:
			b.Tx(h, alice, Conv(A, USD, uint64(1+rng.Intn(20))*fct, EUR))
		case 1:
			b.Tx(h, bob, Conv(Bo, EUR, uint64(1+rng.Intn(5))*fct, JPY))
		case 2:
			if rng.Intn(2) == 0 {
				b.Tx(h, alice, Conv(A, FCT, uint64(1+rng.Intn(9))*fct, USD), Conv(A, USD, fct, JPY))
			}
		}
	}
	b.Dump(110, 117, 120, 121)
	return b.Finish()
}
