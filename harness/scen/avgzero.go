package scen

import (
	"github.com/pegnet/pegnetd/fat/fat2"
)

func init() { Register("avgzero", buildAvgZero) }

// avgzero: one asset loses its AVERAGE while it still has a market rate.
//
// PegNet 2.0 from 103, 2.0.2 (25 % band: an asset the miners and the stakers
// disagree on gets rate 0) from 110, PIP-10 from 112, AveragePeriod 8 /
// AverageRequired 4. Every block is rated by an OPR set and an SPR set.
//
//	104..113  OPR and SPR agree on everything
//	114..119  pXBT twice as dear for the miners as for the stakers: its rate is 0
//	          in six consecutive blocks (every other asset keeps its rate)
//	120..     they agree again: pXBT has a rate, but the window of 8 heights
//	          holds fewer than 4 non-zero pXBT rates until 4 good blocks are
//	          back (averages are taken at the most recent EARLIER rated height)
//
// Conversions entered in every block from 112 on, one per batch: pUSD -> pXBT
// (destination without average), pXBT -> pUSD (source without average), and the
// control pUSD -> pEUR. While the rate is 0 the batch is rejected (-4); while only
// the average is missing Convert fails, the batch is dropped unwritten and stays
// pending for ever; the control executes in every block. By seed, a batch mixes
// the control with a pXBT conversion (the whole batch is dropped).
func buildAvgZero(seed int64) (*Scenario, error) {
	s := Sched(100, 101, 101, 101, 101, 101, 101, 103, 104, 110, 160, 161, 112)
	b := NewB(seed, s, 132)
	rng := b.Rng
	alice, bob := Key("alice", 0), Key("bob", 0)
	A, Bo := alice.FAAddress(), bob.FAAddress()
	FCT, USD, EUR, XBT := fat2.PTickerFCT, fat2.PTickerUSD, fat2.PTickerEUR, fat2.PTickerXBT
	stakers := Stakers("miner", 26)

	b.Burn(101, alice, 20000*fct+uint64(rng.Intn(1000)))
	b.Burn(102, bob, 8000*fct)
	agree := func(h uint32) {
		b.OPR(h, 25+rng.Intn(2), hprice(seed, h), nil)
		if h >= 106 {
			b.SPR(h, hprice(seed, h), stakers)
		}
	}
	for h := uint32(104); h <= 113; h++ {
		agree(h)
	}
	b.TxE(104, 105, "alice: pUSD", alice, Conv(A, FCT, 8000*fct, USD))
	b.TxE(104, 105, "bob: pUSD", bob, Conv(Bo, FCT, 2000*fct, USD))
	b.TxE(105, 106, "alice: pXBT while everything is fine", alice, Conv(A, FCT, 4000*fct, XBT))
	b.TxE(106, 107, "bob: pXBT", bob, Conv(Bo, FCT, 2000*fct, XBT))
	for h := uint32(114); h <= 119; h++ {
		p := hprice(seed, h)
		b.OPR(h, 25, func(i int, name string) uint64 {
			if name == "XBT" {
				return p(i, name) * 2
			}
			return p(i, name)
		}, nil)
		b.SPR(h, p, stakers)
	}
	for h := uint32(120); h <= 131; h++ {
		agree(h)
	}
	for h := uint32(111); h <= 130; h++ {
		amt := func() uint64 { return uint64(1+rng.Intn(20))*fct + uint64(rng.Intn(1000)) }
		b.Tx(h, alice, Conv(A, USD, amt(), XBT))
		b.Tx(h, bob, Conv(Bo, XBT, uint64(1+rng.Intn(9))*1e6, USD))
		b.Tx(h, alice, Conv(A, USD, amt(), EUR))
		if rng.Intn(3) == 0 {
			b.Tx(h, bob, Conv(Bo, USD, amt(), EUR), Conv(Bo, USD, amt(), XBT))
		}
		if rng.Intn(4) == 0 {
			b.Tx(h, alice, Xfer(A, USD, amt(), Bo))
		}
		if h >= 118 && h <= 124 {
			// a transfer sharing its batch with a conversion that cannot be priced (rate there, average not):
			// the batch is all-or-nothing, the transfer must not go through on its own
			b.Tx(h, bob, Xfer(Bo, USD, amt(), A), Conv(Bo, USD, amt(), XBT))
			b.Tx(h, alice, Conv(A, USD, amt(), XBT), Xfer(A, USD, amt(), Bo), Conv(A, USD, amt(), EUR))
		}
	}
	b.Note("avgzero: pXBT rate 0 in 114..119; its average is unavailable for the conversions executing at 120..123")
	b.Dump(113, 114, 119, 120, 121, 123, 124, 125)
	return b.Finish()
}
