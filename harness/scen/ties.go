package scen

import (
	"github.com/pegnet/pegnetd/fat/fat2"
)

func init() { Register("ties", buildTies) }

// ties: exact ties wherever the code picks "the largest" from a Go map.
//
//	bank era (122..135): over-subscribed banks whose largest requests are exactly equal
//	  - two equal conversions into PEG inside ONE batch (same entry hash, tx index 0 and 1),
//	  - equal conversions in two different entries,
//	  with amounts chosen so that the proportional split leaves dust;
//	2.0 (136..): three holders with exactly equal stakes that are the LARGEST stakes at the second
//	  and third snapshot (288, 432) and a total stake above the 4500*144 PEG cap with dust.
func buildTies(seed int64) (*Scenario, error) {
	s := Sched(100, 101, 101, 101, 101, 122, 128, 136, 150, 300, 500, 510, 520)
	b := NewB(seed, s, 434)
	rng := b.Rng
	FCT, USD, PEG, EUR := fat2.PTickerFCT, fat2.PTickerUSD, fat2.PTickerPEG, fat2.PTickerEUR
	k := func(i int) [32]byte { return Key("tie", i).FAAddress() }
	rate := func(h uint32) { b.OPR(h, 25+rng.Intn(2), hprice(seed, h), nil) }

	j := uint64(rng.Intn(1000))
	for i := 0; i < 6; i++ {
		b.Burn(101, Key("tie", i), 3000000*fct+7)
	}
	b.Burn(101, Key("tie", 6), 1000*fct+j)
	for h := uint32(102); h <= 121; h++ {
		if h%3 != 0 {
			rate(h)
		}
	}
	for i := 0; i < 3; i++ {
		b.Tx(103+uint32(i), Key("tie", i), Conv(k(i), FCT, 20000*fct+3, USD))
	}
	// bank era, before and after V4 (128)
	for _, h := range []uint32{123, 126, 130, 133} {
		rate(h - 1)
		// one batch with two equal PEG requests (same entry hash) ...
		b.Tx(h-1, Key("tie", 0), Conv(k(0), USD, 3000*fct+1, PEG), Conv(k(0), USD, 3000*fct+1, PEG))
		// ... and the same amount again in two other entries
		b.Tx(h-1, Key("tie", 1), Conv(k(1), USD, 3000*fct+1, PEG))
		b.Tx(h-1, Key("tie", 2), Conv(k(2), USD, 3000*fct+1, PEG))
		rate(h)
	}
	rate(135)
	// 2.0: three equal largest stakes (holders 3,4,5: 3,000,000 pFCT each untouched) and smaller ones
	for h := uint32(136); h <= 143; h++ {
		rate(h)
	}
	rate(144)
	b.TxE(200, 201, "a smaller holder moves a little", Key("tie", 6), Conv(k(6), FCT, 10*fct, EUR))
	rate(201)
	for h := uint32(285); h <= 289; h++ {
		rate(h)
	}
	for h := uint32(429); h <= 433; h++ {
		rate(h)
	}
	b.Dump(123, 126, 130, 133, 288, 432)
	return b.Finish()
}
