package scen

import (
	"math"

	"verifharness/chain"

	"github.com/pegnet/pegnetd/fat/fat2"
)

func init() { Register("rates", buildRates) }

// rate modes of one block
const (
	rmNone       = iota // no OPR, no SPR entries: unrated
	rmOPR               // OPR only
	rmSPR               // SPR only
	rmEqual             // both, identical prices
	rmHiIn              // both; one asset exactly on the upper edge of the band (inside)
	rmHiOut             // ... one unit above it (outside)
	rmLoIn              // ... on the lower edge (inside)
	rmLoOut             // ... one unit below it
	rmFar               // ... far outside
	rmTiny              // ... a sub-0.001-USD asset (1 % instead of 0.1 % in the V0 band) just outside 0.1 %, inside 1 %
	rmFewStakers        // both, but fewer than 25 records from PEG holders: no SPR winners
	rmFewMiners         // 24 OPR records (no OPR winners) and a full SPR set
	rmFewStakersFar     // a full OPR set and 20 holder records that quote one asset three times dearer: none of them is a winner
	rmFewStakersOnly    // no OPR, 20 holder records: no winners at all, the block stays unrated
	rmCount
)

var rmNames = []string{"none", "opr", "spr", "equal", "hi-in", "hi-out", "lo-in", "lo-out", "far", "tiny", "few-stakers", "few-miners", "few-stakers-far", "few-stakers-only"}

// rates: every way a 2.0 block can get (or fail to get) its rates, in each of
// the three band regimes:
//
//	108..124  GetAssetRatesV0 (1 % / 0.1 %), an outside asset ends the block early
//	125..141  GetAssetRates with 10 %, an outside asset ends the block early
//	142..158  GetAssetRates with 25 %, an outside asset gets rate 0
//
// "Ends the block early": SyncBlock returns the nil error variable: the block
// counts as applied with its pn_grade row but without rates, without looking at
// its transaction entries, and without paying the winners.
//
// Every era plays all modes in a seed-chosen order; every block carries a
// transfer and a small conversion so that skipped blocks and zeroed rates show.
func buildRates(seed int64) (*Scenario, error) {
	s := Sched(100, 101, 101, 101, 101, 101, 101, 108, 125, 142, 160, 161, 170)
	b := NewB(seed, s, 159)
	rng := b.Rng
	FCT, USD, EUR := fat2.PTickerFCT, fat2.PTickerUSD, fat2.PTickerEUR
	alice, bob := Key("alice", 0), Key("bob", 0)
	A, Bo := alice.FAAddress(), bob.FAAddress()
	stakers := Stakers("miner", 26)
	poor := Stakers("poor", 10)

	b.Burn(101, alice, 10000*fct+uint64(rng.Intn(1000)))
	b.Burn(101, bob, 1000*fct)
	for h := uint32(102); h <= 107; h++ {
		b.OPR(h, 26, hprice(seed, h), nil) // v4: the miners collect PEG
	}
	b.TxE(102, 103, "pUSD", alice, Conv(A, FCT, 4000*fct, USD))
	b.TxE(103, 104, "pEUR", alice, Conv(A, USD, 4000*fct, EUR))
	b.TxE(104, 105, "pXBT", alice, Conv(A, USD, 1000*fct, fat2.PTickerXBT))

	edgeAssets := []string{"XBT", "EUR", "ETH", "USD", "XAU"}
	edgeTickers := map[string]fat2.PTicker{"XBT": fat2.PTickerXBT, "EUR": fat2.PTickerEUR, "ETH": fat2.PTickerETH, "USD": fat2.PTickerUSD, "XAU": fat2.PTickerXAU, "RVN": fat2.PTickerRVN}

	era := func(from, to uint32, tol func(spr uint64) float64) {
		modes := rng.Perm(rmCount)
		for i, h := 0, from; h <= to; i, h = i+1, h+1 {
			mode := rmEqual
			if i < len(modes) {
				mode = modes[i]
			} else {
				mode = rng.Intn(rmCount)
			}
			base := hprice(seed, h)
			asset := edgeAssets[rng.Intn(len(edgeAssets))]
			if mode == rmTiny {
				asset = "RVN"
				inner := base
				base = func(i int, name string) uint64 {
					if name == "RVN" {
						return 50000 + uint64(h) // < 100000: the V0 band is 1 % here
					}
					return inner(i, name)
				}
			}
			sprV := base(0, asset)
			t := tol(sprV)
			hi := float64(sprV) * (1 + t)
			lo := float64(sprV) * (1 - t)
			var oprV uint64
			switch mode {
			case rmHiIn:
				oprV = uint64(math.Floor(hi))
			case rmHiOut:
				oprV = uint64(math.Floor(hi)) + 1
			case rmLoIn:
				oprV = uint64(math.Ceil(lo))
			case rmLoOut:
				oprV = uint64(math.Ceil(lo)) - 1
			case rmFar:
				oprV = sprV * 3
			case rmTiny:
				oprV = sprV + sprV*5/1000 // 0.5 % above
			}
			oprPrice := base
			if oprV != 0 {
				inner := base
				oprPrice = func(i int, name string) uint64 {
					if name == asset {
						return oprV
					}
					return inner(i, name)
				}
			}
			switch mode {
			case rmNone:
			case rmOPR:
				b.OPR(h, 25+rng.Intn(2), base, nil)
			case rmSPR:
				b.SPR(h, base, stakers)
			case rmFewStakers:
				b.OPR(h, 25, base, nil)
				b.SPR(h, base, append(append([]chain.StakerKey{}, stakers[:20]...), poor...))
			case rmFewMiners:
				b.OPR(h, 24, base, nil)
				b.SPR(h, base, stakers)
			case rmFewStakersFar, rmFewStakersOnly:
				if mode == rmFewStakersFar {
					b.OPR(h, 25, base, nil)
				}
				inner := base
				far := func(i int, name string) uint64 {
					if name == asset {
						return inner(i, name) * 3
					}
					return inner(i, name)
				}
				b.SPR(h, far, append(append([]chain.StakerKey{}, stakers[:20]...), poor...))
			default:
				b.OPR(h, 25+rng.Intn(2), oprPrice, nil)
				b.SPR(h, base, stakers)
			}
			b.Note("rates: height %d mode %s asset %s", h, rmNames[mode], asset)
			// traffic
			b.Tx(h, bob, Xfer(Bo, FCT, uint64(h), A))
			switch rng.Intn(3) {
			case 0:
				b.Tx(h, alice, Conv(A, EUR, uint64(1+rng.Intn(9))*fct, USD))
			case 1:
				if asset != "USD" {
					b.Tx(h, alice, Conv(A, USD, uint64(1+rng.Intn(9))*fct, edgeTickers[asset]))
				} else {
					b.Tx(h, alice, Conv(A, EUR, uint64(1+rng.Intn(9))*fct, USD), Conv(A, USD, fct, fat2.PTickerJPY))
				}
			default:
				if asset != "USD" && asset != "EUR" {
					b.Tx(h, alice, Conv(A, USD, fct, edgeTickers[asset]), Conv(A, EUR, fct, USD))
				} else {
					b.Tx(h, alice, Conv(A, EUR, fct, fat2.PTickerJPY))
				}
			}
		}
	}
	era(108, 124, func(spr uint64) float64 {
		if spr >= 100000 {
			return 0.001
		}
		return 0.01
	})
	era(125, 141, func(uint64) float64 { return 0.1 })
	era(142, 158, func(uint64) float64 { return 0.25 })
	b.OPR(159, 25, hprice(seed, 159), nil)
	var all []uint32
	for h := uint32(108); h <= 159; h++ {
		all = append(all, h)
	}
	b.Dump(all...) // small chain: record every block of the three eras
	return b.Finish()
}
