package scen

import (
	"verifharness/chain"

	"github.com/pegnet/pegnetd/fat/fat2"
)

func init() { Register("salts", buildSalts) }

// salts: the timestamp salt of a transaction entry must lie within 12 hours of the ENTRY's own
// timestamp (the minute of the block it was written in), not of the block's.
//
// Every block 105..112 carries, in minute 9 (or a seed-chosen late minute), four transfers of distinct
// amounts whose salts sit one to five minutes inside and outside both ends of the window measured from
// the entry's timestamp; measured from the block's start the verdicts of the two outer ones flip. By
// seed some blocks put the same entries in minute 1, where both clocks nearly agree.
func buildSalts(seed int64) (*Scenario, error) {
	s := Sched(100, 101, 101, 101, 101, 101, 101, 103, 150, 160, 170, 180, 190)
	b := NewB(seed, s, 114)
	rng := b.Rng
	alice, bob := Key("alice", 0), Key("bob", 0)
	A, Bo := alice.FAAddress(), bob.FAAddress()
	FCT := fat2.PTickerFCT
	b.Burn(101, alice, 5000*fct+uint64(rng.Intn(1000)))
	b.OPR(104, 25, hprice(seed, 104), nil)
	const h12 = int64(12 * 3600)
	for h := uint32(105); h <= 112; h++ {
		minute := 9
		if rng.Intn(3) == 0 {
			minute = 6 + rng.Intn(5)
		}
		if rng.Intn(4) == 0 {
			minute = 1
		}
		ets := b.TS(h) + int64(minute)*60
		d := int64(1+rng.Intn(5)) * 60
		amt := func(k uint64) uint64 { return (uint64(h)*10+k)*1e6 + uint64(rng.Intn(1000)) }
		b.TxAt(h, minute, ets-h12-d, alice, Xfer(A, FCT, amt(1), Bo)) // too old for the entry
		b.TxAt(h, minute, ets-h12+d, alice, Xfer(A, FCT, amt(2), Bo)) // just young enough
		b.TxAt(h, minute, ets+h12-d, alice, Xfer(A, FCT, amt(3), Bo)) // just not too far ahead
		b.TxAt(h, minute, ets+h12+d, alice, Xfer(A, FCT, amt(4), Bo)) // too far ahead
	}
	// a valid entry at the END of a block that starts with forged entries carrying the same RCD (signature bytes
	// altered, content altered under the copied signature): the forgeries have no effect and cannot keep the valid
	// entry from executing
	for _, h := range []uint32{107, 110} {
		content, err := chain.BatchJSON(Xfer(A, FCT, (uint64(h)*10+9)*1e6, Bo))
		if err != nil {
			return nil, err
		}
		good := chain.SignedBatchEntry(content, []chain.SignerKey{alice}, b.TS(h))
		for k := 0; k < 9+rng.Intn(8); k++ {
			bad := chain.RawEntry{Content: append([]byte(nil), good.Content...)}
			for _, x := range good.ExtIDs {
				bad.ExtIDs = append(bad.ExtIDs, append([]byte(nil), x...))
			}
			if k%3 == 2 {
				other, _ := chain.BatchJSON(Xfer(A, FCT, (uint64(h)*10+9)*1e6+uint64(k)+1, Bo))
				bad.Content = other
			} else {
				bad.ExtIDs[2][k%64] ^= 1 << uint(k%8)
			}
			b.Raw(h, 1, bad)
		}
		i := b.Raw(h, 10, good)
		b.Expect(h, i, int64(h), "valid entry behind a flood of forgeries with its RCD")
	}
	b.OPR(113, 25, hprice(seed, 113), nil)
	b.Dump(105, 106, 108, 112)
	return b.Finish()
}
