package scen

import (
	"fmt"

	"verifharness/chain"

	"github.com/pegnet/pegnetd/fat/fat2"
)

func randBytes(b *B, n int) []byte {
	out := make([]byte, n)
	b.Rng.Read(out)
	return out
}

// garbageOPR appends entries to the OPR chain of block h that no grader
// version accepts: random bytes, wrong ExtID counts, a copy of a valid record
// with a flipped content byte (LXR difficulty no longer matches) and one with a
// wrong version byte.
func garbageOPR(b *B, h uint32) {
	blk := b.Blk(h)
	blk.OPR = append(blk.OPR,
		chain.RawEntry{Content: randBytes(b, 40)},
		chain.RawEntry{ExtIDs: [][]byte{randBytes(b, 8)}, Content: randBytes(b, 10)},
		chain.RawEntry{ExtIDs: [][]byte{randBytes(b, 8), randBytes(b, 8), {b.OPRVersion(h)}, {1}}, Content: []byte("{}")},
		chain.RawEntry{ExtIDs: [][]byte{{}, {}, {}}, Content: nil},
	)
	if len(blk.OPR) > 4 {
		src := blk.OPR[0]
		flipped := chain.RawEntry{Content: append([]byte(nil), src.Content...)}
		for _, x := range src.ExtIDs {
			flipped.ExtIDs = append(flipped.ExtIDs, append([]byte(nil), x...))
		}
		if len(flipped.Content) > 0 {
			flipped.Content[len(flipped.Content)/2] ^= 0x01
		}
		wrongVer := chain.RawEntry{Content: append([]byte(nil), src.Content...)}
		for _, x := range src.ExtIDs {
			wrongVer.ExtIDs = append(wrongVer.ExtIDs, append([]byte(nil), x...))
		}
		if len(wrongVer.ExtIDs) == 3 {
			wrongVer.ExtIDs[2] = []byte{b.OPRVersion(h) + 1}
		}
		blk.OPR = append(blk.OPR, flipped, wrongVer)
	}
}

// garbageSPR appends entries to the SPR chain that GradeS must skip or the
// grader must refuse: no ExtID, one ExtID, two ExtIDs, a short / long staker
// id, random content under the id of a PEG holder.
func garbageSPR(b *B, h uint32) {
	blk := b.Blk(h)
	rich := Staker("miner", 0)
	blk.SPR = append(blk.SPR,
		chain.RawEntry{Content: randBytes(b, 20)},
		chain.RawEntry{ExtIDs: [][]byte{{b.SPRVersion(h)}}, Content: randBytes(b, 20)},
		chain.RawEntry{ExtIDs: [][]byte{{b.SPRVersion(h)}, rich.Address[:]}, Content: randBytes(b, 20)},
		chain.RawEntry{ExtIDs: [][]byte{{b.SPRVersion(h)}, rich.Address[:31], randBytes(b, 96)}, Content: randBytes(b, 20)},
		chain.RawEntry{ExtIDs: [][]byte{{b.SPRVersion(h)}, append(append([]byte{}, rich.Address[:]...), 0), randBytes(b, 96)}, Content: randBytes(b, 20)},
		chain.RawEntry{ExtIDs: [][]byte{{b.SPRVersion(h)}, rich.Address[:], randBytes(b, 96)}, Content: randBytes(b, 30)},
	)
}

// garbageTx appends entries to the transaction chain that are no valid FAT-2
// batch: random bytes, no ExtIDs, a valid batch with a broken signature, a
// valid batch signed by somebody else, a salt outside the 12 h window, unknown
// version, empty transaction list.
func garbageTx(b *B, h uint32, k chain.SignerKey) {
	other := Key("stranger", 0)
	good, err := chain.BatchJSON(Xfer(k.FAAddress(), fat2.PTickerFCT, 1, other.FAAddress()))
	if err != nil {
		panic(err)
	}
	ts := b.TS(h)
	// broken signature
	e1 := chain.SignedBatchEntry(good, []chain.SignerKey{k}, ts)
	e1.ExtIDs[2] = append([]byte(nil), e1.ExtIDs[2]...)
	e1.ExtIDs[2][5] ^= 0x40
	// signed by a stranger
	e2 := chain.SignedBatchEntry(good, []chain.SignerKey{other}, ts)
	// salt 12 h + 2 min before the entry time (entry time = dblock time + 1 min)
	e3 := chain.SignedBatchEntry(good, []chain.SignerKey{k}, ts-12*3600-60)
	// salt 12 h + 2 min after
	e4 := chain.SignedBatchEntry(good, []chain.SignerKey{k}, ts+12*3600+180)
	for i, e := range []chain.RawEntry{
		{Content: randBytes(b, 50)},
		{ExtIDs: [][]byte{[]byte(fmt.Sprint(ts))}, Content: good},
		e1, e2, e3, e4,
	} {
		idx := b.Raw(h, 1, e)
		b.Expect(h, idx, NoRow, fmt.Sprintf("garbage tx entry %d", i))
	}
	for i, c := range []string{
		`{"version":2,"transactions":[{"input":{"address":"` + k.String() + `","amount":1,"type":"pFCT"},"transfers":[{"address":"` + other.String() + `","amount":1}]}]}`,
		`{"version":1,"transactions":[]}`,
		`{"version":1,"transactions":[{"input":{"address":"` + k.String() + `","amount":2,"type":"pFCT"},"transfers":[{"address":"` + other.String() + `","amount":1}]}]}`,
		`{"version":1,"transactions":[{"input":{"address":"` + k.String() + `","amount":1,"type":"pFCT"},"conversion":"pFCT"}]}`,
		`{"version":1,"transactions":[{"input":{"address":"` + k.String() + `","amount":1,"type":"pXXX"},"conversion":"pFCT"}]}`,
		`{"version":1,"transactions":[{"input":{"address":"` + k.String() + `","amount":1,"type":"pFCT"},"transfers":[{"address":"` + other.String() + `","amount":1}],"conversion":"pUSD"}]}`,
		`{"version":1,"transactions":[{"input":{"address":"` + k.String() + `","amount":1,"type":"pFCT"},"transfers":[{"address":"` + other.String() + `","amount":1}]}],"extra":1}`,
		// ticker texts a decoder could trip over: a lone quote, nothing, a lone letter, a backslash, escapes, no "type" at all
		`{"version":1,"transactions":[{"input":{"address":"` + k.String() + `","amount":1,"type":"\""},"transfers":[{"address":"` + other.String() + `","amount":1}]}]}`,
		`{"version":1,"transactions":[{"input":{"address":"` + k.String() + `","amount":1,"type":""},"transfers":[{"address":"` + other.String() + `","amount":1}]}]}`,
		`{"version":1,"transactions":[{"input":{"address":"` + k.String() + `","amount":1,"type":"p"},"transfers":[{"address":"` + other.String() + `","amount":1}]}]}`,
		`{"version":1,"transactions":[{"input":{"address":"` + k.String() + `","amount":1,"type":"\\"},"transfers":[{"address":"` + other.String() + `","amount":1}]}]}`,
		`{"version":1,"transactions":[{"input":{"address":"` + k.String() + `","amount":1,"type":"pFCT"},"conversion":"\""}]}`,
		`{"version":1,"transactions":[{"input":{"address":"` + k.String() + `","amount":1,"type":"pFCT"},"conversion":"p\u0055SD"}]}`,
		`{"version":1,"transactions":[{"input":{"address":"` + k.String() + `","amount":1,"type":"\u0070FCT"},"conversion":"pUSD"}]}`,
		`{"version":1,"transactions":[{"input":{"address":"` + k.String() + `","amount":1},"transfers":[{"address":"` + other.String() + `","amount":1}]}]}`,
		`{"version":1,"transactions":[{"input":{"address":"` + k.String() + `","amount":1,"type":null},"transfers":[{"address":"` + other.String() + `","amount":1}]}]}`,
	} {
		idx := b.TxJSON(h, k, c)
		b.Expect(h, idx, NoRow, fmt.Sprintf("invalid batch content %d", i))
	}
}

// Scale multiplies every price of p by num/den.
func Scale(p PriceFn, num, den uint64) PriceFn {
	return func(i int, name string) uint64 { return p(i, name) * num / den }
}
