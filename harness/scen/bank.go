package scen

import (
	"fmt"

	"verifharness/chain"

	"github.com/pegnet/pegnetd/fat/fat2"
)

func init() {
	Register("bank", buildBank)
	Register("bankmixed", buildBankMixed)
}

// bankSchedule: the conversion limit from 104, V4 (bank rows, one bank per
// rated block for everything pending) from 118, 2.0 at 140.
func bankSchedule() chain.Schedule {
	return Sched(100, 101, 101, 101, 101, 104, 118, 140, 150, 160, 170, 180, 190)
}

// bankPrices: FCT 4 USD, PEG 0.05 USD exactly: 1 pFCT buys 80 PEG and the
// 5000 PEG bank is 62.5 pFCT.
func bankPrices() PriceFn {
	return Prices(1, 1, map[string]uint64{"FCT": 4e8, "PEG": 5e6, "USD": 1e8})
}

// bank: stress of the PEG bank of the legacy era, single PEG-only conversions
// per batch.
//
//	104..117  every held height is its own 5000 PEG bank
//	118..139  one bank row per rated block shared by everything pending
//
// Per block 0..4 requests from six users; the amounts come from a menu: small,
// equal to the previous request, a share that makes the block total exactly the
// bank, just below / above it, and much larger than the bank. Rated and
// unrated blocks alternate in seed-chosen runs, so requests are spread over
// ungraded blocks.
func buildBank(seed int64) (*Scenario, error) {
	s := bankSchedule()
	b := NewB(seed, s, 142)
	rng := b.Rng
	FCT, PEG, USD := fat2.PTickerFCT, fat2.PTickerPEG, fat2.PTickerUSD
	const nUsers = 6
	users := make([]chain.SignerKey, nUsers)
	for i := range users {
		users[i] = Key("bankuser", i)
		b.Burn(101, users[i], 4000*fct)
	}
	price := bankPrices()
	b.OPR(102, 25, price, nil) // v2 (PEG by the equation: no PEG yet -> 0)
	b.TxE(102, 103, "pUSD for user 0", users[0], Conv(users[0].FAAddress(), FCT, 1000*fct, USD))
	b.OPR(103, 26, price, nil)

	const bankFCT = uint64(6250000000) // 62.5 pFCT = 5000 PEG
	// a PEG request that is REJECTED when it comes up for execution (its sender moved the funds away in the
	// block it was written in) takes no part in the bank: no yield, no refund, not counted in the requested
	// total -- once with per-height banks (104), once with a bank row (118)
	for i, h := range []uint32{104, 118} {
		gone := Key("bankgone", i)
		b.Burn(101, gone, 40*fct)
		b.TxE(h, -1, "request whose input is gone at execution", gone, Conv(gone.FAAddress(), FCT, 40*fct, PEG))
		b.TxE(h, int64(h), "... because the same block moves it away", gone, Xfer(gone.FAAddress(), FCT, 40*fct, users[0].FAAddress()))
	}
	// deterministic prefix
	// 104: below the bank (two equal requests)
	b.TxE(104, 105, "equal request 1", users[1], Conv(users[1].FAAddress(), FCT, 10*fct, PEG))
	b.TxE(104, 105, "equal request 2", users[2], Conv(users[2].FAAddress(), FCT, 10*fct, PEG))
	b.OPR(105, 25, price, nil)
	// 105: exactly the bank
	b.TxE(105, 106, "half the bank", users[1], Conv(users[1].FAAddress(), FCT, bankFCT/2, PEG))
	b.TxE(105, 106, "the other half", users[3], Conv(users[3].FAAddress(), FCT, bankFCT/2, PEG))
	b.OPR(106, 25, price, nil)
	// 106: one above the bank (in PEG units: 80 per pFCT unit)
	b.TxE(106, 107, "bank + 80", users[2], Conv(users[2].FAAddress(), FCT, bankFCT+1, PEG))
	b.OPR(107, 25, price, nil)
	// 107: three equal requests above the bank (ties for the dust)
	for i := 0; i < 3; i++ {
		b.TxE(107, 108, fmt.Sprintf("three equal requests above the bank (%d)", i), users[i+1], Conv(users[i+1].FAAddress(), FCT, 30*fct+7, PEG))
	}
	b.TxE(107, 108, "from pUSD", users[0], Conv(users[0].FAAddress(), USD, 100*fct+3, PEG))
	b.OPR(108, 25, price, nil)
	// 108..110 unrated: each height keeps its own bank at 111
	b.TxE(108, 111, "held at 108", users[4], Conv(users[4].FAAddress(), FCT, 70*fct, PEG))
	b.TxE(109, 111, "held at 109 (1)", users[4], Conv(users[4].FAAddress(), FCT, 40*fct, PEG))
	b.TxE(109, 111, "held at 109 (2)", users[5], Conv(users[5].FAAddress(), FCT, 40*fct+1, PEG))
	b.TxE(110, 111, "held at 110", users[5], Conv(users[5].FAAddress(), FCT, 1, PEG))
	b.OPR(111, 25, price, nil)
	// a request of 0
	b.TxE(111, 112, "request of amount 0", users[5], Conv(users[5].FAAddress(), FCT, 0, PEG))
	b.OPR(112, 25, price, nil)
	// 112: a huge request next to tiny ones: their proportional share rounds down to 0 PEG, the
	// whole input comes back as the refund (and must be recorded as such in the history)
	b.TxE(112, 113, "huge request", users[3], Conv(users[3].FAAddress(), FCT, 3000*fct, PEG))
	b.TxE(112, 113, "one unit of pUSD: 20 PEG units asked, share 0, refund 1", users[0], Conv(users[0].FAAddress(), USD, 1, PEG))
	b.TxE(112, 113, "ten units of pUSD: share 4", users[0], Conv(users[0].FAAddress(), USD, 10, PEG))
	// ONE entry with several PEG requests that differ in asset and amount: each request gets its own yield and
	// its own refund in its own source asset (per-height bank era here, bank-row era at 119)
	for _, h := range []uint32{107, 119} {
		b.Tx(h, users[0], Conv(users[0].FAAddress(), USD, 10*fct+uint64(h), PEG), Conv(users[0].FAAddress(), FCT, 100*fct, PEG),
			Conv(users[0].FAAddress(), USD, 3*fct, PEG))
	}

	// an address WITHOUT funds: an overflowing conversion first, then a PEG request -- rejected (-1), no part in the bank
	ghost := Key("bankghost", 0)
	b.TxE(106, -1, "unfunded: overflowing conversion, then a PEG request", ghost,
		Conv(ghost.FAAddress(), fat2.PTickerXBT, 9000000000000000000, USD), Conv(ghost.FAAddress(), USD, 1000*fct, PEG))

	menu := func(last uint64, blockTotal uint64) uint64 {
		switch rng.Intn(7) {
		case 0:
			return uint64(1 + rng.Intn(1000))
		case 1:
			if last != 0 {
				return last
			}
			return 5 * fct
		case 2:
			if blockTotal < bankFCT {
				return bankFCT - blockTotal // block total exactly the bank
			}
			return fct
		case 3:
			if blockTotal+1 < bankFCT {
				return bankFCT - blockTotal - 1
			}
			return 3 * fct
		case 4:
			return bankFCT - blockTotal%bankFCT + 1
		case 5:
			return 500 * fct
		default:
			return uint64(1+rng.Intn(60)) * fct
		}
	}
	// a FUNDED request that cannot be priced (4000 pFCT at a PEG price of 1e-7 USD is more than int64 holds): Convert fails in
	// the pre-check, the batch is dropped silently (it stays pending), yet it takes part in the bank pass with a request of 0
	// -- the block must still apply (seeded C08-h turned the ignored Convert error of that pass into a failed block).  Once with
	// per-height banks (115 -> 116), once with a bank row (130 -> 131).
	dust := Prices(1, 1, map[string]uint64{"FCT": 4e8, "PEG": 10, "USD": 1e8})
	for i, h := range []uint32{115, 130} {
		whale := Key("bankwhale", i)
		b.Burn(101, whale, 4000*fct)
		b.TxE(h, 0, "funded PEG request that overflows int64: dropped, pending for ever", whale, Conv(whale.FAAddress(), FCT, 4000*fct, PEG))
	}
	// seed-chosen: 113..139
	run, on := 0, false
	var pendingTotal, last uint64
	for h := uint32(113); h <= 139; h++ {
		if run == 0 {
			on = !on
			run = 1 + rng.Intn(3)
		}
		run--
		if on || h == 118 || h == 139 || h == 116 || h == 131 {
			p := price
			if rng.Intn(3) == 0 {
				p = hprice(seed, h) // other rates: the totals no longer sit on the bank
			}
			if h == 116 || h == 131 {
				p = dust // PEG at 1e-7 USD: the whale's request does not fit int64
			}
			b.OPR(h, 25, p, nil)
			pendingTotal = 0
		}
		if h < s.V4OPRUpdate {
			pendingTotal = 0 // per-height banks
		}
		n := rng.Intn(5)
		for i := 0; i < n; i++ {
			u := users[rng.Intn(nUsers)]
			amt := menu(last, pendingTotal)
			last = amt
			pendingTotal += amt
			b.Tx(h, u, Conv(u.FAAddress(), FCT, amt, PEG))
		}
		if rng.Intn(4) == 0 {
			b.Tx(h, users[0], Conv(users[0].FAAddress(), USD, uint64(1+rng.Intn(300))*fct, PEG))
		}
	}
	// 140 = 2.0: what is still pending is refused
	b.TxE(139, -2, "entered in the bank era, executed in 2.0", users[3], Conv(users[3].FAAddress(), FCT, fct, PEG))
	b.OPR(140, 25, price, nil)
	b.OPR(141, 25, price, nil)
	b.Dump(105, 106, 107, 108, 111, 112, 116, 118, 119, 120, 131)
	return b.Finish()
}

// bankmixed: bank-era batches that mix a PEG request with other transactions.
// recordPegnetRequests walks EVERY transaction of such a batch: an ordinary
// conversion is paid a second time as if it were a PEG request (double credit),
// a transfer next to a PEG request asks for a column of ticker 0 and fails the
// block, and a batch that spends the PEG it has only been promised passes the
// in-memory simulation and fails in recordBatch ("uncaught: insufficient
// balance"). The model mirrors all three; the chain ends at the block that can
// never be applied (which of the two, by seed).
func buildBankMixed(seed int64) (*Scenario, error) {
	s := bankSchedule()
	b := NewB(seed, s, 130)
	rng := b.Rng
	FCT, PEG, USD, EUR := fat2.PTickerFCT, fat2.PTickerPEG, fat2.PTickerUSD, fat2.PTickerEUR
	u := []chain.SignerKey{Key("mixuser", 0), Key("mixuser", 1), Key("mixuser", 2), Key("mixuser", 3)}
	for i := range u {
		b.Burn(101, u[i], 4000*fct+uint64(rng.Intn(100)))
	}
	price := bankPrices()
	b.OPR(102, 25, price, nil)
	b.TxE(102, 103, "pUSD for user 0", u[0], Conv(u[0].FAAddress(), FCT, 1000*fct, USD))
	b.OPR(103, 25, price, nil)
	U0, U1, U2 := u[0].FAAddress(), u[1].FAAddress(), u[2].FAAddress()

	// per-height bank era
	b.TxE(104, 105, "conversion + PEG request: the conversion is credited twice", u[0],
		Conv(U0, USD, 40*fct, EUR), Conv(U0, FCT, 10*fct, PEG))
	b.OPR(105, 25, price, nil)
	b.TxE(105, 106, "PEG request first, then two conversions", u[1],
		Conv(U1, FCT, 5*fct, PEG), Conv(U1, FCT, 20*fct, USD), Conv(U1, FCT, 30*fct, EUR))
	b.TxE(105, 106, "a plain PEG request sharing the bank with the mixed batch", u[2], Conv(U2, FCT, 50*fct, PEG))
	b.OPR(106, 25, price, nil)
	b.TxE(106, 107, "mixed batch above the bank", u[0],
		Conv(U0, FCT, 100*fct, PEG), Conv(U0, FCT, 100*fct, USD))
	b.OPR(107, 25, price, nil)
	// user 3 gets exactly 800 PEG: alone in its height, far below the bank
	U3 := u[3].FAAddress()
	b.TxE(107, 108, "plain request: exactly 800 PEG", u[3], Conv(U3, FCT, 10*fct, PEG))
	b.OPR(108, 25, price, nil)

	// V4 era (from 118)
	b.OPR(118, 25, price, nil)
	b.TxE(118, 119, "mixed batch with a bank row", u[1], Conv(U1, FCT, 10*fct, USD), Conv(U1, FCT, 10*fct, PEG))
	b.OPR(119, 25, price, nil)
	b.TxE(119, 121, "mixed batch pending over an unrated block", u[2], Conv(U2, FCT, 70*fct, PEG), Conv(U2, FCT, fct, EUR))
	b.TxE(120, 121, "plain request next to it", u[0], Conv(U0, FCT, 30*fct, PEG))
	b.OPR(121, 25, price, nil)

	// the block that cannot be applied
	switch seed % 3 {
	case 0:
		b.Tx(122, u[0], Conv(U0, FCT, fct, PEG), Xfer(U0, FCT, fct, U1))
		b.Note("bankmixed: block 123 fails with 'no such column' (transfer next to a PEG request)")
	case 1:
		// user 3 holds 800 PEG, is promised 4000 more and converts 2 x 500 of it: every
		// transaction is covered by the starting balance, the simulation counts
		// the promise, recordBatch does not have it yet (conversions, not transfers: a
		// transfer next to a PEG request fails earlier, for the other reason)
		b.Tx(122, u[3], Conv(U3, FCT, 50*fct, PEG), Conv(U3, PEG, 500*fct, USD), Conv(U3, PEG, 500*fct, USD))
		b.Note("bankmixed: block 123 fails with 'uncaught: insufficient balance'")
	default:
		b.Tx(122, u[1], Xfer(U1, FCT, fct, U0), Conv(U1, FCT, 2*fct, PEG))
		b.Note("bankmixed: block 123 fails with 'no such column' (transfer before a PEG request)")
	}
	b.OPR(123, 25, price, nil)
	b.OPR(124, 25, price, nil)
	b.Dump(105, 106, 107, 119, 121, 122)
	return b.Finish()
}
