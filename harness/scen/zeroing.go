package scen

import (
	"github.com/pegnet/pegnetd/fat/fat2"
)

func init() { Register("zeroing", buildZeroing) }

// zeroing: the two NullifyBurnAddress heights with funds on the addresses.
//
//	2.0 = 104, V20DevRewards = 110 (old burn address = the all-zero address),
//	2.0.2 = 116 (new burn address), mint 120, burn of the mint 124
//
// Before 2.0.2 recordBatch compares transfer receivers with an unset
// FAAddress, i.e. with the all-zero address: transfers to it are destroyed, so
// the only way it can hold anything at 110 is as a payout address (PEG). By
// seed: seed%3 = 0: a miner mines for it (OPR payout), 1: a staker names it as
// payout address (SPR payout), 2: it holds nothing.
//
// At 110 the code walks the tickers 1..62: ticker t is subtracted and a history
// row under the mock txid `110 - j` is written with `-balance` as amount, which
// database/sql refuses for any non-zero balance: with PEG (ticker 1) held the
// function returns right there (PEG IS subtracted, its batch row IS written, the
// other 61 tickers are never recorded); with nothing held, 62 rows of amount 0.
// The 2.0.2 burn address is an ordinary address until 116 and collects
// transfers; at 116 it is emptied without history rows. From 116 on the
// all-zero address is an ordinary address.
func buildZeroing(seed int64) (*Scenario, error) {
	s := Sched(100, 101, 101, 101, 101, 101, 101, 104, 110, 116, 120, 124, 130)
	b := NewB(seed, s, 146)
	rng := b.Rng
	FCT, USD, XBT, PEG := fat2.PTickerFCT, fat2.PTickerUSD, fat2.PTickerXBT, fat2.PTickerPEG
	alice := Key("alice", 0)
	A := alice.FAAddress()
	zero := mustFA(ZeroAddrFA)
	variant := seed % 3
	payout := func(i int) string {
		if variant == 0 && i == 3 {
			return ZeroAddrFA // miner 3 mines for the all-zero address
		}
		return b.Miner(i)
	}
	stakers := Stakers("miner", 25)
	spr := func(h uint32) {
		p := hprice(seed, h)
		if variant == 1 {
			// staker 24 (a PEG holder) names the all-zero address as payout address
			b.SPR(h, p, stakers[:24])
			b.Blk(h).SPR = append(b.Blk(h).SPR, SPRRecord(b.SPRVersion(h), h, p, stakers[24], ZeroAddrFA))
			return
		}
		b.SPR(h, p, stakers)
	}
	b.Burn(101, alice, 5000*fct+uint64(rng.Intn(1000)))
	b.OPR(102, 25, hprice(seed, 102), payout)
	b.TxE(102, 103, "pUSD", alice, Conv(A, FCT, 1000*fct, USD))
	b.OPR(103, 25, hprice(seed, 103), payout)
	b.TxE(103, 105, "pXBT", alice, Conv(A, USD, 500*fct, XBT))
	b.OPR(105, 25, hprice(seed, 105), payout)
	spr(105)
	b.TxE(106, 106, "pXBT to the all-zero address before 2.0.2: destroyed", alice, Xfer(A, XBT, 3e5, zero))
	b.TxE(106, 106, "pFCT to the all-zero address before 2.0.2: destroyed", alice, Xfer(A, FCT, 7*fct, zero))
	b.TxE(107, 107, "pFCT to the 2.0.2 burn address while it is an ordinary one", alice, Xfer(A, FCT, 9*fct, BurnAddr()))
	b.TxE(107, 107, "pUSD to the 2.0.2 burn address", alice, Xfer(A, USD, 11*fct, BurnAddr()))
	b.OPR(108, 25, hprice(seed, 108), payout)
	spr(108)
	b.OPR(110, 25, hprice(seed, 110), payout) // paid again in the zeroing block (after the zeroing)
	spr(110)
	b.TxE(110, 110, "transfer in the zeroing block", alice, Xfer(A, FCT, fct, zero))
	b.TxE(112, 113, "conversion across", alice, Conv(A, FCT, 10*fct, USD))
	b.OPR(113, 25, hprice(seed, 113), payout)
	b.TxE(115, 115, "last transfer to the burn address as an ordinary address", alice, Xfer(A, FCT, fct, BurnAddr()))
	b.OPR(116, 25, hprice(seed, 116), payout)
	spr(116)
	b.TxE(116, 116, "transfer to the burn address in its zeroing block: destroyed", alice, Xfer(A, FCT, 2*fct, BurnAddr()))
	b.TxE(116, 116, "to the all-zero address in 2.0.2: an ordinary address now", alice, Xfer(A, USD, 5*fct, zero))
	b.TxE(117, 117, "0 PEG to the burn address", alice, Xfer(A, PEG, 0, BurnAddr()))
	b.OPR(120, 25, hprice(seed, 120), payout)
	b.OPR(124, 25, hprice(seed, 124), payout)
	b.OPR(126, 25, hprice(seed, 126), payout)
	// 127..146: blocks without any entry on the three chains; 144 is a snapshot and developer-payout height all
	// the same (the schedule goes by the height alone: 2000 PEG x 144 to the developers, stakes valued at the most
	// recent rates)
	var all []uint32
	for h := uint32(105); h <= 128; h++ {
		all = append(all, h)
	}
	all = append(all, 143, 144, 145)
	b.Dump(all...)
	return b.Finish()
}

func init() { Register("zerocollide", buildZeroCollide) }

// zerocollide: the mock transaction id of the pre-2.0.2 zeroing row of ticker j
// is `height - j`. With V20DevRewards = 294 the row of j = 6 uses the id of the
// staking payout of height 288, transaction index 6; that snapshot paid 9
// holders, so PRIMARY KEY(entry_hash, tx_index) of pn_history_transaction
// refuses the row, NullifyBurnAddress returns (its caller ignores the result)
// and the tickers 7..62 are never looked at. The all-zero address holds pXBT
// (ticker 18) by then: it keeps it.
func buildZeroCollide(seed int64) (*Scenario, error) {
	s := Sched(100, 101, 101, 101, 101, 101, 101, 104, 294, 300, 310, 320, 330)
	b := NewB(seed, s, 297)
	rng := b.Rng
	FCT, USD, XBT := fat2.PTickerFCT, fat2.PTickerUSD, fat2.PTickerXBT
	alice := Key("alice", 0)
	A := alice.FAAddress()
	zero := mustFA(ZeroAddrFA)
	b.Burn(101, alice, 5000*fct+uint64(rng.Intn(1000)))
	for i := 0; i < 9; i++ {
		b.Burn(102, Key("staker", i), uint64(10+i)*fct)
	}
	b.OPR(105, 25, hprice(seed, 105), nil)
	b.TxE(105, 106, "pUSD", alice, Conv(A, FCT, 1000*fct, USD))
	b.OPR(106, 25, hprice(seed, 106), nil)
	b.TxE(106, 107, "pXBT", alice, Conv(A, USD, 500*fct, XBT))
	b.OPR(107, 25, hprice(seed, 107), nil)
	b.TxE(108, 108, "pXBT to the all-zero address", alice, Xfer(A, XBT, 3e5, zero))
	b.OPR(144, 25, hprice(seed, 144), nil)
	b.OPR(288, 25, hprice(seed, 288), nil) // pre-2.0.2 snapshot: must be rated
	b.OPR(294, 25, hprice(seed, 294), nil)
	b.Dump(287, 288, 289, 293, 294, 295)
	return b.Finish()
}
