package scen

import (
	"github.com/pegnet/pegnetd/fat/fat2"
)

func init() { Register("align", buildAlign) }

// align: activation heights that fall ON the 144-block cadence (mainnet's do not): the first
// developer payout height is the activation of the developer rewards itself (144), the 2.0.2
// activation (288) is a payout height, so is the mint height (432); the burn of the mint is at 433.
//
//	144  V20DevRewardsHeightActivation: zeroing of the old burn address AND snapshot AND developer
//	     payout (2000 PEG in total) in one block
//	288  V202EnhanceActivation: zeroing of the new burn address AND snapshot AND the first developer
//	     payout of 2000 PEG x 144
//	432  V204EnhanceActivation: the mint AND snapshot AND developer payout
func buildAlign(seed int64) (*Scenario, error) {
	s := Sched(100, 101, 101, 101, 101, 101, 101, 104, 144, 288, 432, 433, 500)
	b := NewB(seed, s, 435)
	rng := b.Rng
	FCT, USD := fat2.PTickerFCT, fat2.PTickerUSD
	alice, bob := Key("alice", 0), Key("bob", 0)
	A, Bo := alice.FAAddress(), bob.FAAddress()
	stakers := Stakers("miner", 26)
	rate := func(h uint32) { b.OPR(h, 25+rng.Intn(2), hprice(seed, h), nil) }
	b.Burn(101, alice, 5000*fct+uint64(rng.Intn(1000)))
	b.Burn(102, bob, 3000*fct)
	rate(103)
	b.Tx(103, bob, Xfer(Bo, FCT, 10*fct, BurnAddr())) // credited before 2.0.2: zeroed at 288
	rate(105)
	b.TxE(105, 106, "alice gets pUSD", alice, Conv(A, FCT, 1000*fct, USD))
	rate(106)
	for _, h := range []uint32{143, 144, 145, 287, 288, 289, 431, 432, 433, 434} {
		rate(h)
		b.SPR(h, hprice(seed, h), stakers)
	}
	b.Tx(200, alice, Xfer(A, USD, 5*fct, BurnAddr()))
	b.Tx(300, alice, Xfer(A, USD, 5*fct, BurnAddr())) // from 2.0.2 on: destroyed
	// the mint address also holds assets that are NOT minted (pFCT) and more of one that is (pUSD):
	// the burn at 433 takes what is left of the listed assets only
	b.Tx(301, alice, Xfer(A, FCT, 7*fct+uint64(rng.Intn(100)), MintAddr()))
	// ... and it holds some of a MINTED asset already before the mint (anyone can send to it): the mint adds the listed
	// supply on top, it does not top the balance up to it (seeded C15-h)
	b.Tx(302, alice, Xfer(A, USD, 2*fct+uint64(rng.Intn(50)), MintAddr()))
	b.Tx(432, bob, Xfer(Bo, FCT, 3*fct, MintAddr()))
	b.Tx(433, alice, Xfer(A, USD, fct, MintAddr()))
	b.Dump(143, 144, 145, 287, 288, 289, 431, 432, 433)
	return b.Finish()
}
