package scen

import (
	"fmt"

	"github.com/pegnet/pegnetd/fat/fat2"
)

func init() { Register("admission", buildAdmission) }

// admission: which (source, destination) pairs are admitted at which height.
// Every block 102..157 is rated (OPR only), so a conversion entered at h-1
// executes at h. For each of the five activations that change admission or
// pricing --
//
//	112 OneWaypFCTConversions        (destination pFCT refused: -3)
//	120 PegnetConversionLimit / free floating PEG (PEG requests go through the bank)
//	132 2.0                          (destination PEG invalid: -2)
//	144 OneWaySmallAssets / 2.0.2    (small-cap destinations refused: -5; also a snapshot height)
//	152 PIP-10                       (averages enter the price)
//
// -- conversions execute at act-1, act and act+1: always the critical pairs
// (anything -> the restricted destination, the restricted asset -> anything)
// plus a seed-chosen slice of the (source, destination) matrix, one conversion
// per batch. Sources are the assets alice acquires at 103..104 (a seed-chosen
// set of V2 assets, always with pFCT, PEG, pUSD, pDCR, pRVN); destinations
// range over all 62 tickers, so assets that have no rate yet (V4 / V5
// additions) exercise the zero-rate refusal (-4).
func buildAdmission(seed int64) (*Scenario, error) {
	s := Sched(100, 101, 101, 101, 112, 120, 124, 132, 138, 144, 160, 161, 152)
	b := NewB(seed, s, 157)
	rng := b.Rng
	alice := Key("alice", 0)
	A := alice.FAAddress()
	FCT, PEG, USD := fat2.PTickerFCT, fat2.PTickerPEG, fat2.PTickerUSD
	DCR, RVN := fat2.PTickerDCR, fat2.PTickerRVN

	b.Burn(101, alice, 100000*fct+uint64(rng.Intn(1000)))
	for h := uint32(102); h <= 157; h++ {
		b.OPR(h, 25, hprice(seed, h), nil)
	}
	// sources
	sources := []fat2.PTicker{FCT, PEG, USD, DCR, RVN}
	for len(sources) < 10 {
		t := fat2.PTicker(2 + rng.Intn(29)) // pUSD..pDCR: the V2 assets
		dup := false
		for _, x := range sources {
			dup = dup || x == t
		}
		if !dup {
			sources = append(sources, t)
		}
	}
	for _, t := range sources {
		if t == FCT {
			continue
		}
		b.TxE(103, 104, "acquire "+t.String(), alice, Conv(A, FCT, 5000*fct, t))
	}
	b.Note("admission: sources %v", sources)

	one := func(h uint32, src, dst fat2.PTicker, want int64, wantKnown bool) {
		if src == dst {
			return
		}
		amt := uint64(1e6 + rng.Intn(1000))
		label := fmt.Sprintf("%s->%s entered at %d", src, dst, h)
		if wantKnown {
			b.TxE(h, want, label, alice, Conv(A, src, amt, dst))
		} else {
			b.Tx(h, alice, Conv(A, src, amt, dst))
		}
	}
	slice := func(h uint32, n int) {
		for i := 0; i < n; i++ {
			one(h, sources[rng.Intn(len(sources))], fat2.PTicker(1+rng.Intn(62)), 0, false)
		}
	}
	// want(exec height, dst): the status of a funded conversion between rated assets
	for _, act := range []uint32{112, 120, 132, 144, 152} {
		for _, exec := range []uint32{act - 1, act, act + 1} {
			h := exec - 1
			ok := int64(exec)
			switch act {
			case 112:
				w := ok
				if exec >= 112 {
					w = -3
				}
				one(h, USD, FCT, w, true)
				one(h, PEG, FCT, w, true)
				one(h, FCT, USD, ok, true)
			case 120:
				one(h, USD, PEG, ok, true)
				one(h, FCT, PEG, ok, true)
				one(h, PEG, USD, ok, true)
			case 132:
				w := ok
				if exec >= 132 {
					w = -2
				}
				one(h, USD, PEG, w, true)
				one(h, DCR, PEG, w, true)
				one(h, PEG, USD, ok, true)
				w3 := int64(-3)
				one(h, USD, FCT, w3, true)
			case 144:
				w := ok
				if exec >= 144 {
					w = -5
				}
				one(h, USD, DCR, w, true)
				one(h, FCT, RVN, w, true)
				one(h, USD, fat2.PTickerNGN, w, true)
				one(h, DCR, USD, ok, true)
				one(h, RVN, DCR, w, true)
				wp := int64(-2)
				one(h, USD, PEG, wp, true)
			case 152:
				one(h, USD, fat2.PTickerEUR, ok, true)
				one(h, FCT, USD, ok, true)
				one(h, USD, DCR, -5, true)
			}
			slice(h, 6)
		}
	}
	// the rules apply to EVERY transaction of a batch: the forbidden conversion in second place
	b.TxE(113, -3, "second transaction converts into pFCT", alice, Conv(A, USD, 1000+uint64(rng.Intn(100)), DCR), Conv(A, USD, 1000, FCT))
	b.TxE(114, -3, "a transfer, then a conversion into pFCT", alice, Xfer(A, USD, 777, Key("bob", 0).FAAddress()), Conv(A, PEG, 1000, FCT))
	b.TxE(146, -5, "second transaction converts into a small-cap asset", alice, Conv(A, USD, 1000+uint64(rng.Intn(100)), fat2.PTickerEUR), Conv(A, USD, 1000, DCR))
	var all []uint32
	for _, act := range []uint32{112, 120, 132, 144, 152} {
		all = append(all, act-1, act, act+1)
	}
	b.Dump(all...)
	return b.Finish()
}
