package scen

import (
	"fmt"
	"math/rand"

	"verifharness/chain"

	"github.com/pegnet/pegnetd/fat/fat2"
)

func init() { Register("fuzz", buildFuzz) }

// fuzz: a seed-driven random walk instead of a scripted chain.  Everything is drawn
// from one PRNG state derived from the seed:
//
//   - the schedule: PegnetActivation 100..139, every activation 2..9 blocks after the
//     previous one in mainnet order (every era is crossed, the snapshot heights 144 and
//     288 fall into a different era for different seeds), PIP-10 last;
//   - per block: rated or not (legacy era: OPR; 2.0: OPR+SPR / SPR only / OPR only; a
//     few OPR sets too small to have winners, a few SPR sets a fraction of a per cent off),
//     burns in the legacy era, 0..5 transaction-chain entries;
//   - per entry: a transfer (1..3 outputs: another actor, the sender itself, the same
//     receiver twice, the burn / all-zero / mint address), a conversion between assets
//     the sender probably holds and a random destination (pFCT, PEG and small-cap
//     destinations included), a batch of 2..4 of those on one input address, a copy of
//     an earlier entry, an RCD-e signed one; amounts from {0, 1, small, about the
//     estimated balance, estimate+-1, far too much}.
//
// The generator keeps a rough estimate of what each actor holds (it assumes its own
// entries execute) so that most entries are valid and funded; nothing depends on the
// estimate being right.  What it steers clear of are the blocks NO node can apply on
// the unchanged code (recorded findings / closed-era quirks the model mirrors as
// "stuck"): a PEG request sharing a batch with anything else before 2.0, an unrated or
// band-failing snapshot block before 2.0.2, and a grader-version ladder that skips v2.
func buildFuzz(seed int64) (*Scenario, error) {
	r0 := rand.New(rand.NewSource(seed*7919 + 17))
	h0 := uint32(100 + r0.Intn(40))
	cur := h0
	next := func() uint32 { cur += uint32(2 + r0.Intn(8)); return cur }
	v2 := next()
	txconv := next()
	pegprice := next()
	oneway := next()
	limit := next()
	v4 := next()
	v20 := next()
	dev := next()
	v202 := next()
	v204 := next()
	v204burn := next()
	pip10 := next()
	s := Sched(h0, v2, txconv, pegprice, oneway, limit, v4, v20, dev, v202, v204, v204burn, pip10)
	last := pip10 + 14
	if seed%4 == 0 && last < 292 {
		last = 292 // every fourth seed runs on to the second snapshot height
	}
	b := NewB(seed, s, last)
	rng := b.Rng
	b.Note("fuzz schedule: start %d v2 %d tx %d pegprice %d onewayFCT %d limit %d v4 %d v20 %d dev %d v202 %d v204 %d v204burn %d pip10 %d last %d",
		h0, v2, txconv, pegprice, oneway, limit, v4, v20, dev, v202, v204, v204burn, pip10, last)

	// ---- actors -------------------------------------------------------------------------
	nAct := 6
	keys := make([]chain.SignerKey, 0, nAct+1)
	for i := 0; i < nAct; i++ {
		keys = append(keys, Key("fz", i))
	}
	keys = append(keys, EthKey("fzeth", 0))
	addr := func(i int) [32]byte { return keys[i].FAAddress() }
	est := make([]map[fat2.PTicker]uint64, len(keys))
	for i := range est {
		est[i] = map[fat2.PTicker]uint64{}
	}
	FCT, USD, PEG := fat2.PTickerFCT, fat2.PTickerUSD, fat2.PTickerPEG
	dests := []fat2.PTicker{USD, USD, FCT, PEG, fat2.PTickerEUR, fat2.PTickerJPY, fat2.PTickerXBT, fat2.PTickerXAU,
		fat2.PTickerDCR, fat2.PTickerBNB, fat2.PTickerGBP, fat2.PTickerETH, fat2.PTickerLTC, fat2.PTickerADA}
	special := [][32]byte{BurnAddr(), mustFA(ZeroAddrFA), MintAddr()}
	stakers := Stakers("miner", 27)

	held := func(i int) []fat2.PTicker {
		var out []fat2.PTicker
		for t := fat2.PTicker(1); t < fat2.PTickerMax; t++ {
			if est[i][t] > 0 {
				out = append(out, t)
			}
		}
		return out
	}
	pickAmount := func(e uint64) uint64 {
		switch k := rng.Intn(40); {
		case k == 0:
			return 0
		case k == 1:
			return 1
		case k == 2 || k == 3:
			return e
		case k == 4:
			return e + 1
		case k == 5 && e > 0:
			return e - 1
		case k == 6:
			return 1 << 62
		case k < 13 && e > 3:
			return e/2 + uint64(rng.Int63n(int64(e/2)))
		default:
			m := e / 8
			if m < 2 {
				m = 2
			}
			return 1 + uint64(rng.Int63n(int64(m)))
		}
	}
	priceOf := func(t fat2.PTicker) uint64 {
		if t == PEG {
			return BasePrice("PEG")
		}
		if n := t.String(); len(n) > 1 {
			return BasePrice(n[1:])
		}
		return 1e8
	}

	// one transaction of actor i; peg says whether a conversion into PEG may be produced
	live, legacyNow := false, true // entries leave a trace only from TransactionConversionActivation on
	mkTx := func(i int, pegOK bool) (fat2.Transaction, bool) {
		hs := held(i)
		var src fat2.PTicker
		if len(hs) == 0 || rng.Intn(25) == 0 {
			src = dests[rng.Intn(len(dests))]
		} else {
			src = hs[rng.Intn(len(hs))]
		}
		e := est[i][src]
		amt := pickAmount(e)
		if rng.Intn(100) < 55 { // transfer
			nout := 1 + rng.Intn(3)
			if amt < uint64(nout) {
				nout = 1
			}
			outs := make([]fat2.AddressAmountTuple, 0, nout)
			rest := amt
			var firstTo [32]byte
			for k := 0; k < nout; k++ {
				var to [32]byte
				switch w := rng.Intn(20); {
				case w == 0:
					to = addr(i) // the sender itself
				case w == 1:
					to = special[rng.Intn(len(special))]
				case w == 2 && k > 0:
					to = firstTo // the same receiver twice
				default:
					to = addr(rng.Intn(len(keys)))
				}
				if k == 0 {
					firstTo = to
				}
				part := rest
				if k < nout-1 && rest > 1 {
					part = uint64(rng.Int63n(int64(rest)))
				}
				rest -= part
				outs = append(outs, Out(to, part))
				if amt <= e && live {
					for j := range keys {
						if addr(j) == to {
							est[j][src] += part
						}
					}
				}
			}
			if amt <= e && live {
				est[i][src] -= amt
			}
			return XferN(addr(i), src, outs...), false
		}
		var dst fat2.PTicker
		for {
			dst = dests[rng.Intn(len(dests))]
			if rng.Intn(12) == 0 {
				dst = fat2.PTicker(1 + rng.Intn(int(fat2.PTickerMax)-1))
			}
			if dst != src && (pegOK || dst != PEG) {
				break
			}
		}
		if amt <= e && live && (legacyNow || dst != PEG) {
			est[i][src] -= amt
			ps, pd := priceOf(src), priceOf(dst)
			if pd > 0 && amt < 1<<40 {
				est[i][dst] += amt * (ps / 1e4) / (pd / 1e4) * 9 / 10
			}
		}
		return Conv(addr(i), src, amt, dst), dst == PEG
	}

	type ref struct {
		h   uint32
		idx int
	}
	var written []ref
	kinds := map[string]int{}

	type pend struct {
		i   int
		amt uint64
	}
	var burnt []pend
	for h := b.First; h <= last; h++ {
		legacy := h < v20
		live, legacyNow = h >= txconv, legacy
		for _, p := range burnt { // a burn is credited after the block's transactions
			est[p.i][FCT] += p.amt
		}
		burnt = nil
		sparse := h > pip10+14 && h < 280 // the long stretch up to the second snapshot: mostly empty
		// ---- grading --------------------------------------------------------------------
		snapNeedsRates := h%144 == 0 && h >= v20 && h < v202
		rated := rng.Intn(10) < 6
		if sparse {
			rated = rng.Intn(10) < 2
		}
		if h == v2 || snapNeedsRates || h == b.First {
			rated = true
		}
		if rated {
			n := 25 + rng.Intn(3)
			if h < v2 {
				n = 11 + rng.Intn(3)
			}
			if rng.Intn(20) == 0 && h != v2 && !snapNeedsRates {
				n = 9 // graded, no winners
			}
			switch {
			case legacy:
				b.OPR(h, n, hprice(seed, h), nil)
				kinds["opr"]++
			case snapNeedsRates:
				b.OPR(h, n, hprice(seed, h), nil)
				b.SPR(h, hprice(seed, h), stakers)
				kinds["opr+spr"]++
			default:
				switch rng.Intn(4) {
				case 0:
					b.OPR(h, n, hprice(seed, h), nil)
					kinds["opr"]++
				case 1:
					b.SPR(h, hprice(seed, h), stakers)
					kinds["spr"]++
				default:
					b.OPR(h, n, hprice(seed, h), nil)
					sp := hprice(seed, h)
					if rng.Intn(6) == 0 {
						sp = Scale(sp, 100003, 100000) // 0.003 % off: inside every band
					}
					b.SPR(h, sp, stakers)
					kinds["opr+spr"]++
				}
			}
		}
		// ---- burns ------------------------------------------------------------------------
		if legacy && (h < b.First+3 || rng.Intn(8) == 0) {
			for k := 0; k < 1+rng.Intn(3); k++ {
				i := rng.Intn(nAct)
				amt := uint64(200+rng.Intn(3000))*fct + uint64(rng.Intn(1000))
				b.Burn(h, keys[i], amt)
				burnt = append(burnt, pend{i, amt})
				kinds["burn"]++
			}
		}
		// ---- transaction chain --------------------------------------------------------------
		nent := []int{0, 0, 0, 1, 1, 1, 2, 2, 3, 5}[rng.Intn(10)]
		if sparse && rng.Intn(10) < 7 {
			nent = 0
		}
		for k := 0; k < nent; k++ {
			if len(written) > 0 && rng.Intn(12) == 0 {
				w := written[rng.Intn(len(written))]
				b.Repeat(h, w.h, w.idx)
				kinds["repeat"]++
				continue
			}
			i := rng.Intn(len(keys))
			if i == len(keys)-1 && rng.Intn(3) != 0 { // the RCD-e actor is rarer
				i = rng.Intn(nAct)
			}
			ntx := 1
			if rng.Intn(4) == 0 {
				ntx = 2 + rng.Intn(3)
			}
			var txs []fat2.Transaction
			hasPeg := false
			if legacy && h+1 >= limit && rng.Intn(3) == 0 {
				// the PEG bank: an entry of 1..3 requests (nothing else in it), from whatever the actor holds
				hs := held(i)
				for j := 0; j < 1+rng.Intn(3) && len(hs) > 0; j++ {
					src := hs[rng.Intn(len(hs))]
					if src == PEG {
						continue
					}
					amt := pickAmount(est[i][src] / 4)
					if amt <= est[i][src] {
						est[i][src] -= amt
					}
					txs = append(txs, Conv(addr(i), src, amt, PEG))
					hasPeg = true
				}
				ntx = len(txs)
			}
			for j := 0; j < ntx && !hasPeg; j++ {
				// before 2.0 a conversion into PEG never shares a batch with anything else
				pegOK := !legacy || ntx == 1
				t, isPeg := mkTx(i, pegOK)
				if isPeg && ntx > 1 && legacy {
					continue
				}
				txs = append(txs, t)
				if isPeg && ntx == 1 {
					hasPeg = true
				}
			}
			if len(txs) == 0 {
				continue
			}
			ntx = len(txs)
			idx := b.Tx(h, keys[i], txs...)
			written = append(written, ref{h, idx})
			switch {
			case ntx > 1:
				kinds["batch"]++
			case len(txs[0].Transfers) > 0:
				kinds["transfer"]++
			case hasPeg:
				kinds["peg-conversion"]++
			default:
				kinds["conversion"]++
			}
		}
	}
	b.Dump(v20-1, v202+1, pip10+1)
	b.Note("fuzz kinds: %s", fmt.Sprint(kinds))
	return b.Finish()
}
