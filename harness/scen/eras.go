package scen

import (
	"verifharness/chain"

	"github.com/pegnet/pegnetd/fat/fat2"
	"github.com/pegnet/pegnetd/node"
)

func init() { Register("eras", buildEras) }

// ErasSchedule: every activation between 100 and 176 in mainnet order, the
// first snapshot height (144) inside the 2.0 era, the second (288) after the
// developer rewards and 2.0.2, PIP-10 at 290, chain end 300.
func ErasSchedule() chain.Schedule {
	return Sched(100, 106, 110, 114, 118, 122, 128, 136, 150, 160, 166, 170, 290)
}

const fct = uint64(1e8) // one whole unit of any asset

// hprice: the price list of block h for a seed: BasePrice moved by up to 5 %,
// differently in every block (so that averages and spot rates differ).
func hprice(seed int64, h uint32) PriceFn {
	num := 1000 + uint64((int64(h)*37+seed*11)%50)
	return Prices(num, 1000, nil)
}

func buildEras(seed int64) (*Scenario, error) {
	s := ErasSchedule()
	b := NewB(seed, s, 300)
	rng := b.Rng
	jit := func(n int) uint64 { return uint64(rng.Intn(n)) }

	alice, bob, carol, dave := Key("alice", 0), Key("bob", 0), Key("carol", 0), Key("dave", 0)
	eth := EthKey("eth", 0)
	x1, x2, x3 := Key("holder", 1), Key("holder", 2), Key("holder", 3)
	A, Bo, C, D, E := alice.FAAddress(), bob.FAAddress(), carol.FAAddress(), dave.FAAddress(), eth.FAAddress()
	FCT, USD, PEG := fat2.PTickerFCT, fat2.PTickerUSD, fat2.PTickerPEG
	nrec := func() int { return 25 + rng.Intn(3) } // OPR records per set (25 winners)
	richStakers := Stakers("miner", 27)            // the miners double as stakers: they hold PEG
	poorStakers := Stakers("poor", 12)             // never hold PEG
	opr := func(h uint32) { b.OPR(h, nrec(), hprice(seed, h), nil) }
	spr := func(h uint32) { b.SPR(h, hprice(seed, h), richStakers) }

	// ---- 101..105: grading v1, no transactions yet -------------------------------
	// 101: one valid burn and near-burns failing exactly one condition each
	aliceBurn := 1000*fct + jit(1000)
	b.Burn(101, alice, aliceBurn)
	nb := func(i int) chain.SignerKey { return Key("nearburn", i) }
	burnEC := chain.FTxIO{Address: node.BurnRCD, Amount: 0}
	blk := b.Blk(101)
	blk.Factoid = append(blk.Factoid,
		// two EC outputs
		chain.FTx{FCTInputs: []chain.FTxIO{{Address: nb(0).FAAddress(), Amount: 5 * fct}}, ECOutputs: []chain.FTxIO{burnEC, burnEC}},
		// two FCT inputs
		chain.FTx{FCTInputs: []chain.FTxIO{{Address: nb(1).FAAddress(), Amount: 5 * fct}, {Address: nb(11).FAAddress(), Amount: fct}}, ECOutputs: []chain.FTxIO{burnEC}},
		// an FCT output
		chain.FTx{FCTInputs: []chain.FTxIO{{Address: nb(2).FAAddress(), Amount: 5 * fct}}, FCTOutputs: []chain.FTxIO{{Address: nb(12).FAAddress(), Amount: fct}}, ECOutputs: []chain.FTxIO{burnEC}},
		// EC output to another key
		chain.FTx{FCTInputs: []chain.FTxIO{{Address: nb(3).FAAddress(), Amount: 5 * fct}}, ECOutputs: []chain.FTxIO{{Address: nb(13).FAAddress(), Amount: 0}}},
		// non-zero EC amount
		chain.FTx{FCTInputs: []chain.FTxIO{{Address: nb(4).FAAddress(), Amount: 5 * fct}}, ECOutputs: []chain.FTxIO{{Address: node.BurnRCD, Amount: 1}}},
		// an FCT output of amount 0 (the outputs add up to nothing, but there is one)
		chain.FTx{FCTInputs: []chain.FTxIO{{Address: nb(6).FAAddress(), Amount: 7 * fct}}, FCTOutputs: []chain.FTxIO{{Address: nb(16).FAAddress(), Amount: 0}}, ECOutputs: []chain.FTxIO{burnEC}},
		// no EC output at all (plain transfer)
		chain.FTx{FCTInputs: []chain.FTxIO{{Address: nb(5).FAAddress(), Amount: 5 * fct}}, FCTOutputs: []chain.FTxIO{{Address: nb(15).FAAddress(), Amount: 5 * fct}}},
	)
	b.OPR(102, 11+rng.Intn(3), hprice(seed, 102), nil) // v1: 10 winners, names PNT/XPD/XPT are no tickers
	bobBurn := 300 * fct
	b.Burn(103, bob, bobBurn)
	b.Blk(103).Factoid[0].TimestampSaltMs = uint64(b.TS(103))*1000 + 7*60*1000 + 3500 // 7 min 3.5 s into the block
	b.Burn(103, alice, 10*fct)                                                        // a second burn of the same address
	b.Burn(103, bob, 3*fct)                                                           // bob burns twice in ONE block, and a third time
	b.Burn(103, bob, 2*fct)
	bobBurn += 5 * fct
	aliceFCT := aliceBurn + 10*fct
	b.OPR(104, 9, hprice(seed, 104), nil) // nine records: graded, no winners
	garbageOPR(b, 104)
	b.OPR(105, 12, hprice(seed, 105), nil)

	// ---- 106..109: grading v2 ----------------------------------------------------
	b.OPR(107, nrec(), hprice(seed, 107), nil) // previous winners: the 10 of v1
	// a valid transfer before TransactionConversionActivation leaves no trace
	b.TxE(108, NoRow, "transfer before tx activation", alice, Xfer(A, FCT, fct, Bo))
	b.OPR(109, nrec(), hprice(seed, 109), nil)

	// ---- 110..113: transactions; PEG price is zero --------------------------------
	b.TxE(110, 110, "plain transfer", alice, Xfer(A, FCT, 5*fct, Bo))
	aliceFCT -= 5 * fct
	bobFCT := bobBurn + 5*fct
	b.TxE(110, 110, "self transfer", alice, Xfer(A, FCT, fct, A))
	// three transactions of one batch drawing on the same balance, together exactly the balance
	p1, p2 := bobFCT/3, bobFCT/4
	b.TxE(110, 110, "batch spending the whole balance", bob,
		Xfer(Bo, FCT, p1, C), Xfer(Bo, FCT, p2, C), Xfer(Bo, FCT, bobFCT-p1-p2, C))
	carolFCT := bobFCT
	bobFCT = 0
	b.TxE(110, 110, "amount 0 from an unknown address", dave, Xfer(D, FCT, 0, A))
	b.TxE(110, -1, "1 from an address holding nothing", dave, Xfer(D, FCT, 1, A))
	garbageTx(b, 110, alice)

	b.TxE(111, -1, "bal+1", carol, Xfer(C, FCT, carolFCT+1, A))
	b.TxE(111, 111, "bal-1", carol, Xfer(C, FCT, carolFCT-1, A))
	aliceFCT += carolFCT - 1
	b.TxE(111, -1, "batch overdrawing in its second transaction", alice, Xfer(A, FCT, aliceFCT-5, Bo), Xfer(A, FCT, 6, Bo))
	k1 := b.TxE(111, 113, "conversion held to the next rated block", alice, Conv(A, FCT, 300*fct, USD))
	b.TxE(111, -4, "PEG while its price is zero", alice, Conv(A, FCT, fct, PEG))
	b.TxE(111, -1, "conversion without funds", dave, Conv(D, FCT, 1, USD))
	b.TxE(112, 112, "bal", carol, Xfer(C, FCT, 1, A)) // 112 has no OPR entries
	aliceFCT++
	b.TxE(112, 112, "transfer while a conversion of the same address is held", alice, Xfer(A, FCT, 50*fct, Bo))
	aliceFCT -= 50 * fct
	// several receivers, one of them twice, one the sender itself; entries under later minute markers
	erin := Key("erin", 0)
	Er := erin.FAAddress()
	i1 := b.TxAt(112, 3, b.TS(112), alice, XferN(A, FCT, Out(Bo, fct), Out(Er, 2*fct), Out(Bo, 3*fct), Out(A, 4*fct), Out(Er, 30*fct)))
	b.Expect(112, i1, 112, "five outputs: a receiver twice, the sender itself (minute 3)")
	// in-batch credit then debit: the second transaction spends what the first sent to the sender itself
	i2 := b.TxAt(112, 7, b.TS(112)+400, erin, Xfer(Er, FCT, 32*fct, Er), Xfer(Er, FCT, 32*fct, Bo))
	b.Expect(112, i2, 112, "self transfer of everything, then everything to bob (minute 7)")
	// debit then an uncovered credit-free debit: rejected by the simulation
	i3 := b.TxAt(112, 10, b.TS(112)+600, bob, Xfer(Bo, FCT, 30*fct, A), Xfer(Bo, FCT, 30*fct, Bo), Xfer(Bo, FCT, 30*fct, A))
	b.Expect(112, i3, 112, "30 out, 30 to itself, 30 out again with 86 at hand (minute 10)")
	i4 := b.TxAt(112, 10, b.TS(112)+600, bob, Xfer(Bo, FCT, 20*fct, A), Xfer(Bo, FCT, 5*fct, Bo), Xfer(Bo, FCT, 7*fct, A))
	b.Expect(112, i4, -1, "20 out, 5 to itself, 7 out with 26 at hand: every transaction is covered, the batch is not")
	// a conversion whose output is spent by the next transaction of the batch
	b.TxE(113, 114, "conversion of amount 0 by an address holding nothing", erin, Conv(Er, FCT, 0, USD))
	opr(113) // executes the batches held at 111
	aliceFCT -= 300 * fct
	_ = k1

	// ---- 114..117: PEG priced by the equation ---------------------------------------
	opr(114)
	b.TxE(114, 115, "into PEG, equation phase", alice, Conv(A, USD, 50*fct, PEG))
	b.TxE(114, 115, "into pFCT before it becomes one-way", alice, Conv(A, USD, 4*fct, FCT))
	b.TxE(114, 115, "two conversions in one batch", alice, Conv(A, USD, 10*fct, fat2.PTickerEUR), Conv(A, FCT, 2*fct, fat2.PTickerXBT))
	b.TxE(114, 115, "conversion and transfer in one batch (held as a whole)", alice, Conv(A, USD, fct, fat2.PTickerJPY), Xfer(A, FCT, 3*fct, C))
	opr(115)
	b.TxE(116, -3, "into pFCT, executed after OneWaypFCTConversions", alice, Conv(A, USD, 2*fct, FCT))
	// frank gets exactly 100 pUSD and 10 pFCT, then spends all pUSD, converts, and spends part of the proceeds
	frank := Key("frank", 0)
	Fr := frank.FAAddress()
	b.TxE(115, 115, "100 pUSD and 10 pFCT for frank", alice, Xfer(A, USD, 100*fct, Fr), Xfer(A, FCT, 10*fct, Fr))
	b.TxE(116, 118, "spend all pUSD, convert pFCT into pUSD, spend 30 of the proceeds", frank,
		Xfer(Fr, USD, 100*fct, Bo), Conv(Fr, FCT, 10*fct, USD), Xfer(Fr, USD, 30*fct, Bo))
	// 117: no entries at all

	// ---- 118..121: pFCT one-way -------------------------------------------------------
	opr(118)
	b.TxE(118, 119, "out of pFCT is still fine", alice, Conv(A, FCT, 5*fct, USD))
	opr(119)
	// repetitions: an executed entry, a rejected entry, the same new entry twice in one block
	b.Expect(120, b.Repeat(120, 110, 0), 110, "executed entry repeated later")
	b.Expect(120, b.Repeat(120, 116, 0), -3, "rejected entry repeated later")
	t6 := b.TxE(120, 120, "new transfer ...", bob, Xfer(Bo, FCT, 7*fct, C))
	b.Expect(120, b.Repeat(120, 120, t6), 120, "... repeated in the same block")
	b.TxE(120, 120, "pUSD to carol for later", alice, Xfer(A, USD, 300*fct, C))
	b.TxE(121, 122, "PEG request entered before the limit, executed under it", alice, Conv(A, USD, 3*fct, PEG))

	// ---- 122..127: conversion limit, free floating PEG, grader v3, per-height banks ----
	opr(122)
	b.TxE(122, 123, "PEG request above the 5000 PEG bank", alice, Conv(A, USD, 400*fct, PEG)) // 0.05 USD/PEG: 8000 PEG
	opr(123)
	b.TxE(123, 125, "two requests of one height sharing its bank (1)", alice, Conv(A, USD, 100*fct, PEG))
	b.TxE(123, 125, "two requests of one height sharing its bank (2)", carol, Conv(C, USD, 200*fct, PEG))
	b.TxE(124, 125, "request of the next height: its own bank", alice, Conv(A, USD, 10*fct, PEG)) // 124 has no OPR entries
	opr(125)
	k14 := b.TxE(126, 128, "request pending ...", alice, Conv(A, USD, 5*fct, PEG))
	b.TxE(126, 126, "pFCT to the RCD-e address", alice, Xfer(A, FCT, 40*fct, E))
	b.Expect(127, b.Repeat(127, 126, k14), 128, "... repeated while pending")
	b.TxE(127, NoRow, "RCD-e signature below the activation", eth, Xfer(E, FCT, fct, A))

	// ---- 128..135: V4 (grader v4, bank rows, RCD-e) -------------------------------------
	opr(128)
	b.TxE(128, NoRow, "RCD-e signature at the activation height itself", eth, Xfer(E, FCT, 2*fct, A))
	b.TxE(128, 129, "PEG request after V4", alice, Conv(A, USD, 20*fct, PEG))
	opr(129)
	b.TxE(129, 129, "RCD-e signature above the activation", eth, Xfer(E, FCT, 3*fct, A))
	b.TxE(129, 131, "RCD-e signed conversion", eth, Conv(E, FCT, 10*fct, USD))
	b.TxE(130, 131, "PEG request in a block without OPR entries", alice, Conv(A, USD, 7*fct, PEG))
	opr(131)
	opr(133)
	b.TxE(134, -2, "PEG request entered before 2.0, executed in it", alice, Conv(A, USD, 5*fct, PEG))
	b.Burn(135, carol, 7*fct) // the last height with burns
	b.Burn(136, carol, 9*fct) // ignored: no factoid block from 2.0 on

	// ---- 136..149: 2.0 (grader v5, SPR v5, V0 band) ---------------------------------------
	opr(136)
	spr(136)
	garbageSPR(b, 136)
	b.TxE(137, -2, "PEG request in 2.0", alice, Conv(A, USD, 5*fct, PEG))
	b.TxE(137, 138, "ordinary conversion in 2.0", alice, Conv(A, USD, 5*fct, fat2.PTickerXBT))
	spr(138) // SPR only
	opr(139) // OPR only
	opr(140)
	b.SPR(140, hprice(seed, 140), append(append([]chain.StakerKey{}, richStakers[:18]...), poorStakers...)) // too few PEG holders: no SPR winners
	b.TxE(141, 141, "pUSD to holder 1", alice, Xfer(A, USD, 25*fct, x1.FAAddress()))
	b.TxE(141, 141, "the same pUSD to holder 2", alice, Xfer(A, USD, 25*fct, x2.FAAddress()))
	b.TxE(141, 141, "pFCT to holder 3", alice, Xfer(A, FCT, 11*fct, x3.FAAddress()))
	b.TxE(142, 142, "to the 2.0.2 burn address before 2.0.2: an ordinary address", alice, Xfer(A, FCT, 2*fct, BurnAddr()))
	b.TxE(143, 144, "conversion pending over the snapshot", alice, Conv(A, FCT, 3*fct, USD))
	opr(144)
	spr(144)
	opr(146)
	b.SPR(146, Scale(hprice(seed, 146), 20001, 20000), richStakers) // 0.005 % off: inside the V0 band

	// ---- 150..159: developer rewards / SPR signatures (v6, 10 % band), old burn address zeroed
	opr(150)
	spr(150)
	b.TxE(152, 152, "PEG to the all-zero address before 2.0.2: destroyed", alice, Xfer(A, PEG, fct, mustFA(ZeroAddrFA)))
	opr(153)
	spr(153)
	b.TxE(157, 158, "into a small asset before it becomes one-way", alice, Conv(A, USD, 2*fct, fat2.PTickerDCR))
	spr(158)
	b.TxE(158, -5, "into a small asset, executed after the activation", alice, Conv(A, USD, 2*fct, fat2.PTickerDCR))

	// ---- 160..165: 2.0.2 (SPR v7, 25 % band, one-way small assets, burn address) ------------
	opr(160)
	spr(160)
	b.TxE(161, 161, "to the burn address in 2.0.2: destroyed", alice, Xfer(A, FCT, 2*fct, BurnAddr()))
	b.TxE(161, 162, "out of a small asset", alice, Conv(A, fat2.PTickerDCR, 1e6, USD))
	spr(162)
	// 164: pXBT out of band: its rate becomes 0; a conversion into it is refused
	b.TxE(163, -4, "into an asset whose rate was zeroed", alice, Conv(A, USD, fct, fat2.PTickerXBT))
	b.OPR(164, nrec(), Prices(1, 1, map[string]uint64{"XBT": BasePrice("XBT") * 2}), nil)
	b.SPR(164, Prices(1, 1, nil), richStakers)

	// ---- 166 mint, 170 burn of the mint ------------------------------------------------------
	spr(166)
	b.TxE(167, 168, "conversion after the mint", alice, Conv(A, FCT, fct, USD))
	opr(168)
	spr(170)
	b.TxE(172, 282, "conversion held over a hundred empty blocks", alice, Conv(A, FCT, fct, USD))

	// ---- 282..300: second snapshot, developer rewards, PIP-10 ----------------------------------
	for h := uint32(282); h <= 300; h++ {
		switch {
		case h == 285 || h == 294: // unrated
		case h%3 == 0:
			opr(h)
			spr(h)
		case h%3 == 1:
			spr(h)
		default:
			opr(h)
		}
	}
	b.TxE(287, 288, "conversion executed in the snapshot block", alice, Conv(A, FCT, fct, USD))
	b.TxE(289, 290, "first PIP-10 conversion", alice, Conv(A, FCT, 2*fct, USD))
	b.TxE(291, 292, "PIP-10 conversion back", alice, Conv(A, USD, 3*fct, fat2.PTickerBNB))
	b.TxE(293, 295, "PIP-10 over an unrated block", alice, Conv(A, USD, 3*fct, fat2.PTickerEUR), Conv(A, fat2.PTickerEUR, 1e6, fat2.PTickerJPY))
	b.TxE(298, 299, "PIP-10, RCD-e", eth, Conv(E, FCT, fct, fat2.PTickerXAU))
	b.TxE(300, 0, "still pending at the end", alice, Conv(A, FCT, fct, USD))
	_ = aliceFCT
	b.Dump(113, 123, 125, 131, 162, 164, 290)
	b.Note("eras: alice burns %d", aliceBurn)
	return b.Finish()
}
