// Package scen holds the scenario catalogue of the chain-level correspondence
// check: every scenario is an abstract chain (a []chain.AbsBlock plus an
// activation schedule) that cmd/chainrun materializes, feeds to the real node
// and to the Coq model (Model/Obs.v run_chain).
//
// A fresh node starts at Schedule.PegnetActivation with an empty database; its
// first block is PegnetActivation+1. Scenarios create every balance through
// chain events (FCT burns, miner / staker rewards, transfers, conversions).
package scen

import (
	"fmt"
	"math"
	"math/rand"
	"sort"
	"sync"

	"verifharness/chain"

	"github.com/pegnet/pegnet/modules/opr"
	"github.com/pegnet/pegnetd/fat/fat2"
	"github.com/pegnet/pegnetd/node"
	"github.com/pegnet/pegnetd/node/pegnet"
)

// NoRow is the Expect.Executed value meaning "the entry must have left no
// pn_history_txbatch row at all".
const NoRow = math.MinInt64

// Expect states what the scenario author expects to become of one
// transaction-chain entry: the final value of pn_history_txbatch.executed for
// its entry hash (0 pending, <0 reject code, >0 the height it executed at,
// NoRow = no row). chainrun checks these after the run and reports misses in
// its statistics line ("expect_failed"); they guard the coverage claims of the
// catalogue, they are not part of the model comparison.
type Expect struct {
	Height   uint32 // block the entry is in
	Index    int    // position in AbsBlock.Tx
	Executed int64
	Label    string
}

// Scenario is one abstract chain.
type Scenario struct {
	Name     string
	Seed     int64
	Schedule chain.Schedule
	Blocks   []chain.AbsBlock
	DumpAt   []uint32 // extra heights whose full dump must be recorded
	Notes    []string
	Expect   []Expect
}

var (
	regMu    sync.Mutex
	registry = map[string]func(seed int64) (*Scenario, error){}
)

// Register adds a scenario constructor; it panics on duplicates.
func Register(name string, f func(seed int64) (*Scenario, error)) {
	regMu.Lock()
	defer regMu.Unlock()
	if _, dup := registry[name]; dup {
		panic("scen: duplicate scenario " + name)
	}
	registry[name] = f
}

// Build constructs the named scenario for a seed. Construction is
// deterministic in (name, seed).
func Build(name string, seed int64) (*Scenario, error) {
	regMu.Lock()
	f := registry[name]
	regMu.Unlock()
	if f == nil {
		return nil, fmt.Errorf("scen: unknown scenario %q (have %v)", name, Names())
	}
	s, err := f(seed)
	if err != nil {
		return nil, fmt.Errorf("scen %s seed %d: %v", name, seed, err)
	}
	s.Name, s.Seed = name, seed
	return s, nil
}

// Names lists the registered scenarios, sorted.
func Names() []string {
	regMu.Lock()
	defer regMu.Unlock()
	var out []string
	for n := range registry {
		out = append(out, n)
	}
	sort.Strings(out)
	return out
}

// ---- schedules ----

// Sched builds a schedule that keeps the mainnet order and the mainnet
// coincidences (ConversionLimit = FreeFloating, V4 = RCD-e, DevRewards =
// SprSignature, OneWaySmall = V202). AveragePeriod 8.
func Sched(pegnetAct, v2, txconv, pegprice, onewayFCT, limit, v4, v20, dev, v202, v204, v204burn, pip10 uint32) chain.Schedule {
	return chain.Schedule{
		PegnetActivation:                pegnetAct,
		GradingV2Activation:             v2,
		TransactionConversionActivation: txconv,
		PEGPricingActivation:            pegprice,
		OneWaypFCTConversions:           onewayFCT,
		PegnetConversionLimitActivation: limit,
		PEGFreeFloatingPriceActivation:  limit,
		V4OPRUpdate:                     v4,
		Fat2RCDEActivation:              v4,
		V20HeightActivation:             v20,
		V20DevRewardsHeightActivation:   dev,
		SprSignatureActivation:          dev,
		OneWaySmallAssetsConversions:    v202,
		V202EnhanceActivation:           v202,
		V204EnhanceActivation:           v204,
		V204BurnMintedTokenActivation:   v204burn,
		PIP10AverageActivation:          pip10,
		AveragePeriod:                   8,
		Hardforks: []pegnet.ForkEvent{
			{ActivationHeight: 0, MinimumVersion: -1},
			{ActivationHeight: v4, MinimumVersion: 1},
			{ActivationHeight: v20, MinimumVersion: 2},
		},
		PegnetdSyncVersion: 2,
	}
}

// ---- keys and addresses ----

// Key returns the deterministic ed25519 signer `label/i`.
func Key(label string, i int) chain.SignerKey { return chain.NewEd25519Key(chain.SeedN(label, i)) }

// EthKey returns the deterministic RCD-e (secp256k1) signer `label/i`.
func EthKey(label string, i int) chain.SignerKey { return chain.NewRCDeKey(chain.SeedN(label, i)) }

// Staker returns the staker with the same address as Key(label, i).
func Staker(label string, i int) chain.StakerKey { return chain.NewStakerKey(chain.SeedN(label, i)) }

// Stakers returns Staker(label, 0..n-1).
func Stakers(label string, n int) []chain.StakerKey {
	out := make([]chain.StakerKey, n)
	for i := range out {
		out[i] = Staker(label, i)
	}
	return out
}

// ZeroAddrFA is the all-zero RCD hash as an FA string: node.GlobalOldBurnAddress.
const ZeroAddrFA = "FA1y5ZGuHSLmf2TqNf6hVMkPiNGyQpQDTFJvDLRkKQaoPo4bmbgu"

// BurnAddr returns the 32 bytes of node.GlobalBurnAddress (2.0.2 burn address).
func BurnAddr() [32]byte { return mustFA(node.GlobalBurnAddress) }

// MintAddr returns the 32 bytes of node.GlobalMintAddress.
func MintAddr() [32]byte { return mustFA(node.GlobalMintAddress) }

// ---- prices ----

// PriceFn prices asset `name` of record i (pegtoshi-style fixed point, 1e8 = 1 USD).
type PriceFn func(i int, name string) uint64

// BasePrice is the catalogue's reference price list: USD 1, FCT 4, PEG 0.05,
// every other asset (k+2)/4 USD by its V5 index; the V1-only names get fixed
// values. Always non-zero.
func BasePrice(name string) uint64 {
	switch name {
	case "USD":
		return 1e8
	case "FCT":
		return 4e8
	case "PEG", "PNT":
		return 5e6
	case "XPD":
		return 1500e8
	case "XPT":
		return 900e8
	}
	for k, n := range opr.V5Assets {
		if n == name {
			return uint64(k+2) * 25e6
		}
	}
	return 1e8
}

// Prices returns BasePrice scaled by num/den, with per-name overrides.
func Prices(num, den uint64, over map[string]uint64) PriceFn {
	return func(i int, name string) uint64 {
		if v, ok := over[name]; ok {
			return v
		}
		return BasePrice(name) * num / den
	}
}

// ---- builder ----

// B assembles a scenario block by block. OPR sets must be added in ascending
// height order (each set has to name the winners of the previous OPR block).
type B struct {
	S     *Scenario
	Rng   *rand.Rand
	First uint32
	Last  uint32

	prev     []string // previous winners for the next OPR set
	lastOPR  uint32   // height of the last OPR block, 0 = none
	settled  bool
	minerLbl string
	err      error
}

// NewB starts a scenario covering heights PegnetActivation+1 .. last.
func NewB(seed int64, sched chain.Schedule, last uint32) *B {
	b := &B{
		S:        &Scenario{Seed: seed, Schedule: sched},
		Rng:      rand.New(rand.NewSource(seed)),
		First:    sched.PegnetActivation + 1,
		Last:     last,
		settled:  true,
		minerLbl: "miner",
	}
	for h := b.First; h <= last; h++ {
		b.S.Blocks = append(b.S.Blocks, chain.AbsBlock{Height: h})
	}
	return b
}

// Blk returns the block at height h for direct editing.
func (b *B) Blk(h uint32) *chain.AbsBlock {
	if h < b.First || h > b.Last {
		panic(fmt.Sprintf("scen: height %d outside %d..%d", h, b.First, b.Last))
	}
	return &b.S.Blocks[h-b.First]
}

// TS is the directory block time (unix seconds) of height h with Materialize's
// default timestamps (10 minutes per block).
func (b *B) TS(h uint32) int64 {
	return int64(chain.DefaultTimestampMin+10*(h-b.First)) * 60
}

// Note records a free-text note (ends up in the emitted file as a comment).
func (b *B) Note(format string, a ...interface{}) {
	b.S.Notes = append(b.S.Notes, fmt.Sprintf(format, a...))
}

// OPRVersion / SPRVersion: the ladders of node/opr.go and node/spr.go under
// the scenario's schedule.
func (b *B) OPRVersion(h uint32) uint8 { return OPRVersion(b.S.Schedule, h) }
func (b *B) SPRVersion(h uint32) uint8 { return SPRVersion(b.S.Schedule, h) }

// OPRVersion evaluates the ladder of node.Grade for a schedule.
func OPRVersion(s chain.Schedule, h uint32) uint8 {
	v := uint8(1)
	if h >= s.GradingV2Activation {
		v = 2
	}
	if h >= s.PEGFreeFloatingPriceActivation {
		v = 3
	}
	if h >= s.V4OPRUpdate {
		v = 4
	}
	if h >= s.V20HeightActivation {
		v = 5
	}
	return v
}

// SPRVersion evaluates the ladder of node.GradeS for a schedule.
func SPRVersion(s chain.Schedule, h uint32) uint8 {
	v := uint8(5)
	if h >= s.SprSignatureActivation {
		v = 6
	}
	if h >= s.V202EnhanceActivation {
		v = 7
	}
	return v
}

// settle grades the last OPR block (with everything that was appended to it
// since) to learn the previous winners the next set has to carry.
func (b *B) settle() {
	if b.settled || b.err != nil {
		return
	}
	b.settled = true
	set := b.Blk(b.lastOPR).OPR
	sh, _, err := chain.GradeOPRSet(b.OPRVersion(b.lastOPR), int32(b.lastOPR), b.prev, set)
	if err != nil {
		// NewGrader refused the previous winners: the real node is stuck at
		// that height; later sets keep the old winners.
		b.Note("OPR block %d: NewGrader error (%v): the node cannot pass this height", b.lastOPR, err)
		return
	}
	b.prev = sh
}

// PrevWinners returns the short hashes the next OPR set must reference.
func (b *B) PrevWinners() []string {
	b.settle()
	return append([]string(nil), b.prev...)
}

// Miner is the default payout address of record i.
func (b *B) Miner(i int) string { return Key(b.minerLbl, i).String() }

// OPR appends n valid oracle price records for height h (version by the
// ladder, previous winners tracked with the real grader). payout nil = Miner.
func (b *B) OPR(h uint32, n int, price PriceFn, payout func(i int) string) {
	b.OPRWith(h, b.OPRVersion(h), b.PrevWinners(), n, price, payout)
}

// OPRWith is OPR with explicit version byte / previous winners (for records
// the grader must refuse).
func (b *B) OPRWith(h uint32, version uint8, prev []string, n int, price PriceFn, payout func(i int) string) {
	if h < b.lastOPR {
		panic(fmt.Sprintf("scen: OPR sets must be added in ascending order (%d after %d)", h, b.lastOPR))
	}
	if h != b.lastOPR {
		b.settle()
	}
	if payout == nil {
		payout = b.Miner
	}
	if price == nil {
		price = Prices(1, 1, nil)
	}
	if len(prev) != 0 && version != 1 && len(prev) != 25 && len(prev) != 10 {
		panic("scen: bad previous winners")
	}
	if version == 1 && len(prev) == 25 {
		prev = prev[:10]
	}
	set := chain.GenOPRSet(b.Rng, version, int32(h), prev, n, price, payout)
	blk := b.Blk(h)
	blk.OPR = append(blk.OPR, set...)
	b.lastOPR = h
	b.settled = false
}

// SPR appends one staking price record per staker for height h.
func (b *B) SPR(h uint32, price PriceFn, stakers []chain.StakerKey) {
	b.SPRWith(h, b.SPRVersion(h), price, stakers)
}

// SPRWith is SPR with an explicit version byte.
func (b *B) SPRWith(h uint32, version uint8, price PriceFn, stakers []chain.StakerKey) {
	if price == nil {
		price = Prices(1, 1, nil)
	}
	set := chain.GenSPRSet(b.Rng, version, int32(h), len(stakers), price, stakers)
	blk := b.Blk(h)
	blk.SPR = append(blk.SPR, set...)
}

// Tx appends a signed FAT-2 batch (salt = dblock time) and returns its index
// in the block's transaction list. The content goes through fat2's marshaller,
// so it must be structurally valid.
func (b *B) Tx(h uint32, k chain.SignerKey, txs ...fat2.Transaction) int {
	return b.TxAt(h, 1, b.TS(h), k, txs...)
}

// TxAt is Tx with an explicit minute (1..10, non-decreasing inside a block)
// and timestamp salt.
func (b *B) TxAt(h uint32, minute int, salt int64, k chain.SignerKey, txs ...fat2.Transaction) int {
	content, err := chain.BatchJSON(txs...)
	if err != nil {
		panic(fmt.Sprintf("scen: height %d: %v", h, err))
	}
	return b.Raw(h, minute, chain.SignedBatchEntry(content, []chain.SignerKey{k}, salt))
}

// TxJSON signs arbitrary content bytes as a FAT-2 batch entry.
func (b *B) TxJSON(h uint32, k chain.SignerKey, content string) int {
	return b.Raw(h, 1, chain.SignedBatchEntry([]byte(content), []chain.SignerKey{k}, b.TS(h)))
}

// Raw appends any entry to the transaction chain of block h.
func (b *B) Raw(h uint32, minute int, e chain.RawEntry) int {
	blk := b.Blk(h)
	if len(blk.TxMinute) < len(blk.Tx) {
		for len(blk.TxMinute) < len(blk.Tx) {
			blk.TxMinute = append(blk.TxMinute, 1)
		}
	}
	if n := len(blk.TxMinute); n > 0 && blk.TxMinute[n-1] > minute {
		minute = blk.TxMinute[n-1]
	}
	blk.Tx = append(blk.Tx, e)
	blk.TxMinute = append(blk.TxMinute, minute)
	return len(blk.Tx) - 1
}

// Repeat appends a copy of entry idx of block from to block h (same bytes,
// same entry hash).
func (b *B) Repeat(h uint32, from uint32, idx int) int {
	return b.Raw(h, 1, b.Blk(from).Tx[idx])
}

// Expect records the expected final status of entry idx of block h.
func (b *B) Expect(h uint32, idx int, executed int64, label string) {
	b.S.Expect = append(b.S.Expect, Expect{Height: h, Index: idx, Executed: executed, Label: label})
}

// TxE = Tx + Expect.
func (b *B) TxE(h uint32, executed int64, label string, k chain.SignerKey, txs ...fat2.Transaction) int {
	i := b.Tx(h, k, txs...)
	b.Expect(h, i, executed, label)
	return i
}

// Burn appends a valid FCT burn (1 input, no FCT output, one 0-amount EC output
// to node.BurnRCD) of `amount` factoshi by k.
func (b *B) Burn(h uint32, k chain.SignerKey, amount uint64) {
	blk := b.Blk(h)
	blk.Factoid = append(blk.Factoid, chain.FTx{
		FCTInputs: []chain.FTxIO{{Address: k.FAAddress(), Amount: amount}},
		ECOutputs: []chain.FTxIO{{Address: node.BurnRCD, Amount: 0}},
		InputKeys: []chain.SignerKey{k},
	})
}

// Dump asks for a full dump after block h.
func (b *B) Dump(hs ...uint32) { b.S.DumpAt = append(b.S.DumpAt, hs...) }

// Finish returns the scenario.
func (b *B) Finish() (*Scenario, error) {
	b.settle()
	if b.err != nil {
		return nil, b.err
	}
	return b.S, nil
}

// ---- fat2 transaction helpers ----

// Xfer: one input, one receiver.
func Xfer(from [32]byte, t fat2.PTicker, amount uint64, to [32]byte) fat2.Transaction {
	return chain.Transfer(from, t, amount, to)
}

// XferN: one input, several receivers (the input amount is the sum).
func XferN(from [32]byte, t fat2.PTicker, outs ...fat2.AddressAmountTuple) fat2.Transaction {
	var sum uint64
	for _, o := range outs {
		sum += o.Amount
	}
	return fat2.Transaction{
		Input:     fat2.TypedAddressAmountTuple{Address: from, Amount: sum, Type: t},
		Transfers: outs,
	}
}

// Out is a transfer output.
func Out(to [32]byte, amount uint64) fat2.AddressAmountTuple {
	return fat2.AddressAmountTuple{Address: to, Amount: amount}
}

// Conv: a conversion.
func Conv(from [32]byte, t fat2.PTicker, amount uint64, to fat2.PTicker) fat2.Transaction {
	return chain.Conversion(from, t, amount, to)
}
