package scen

import (
	"verifharness/chain"

	"github.com/pegnet/pegnetd/fat/fat2"
)

func init() {
	Register("extremes", buildExtremes)
	Register("gradererr", buildGraderErr)
	Register("top100", buildTop100)
}

const maxInt64 = uint64(1<<63 - 1)

// extremes: amounts at the edge of int64. The fake factomd does not check
// factoid balances, so a burn of nearly 2^63 factoshi is possible; nothing like
// it can happen on mainnet, but the code paths exist and the model mirrors them
// as long as every balance cell and every column total stays within int64 (the
// model's domain: beyond it SQLite stores REALs, the model reports
// E_OVERFLOW_CELL instead). A common prefix (no block fails):
//
//	101 burns: whale 2^63-1-10^13, alice 5000
//	103 conversion whose output exceeds int64 (Convert error: dropped, stays pending)
//	    transfer of everything to a second address and back
//	110 bank era: a PEG request whose Convert overflows (not recorded, yet listed
//	    for recordPegnetRequests: amount 0, refund 0)
//
// then by seed%3 one ending:
//
//	0: none (the chain runs to the end)
//	1: an OPR price of 2^63 (database/sql refuses the argument: the block fails)
//	2: PEG priced by the equation until the end; a burn to a second address keeps
//	   both cells below 2^63 but SUM(pfct_balance) of SelectIssuances overflows
//	   ("integer overflow"): the next rated block fails
func buildExtremes(seed int64) (*Scenario, error) {
	// variants 0, 1: no equation phase at all
	s := Sched(100, 101, 101, 110, 101, 110, 116, 124, 130, 134, 140, 141, 142)
	variant := seed % 3
	wb := maxInt64 - 1e13 // the whale's burn: leaves room for everybody else in the column total
	if variant == 2 {
		s = Sched(100, 101, 101, 101, 101, 120, 121, 124, 130, 134, 140, 141, 142)
		wb = maxInt64 / 2
	}
	b := NewB(seed, s, 122)
	rng := b.Rng
	FCT, USD, PEG := fat2.PTickerFCT, fat2.PTickerUSD, fat2.PTickerPEG
	whale, whale2, alice := Key("whale", 0), Key("whale", 1), Key("alice", 0)
	W, W2, A := whale.FAAddress(), whale2.FAAddress(), alice.FAAddress()
	price := bankPrices()
	b.Burn(101, whale, wb)
	b.Burn(101, alice, 5000*fct+uint64(rng.Intn(1000)))
	b.OPR(102, 25, price, nil)
	b.TxE(102, 103, "pUSD", alice, Conv(A, FCT, 1000*fct, USD))
	b.OPR(103, 25, price, nil)
	b.TxE(103, 0, "everything into pUSD: the product does not fit int64", whale, Conv(W, FCT, wb, USD))
	b.TxE(103, 103, "everything to a second address", whale, Xfer(W, FCT, wb, W2))
	b.TxE(104, 104, "... and back, in two halves of one batch", whale2, Xfer(W2, FCT, wb/2, W), Xfer(W2, FCT, wb-wb/2, W))
	b.OPR(105, 25, price, nil)
	b.TxE(105, 106, "a pFCT amount whose pUSD value (4.6e18) still fits", whale, Conv(W, FCT, wb/8, USD))
	b.OPR(106, 25, price, nil)
	if variant != 2 {
		b.TxE(109, 0, "PEG request whose Convert overflows", whale, Conv(W, FCT, 2e17, PEG))
		b.TxE(109, 110, "an ordinary PEG request in the same height", alice, Conv(A, FCT, 10*fct, PEG))
		b.OPR(110, 25, price, nil)
		b.TxE(110, 111, "PEG request of 1e15 pFCT: far above the bank, refund of almost everything", whale, Conv(W, FCT, 1e15, PEG))
		b.OPR(111, 25, price, nil)
	}
	switch variant {
	case 0:
		b.OPR(116, 25, price, nil)
		b.TxE(116, 117, "V4: huge request with a bank row", whale, Conv(W, FCT, 1e15, PEG))
		b.OPR(117, 25, price, nil)
	case 1:
		b.OPR(113, 25, Prices(1, 1, map[string]uint64{"FCT": 4e8, "PEG": 5e6, "USD": 1e8, "XAU": 1 << 63}), nil)
		b.Note("extremes: block 113 fails: pXAU rate 2^63 cannot be bound as an SQL argument")
	case 2:
		b.Burn(112, whale2, maxInt64-1) // both cells below 2^63: only the column sum overflows
		b.OPR(113, 25, price, nil)
		b.Note("extremes: SUM(pfct_balance) overflows in SelectIssuances at 113 (PEG by equation)")
	}
	b.Dump(103, 104, 106, 110, 111, 112, 113, 114, 117)
	return b.Finish()
}

// gradererr: grading v1 is followed directly by v3 (GradingV2Activation =
// PEGFreeFloatingPriceActivation): the v3 grader refuses the 10 previous
// winners of v1, NewGrader errs, SyncBlock returns the error: the first OPR
// block of the v3 era can never be applied.
func buildGraderErr(seed int64) (*Scenario, error) {
	s := Sched(100, 106, 103, 104, 105, 106, 110, 114, 116, 118, 120, 121, 122)
	b := NewB(seed, s, 110)
	b.Burn(101, Key("alice", 0), 100*fct)
	b.OPR(102, 12, hprice(seed, 102), nil)
	b.OPR(104, 12, hprice(seed, 104), nil)
	b.Blk(105).OPR = append(b.Blk(105).OPR, chain.RawEntry{Content: []byte("no record")}) // graded, no winners, keeps the v1 winners
	h := uint32(106 + seed%3)
	// the set itself is well-formed for v3 (25 empty previous winners would be the only acceptable list)
	b.OPRWith(h, 3, nil, 25, hprice(seed, h), nil)
	b.Note("gradererr: block %d fails: NewGrader(3, ..., 10 previous winners) errs", h)
	return b.Finish()
}

// top100: more than 100 PEG holders with distinct balances; the staking price
// records come from holders ranked around the cut (IsIncludedTopPEGAddress
// takes the 100 largest positive PEG balances of the committed database).
func buildTop100(seed int64) (*Scenario, error) {
	s := Sched(100, 101, 101, 101, 101, 101, 101, 104, 110, 116, 130, 131, 132)
	b := NewB(seed, s, 122)
	rng := b.Rng
	PEG := fat2.PTickerPEG
	// the miners 0..24 earn 200 PEG per block in 102..103 (v4) and 360 later (v5)
	for h := uint32(102); h <= 106; h++ {
		b.OPR(h, 25, hprice(seed, h), nil)
	}
	// 130 holders h_i get (1000 - i) * 1e6 from miner i%25 at 107: all balances distinct
	const n = 130
	holders := Stakers("holder", n)
	perMiner := map[int][]fat2.AddressAmountTuple{}
	for i := 0; i < n; i++ {
		perMiner[i%25] = append(perMiner[i%25], Out(holders[i].Address, uint64(1000-i)*1e6))
	}
	for m := 0; m < 25; m++ {
		k := Key("miner", m)
		b.TxE(107, 107, "PEG to the holders", k, XferN(k.FAAddress(), PEG, perMiner[m]...))
	}
	// the miners still hold ~1000 PEG each: ranks 1..25; holders 0..74 are ranks 26..100, holders 75.. are out
	set := func(h uint32, from, to int) {
		b.SPR(h, hprice(seed, h), holders[from:to])
		b.OPR(h, 25, hprice(seed, h), nil)
	}
	cut := 75
	set(108, cut-25, cut)                // exactly the last 25 inside: winners
	set(109, cut-24, cut+1)              // one outside: 24 included, no winners
	set(110, cut-30+rng.Intn(5), cut+10) // a mix around the cut
	// 111: a holder just outside moves in by receiving PEG; the block after sees it
	k := Key("miner", 0)
	b.TxE(111, 111, "holder 75 overtakes", k, Xfer(k.FAAddress(), PEG, 500*1e6, holders[cut].Address))
	set(112, cut-24, cut+1) // holder 75 is in now; the holder of rank 100 before (holder 49: the SPR winners moved up) is out
	// staker records from the miners (always in) with more than 100 holders around
	b.SPR(114, hprice(seed, 114), Stakers("miner", 25))
	b.OPR(114, 25, hprice(seed, 114), nil)
	set(116, cut-26, cut+3)
	set(118, 0, 60)
	var all []uint32
	for h := uint32(107); h <= 119; h++ {
		all = append(all, h)
	}
	b.Dump(all...)
	return b.Finish()
}
