package drv

import (
	"bufio"
	"bytes"
	"context"
	"encoding/hex"
	"encoding/json"
	"fmt"
	"io"
	"math/rand"
	"net"
	"net/http"
	"os"
	"path/filepath"
	"regexp"
	"runtime/debug"
	"sort"
	"strings"
	"sync"
	"sync/atomic"
	"time"

	"github.com/pegnet/pegnetd/config"
	"github.com/pegnet/pegnetd/node"
	"github.com/pegnet/pegnetd/srv"

	"verifharness/chain"
)

// APIStats is what the apiload child reports.
type APIStats struct {
	Workers      int                       `json:"workers"`
	Aborted      int                       `json:"aborted_requests"`
	Calls        map[string]int            `json:"calls"`      // per method
	RPCErrors    map[string]map[string]int `json:"rpc_errors"` // per method, per "code message"
	HTTPFailures int                       `json:"http_failures"`
	HTTPFailure1 string                    `json:"http_failure_first,omitempty"`
	StatusCalls  int                       `json:"sync_status_calls"`
	Uncommitted  int                       `json:"sync_status_uncommitted"` // responses reporting a height above the committed one
	MaxLead      int                       `json:"sync_status_max_lead"`
	Examples     []SyncStatusRecord        `json:"uncommitted_examples,omitempty"`
	SyncMs       int64                     `json:"sync_ms"`
	SyncError    string                    `json:"sync_error,omitempty"`
}

// SyncStatusRecord is one get-sync-status response with the committed height
// read from the database (own read-only connection) right before the request
// was sent and right after the response arrived. The committed height only
// grows, so reported > committed_after proves that the response named a block
// that was not committed when the response was produced.
type SyncStatusRecord struct {
	T               int64  `json:"t_us"`
	Reported        uint32 `json:"reported"`
	CommittedBefore uint32 `json:"committed_before"`
	CommittedAfter  uint32 `json:"committed_after"`
}

// syncNoPeek runs the real DBlockSync until the database reports `tip` as
// committed, without ever reading Pegnetd.Sync (so the harness itself adds no
// data race to a -race run).
func syncNoPeek(n *node.Pegnetd, fc *chain.FakeChain, rd *CommittedReader, tip uint32, timeout time.Duration) error {
	return syncStepped(n, fc, rd, tip, timeout, 0)
}

// syncStepped is syncNoPeek with the chain tip advancing one block at a time: after the node has
// committed the current tip the next block appears only `dwell` later, as on a live network where
// the node idles between blocks and API requests arrive in between.
func syncStepped(n *node.Pegnetd, fc *chain.FakeChain, rd *CommittedReader, tip uint32, timeout time.Duration, dwell time.Duration) error {
	ctx, cancel := context.WithCancel(context.Background())
	defer cancel()
	if dwell <= 0 {
		fc.SetTip(tip)
	} else {
		go func() {
			cm, _ := rd.Committed()
			for h := cm + 1; h <= tip; h++ {
				fc.SetTip(h)
				for {
					if ctx.Err() != nil {
						return
					}
					if c, err := rd.Committed(); err == nil && c >= h {
						break
					}
					time.Sleep(300 * time.Microsecond)
				}
				time.Sleep(dwell)
			}
		}()
	}
	done := make(chan error, 1)
	go func() {
		defer func() {
			if r := recover(); r != nil {
				if f, ok := r.(chain.FatalExit); ok {
					done <- fmt.Errorf("%s", f.String())
					return
				}
				done <- fmt.Errorf("panic in DBlockSync: %v\n%s", r, debug.Stack())
				return
			}
			done <- nil
		}()
		n.DBlockSync(ctx)
	}()
	deadline := time.Now().Add(timeout)
	for {
		select {
		case err := <-done:
			if err != nil {
				return err
			}
			return fmt.Errorf("DBlockSync returned unexpectedly")
		default:
		}
		cm, err := rd.Committed()
		if err == nil && cm >= tip {
			time.Sleep(20 * time.Millisecond) // let the loop go round to its idle poll
			cancel()
			select {
			case err := <-done:
				return err
			case <-time.After(10 * time.Second):
				return fmt.Errorf("DBlockSync did not return within 10s after cancel")
			}
		}
		if time.Now().After(deadline) {
			cancel()
			var tail error
			select {
			case tail = <-done:
			case <-time.After(10 * time.Second):
			}
			return fmt.Errorf("timeout after %v at committed height %d (tip %d); after cancel: %v", timeout, cm, tip, tail)
		}
		time.Sleep(2 * time.Millisecond)
	}
}

func freePort() (string, error) {
	l, err := net.Listen("tcp", "127.0.0.1:0")
	if err != nil {
		return "", err
	}
	addr := l.Addr().String()
	l.Close()
	return addr, nil
}

type apiPools struct {
	mu        sync.RWMutex
	addresses []string // FA...
	hashes    []string // entry hashes / factoid txids seen so far
	heights   []uint32
}

func childAPILoad(job *Job, res *Result) error {
	sc, err := OpenScenario(job.Scenario, job.Seed)
	if err != nil {
		return err
	}
	defer sc.Close()
	n, err := NewNode(job.DBFile, sc.URL(), job.DBMode)
	if err != nil {
		return err
	}
	rd, err := NewCommittedReader(job.DBFile, sc.Base)
	if err != nil {
		return err
	}
	defer rd.Close()
	stats := &APIStats{Workers: job.Workers, Calls: map[string]int{}, RPCErrors: map[string]map[string]int{}}
	res.API = stats

	var stop int32
	var wg sync.WaitGroup
	stopSrv := make(chan struct{})
	var recFile *os.File
	var recW *bufio.Writer
	var mu sync.Mutex // stats + record file
	t0 := time.Now()

	apiAddr := ""
	if job.Workers > 0 {
		addr, err := freePort()
		if err != nil {
			return err
		}
		// exactly what cmd/root.go does: srv.NewAPIServer(conf, node).Start(stop)
		n.Config.Set(config.APIListen, addr)
		srvDone := srv.NewAPIServer(n.Config, n).Start(stopSrv)
		apiAddr = addr
		url := "http://" + addr + "/v1"
		up := false
		for i := 0; i < 500; i++ {
			if c, err := net.DialTimeout("tcp", addr, 100*time.Millisecond); err == nil {
				c.Close()
				up = true
				break
			}
			select {
			case <-srvDone:
				return fmt.Errorf("API server exited at start-up")
			default:
			}
			time.Sleep(5 * time.Millisecond)
		}
		if !up {
			return fmt.Errorf("API server did not come up on %s", addr)
		}
		if job.Record != "" {
			if recFile, err = os.Create(job.Record); err != nil {
				return err
			}
			recW = bufio.NewWriter(recFile)
		}
		pools := &apiPools{}
		refreshPools(pools, sc, rd)
		wg.Add(1)
		go func() {
			defer wg.Done()
			for atomic.LoadInt32(&stop) == 0 {
				refreshPools(pools, sc, rd)
				time.Sleep(20 * time.Millisecond)
			}
		}()
		client := &http.Client{Timeout: 30 * time.Second, Transport: &http.Transport{MaxIdleConnsPerHost: job.Workers + 2}}
		for w := 0; w < job.Workers; w++ {
			wg.Add(1)
			go func(w int) {
				defer wg.Done()
				rng := rand.New(rand.NewSource(job.Seed*1000 + int64(w)))
				for i := 0; atomic.LoadInt32(&stop) == 0; i++ {
					method, params := pickCall(rng, job.Mix, w, i, pools, sc)
					var before uint32
					if method == "get-sync-status" {
						before, _ = rd.Committed()
					}
					result, rpcErr, herr := callRPC(client, url, method, params)
					var rec *SyncStatusRecord
					if method == "get-sync-status" && herr == nil && rpcErr == "" {
						var st struct {
							Sync uint32 `json:"syncheight"`
						}
						if json.Unmarshal(result, &st) == nil {
							after, aerr := rd.Committed()
							if aerr == nil {
								rec = &SyncStatusRecord{T: time.Since(t0).Microseconds(), Reported: st.Sync, CommittedBefore: before, CommittedAfter: after}
							}
						}
					}
					mu.Lock()
					stats.Calls[method]++
					if herr != nil {
						stats.HTTPFailures++
						if stats.HTTPFailure1 == "" {
							stats.HTTPFailure1 = herr.Error()
						}
					} else if rpcErr != "" {
						if stats.RPCErrors[method] == nil {
							stats.RPCErrors[method] = map[string]int{}
						}
						stats.RPCErrors[method][rpcErr]++
					}
					if rec != nil {
						stats.StatusCalls++
						if rec.Reported > rec.CommittedAfter {
							stats.Uncommitted++
							if lead := int(rec.Reported - rec.CommittedAfter); lead > stats.MaxLead {
								stats.MaxLead = lead
							}
							if len(stats.Examples) < 20 {
								stats.Examples = append(stats.Examples, *rec)
							}
						}
						if recW != nil {
							data, _ := json.Marshal(rec)
							recW.Write(append(data, '\n'))
						}
					}
					mu.Unlock()
					if job.APIPause > 0 {
						time.Sleep(time.Duration(job.APIPause) * time.Microsecond)
					}
				}
			}(w)
		}
	}

	// clients that hang up: a rich-list request is written and the connection closed at once (or a
	// few hundred microseconds later), so the handler runs with a request context that is cancelled
	// before or while it reads the database.  Whatever the handler leaves behind in the node's
	// memory (the average cache) must not reach the ledger.
	if job.Workers > 0 && job.Mix != "norich" && job.Mix != "status" && apiAddr != "" {
		for a := 0; a < 2; a++ {
			wg.Add(1)
			go func(a int) {
				defer wg.Done()
				rng := rand.New(rand.NewSource(job.Seed*7777 + int64(a)))
				for i := 0; atomic.LoadInt32(&stop) == 0; i++ {
					var body []byte
					if i%2 == 0 {
						body, _ = json.Marshal(map[string]interface{}{"jsonrpc": "2.0", "id": 1, "method": "get-rich-list",
							"params": map[string]interface{}{"asset": apiAssets[rng.Intn(len(apiAssets))], "count": 10}})
					} else {
						body, _ = json.Marshal(map[string]interface{}{"jsonrpc": "2.0", "id": 1, "method": "get-global-rich-list",
							"params": map[string]interface{}{"count": 10}})
					}
					if a == 1 {
						// this one fires right after a block was committed: on a live network that is when
						// the node idles and the first request for the new tip arrives
						last, _ := rd.Committed()
						for atomic.LoadInt32(&stop) == 0 {
							if cm, err := rd.Committed(); err == nil && cm != last {
								break
							}
							time.Sleep(200 * time.Microsecond)
						}
					}
					c, err := net.DialTimeout("tcp", apiAddr, time.Second)
					if err != nil {
						time.Sleep(time.Millisecond)
						continue
					}
					fmt.Fprintf(c, "POST /v1 HTTP/1.1\r\nHost: %s\r\nContent-Type: application/json\r\nContent-Length: %d\r\n\r\n%s", apiAddr, len(body), body)
					if d := rng.Intn(4); d > 0 {
						time.Sleep(time.Duration(rng.Intn(400)) * time.Microsecond)
					}
					c.Close()
					mu.Lock()
					stats.Aborted++
					mu.Unlock()
					// open loop: the handler of an aborted request still runs to its end, so the rate is
					// kept low enough for the node to keep up (about 100 requests a second in all)
					if a != 1 {
						time.Sleep(time.Duration(10+rng.Intn(20)) * time.Millisecond)
					}
				}
			}(a)
		}
	}

	syncStart := time.Now()
	var dwell time.Duration
	if job.Workers > 0 {
		dwell = 4 * time.Millisecond
	}
	serr := syncStepped(n, sc.FC, rd, sc.Last, job.timeout(), dwell)
	stats.SyncMs = time.Since(syncStart).Milliseconds()
	atomic.StoreInt32(&stop, 1)
	wg.Wait()
	// The API server is NOT shut down: closing the stop channel makes srv.Start
	// call http.Server.Shutdown(nil), which dereferences the nil context and
	// kills the process (SIGSEGV in net/http) with current Go versions. The
	// child simply exits with the listener open.
	_ = stopSrv
	if recW != nil {
		recW.Flush()
		recFile.Close()
	}
	if serr != nil {
		// "nor crash it": a dead sync loop under API load is a finding; the
		// parent decides. The dump is still taken.
		stats.SyncError = firstLine(serr.Error())
	}
	if cm, err := rd.Committed(); err == nil {
		res.Synced = cm
	}
	if serr == nil {
		if err := chain.CloseNode(n); err != nil {
			return err
		}
	}
	res.FinalDump, res.Artifact, _, err = dumpTo(job, "final.dump")
	return err
}

func refreshPools(p *apiPools, sc *Scenario, rd *CommittedReader) {
	cm, err := rd.Committed()
	if err != nil {
		return
	}
	var addrs []string
	rows, err := rd.db.Query(`SELECT address FROM pn_addresses`)
	if err == nil {
		for rows.Next() {
			var a []byte
			if rows.Scan(&a) == nil && len(a) == 32 {
				var b [32]byte
				copy(b[:], a)
				addrs = append(addrs, chain.FAString(b))
			}
		}
		rows.Close()
	}
	var hashes []string
	var heights []uint32
	for h := sc.First; h <= cm+1 && h <= sc.Last; h++ {
		heights = append(heights, h)
		for _, eh := range sc.FC.EntryHashes(h, config.TransactionChain) {
			hashes = append(hashes, hex.EncodeToString(eh[:]))
		}
		for _, id := range sc.FC.FactoidTxIDs(h) {
			hashes = append(hashes, hex.EncodeToString(id[:]))
		}
		if len(hashes) < 40 { // some coinbase / SPR payout hashes as well
			for i, eh := range sc.FC.EntryHashes(h, config.OPRChain) {
				if i < 2 {
					hashes = append(hashes, hex.EncodeToString(eh[:]))
				}
			}
		}
	}
	p.mu.Lock()
	if len(addrs) > 0 {
		p.addresses = addrs
	}
	p.hashes, p.heights = hashes, heights
	p.mu.Unlock()
}

var apiAssets = []string{"PEG", "pUSD", "pFCT", "pXBT", "pEUR"}

// pickCall chooses the next request. Worker 0 only polls get-sync-status,
// workers 1 and 2 prefer the rich-list methods (the handlers that share the
// average cache with the sync loop), the others cycle through all read
// methods.
func pickCall(rng *rand.Rand, mix string, w, i int, p *apiPools, sc *Scenario) (string, interface{}) {
	for {
		m, params := pickCall1(rng, mix, w, i, p, sc)
		if mix == "norich" && (m == "get-rich-list" || m == "get-global-rich-list") {
			i++
			continue
		}
		return m, params
	}
}

func pickCall1(rng *rand.Rand, mix string, w, i int, p *apiPools, sc *Scenario) (string, interface{}) {
	p.mu.RLock()
	defer p.mu.RUnlock()
	addr := ""
	if len(p.addresses) > 0 {
		addr = p.addresses[rng.Intn(len(p.addresses))]
	} else {
		addr = chain.NewEd25519Key(chain.SeedN("miner", 0)).String()
	}
	hash := strings.Repeat("00", 32)
	if len(p.hashes) > 0 {
		hash = p.hashes[rng.Intn(len(p.hashes))]
	}
	height := sc.First
	if len(p.heights) > 0 {
		height = p.heights[rng.Intn(len(p.heights))]
	}
	type m map[string]interface{}
	if w == 0 || mix == "status" {
		return "get-sync-status", nil
	}
	if w <= 2 && i%2 == 0 && mix != "norich" {
		if (i/2)%2 == 0 {
			return "get-rich-list", m{"asset": apiAssets[rng.Intn(len(apiAssets))], "count": 10 + rng.Intn(50)}
		}
		return "get-global-rich-list", m{"count": 10 + rng.Intn(100)}
	}
	switch rng.Intn(17) {
	case 0:
		return "get-sync-status", nil
	case 1:
		return "get-pegnet-balances", m{"address": addr}
	case 2:
		return "get-pegnet-issuance", nil
	case 3:
		return "get-pegnet-rates", m{"height": height}
	case 4:
		return "get-pegnet-rates", m{}
	case 5:
		return "get-transactions", m{"entryhash": hash}
	case 6:
		return "get-transactions", m{"address": addr, "desc": rng.Intn(2) == 0}
	case 7:
		return "get-transactions", m{"height": height, "coinbase": rng.Intn(2) == 0}
	case 8:
		return "get-transaction", m{"txid": fmt.Sprintf("%d-%s", rng.Intn(2), hash)}
	case 9:
		return "get-transaction-status", m{"entryhash": hash}
	case 10:
		return "get-rich-list", m{"asset": apiAssets[rng.Intn(len(apiAssets))], "count": 25}
	case 11:
		return "get-global-rich-list", m{"count": 50}
	case 12:
		return "get-bank", m{"height": height}
	case 13:
		return "get-bank", m{}
	case 14:
		return "get-miner-distribution", m{"start": int(sc.First), "stop": int(height)}
	case 15:
		return "get-graded", m{"height": height}
	}
	return "properties", nil
}

func callRPC(client *http.Client, url, method string, params interface{}) (json.RawMessage, string, error) {
	req := map[string]interface{}{"jsonrpc": "2.0", "id": 1, "method": method}
	if params != nil {
		req["params"] = params
	}
	body, _ := json.Marshal(req)
	resp, err := client.Post(url, "application/json", bytes.NewReader(body))
	if err != nil {
		return nil, "", err
	}
	defer resp.Body.Close()
	data, err := io.ReadAll(resp.Body)
	if err != nil {
		return nil, "", err
	}
	var out struct {
		Result json.RawMessage `json:"result"`
		Error  *struct {
			Code    int    `json:"code"`
			Message string `json:"message"`
		} `json:"error"`
	}
	if err := json.Unmarshal(data, &out); err != nil {
		return nil, "", fmt.Errorf("http %d, bad body %q", resp.StatusCode, clip(string(data)))
	}
	if out.Error != nil {
		return nil, fmt.Sprintf("%d %s", out.Error.Code, out.Error.Message), nil
	}
	return out.Result, "", nil
}

// ---- parent ----

// APILoadOptions are the apiload flags.
type APILoadOptions struct {
	Workers int
	Runs    int    // loaded runs with the normal binary
	Mix     string // all | norich | status : which methods the workers call
	RaceBin string // optional: binary built with -race
	PauseUs int    // pause between the calls of one worker
}

// CmdAPILoad: C18.
func CmdAPILoad(c *Common, o *APILoadOptions) int {
	start := time.Now()
	root := filepath.Join(c.Work, "apiload")
	os.RemoveAll(root)
	job := func(dir string, workers int) *Job {
		return &Job{Mix: o.Mix, Kind: "apiload", Scenario: c.Scenario, Seed: c.Seed, Dir: dir, DBFile: filepath.Join(dir, "pegnet.db"),
			DBMode: c.DBMode, Timeout: int(c.Timeout / time.Second), Verbose: c.Verbose, Workers: workers, APIPause: o.PauseUs,
			Record: filepath.Join(dir, "syncstatus.jsonl")}
	}
	ref, pi, err := RunChild(c, job(filepath.Join(root, "ref"), 0))
	if err != nil || ref == nil || !ref.OK || ref.API == nil || ref.API.SyncError != "" {
		msg := describe(ref, pi, err)
		if ref != nil && ref.API != nil && ref.API.SyncError != "" {
			msg = ref.API.SyncError
		}
		Emit(map[string]interface{}{"cmd": "apiload", "error": "unloaded reference run: " + msg})
		return 2
	}
	refLines, err := ReadLines(ref.FinalDump)
	if err != nil {
		Emit(map[string]interface{}{"cmd": "apiload", "error": err.Error()})
		return 2
	}
	Logf("apiload: unloaded reference synced to %d in %d ms, %d lines", ref.Synced, ref.API.SyncMs, len(refLines))

	violations, internal, races, harnessRaces := 0, 0, 0, 0
	var report func(name, exe string, race bool, mix string) bool
	report = func(name, exe string, race bool, mix string) (crashed bool) {
		dir := filepath.Join(root, name)
		j := job(dir, o.Workers)
		j.Mix = mix
		if race {
			j.Timeout *= 10
		}
		var env []string
		if race {
			env = append(env, "GORACE=halt_on_error=0 history_size=5 log_path="+filepath.Join(dir, "race"))
		}
		res, pi, err := RunChildExe(exe, j, env...)
		out := map[string]interface{}{"cmd": "apiload", "scenario": c.Scenario, "seed": c.Seed, "run": name, "workers": o.Workers, "mix": mix, "race_build": race, "log": pi.Log}
		if err != nil {
			out["error"] = err.Error()
			internal++
			Emit(out)
			return false
		}
		bad := false
		if res == nil {
			// the process died: look for the Go runtime's verdict
			crashed = true
			out["crashed"] = true
			out["exit_code"], out["signal"] = pi.ExitCode, pi.Signal
			fatal, stack := scanFatal(pi.Log)
			out["fatal"], out["fatal_stack"] = fatal, stack
			bad = true
		} else {
			out["crashed"] = false
			out["api"] = res.API
			out["synced"] = res.Synced
			out["syncstatus_records"] = j.Record
			if !res.OK {
				out["child_error"] = firstLine(res.Error)
				bad = true
			}
			if res.API != nil && res.API.SyncError != "" {
				out["sync_died"] = res.API.SyncError
				bad = true
			}
			if res.FinalDump != "" {
				lines, err := ReadLines(res.FinalDump)
				if err == nil {
					if d := DiffLines(refLines, lines, 12); d != nil {
						out["final_equal"] = false
						out["diff"] = d
						out["dumps"] = []string{ref.FinalDump, res.FinalDump}
						bad = true
					} else {
						out["final_equal"] = true
					}
				}
			}
			if res.API != nil && res.API.Uncommitted > 0 {
				bad = true
				for _, ex := range res.API.Examples {
					Emit(map[string]interface{}{"cmd": "apiload", "run": name, "violation": "sync_status_reports_uncommitted_height", "record": ex,
						"replay": map[string]interface{}{"scenario": c.Scenario, "seed": c.Seed, "workers": o.Workers}})
				}
			}
		}
		if race {
			pairs, n := parseRaceLogs(dir)
			out["race_reports"] = n
			for _, p := range pairs {
				Emit(map[string]interface{}{"cmd": "apiload", "run": name, "race": p})
				if p.HarnessOnly {
					harnessRaces += p.Count
				} else {
					races += p.Count
					bad = true
				}
			}
		}
		out["ok"] = !bad
		if bad {
			violations++
		}
		Emit(out)
		return crashed
	}
	anyCrash := false
	for r := 0; r < o.Runs; r++ {
		if report(fmt.Sprintf("load%02d", r), c.Exe, false, o.Mix) {
			anyCrash = true
		}
	}
	if anyCrash && o.Mix == "all" {
		// The daemon died under the full mix (the Go runtime aborts on
		// concurrent map writes): one more run without the rich-list methods,
		// so that the other checks (dump equality, committed heights) get
		// their turn.
		report("load_norich", c.Exe, false, "norich")
	}
	if o.RaceBin != "" {
		report("race", o.RaceBin, true, o.Mix)
	}
	Emit(map[string]interface{}{"cmd": "apiload", "summary": map[string]interface{}{
		"scenario": c.Scenario, "seed": c.Seed, "workers": o.Workers, "loaded_runs": o.Runs, "race_run": o.RaceBin != "",
		"runs_with_violations": violations, "race_reports_pegnetd": races, "race_reports_harness_only": harnessRaces,
		"internal_errors": internal, "ref_sync_ms": ref.API.SyncMs, "elapsed_ms": time.Since(start).Milliseconds()}})
	if internal > 0 {
		return 2
	}
	return 0
}

// scanFatal looks for "fatal error: ..." / "panic: ..." in a child log and
// returns it with the pegnetd frames of the goroutine that follows.
func scanFatal(logPath string) (string, []string) {
	data, err := os.ReadFile(logPath)
	if err != nil {
		return "", nil
	}
	lines := strings.Split(string(data), "\n")
	for i, l := range lines {
		if strings.HasPrefix(l, "fatal error: ") || strings.HasPrefix(l, "panic: ") {
			var stack []string
			started := false
			for _, s := range lines[i+1:] {
				if strings.HasPrefix(s, "goroutine ") {
					if started {
						break // only the goroutine the runtime blames
					}
					started = true
				}
				if strings.Contains(s, "pegnet/pegnetd") && !strings.HasPrefix(s, "\t") {
					stack = append(stack, strings.TrimSpace(s))
					if len(stack) >= 12 {
						break
					}
				}
			}
			return l, stack
		}
	}
	return "", nil
}

// RacePair summarizes the race detector's reports by the pair of pegnetd
// functions involved (the two sides are ordered alphabetically, so A/B and B/A
// reports are merged).
type RacePair struct {
	A           string   `json:"a"` // "<read|write> in <innermost pegnetd function> via <root>"; root = API method or DBlockSync
	B           string   `json:"b"`
	LinesA      []string `json:"lines_a"` // file:line of the accesses on side A
	LinesB      []string `json:"lines_b"`
	Count       int      `json:"count"`
	HarnessOnly bool     `json:"harness_only"` // one side is harness code, not pegnetd
	Example     string   `json:"example"`      // first report, verbatim (clipped)
}

var reAccess = regexp.MustCompile(`^(Previous )?(atomic )?(write|read|Write|Read) at 0x[0-9a-f]+ by (main )?goroutine`)

func shortFn(fn string) string {
	short := fn[strings.LastIndex(fn, "/")+1:]
	if k := strings.LastIndex(short, "("); k > 0 && strings.HasSuffix(short, ")") && !strings.HasPrefix(short[k:], "(*") {
		short = short[:k] // drop the argument list
	}
	return strings.TrimSuffix(short, "-fm")
}

func parseRaceLogs(dir string) ([]RacePair, int) {
	files, _ := filepath.Glob(filepath.Join(dir, "race.*"))
	type agg struct {
		p      RacePair
		la, lb map[string]bool
	}
	byKey := map[string]*agg{}
	total := 0
	for _, f := range files {
		data, err := os.ReadFile(f)
		if err != nil {
			continue
		}
		for _, blk := range strings.Split(string(data), "==================") {
			if !strings.Contains(blk, "WARNING: DATA RACE") {
				continue
			}
			total++
			type side struct{ desc, loc string }
			var sides []side
			harness := false
			lines := strings.Split(blk, "\n")
			for i := 0; i < len(lines); i++ {
				m := reAccess.FindStringSubmatch(lines[i])
				if m == nil {
					continue
				}
				kind := strings.ToLower(m[3])
				if m[2] != "" {
					kind = "atomic " + kind
				}
				// frames: "  func()\n      file:line +0x.."
				var inner, innerLoc, root string
				top := true
				for j := i + 1; j+1 < len(lines) && strings.TrimSpace(lines[j]) != ""; j += 2 {
					fn := strings.TrimSpace(lines[j])
					loc := strings.TrimSpace(lines[j+1])
					if k := strings.Index(loc, " +0x"); k >= 0 {
						loc = loc[:k]
					}
					if top && strings.HasPrefix(fn, "verifharness/") {
						harness = true
					}
					if strings.Contains(fn, "pegnet/pegnetd/") {
						short := shortFn(fn)
						if inner == "" {
							inner, innerLoc = short, loc[strings.LastIndex(loc, "/")+1:]
						}
						if !strings.Contains(short, "(*APIServer).Start") {
							root = short // outermost pegnetd frame below the HTTP plumbing
						}
					}
					if !strings.HasPrefix(fn, "runtime.") && !strings.HasPrefix(fn, "sync/atomic.") {
						top = false
					}
				}
				if inner == "" {
					inner, harness = "(no pegnetd frame)", true
				}
				d := fmt.Sprintf("%s in %s", kind, inner)
				if root != "" && root != inner {
					d += " via " + root
				}
				sides = append(sides, side{d, innerLoc})
			}
			if len(sides) < 2 {
				continue
			}
			a, b := sides[0], sides[1]
			if b.desc < a.desc {
				a, b = b, a
			}
			key := a.desc + " || " + b.desc
			g := byKey[key]
			if g == nil {
				ex := strings.TrimSpace(blk)
				if len(ex) > 3000 {
					ex = ex[:3000] + "..."
				}
				g = &agg{p: RacePair{A: a.desc, B: b.desc, HarnessOnly: harness, Example: ex}, la: map[string]bool{}, lb: map[string]bool{}}
				byKey[key] = g
			}
			g.p.Count++
			g.la[a.loc], g.lb[b.loc] = true, true
		}
	}
	var out []RacePair
	for _, g := range byKey {
		for l := range g.la {
			g.p.LinesA = append(g.p.LinesA, l)
		}
		for l := range g.lb {
			g.p.LinesB = append(g.p.LinesB, l)
		}
		sort.Strings(g.p.LinesA)
		sort.Strings(g.p.LinesB)
		out = append(out, g.p)
	}
	sort.Slice(out, func(i, j int) bool {
		if out[i].Count != out[j].Count {
			return out[i].Count > out[j].Count
		}
		return out[i].A+out[i].B < out[j].A+out[j].B
	})
	return out, total
}
