package drv

import (
	"fmt"
	"os"
	"path/filepath"
	"time"
)

// CmdRetryAll: one fault-free run against one run in which the FIRST attempt at every block fails at
// its pn_sync_version insert (InsertSynced, the last statement of a block): DBlockSync rolls back and
// applies the same height again in the same process.  Whatever the first attempt left in the daemon's
// memory must not reach the ledger: the dump after EVERY committed height must equal that of the fault-free run.
func CmdRetryAll(c *Common, stmt string) int {
	start := time.Now()
	root := filepath.Join(c.Work, "retryall")
	os.RemoveAll(root)
	if stmt == "" {
		stmt = "pn_sync_version"
	}
	ref, pi, err := RunChild(c, c.replayJob(filepath.Join(root, "ref"), nil, true))
	if err != nil || ref == nil || !ref.OK {
		Emit(map[string]interface{}{"cmd": "retryall", "error": "reference run: " + describe(ref, pi, err)})
		return 2
	}
	refLines, err := ReadLines(ref.FinalDump)
	if err != nil {
		Emit(map[string]interface{}{"cmd": "retryall", "error": err.Error()})
		return 2
	}
	job := c.replayJob(filepath.Join(root, "retry"), nil, true)
	job.RetryAll = stmt
	res, pi, err := RunChild(c, job)
	out := map[string]interface{}{"cmd": "retryall", "scenario": c.Scenario, "seed": c.Seed, "statement": stmt}
	violations := 0
	if err != nil || res == nil || !res.OK {
		// the daemon could not get through a chain whose every block fails once: a finding of its own
		out["ok"], out["stuck"], out["error"] = false, true, describe(res, pi, err)
		violations++
	} else {
		out["retried_blocks"] = res.RetryHits
		out["synced"] = res.Synced
		lines, err := ReadLines(res.FinalDump)
		if err != nil {
			Emit(map[string]interface{}{"cmd": "retryall", "error": err.Error()})
			return 2
		}
		if d := DiffLines(refLines, lines, 10); d != nil {
			out["ok"], out["final_equal"], out["diff"] = false, false, d
			out["dumps"] = []string{ref.FinalDump, res.FinalDump}
			violations++
		} else if h, found := firstHashDiff(ref.Hashes, res.Hashes); found {
			// the final ledgers agree but the ledger after an earlier block did not (a later block hid the difference)
			out["ok"], out["final_equal"], out["first_diff_height"] = false, true, h
			out["diff"] = map[string]interface{}{"only_got": []string{fmt.Sprintf("the committed ledgers differ after height %d (dump hashes %s / %s) although the final ones agree", h, ref.Hashes[h], res.Hashes[h])}}
			violations++
		} else {
			out["ok"], out["final_equal"] = true, true
			out["heights_compared"] = len(ref.Hashes)
		}
	}
	Emit(out)
	Emit(map[string]interface{}{"cmd": "retryall", "summary": map[string]interface{}{
		"scenario": c.Scenario, "seed": c.Seed, "statement": stmt, "violations": violations,
		"retried_blocks": out["retried_blocks"], "elapsed_ms": time.Since(start).Milliseconds()}})
	return 0
}
