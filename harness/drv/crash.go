package drv

import (
	"encoding/json"
	"fmt"
	"os"
	"path/filepath"
	"sync"
	"time"
)

// CrashOptions are the crash/fault specific flags.
type CrashOptions struct {
	Points string // K | all
	Blocks string // all | h1,h2,a-b : restrict the points to these blocks
	Prefix string // replay | snapshot
	Resume int    // resume this many blocks past the injection block (0 = to the tip)
	Keep   bool   // keep the directories of passing points
	Kind   string // fault: sql | rpc | both
	Pairs  int    // fault: additionally this many (sql, rpc) pairs in one block
}

var cntMu sync.Mutex

func pointJob(c *Common, kind, dir, dbFile string, o *CrashOptions, ref *Ref, block uint32) *Job {
	j := &Job{
		Kind: kind, Scenario: c.Scenario, Seed: c.Seed, Dir: dir, DBFile: dbFile, DBMode: c.DBMode,
		Timeout: int(c.Timeout / time.Second), Verbose: c.Verbose, Prefix: o.Prefix,
	}
	if o.Prefix == "snapshot" {
		j.SnapshotFrom = filepath.Join(ref.SnapDir, fmt.Sprintf("%d.v4", block-1))
	}
	return j
}

func resumeTarget(sc *Scenario, o *CrashOptions, block uint32) uint32 {
	if o.Resume > 0 && block+uint32(o.Resume) < sc.Last {
		return block + uint32(o.Resume)
	}
	return sc.Last
}

func prepareRef(c *Common, cmd string, o *CrashOptions) (*Scenario, *Ref, []uint32, int) {
	sc, err := OpenScenario(c.Scenario, c.Seed)
	if err != nil {
		Emit(map[string]interface{}{"cmd": cmd, "error": err.Error()})
		return nil, nil, nil, 2
	}
	blocks, err := ParseBlocks(o.Blocks, sc.First, sc.Last)
	if err != nil {
		Emit(map[string]interface{}{"cmd": cmd, "error": err.Error()})
		return nil, nil, nil, 2
	}
	need := map[uint32]bool{}
	for _, h := range blocks {
		need[h-1] = true
	}
	ro := RefOptions{DBMode: c.DBMode, Timeout: c.Timeout}
	if o.Prefix == "snapshot" {
		ro.Snapshots = func(h uint32) bool { return need[h] }
	}
	Logf("%s: reference run of %s/%d (%d..%d)", cmd, c.Scenario, c.Seed, sc.First, sc.Last)
	ref, err := RefRun(sc, c.Work, ro)
	if err != nil {
		Emit(map[string]interface{}{"cmd": cmd, "error": err.Error()})
		return nil, nil, nil, 2
	}
	Logf("%s: reference run took %v, final dump %d lines", cmd, ref.Elapsed, len(ref.Final))
	return sc, ref, blocks, 0
}

// CmdCrash: C02.
func CmdCrash(c *Common, o *CrashOptions) int {
	start := time.Now()
	k, err := ParsePointsArg(o.Points)
	if err != nil {
		Emit(map[string]interface{}{"cmd": "crash", "error": err.Error()})
		return 2
	}
	root := filepath.Join(c.Work, "crash")
	os.RemoveAll(root)
	sc, ref, blocks, rc := prepareRef(c, "crash", o)
	if rc != 0 {
		return rc
	}
	defer sc.Close()
	all := SQLPoints(ref, blocks, true)
	points := SamplePoints(all, k, c.Seed)
	ntx, npool, _, nsites := PointCounts(ref, blocks)
	Logf("crash: %d blocks, %d tx operations (COMMIT included), %d pool operations, %d distinct sites; %d crash points in total, running %d",
		len(blocks), ntx, npool, nsites, len(all), len(points))

	violations, internal, done := 0, 0, 0
	Parallel(len(points), c.Jobs, func(i int) {
		p := points[i]
		out := crashPoint(c, o, sc, ref, root, p)
		cntMu.Lock()
		done++
		if out["error"] != nil {
			internal++
		} else if out["ok"] != true {
			violations++
		}
		if done%50 == 0 {
			Logf("crash: %d/%d points done, %d violations, %d errors", done, len(points), violations, internal)
		}
		cntMu.Unlock()
		Emit(out)
	})
	Emit(map[string]interface{}{"cmd": "crash", "summary": map[string]interface{}{
		"scenario": c.Scenario, "seed": c.Seed, "blocks": len(blocks), "tx_ops": ntx, "pool_ops": npool, "distinct_sites": nsites,
		"points_total": len(all), "points_run": len(points), "violations": violations, "internal_errors": internal,
		"prefix": o.Prefix, "resume": o.Resume, "ref_ms": ref.Elapsed.Milliseconds(), "elapsed_ms": time.Since(start).Milliseconds()}})
	if internal > 0 {
		return 2
	}
	return 0
}

func crashPoint(c *Common, o *CrashOptions, sc *Scenario, ref *Ref, root string, p Point) map[string]interface{} {
	out := map[string]interface{}{"cmd": "crash", "scenario": c.Scenario, "seed": c.Seed, "point": p}
	dir := filepath.Join(root, fmt.Sprintf("b%d_%s%d", p.Block, p.Class, p.Index))
	if p.After {
		dir += "_after"
	}
	dbFile := filepath.Join(dir, "pegnet.db")

	// phase A: run into the kill
	kj := pointJob(c, "kill", filepath.Join(dir, "kill"), dbFile, o, ref, p.Block)
	kj.Plan = &Plan{Block: p.Block, Class: p.Class, Index: p.Index, After: p.After, Action: "kill"}
	res, pi, err := RunChild(c, kj)
	if err != nil {
		out["error"] = err.Error()
		return out
	}
	if res != nil || pi.Signal != "killed" {
		out["error"] = "the child did not die of SIGKILL: " + describe(res, pi, err)
		return out
	}
	var at Event
	if data, err := os.ReadFile(filepath.Join(kj.Dir, "killed_at.json")); err == nil {
		json.Unmarshal(data, &at)
		out["killed_at"] = at
	}

	// phase B: a fresh process re-opens the file, dumps, resumes, dumps
	target := resumeTarget(sc, o, p.Block)
	rj := pointJob(c, "resume", filepath.Join(dir, "resume"), dbFile, o, ref, p.Block)
	rj.To = target
	res, pi, err = RunChild(c, rj)
	if err != nil || res == nil || res.FirstDump == "" {
		out["error"] = "resume: " + describe(res, pi, err)
		return out
	}
	first, err := ReadLines(res.FirstDump)
	if err != nil {
		out["error"] = err.Error()
		return out
	}
	ok := true
	synced := SyncedOf(first, sc.Base)
	want := p.Block - 1
	if p.After {
		want = p.Block
	}
	out["synced_after_kill"], out["expected_synced"] = synced, want
	if synced != want {
		ok = false
	}
	if good, why := SyncHeightsOK(first, sc.Base, synced); !good {
		ok = false
		out["sync_heights_ok"], out["sync_heights_why"] = false, why
	} else {
		out["sync_heights_ok"] = true
	}
	if refAt := ref.Store.Get(synced); refAt == nil {
		ok = false
		out["kill_dump_equal"] = false
		out["kill_dump_why"] = fmt.Sprintf("no reference state for height %d", synced)
	} else if d := DiffLines(refAt, first, 10); d != nil {
		ok = false
		out["kill_dump_equal"] = false
		out["diff_after_kill"] = d
	} else {
		out["kill_dump_equal"] = true
	}
	out["restart_artifact_after_kill"] = res.Artifact1
	if !res.OK {
		// the resumed daemon did not make it: that is a finding, not an internal error
		ok = false
		out["resume_error"] = firstLine(res.Error)
		out["final_equal"] = false
	} else {
		final, err := ReadLines(res.FinalDump)
		if err != nil {
			out["error"] = err.Error()
			return out
		}
		if d := DiffLines(ref.Store.Get(target), final, 10); d != nil {
			ok = false
			out["final_equal"] = false
			out["diff_final"] = d
		} else {
			out["final_equal"] = true
		}
		out["resumed_to"] = target
	}
	out["ok"] = ok
	if ok && !o.Keep {
		os.RemoveAll(dir)
	} else {
		out["dir"] = dir
	}
	return out
}
