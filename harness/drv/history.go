package drv

import (
	"bytes"
	"database/sql"
	"encoding/hex"
	"encoding/json"
	"fmt"
	"io"
	"math/rand"
	"net"
	"net/http"
	"os"
	"path/filepath"
	"regexp"
	"sort"
	"strings"
	"sync"
	"sync/atomic"
	"time"

	"github.com/pegnet/pegnetd/config"
	"github.com/pegnet/pegnetd/srv"

	"verifharness/chain"
)

// history — C17: "history and status tell the truth about the ledger".
//
// The scenario is synced to its tip by the real daemon, the real API server is
// started in-process, and every answer of get-transactions / get-transaction /
// get-transaction-status / get-pegnet-balances is compared with what the
// sqlite file says. The expected answers are computed here from the raw tables
// (own read-only connection, plain SELECT * of the three history tables and
// pn_addresses, joined and filtered in Go); nothing of pegnetd's query builder
// is involved on the expected side.

// HistoryOptions are the flags of `runprop history`.
type HistoryOptions struct {
	Limit    int // documented page size of get-transactions (pegnet.QueryLimit = 50)
	Combos   int // seed-chosen filter combinations per key (besides the plain ascending and descending walks)
	FullKeys int // keys per kind (hash / address / height) that get every filter combination
}

// HistViolation is one output line.
type HistViolation struct {
	Cmd      string      `json:"cmd"`
	Kind     string      `json:"kind"` // paging | status | balances
	What     string      `json:"what"` // see README
	Method   string      `json:"method"`
	Key      interface{} `json:"key"`
	Filters  interface{} `json:"filters,omitempty"`
	Expected int         `json:"expected"`
	Got      int         `json:"got"`
	Detail   string      `json:"detail"`
	Examples []string    `json:"examples,omitempty"`
}

// ---- the ledger as the sqlite file has it ----

type hRef struct {
	Hash string // hex
	Idx  int
}

func (r hRef) String() string { return fmt.Sprintf("%d-%s", r.Idx, r.Hash) }

type hBatch struct {
	ID       int64
	Hash     string
	Height   int64
	TS       int64
	Executed int64
}

type hTx struct {
	Ref        hRef
	Action     int
	From       []byte
	FromAsset  string
	FromAmount int64
	ToAsset    string
	ToAmount   int64
	Outputs    []byte
}

type hLedger struct {
	batches  []*hBatch
	byHash   map[string][]*hBatch
	byHeight map[int64][]*hBatch
	txs      map[hRef]*hTx
	txByHash map[string][]*hTx
	byAddr   map[string][]hRef // address hex -> lookup rows
	addrs    []string          // sorted address hex of pn_history_lookup

	lookupRows, orphanLookups, orphanTxs, multiRowHashes int

	balCols  []string           // *_balance columns of pn_addresses
	balances map[string][]int64 // address hex -> values in balCols order
	balAddrs []string           // sorted
	execStat map[string]int     // applied / rejected / pending
}

func asString(v interface{}) string {
	switch x := v.(type) {
	case nil:
		return ""
	case []byte:
		return string(x)
	case string:
		return x
	}
	return fmt.Sprint(v)
}

func loadLedger(db *sql.DB) (*hLedger, error) {
	l := &hLedger{byHash: map[string][]*hBatch{}, byHeight: map[int64][]*hBatch{}, txs: map[hRef]*hTx{},
		txByHash: map[string][]*hTx{}, byAddr: map[string][]hRef{}, balances: map[string][]int64{}, execStat: map[string]int{}}

	rows, err := db.Query(`SELECT history_id, entry_hash, height, timestamp, executed FROM pn_history_txbatch ORDER BY history_id`)
	if err != nil {
		return nil, fmt.Errorf("pn_history_txbatch: %v", err)
	}
	for rows.Next() {
		b := &hBatch{}
		var hash []byte
		if err := rows.Scan(&b.ID, &hash, &b.Height, &b.TS, &b.Executed); err != nil {
			rows.Close()
			return nil, fmt.Errorf("pn_history_txbatch: %v", err)
		}
		b.Hash = hex.EncodeToString(hash)
		l.batches = append(l.batches, b)
		l.byHash[b.Hash] = append(l.byHash[b.Hash], b)
		l.byHeight[b.Height] = append(l.byHeight[b.Height], b)
		switch {
		case b.Executed > 0:
			l.execStat["applied"]++
		case b.Executed < 0:
			l.execStat["rejected"]++
		default:
			l.execStat["pending"]++
		}
	}
	if err := rows.Err(); err != nil {
		return nil, err
	}
	rows.Close()
	for _, bs := range l.byHash {
		if len(bs) > 1 {
			l.multiRowHashes++
		}
	}

	rows, err = db.Query(`SELECT entry_hash, tx_index, action_type, from_address, from_asset, from_amount, to_asset, to_amount, outputs FROM pn_history_transaction`)
	if err != nil {
		return nil, fmt.Errorf("pn_history_transaction: %v", err)
	}
	for rows.Next() {
		t := &hTx{}
		var hash []byte
		var fa, ta, out interface{}
		if err := rows.Scan(&hash, &t.Ref.Idx, &t.Action, &t.From, &fa, &t.FromAmount, &ta, &t.ToAmount, &out); err != nil {
			rows.Close()
			return nil, fmt.Errorf("pn_history_transaction: %v", err)
		}
		t.Ref.Hash = hex.EncodeToString(hash)
		t.FromAsset, t.ToAsset, t.Outputs = asString(fa), asString(ta), []byte(asString(out))
		l.txs[t.Ref] = t
		l.txByHash[t.Ref.Hash] = append(l.txByHash[t.Ref.Hash], t)
	}
	if err := rows.Err(); err != nil {
		return nil, err
	}
	rows.Close()
	for h, ts := range l.txByHash {
		sort.Slice(ts, func(i, j int) bool { return ts[i].Ref.Idx < ts[j].Ref.Idx })
		if len(l.byHash[h]) == 0 {
			l.orphanTxs += len(ts)
		}
	}

	rows, err = db.Query(`SELECT entry_hash, tx_index, address FROM pn_history_lookup`)
	if err != nil {
		return nil, fmt.Errorf("pn_history_lookup: %v", err)
	}
	for rows.Next() {
		var hash, addr []byte
		var idx int
		if err := rows.Scan(&hash, &idx, &addr); err != nil {
			rows.Close()
			return nil, fmt.Errorf("pn_history_lookup: %v", err)
		}
		r := hRef{hex.EncodeToString(hash), idx}
		a := hex.EncodeToString(addr)
		l.byAddr[a] = append(l.byAddr[a], r)
		l.lookupRows++
		if l.txs[r] == nil {
			l.orphanLookups++
		}
	}
	if err := rows.Err(); err != nil {
		return nil, err
	}
	rows.Close()
	for a := range l.byAddr {
		l.addrs = append(l.addrs, a)
	}
	sort.Strings(l.addrs)

	rows, err = db.Query(`SELECT * FROM pn_addresses`)
	if err != nil {
		return nil, fmt.Errorf("pn_addresses: %v", err)
	}
	cols, err := rows.Columns()
	if err != nil {
		rows.Close()
		return nil, err
	}
	addrCol := -1
	var balIdx []int
	for i, c := range cols {
		if c == "address" {
			addrCol = i
		}
		if strings.HasSuffix(c, "_balance") {
			l.balCols = append(l.balCols, c)
			balIdx = append(balIdx, i)
		}
	}
	if addrCol < 0 {
		rows.Close()
		return nil, fmt.Errorf("pn_addresses has no address column")
	}
	for rows.Next() {
		vals := make([]interface{}, len(cols))
		ptrs := make([]interface{}, len(cols))
		for i := range vals {
			ptrs[i] = &vals[i]
		}
		if err := rows.Scan(ptrs...); err != nil {
			rows.Close()
			return nil, fmt.Errorf("pn_addresses: %v", err)
		}
		ab, _ := vals[addrCol].([]byte)
		a := hex.EncodeToString(ab)
		bal := make([]int64, len(balIdx))
		for k, i := range balIdx {
			switch x := vals[i].(type) {
			case int64:
				bal[k] = x
			case float64:
				bal[k] = int64(x)
			}
		}
		l.balances[a] = bal
		l.balAddrs = append(l.balAddrs, a)
	}
	if err := rows.Err(); err != nil {
		return nil, err
	}
	rows.Close()
	sort.Strings(l.balAddrs)
	return l, nil
}

// ---- keys and filters ----

// hKey is what a get-transactions request selects by.
type hKey struct {
	By     string // entryhash | address | height
	Hex    string // hash or address, hex
	Height int64
}

func (k hKey) param() (string, interface{}) {
	switch k.By {
	case "entryhash":
		return "entryhash", k.Hex
	case "address":
		return "address", faOfHex(k.Hex)
	}
	return "height", k.Height
}

func (k hKey) json() map[string]interface{} {
	n, v := k.param()
	return map[string]interface{}{n: v}
}

func faOfHex(h string) string {
	raw, _ := hex.DecodeString(h)
	var b [32]byte
	copy(b[:], raw)
	return chain.FAString(b)
}

// hFilter holds the optional parameters of get-transactions.
type hFilter struct {
	Desc       bool   `json:"desc"`
	Transfer   bool   `json:"transfer"`
	Conversion bool   `json:"conversion"`
	Coinbase   bool   `json:"coinbase"`
	Burn       bool   `json:"burn"`
	Asset      string `json:"asset,omitempty"`
}

// action_type values of pn_history_transaction (txhistory_util.go)
const (
	actTransfer   = 1
	actConversion = 2
	actCoinbase   = 3
	actBurn       = 4
)

// match: the documented filter semantics. No type flag (or all four) = every
// type; asset = the action's source or destination asset.
func (f hFilter) match(t *hTx) bool {
	n := 0
	for _, b := range []bool{f.Transfer, f.Conversion, f.Coinbase, f.Burn} {
		if b {
			n++
		}
	}
	if n != 0 && n != 4 {
		ok := (f.Transfer && t.Action == actTransfer) || (f.Conversion && t.Action == actConversion) ||
			(f.Coinbase && t.Action == actCoinbase) || (f.Burn && t.Action == actBurn)
		if !ok {
			return false
		}
	}
	if f.Asset != "" && t.FromAsset != f.Asset && t.ToAsset != f.Asset {
		return false
	}
	return true
}

// unfiltered returns the recorded actions a key selects, each once.
func (l *hLedger) unfiltered(k hKey) []*hTx {
	var out []*hTx
	switch k.By {
	case "entryhash":
		if len(l.byHash[k.Hex]) > 0 {
			out = append(out, l.txByHash[k.Hex]...)
		}
	case "address":
		seen := map[hRef]bool{}
		for _, r := range l.byAddr[k.Hex] {
			if t := l.txs[r]; t != nil && len(l.byHash[r.Hash]) > 0 && !seen[r] {
				seen[r] = true
				out = append(out, t)
			}
		}
	case "height":
		seen := map[string]bool{}
		for _, b := range l.byHeight[k.Height] {
			if !seen[b.Hash] {
				seen[b.Hash] = true
				out = append(out, l.txByHash[b.Hash]...)
			}
		}
	}
	return out
}

func (l *hLedger) expected(k hKey, f hFilter) map[hRef]*hTx {
	out := map[hRef]*hTx{}
	for _, t := range l.unfiltered(k) {
		if f.match(t) {
			out[t.Ref] = t
		}
	}
	return out
}

var reTicker = regexp.MustCompile(`^(PEG|p[A-Z]{2,5})$`)

var hAbsentAssets = []string{"pXAU", "pXAG", "pDCR", "pZEC", "pKRW"}

// assetChoices: assets that occur in the key's actions (valid tickers only:
// "FCT", the source of a burn, cannot be asked for) and one that does not.
func (l *hLedger) assetChoices(k hKey) (present []string, absent string) {
	set := map[string]bool{}
	for _, t := range l.unfiltered(k) {
		for _, a := range []string{t.FromAsset, t.ToAsset} {
			if reTicker.MatchString(a) {
				set[a] = true
			}
		}
	}
	for a := range set {
		present = append(present, a)
	}
	sort.Strings(present)
	for _, a := range hAbsentAssets {
		if !set[a] {
			absent = a
			break
		}
	}
	return present, absent
}

func allTypeCombos(assets []string) []hFilter {
	var out []hFilter
	for _, a := range assets {
		for m := 0; m < 16; m++ {
			for d := 0; d < 2; d++ {
				out = append(out, hFilter{Desc: d == 1, Transfer: m&1 != 0, Conversion: m&2 != 0, Coinbase: m&4 != 0, Burn: m&8 != 0, Asset: a})
			}
		}
	}
	return out
}

// ---- API client ----

type hAPI struct {
	client *http.Client
	url    string
	calls  map[string]*int64
	fatal  atomic.Value // first transport error (string)
}

type hRPCError struct {
	Code    int             `json:"code"`
	Message string          `json:"message"`
	Data    json.RawMessage `json:"data"`
}

func (e *hRPCError) String() string {
	if e == nil {
		return ""
	}
	return fmt.Sprintf("%d %s %s", e.Code, e.Message, clipN(string(e.Data), 120))
}

func clipN(s string, n int) string {
	if len(s) > n {
		return s[:n] + "..."
	}
	return s
}

func (a *hAPI) call(method string, params interface{}) (json.RawMessage, *hRPCError) {
	atomic.AddInt64(a.calls[method], 1)
	req := map[string]interface{}{"jsonrpc": "2.0", "id": 1, "method": method, "params": params}
	body, _ := json.Marshal(req)
	var lastErr error
	for attempt := 0; attempt < 3; attempt++ {
		resp, err := a.client.Post(a.url, "application/json", bytes.NewReader(body))
		if err != nil {
			lastErr = err
			time.Sleep(10 * time.Millisecond)
			continue
		}
		data, err := io.ReadAll(resp.Body)
		resp.Body.Close()
		if err != nil {
			lastErr = err
			continue
		}
		var out struct {
			Result json.RawMessage `json:"result"`
			Error  *hRPCError      `json:"error"`
		}
		if err := json.Unmarshal(data, &out); err != nil {
			lastErr = fmt.Errorf("http %d, bad body %q", resp.StatusCode, clipN(string(data), 200))
			continue
		}
		return out.Result, out.Error
	}
	a.fatal.CompareAndSwap(nil, fmt.Sprintf("%s: %v", method, lastErr))
	return nil, &hRPCError{Code: -1, Message: "transport: " + lastErr.Error()}
}

// hAction is one element of the `actions` array (pegnet.HistoryTransaction).
type hAction struct {
	Hash        string    `json:"hash"`
	TxID        string    `json:"txid"`
	Height      int64     `json:"height"`
	Timestamp   time.Time `json:"timestamp"`
	Executed    int64     `json:"executed"`
	TxIndex     int       `json:"txindex"`
	TxAction    int       `json:"txaction"`
	FromAddress string    `json:"fromaddress"`
	FromAsset   string    `json:"fromasset"`
	FromAmount  int64     `json:"fromamount"`
	ToAsset     string    `json:"toasset"`
	ToAmount    int64     `json:"toamount"`
	Outputs     []struct {
		Address string `json:"address"`
		Amount  int64  `json:"amount"`
	} `json:"outputs"`
}

func (a hAction) ref() hRef { return hRef{strings.ToLower(a.Hash), a.TxIndex} }

type hPage struct {
	Actions    []hAction `json:"actions"`
	Count      int       `json:"count"`
	NextOffset int       `json:"nextoffset"`
}

const (
	codeTxNotFound   = -32803
	codeAddrNotFound = -32808
)

// ---- the run ----

type histRun struct {
	led   *hLedger
	api   *hAPI
	limit int

	series, pages, multiPage int64
}

type hTask struct {
	key      hKey
	filter   hFilter
	offsets  bool // also probe explicit offsets
	viol     []HistViolation
	expected int
}

func (h *histRun) v(kind, what, method string, key, filters interface{}, expected, got int, detail string, ex []string) HistViolation {
	if len(ex) > 6 {
		ex = append(ex[:6:6], fmt.Sprintf("... %d more", len(ex)-6))
	}
	return HistViolation{Cmd: "history", Kind: kind, What: what, Method: method, Key: key, Filters: filters, Expected: expected, Got: got, Detail: detail, Examples: ex}
}

// getPage requests one page. A "Transaction Not Found" answer is an empty page
// (found=false).
func (h *histRun) getPage(method string, params map[string]interface{}) (p hPage, found bool, rpcErr *hRPCError) {
	atomic.AddInt64(&h.pages, 1)
	res, e := h.api.call(method, params)
	if e != nil {
		if e.Code == codeTxNotFound {
			return hPage{}, false, nil
		}
		return hPage{}, false, e
	}
	if err := json.Unmarshal(res, &p); err != nil {
		return hPage{}, false, &hRPCError{Code: -2, Message: "undecodable result: " + err.Error(), Data: json.RawMessage(fmt.Sprintf("%q", clipN(string(res), 200)))}
	}
	return p, true, nil
}

func (h *histRun) params(k hKey, f hFilter, offset int) map[string]interface{} {
	name, val := k.param()
	p := map[string]interface{}{name: val, "desc": f.Desc, "transfer": f.Transfer, "conversion": f.Conversion, "coinbase": f.Coinbase, "burn": f.Burn}
	if f.Asset != "" {
		p["asset"] = f.Asset
	}
	if offset != 0 {
		p["offset"] = offset
	}
	return p
}

type hFilterOut struct {
	hFilter
	Offset int `json:"offset"`
}

// runTask walks one (key, filter) through the pages and, if asked, probes
// explicit offsets.
func (h *histRun) runTask(t *hTask) {
	atomic.AddInt64(&h.series, 1)
	k, f := t.key, t.filter
	exp := h.led.expected(k, f)
	n := len(exp)
	t.expected = n
	add := func(what string, off, expected, got int, detail string, ex []string) {
		t.viol = append(t.viol, h.v("paging", what, "get-transactions", k.json(), hFilterOut{f, off}, expected, got, detail, ex))
	}

	// 1. follow nextoffset from 0
	var seq []hAction
	clean := true
	offset, pages := 0, 0
	for {
		p, found, e := h.getPage("get-transactions", h.params(k, f, offset))
		pages++
		if e != nil {
			add("error", offset, n, 0, "request failed: "+e.String(), nil)
			clean = false
			break
		}
		if !found {
			if offset < n {
				add("missing", offset, n, len(seq), fmt.Sprintf("Transaction Not Found at offset %d although %d actions match", offset, n), nil)
				clean = false
			}
			break
		}
		if len(p.Actions) > h.limit {
			add("page_size", offset, h.limit, len(p.Actions), "page larger than the limit", nil)
			clean = false
		}
		if p.Count != n {
			add("count", offset, n, p.Count, fmt.Sprintf("`count` of the page at offset %d differs from the number of matching recorded actions", offset), nil)
			clean = false
		}
		seq = append(seq, p.Actions...)
		if p.NextOffset == 0 {
			if offset+len(p.Actions) < n {
				add("nextoffset", offset, offset+len(p.Actions), 0, fmt.Sprintf("nextoffset 0 after %d of %d actions", offset+len(p.Actions), n), nil)
				clean = false
			}
			break
		}
		if len(p.Actions) < h.limit {
			add("page_size", offset, h.limit, len(p.Actions), fmt.Sprintf("short page (%d actions) although nextoffset=%d announces more", len(p.Actions), p.NextOffset), nil)
			clean = false
		}
		if p.NextOffset != offset+len(p.Actions) {
			add("nextoffset", offset, offset+len(p.Actions), p.NextOffset, "nextoffset is not offset + page length", nil)
			clean = false
		}
		if p.NextOffset <= offset || pages > n/h.limit+8 {
			add("nextoffset", offset, 0, p.NextOffset, "paging does not terminate", nil)
			clean = false
			break
		}
		offset = p.NextOffset
	}
	if pages > 1 {
		atomic.AddInt64(&h.multiPage, 1)
	}

	// 2. the concatenation: no duplicate, equal to the expected set, ordered
	seen := map[hRef]int{}
	var dups, extra, missing, order, fields []string
	var lastID int64
	for i, a := range seq {
		r := a.ref()
		seen[r]++
		if seen[r] == 2 {
			dups = append(dups, r.String())
		}
		tx := exp[r]
		if tx == nil {
			if seen[r] == 1 {
				extra = append(extra, r.String())
			}
			continue
		}
		var b *hBatch
		for _, c := range h.led.byHash[r.Hash] {
			if c.Height == a.Height {
				b = c
			}
		}
		if b == nil {
			fields = append(fields, fmt.Sprintf("%s: height %d is not a pn_history_txbatch row of this hash", r, a.Height))
			continue
		}
		if i > 0 && ((!f.Desc && b.ID < lastID) || (f.Desc && b.ID > lastID)) {
			order = append(order, fmt.Sprintf("position %d: %s history_id %d after history_id %d", i, r, b.ID, lastID))
		}
		lastID = b.ID
		if msg := checkFields(a, tx, b); msg != "" {
			fields = append(fields, r.String()+": "+msg)
		}
	}
	for r := range exp {
		if seen[r] == 0 {
			missing = append(missing, r.String())
		}
	}
	sort.Strings(missing)
	if len(dups) > 0 {
		total := 0
		for _, c := range seen {
			if c > 1 {
				total += c - 1
			}
		}
		add("duplicate", 0, n, len(seq), fmt.Sprintf("%d actions returned more than once (%d surplus copies) over %d pages", len(dups), total, pages), dups)
		clean = false
	}
	if len(missing) > 0 {
		add("missing", 0, n, len(seen)-len(extra), fmt.Sprintf("%d recorded actions never returned over %d pages", len(missing), pages), missing)
		clean = false
	}
	if len(extra) > 0 {
		add("extra", 0, n, len(seq), fmt.Sprintf("%d returned actions do not match the key/filter in the database", len(extra)), extra)
		clean = false
	}
	if len(order) > 0 {
		add("order", 0, n, len(order), "actions not ordered by history_id "+map[bool]string{false: "ASC", true: "DESC"}[f.Desc], order)
		clean = false
	}
	if len(fields) > 0 {
		add("fields", 0, n, len(fields), "returned action differs from its database rows", fields)
	}

	// 3. explicit offsets
	if !t.offsets {
		return
	}
	offs := map[int]bool{}
	for _, o := range []int{1, n / 2, n - 1, n, n + 1, h.limit - 1, h.limit, h.limit + 1, n - h.limit, 2 * h.limit} {
		if o >= 1 && o <= n+1 {
			offs[o] = true
		}
	}
	var list []int
	for o := range offs {
		list = append(list, o)
	}
	sort.Ints(list)
	for _, o := range list {
		atomic.AddInt64(&h.series, 1)
		p, found, e := h.getPage("get-transactions", h.params(k, f, o))
		if o >= n {
			// nothing left: an error answer of some kind is expected
			if e == nil && found && len(p.Actions) > 0 {
				add("extra", o, 0, len(p.Actions), fmt.Sprintf("offset %d >= count %d returns actions", o, n), nil)
			}
			continue
		}
		if e != nil {
			add("error", o, n-o, 0, "request failed: "+e.String(), nil)
			continue
		}
		want := n - o
		if want > h.limit {
			want = h.limit
		}
		if !found {
			add("missing", o, want, 0, fmt.Sprintf("Transaction Not Found at offset %d of %d", o, n), nil)
			continue
		}
		if p.Count != n {
			add("count", o, n, p.Count, "`count` differs at an explicit offset", nil)
		}
		if len(p.Actions) != want {
			what := "missing"
			if len(p.Actions) > h.limit {
				what = "page_size"
			} else if len(p.Actions) > want {
				what = "extra"
			}
			add(what, o, want, len(p.Actions), fmt.Sprintf("page at offset %d of %d has %d actions", o, n, len(p.Actions)), nil)
		}
		wantNext := 0
		if o+len(p.Actions) < n {
			wantNext = o + len(p.Actions)
		}
		if p.NextOffset != wantNext {
			add("nextoffset", o, wantNext, p.NextOffset, "nextoffset at an explicit offset", nil)
		}
		if clean && len(seq) == n {
			// the page must be the same slice of the sequence the walk produced
			var diff []string
			for i, a := range p.Actions {
				if o+i >= len(seq) {
					break
				}
				if a.ref() != seq[o+i].ref() {
					diff = append(diff, fmt.Sprintf("position %d: %s, the walk from 0 had %s", o+i, a.ref(), seq[o+i].ref()))
				}
			}
			if len(diff) > 0 {
				add("order", o, 0, len(diff), "page at an explicit offset is not the same slice of the sequence as the walk from offset 0", diff)
			}
		} else {
			var bad []string
			for _, a := range p.Actions {
				if exp[a.ref()] == nil {
					bad = append(bad, a.ref().String())
				}
			}
			if len(bad) > 0 {
				add("extra", o, 0, len(bad), "actions outside the expected set at an explicit offset", bad)
			}
		}
	}
}

// checkFields compares an API action with its transaction and batch rows.
func checkFields(a hAction, t *hTx, b *hBatch) string {
	var bad []string
	cmp := func(name string, got, want interface{}) {
		if fmt.Sprint(got) != fmt.Sprint(want) {
			bad = append(bad, fmt.Sprintf("%s=%v (database %v)", name, got, want))
		}
	}
	cmp("executed", a.Executed, b.Executed)
	cmp("timestamp", a.Timestamp.Unix(), b.TS)
	cmp("txaction", a.TxAction, t.Action)
	cmp("fromaddress", a.FromAddress, faOfHex(hex.EncodeToString(t.From)))
	cmp("fromasset", a.FromAsset, t.FromAsset)
	cmp("fromamount", a.FromAmount, t.FromAmount)
	cmp("toasset", a.ToAsset, t.ToAsset)
	cmp("toamount", a.ToAmount, t.ToAmount)
	if _, hash, ok := splitTxID(a.TxID); !ok || hash != strings.ToLower(a.Hash) {
		bad = append(bad, fmt.Sprintf("txid=%s for hash %s index %d", a.TxID, a.Hash, a.TxIndex))
	} else if idx, _, _ := splitTxID(a.TxID); idx != a.TxIndex {
		bad = append(bad, fmt.Sprintf("txid=%s for index %d", a.TxID, a.TxIndex))
	}
	if t.Action == actTransfer {
		var outs []struct {
			Address string `json:"address"`
			Amount  int64  `json:"amount"`
		}
		if json.Unmarshal(t.Outputs, &outs) == nil {
			if len(outs) != len(a.Outputs) {
				bad = append(bad, fmt.Sprintf("%d outputs (database %d)", len(a.Outputs), len(outs)))
			} else {
				for i := range outs {
					if outs[i].Address != a.Outputs[i].Address || outs[i].Amount != a.Outputs[i].Amount {
						bad = append(bad, fmt.Sprintf("output %d = %s:%d (database %s:%d)", i, a.Outputs[i].Address, a.Outputs[i].Amount, outs[i].Address, outs[i].Amount))
					}
				}
			}
		}
	}
	return strings.Join(bad, "; ")
}

func splitTxID(s string) (int, string, bool) {
	i := strings.IndexByte(s, '-')
	if i <= 0 {
		return 0, "", false
	}
	var idx int
	if _, err := fmt.Sscanf(s[:i], "%d", &idx); err != nil {
		return 0, "", false
	}
	return idx, strings.ToLower(s[i+1:]), true
}

// single: get-transaction (and get-transactions) by txid.
func (h *histRun) single(method string, r hRef, exists bool) []HistViolation {
	atomic.AddInt64(&h.series, 1)
	var out []HistViolation
	key := map[string]interface{}{"txid": r.String()}
	add := func(what string, expected, got int, detail string, ex []string) {
		out = append(out, h.v("paging", what, method, key, nil, expected, got, detail, ex))
	}
	p, found, e := h.getPage(method, map[string]interface{}{"txid": r.String()})
	if e != nil {
		add("error", 1, 0, "request failed: "+e.String(), nil)
		return out
	}
	if !exists {
		if found && len(p.Actions) > 0 {
			add("extra", 0, len(p.Actions), "a txid that is not recorded returns actions", nil)
		}
		return out
	}
	if !found {
		add("missing", 1, 0, "Transaction Not Found for a recorded action", nil)
		return out
	}
	var others []string
	n := 0
	for _, a := range p.Actions {
		if a.ref() == r {
			n++
		} else {
			others = append(others, a.ref().String())
		}
	}
	switch {
	case n == 0:
		add("missing", 1, 0, "the requested action is not in the answer", others)
	case n > 1:
		add("duplicate", 1, n, "the requested action is returned more than once", nil)
	}
	if len(others) > 0 {
		add("extra", 1, len(p.Actions), "other actions than the requested one are returned", others)
	}
	if p.Count != 1 {
		add("count", 1, p.Count, fmt.Sprintf("`count` of a single-action query (the batch has %d actions)", len(h.led.txByHash[r.Hash])), nil)
	}
	if p.NextOffset != 0 {
		_, found2, _ := h.getPage(method, map[string]interface{}{"txid": r.String(), "offset": p.NextOffset})
		add("nextoffset", 0, p.NextOffset, fmt.Sprintf("a single-action query announces a next page; following it: found=%v", found2), nil)
	}
	return out
}

func (h *histRun) status(hash string) []HistViolation {
	var out []HistViolation
	key := map[string]interface{}{"entryhash": hash}
	rows := h.led.byHash[hash]
	add := func(what string, expected, got int, detail string) {
		out = append(out, h.v("status", what, "get-transaction-status", key, nil, expected, got, detail, nil))
	}
	res, e := h.api.call("get-transaction-status", map[string]interface{}{"entryhash": hash})
	if len(rows) == 0 {
		if e == nil {
			add("unrecorded", 0, 1, "status reported for a hash without a pn_history_txbatch row: "+clipN(string(res), 120))
		} else if e.Code != codeTxNotFound {
			add("error", 0, 0, "request failed: "+e.String())
		}
		return out
	}
	if e != nil {
		add("not_found", int(rows[0].Executed), 0, "recorded batch, but: "+e.String())
		return out
	}
	var st struct {
		Height   int64 `json:"height"`
		Executed int64 `json:"executed"`
	}
	if err := json.Unmarshal(res, &st); err != nil {
		add("error", int(rows[0].Executed), 0, "undecodable result "+clipN(string(res), 120))
		return out
	}
	ok := false
	var desc []string
	distinct := map[int64]bool{}
	for _, b := range rows {
		if b.Height == st.Height && b.Executed == st.Executed {
			ok = true
		}
		distinct[b.Executed] = true
		desc = append(desc, fmt.Sprintf("history_id %d height %d executed %d", b.ID, b.Height, b.Executed))
	}
	if !ok {
		add("executed", int(rows[0].Executed), int(st.Executed), fmt.Sprintf("API says height %d executed %d; database: %s", st.Height, st.Executed, strings.Join(desc, ", ")))
	}
	if len(distinct) > 1 {
		add("ambiguous", int(rows[0].Executed), int(st.Executed), fmt.Sprintf("the hash has %d batch rows with different executed values, the API reports one: %s", len(rows), strings.Join(desc, ", ")))
	}
	return out
}

func (h *histRun) balance(addrHex string) []HistViolation {
	var out []HistViolation
	fa := faOfHex(addrHex)
	key := map[string]interface{}{"address": fa}
	add := func(what string, expected, got int, detail string, ex []string) {
		out = append(out, h.v("balances", what, "get-pegnet-balances", key, nil, expected, got, detail, ex))
	}
	want, known := h.led.balances[addrHex]
	res, e := h.api.call("get-pegnet-balances", map[string]interface{}{"address": fa})
	if !known {
		// no row = no funds: "Address Not Found" or all zeros (what
		// SelectBalances documents) are both true answers
		if e != nil {
			if e.Code != codeAddrNotFound {
				add("error", 0, 0, "request failed: "+e.String(), nil)
			}
			return out
		}
		var got map[string]json.Number
		dec := json.NewDecoder(bytes.NewReader(res))
		dec.UseNumber()
		if err := dec.Decode(&got); err != nil {
			add("error", 0, 0, "undecodable result "+clipN(string(res), 120), nil)
			return out
		}
		var nz []string
		for tck, v := range got {
			if v.String() != "0" {
				nz = append(nz, tck+"="+v.String())
			}
		}
		sort.Strings(nz)
		if len(nz) > 0 {
			add("unknown_address", 0, len(nz), "non-zero balances reported for an address without a pn_addresses row", nz)
		}
		return out
	}
	if e != nil {
		add("error", len(want), 0, "request failed: "+e.String(), nil)
		return out
	}
	var got map[string]json.Number
	dec := json.NewDecoder(bytes.NewReader(res))
	dec.UseNumber()
	if err := dec.Decode(&got); err != nil {
		add("error", len(want), 0, "undecodable result "+clipN(string(res), 120), nil)
		return out
	}
	byCol := map[string]string{}
	for tck, v := range got {
		byCol[strings.ToLower(tck)+"_balance"] = v.String()
	}
	var diff []string
	for i, c := range h.led.balCols {
		g, ok := byCol[c]
		delete(byCol, c)
		if !ok {
			if want[i] != 0 {
				diff = append(diff, fmt.Sprintf("%s: absent (database %d)", c, want[i]))
			}
			continue
		}
		if g != fmt.Sprint(want[i]) {
			diff = append(diff, fmt.Sprintf("%s: %s (database %d)", c, g, want[i]))
		}
	}
	for c, g := range byCol {
		diff = append(diff, fmt.Sprintf("%s: %s (no such column)", c, g))
	}
	sort.Strings(diff)
	if len(diff) > 0 {
		add("balance", len(h.led.balCols), len(diff), "balances differ from the pn_addresses row", diff)
	}
	return out
}

// CmdHistory: C17.
func CmdHistory(c *Common, o *HistoryOptions) int {
	start := time.Now()
	fail := func(format string, a ...interface{}) int {
		Emit(map[string]interface{}{"cmd": "history", "scenario": c.Scenario, "seed": c.Seed, "error": fmt.Sprintf(format, a...)})
		return 2
	}
	if o.Limit <= 0 {
		o.Limit = 50
	}
	root := filepath.Join(c.Work, "history")
	os.RemoveAll(root)
	if err := os.MkdirAll(root, 0777); err != nil {
		return fail("%v", err)
	}
	sc, err := OpenScenario(c.Scenario, c.Seed)
	if err != nil {
		return fail("%v", err)
	}
	defer sc.Close()
	dbFile := filepath.Join(root, "pegnet.db")
	n, err := NewNode(dbFile, sc.URL(), c.DBMode)
	if err != nil {
		return fail("NewPegnetd: %v", err)
	}
	// the real API server, started exactly as cmd/root.go does, BEFORE the sync (never shut
	// down: srv.Shutdown(nil) would crash the process, see apiload)
	addr, err := freePort()
	if err != nil {
		return fail("%v", err)
	}
	n.Config.Set(config.APIListen, addr)
	srvDone := srv.NewAPIServer(n.Config, n).Start(make(chan struct{}))
	for i := 0; i < 500; i++ {
		if cn, err := net.DialTimeout("tcp", addr, 100*time.Millisecond); err == nil {
			cn.Close()
			break
		}
		time.Sleep(5 * time.Millisecond)
	}
	// wallets polling get-transaction-status for every transaction-chain entry WHILE the chain is synced: what a
	// client was told in the middle of a block must not stick -- the walk below compares every status with the
	// committed table afterwards (seeded C17-j: a status cache refilled between the UPDATE and the COMMIT)
	var pollStop int32
	var pollCalls int64
	var pollWG sync.WaitGroup
	{
		var hashes []string
		for ht := sc.First; ht <= sc.Last; ht++ {
			for _, eh := range sc.FC.EntryHashes(ht, config.TransactionChain) {
				hashes = append(hashes, hex.EncodeToString(eh[:]))
			}
		}
		pc := &http.Client{Timeout: 30 * time.Second, Transport: &http.Transport{MaxIdleConnsPerHost: 4, MaxIdleConns: 4}}
		for w := 0; w < 3 && len(hashes) > 0; w++ {
			pollWG.Add(1)
			go func(w int) {
				defer pollWG.Done()
				for i := w; atomic.LoadInt32(&pollStop) == 0; i++ {
					body, _ := json.Marshal(map[string]interface{}{"jsonrpc": "2.0", "id": 1, "method": "get-transaction-status",
						"params": map[string]interface{}{"entryhash": hashes[i%len(hashes)]}})
					if resp, err := pc.Post("http://"+addr+"/v1", "application/json", bytes.NewReader(body)); err == nil {
						io.Copy(io.Discard, resp.Body)
						resp.Body.Close()
						atomic.AddInt64(&pollCalls, 1)
					} else {
						time.Sleep(time.Millisecond)
					}
				}
			}(w)
		}
	}
	t0 := time.Now()
	serr := chain.SyncTo(n, sc.FC, sc.Last, c.Timeout)
	atomic.StoreInt32(&pollStop, 1)
	pollWG.Wait()
	if serr != nil {
		return fail("sync to %d: %s", sc.Last, firstLine(serr.Error()))
	}
	syncMs := time.Since(t0).Milliseconds()
	Logf("history: %s/%d synced to %d in %d ms under %d status polls", c.Scenario, c.Seed, sc.Last, syncMs, atomic.LoadInt64(&pollCalls))
	up := false
	for i := 0; i < 500 && !up; i++ {
		if cn, err := net.DialTimeout("tcp", addr, 100*time.Millisecond); err == nil {
			cn.Close()
			up = true
			break
		}
		select {
		case <-srvDone:
			return fail("API server exited at start-up")
		default:
		}
		time.Sleep(5 * time.Millisecond)
	}
	if !up {
		return fail("API server did not come up on %s", addr)
	}

	// the expected side: own read-only connection, plain driver
	ro, err := sql.Open("sqlite3", "file:"+chain.DBPath(dbFile)+"?mode=ro&_busy_timeout=10000")
	if err != nil {
		return fail("%v", err)
	}
	defer ro.Close()
	led, err := loadLedger(ro)
	if err != nil {
		return fail("reading the database: %v", err)
	}

	workers := c.Jobs
	if workers < 1 {
		workers = 1
	}
	if workers > 4 {
		workers = 4 // more only adds contention on the node's database/sql pool (2 idle connections)
	}
	api := &hAPI{url: "http://" + addr + "/v1", calls: map[string]*int64{},
		client: &http.Client{Timeout: 60 * time.Second, Transport: &http.Transport{MaxIdleConnsPerHost: workers + 2, MaxIdleConns: workers + 2}}}
	for _, m := range []string{"get-transactions", "get-transaction", "get-transaction-status", "get-pegnet-balances"} {
		api.calls[m] = new(int64)
	}
	h := &histRun{led: led, api: api, limit: o.Limit}
	rng := rand.New(rand.NewSource(c.Seed*7919 + 17))

	// ---- keys ----
	chainHashes := map[string]bool{}
	var chainList []string
	for ht := sc.First; ht <= sc.Last; ht++ {
		for _, id := range [][32]byte{config.TransactionChain, config.OPRChain, config.SPRChain} {
			for _, eh := range sc.FC.EntryHashes(ht, id) {
				s := hex.EncodeToString(eh[:])
				if !chainHashes[s] {
					chainHashes[s] = true
					chainList = append(chainList, s)
				}
			}
		}
		for _, id := range sc.FC.FactoidTxIDs(ht) {
			s := hex.EncodeToString(id[:])
			if !chainHashes[s] {
				chainHashes[s] = true
				chainList = append(chainList, s)
			}
		}
	}
	var hashKeys, addrKeys, heightKeys []hKey
	var recorded []string
	for hash := range led.byHash {
		recorded = append(recorded, hash)
	}
	sort.Strings(recorded)
	for _, hash := range recorded {
		hashKeys = append(hashKeys, hKey{By: "entryhash", Hex: hash})
	}
	for _, a := range led.addrs {
		if len(a) == 64 {
			addrKeys = append(addrKeys, hKey{By: "address", Hex: a})
		}
	}
	var hs []int64
	for ht := range led.byHeight {
		hs = append(hs, ht)
	}
	sort.Slice(hs, func(i, j int) bool { return hs[i] < hs[j] })
	for _, ht := range hs {
		if ht > 0 {
			heightKeys = append(heightKeys, hKey{By: "height", Height: ht})
		}
	}
	// keys that select nothing: chain entries without a history row, heights
	// without a batch, an address nobody used
	var emptyKeys []hKey
	unrecorded := 0
	for _, s := range chainList {
		if len(led.byHash[s]) == 0 {
			unrecorded++
			emptyKeys = append(emptyKeys, hKey{By: "entryhash", Hex: s})
		}
	}
	for ht := int64(sc.First); ht <= int64(sc.Last)+1; ht++ {
		if len(led.byHeight[ht]) == 0 {
			emptyKeys = append(emptyKeys, hKey{By: "height", Height: ht})
		}
	}
	strangerSeed := chain.SeedN("history-stranger", int(c.Seed))
	stranger := hex.EncodeToString(strangerSeed[:])
	emptyKeys = append(emptyKeys, hKey{By: "address", Hex: stranger})

	// ---- tasks ----
	var tasks []*hTask
	maxSet := map[string]int{}
	sample := map[string]int{}
	for _, group := range [][]hKey{hashKeys, addrKeys, heightKeys} {
		if len(group) == 0 {
			continue
		}
		by := group[0].By
		size := make([]int, len(group))
		idx := make([]int, len(group))
		for i, k := range group {
			size[i] = len(led.unfiltered(k))
			idx[i] = i
			if size[i] > maxSet[by] {
				maxSet[by] = size[i]
			}
		}
		// full-combination keys: the five largest, the rest seed-chosen
		full := map[int]bool{}
		sort.SliceStable(idx, func(a, b int) bool { return size[idx[a]] > size[idx[b]] })
		for i := 0; i < len(idx) && i < 5 && len(full) < o.FullKeys; i++ {
			full[idx[i]] = true
		}
		for _, i := range rng.Perm(len(group)) {
			if len(full) >= o.FullKeys {
				break
			}
			full[i] = true
		}
		sample[by] = len(full)
		for i, k := range group {
			present, absent := led.assetChoices(k)
			krng := rand.New(rand.NewSource(c.Seed*1000003 + int64(len(tasks))))
			if full[i] {
				assets := []string{""}
				if len(present) > 3 {
					krng.Shuffle(len(present), func(a, b int) { present[a], present[b] = present[b], present[a] })
					present = present[:3]
				}
				assets = append(assets, present...)
				if absent != "" {
					assets = append(assets, absent)
				}
				for _, f := range allTypeCombos(assets) {
					tasks = append(tasks, &hTask{key: k, filter: f, offsets: true})
				}
				continue
			}
			tasks = append(tasks, &hTask{key: k, filter: hFilter{}, offsets: true}, &hTask{key: k, filter: hFilter{Desc: true}, offsets: true})
			assets := append([]string{"", ""}, present...) // no asset filter half of the time
			for j := 0; j < o.Combos; j++ {
				m := 1 + krng.Intn(14) // a proper subset of the four types
				f := hFilter{Desc: krng.Intn(2) == 0, Transfer: m&1 != 0, Conversion: m&2 != 0, Coinbase: m&4 != 0, Burn: m&8 != 0, Asset: assets[krng.Intn(len(assets))]}
				if j == o.Combos-1 && absent != "" && krng.Intn(4) == 0 {
					f.Asset = absent
				}
				tasks = append(tasks, &hTask{key: k, filter: f, offsets: j == 0})
			}
		}
	}
	for _, k := range emptyKeys {
		tasks = append(tasks, &hTask{key: k, filter: hFilter{}})
	}
	nKeys := len(hashKeys) + len(addrKeys) + len(heightKeys) + len(emptyKeys)
	Logf("history: %d batch rows, %d actions, %d lookup rows; keys: %d hashes, %d addresses, %d heights, %d empty; %d filter walks on %d workers",
		len(led.batches), len(led.txs), led.lookupRows, len(hashKeys), len(addrKeys), len(heightKeys), len(emptyKeys), len(tasks), workers)

	Parallel(len(tasks), workers, func(i int) { h.runTask(tasks[i]) })
	var all []HistViolation
	for _, t := range tasks {
		all = append(all, t.viol...)
	}

	// ---- get-transaction by txid ----
	var refs []hRef
	for r := range led.txs {
		if len(led.byHash[r.Hash]) > 0 {
			refs = append(refs, r)
		}
	}
	sort.Slice(refs, func(i, j int) bool {
		if refs[i].Hash != refs[j].Hash {
			return refs[i].Hash < refs[j].Hash
		}
		return refs[i].Idx < refs[j].Idx
	})
	type sjob struct {
		method string
		ref    hRef
		exists bool
	}
	var sjobs []sjob
	for i, r := range refs {
		sjobs = append(sjobs, sjob{"get-transaction", r, true})
		if i%7 == int(c.Seed%7+7)%7 {
			sjobs = append(sjobs, sjob{"get-transactions", r, true})
		}
	}
	for i, hash := range recorded { // one index past the end of a sample of batches
		if i%5 == int(c.Seed%5+5)%5 {
			sjobs = append(sjobs, sjob{"get-transaction", hRef{hash, len(led.txByHash[hash])}, led.txs[hRef{hash, len(led.txByHash[hash])}] != nil})
		}
	}
	sres := make([][]HistViolation, len(sjobs))
	Parallel(len(sjobs), workers, func(i int) { sres[i] = h.single(sjobs[i].method, sjobs[i].ref, sjobs[i].exists) })
	for _, v := range sres {
		all = append(all, v...)
	}

	// ---- status ----
	statusHashes := append([]string(nil), chainList...)
	for _, s := range recorded {
		if !chainHashes[s] {
			statusHashes = append(statusHashes, s) // synthetic txids: staking, developer and zeroing rows
		}
	}
	stres := make([][]HistViolation, len(statusHashes))
	Parallel(len(statusHashes), workers, func(i int) { stres[i] = h.status(statusHashes[i]) })
	for _, v := range stres {
		all = append(all, v...)
	}

	// ---- balances ----
	balAddrs := append([]string(nil), led.balAddrs...)
	for _, a := range led.addrs {
		if _, ok := led.balances[a]; !ok && len(a) == 64 {
			balAddrs = append(balAddrs, a) // in the history, not in pn_addresses
		}
	}
	balAddrs = append(balAddrs, stranger)
	bres := make([][]HistViolation, len(balAddrs))
	Parallel(len(balAddrs), workers, func(i int) { bres[i] = h.balance(balAddrs[i]) })
	for _, v := range bres {
		all = append(all, v...)
	}

	if f := api.fatal.Load(); f != nil {
		return fail("API transport failure: %v", f)
	}

	// ---- output ----
	const perClass = 100
	suppressed := 0
	byClass := map[string]int{}
	for _, v := range all {
		cl := v.Kind + "/" + v.What
		byClass[cl]++
		if byClass[cl] > perClass {
			suppressed++
			continue
		}
		Emit(v)
	}
	calls := map[string]int64{}
	for m, p := range api.calls {
		calls[m] = *p
	}
	Emit(map[string]interface{}{"cmd": "history", "summary": map[string]interface{}{
		"scenario": c.Scenario, "seed": c.Seed, "synced": sc.Last, "limit": o.Limit,
		"keys": nKeys, "hash_keys": len(hashKeys), "address_keys": len(addrKeys), "height_keys": len(heightKeys), "empty_keys": len(emptyKeys),
		"full_combination_keys": sample, "combos_per_key": o.Combos,
		"queries": atomic.LoadInt64(&h.series), "pages": atomic.LoadInt64(&h.pages), "multi_page_walks": atomic.LoadInt64(&h.multiPage),
		"filter_walks": len(tasks), "single_queries": len(sjobs), "status_calls": len(statusHashes), "balance_calls": len(balAddrs),
		"api_calls": calls, "max_actions_per_key": maxSet,
		"batch_rows": len(led.batches), "actions": len(led.txs), "lookup_rows": led.lookupRows, "addresses": len(led.balAddrs),
		"hashes_with_several_batch_rows": led.multiRowHashes, "orphan_lookup_rows": led.orphanLookups, "orphan_transaction_rows": led.orphanTxs,
		"chain_hashes": len(chainList), "chain_hashes_unrecorded": unrecorded, "executed": led.execStat,
		"violations": len(all), "violations_by_class": byClass, "violations_not_printed": suppressed,
		"sync_ms": syncMs, "elapsed_ms": time.Since(start).Milliseconds()}})
	return 0
}
