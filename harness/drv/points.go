package drv

import (
	"fmt"
	"math/rand"
	"sort"
	"strconv"
	"strings"
)

// Point is one place in the run where something is injected.
type Point struct {
	Block uint32 `json:"block"`
	Class string `json:"class"`           // "tx" | "pool" | "rpc"
	Index int    `json:"index"`           // tx: statement index, the last one is the COMMIT; rpc: arrival index, -1 = first heights request
	After bool   `json:"after,omitempty"` // crash only: after the COMMIT returned
	Kind  string `json:"kind"`            // reference run: exec/query/prepare/stmt_exec/stmt_query/commit, or the rpc method
	SQL   string `json:"sql,omitempty"`   // reference run: statement text prefix / raw-data kind
	Site  string `json:"site,omitempty"`  // reference run: pegnetd call chain
}

func (p Point) String() string {
	s := fmt.Sprintf("%d/%s/%d", p.Block, p.Class, p.Index)
	if p.After {
		s += "/after"
	}
	return s
}

func (p Point) sig() string {
	return fmt.Sprintf("%s|%s|%v|%s|%s", p.Class, p.Kind, p.After, p.Site, p.SQL)
}

// ParseBlocks parses "all" or "h1,h2,a-b".
func ParseBlocks(s string, first, last uint32) ([]uint32, error) {
	var out []uint32
	if s == "" || s == "all" {
		for h := first; h <= last; h++ {
			out = append(out, h)
		}
		return out, nil
	}
	seen := map[uint32]bool{}
	for _, part := range strings.Split(s, ",") {
		part = strings.TrimSpace(part)
		lo, hi := part, part
		if i := strings.IndexByte(part, '-'); i > 0 {
			lo, hi = part[:i], part[i+1:]
		}
		a, err := strconv.ParseUint(lo, 10, 32)
		if err != nil {
			return nil, fmt.Errorf("bad height %q", part)
		}
		b, err := strconv.ParseUint(hi, 10, 32)
		if err != nil {
			return nil, fmt.Errorf("bad height %q", part)
		}
		for h := uint32(a); h <= uint32(b); h++ {
			if h < first || h > last {
				return nil, fmt.Errorf("height %d outside the scenario (%d..%d)", h, first, last)
			}
			if !seen[h] {
				seen[h] = true
				out = append(out, h)
			}
		}
	}
	sort.Slice(out, func(i, j int) bool { return out[i] < out[j] })
	return out, nil
}

// SQLPoints lists every SQL operation of the given blocks in the reference
// run. withAfterCommit adds the "after COMMIT" crash point.
func SQLPoints(ref *Ref, blocks []uint32, withAfterCommit bool) []Point {
	var out []Point
	for _, h := range blocks {
		for _, ev := range ref.SQL[h] {
			out = append(out, Point{Block: h, Class: ev.Class, Index: ev.Index, Kind: ev.Kind, SQL: ev.SQL, Site: ev.Site})
			if withAfterCommit && ev.Kind == "commit" {
				out = append(out, Point{Block: h, Class: ev.Class, Index: ev.Index, After: true, Kind: ev.Kind, SQL: ev.SQL, Site: ev.Site})
			}
		}
	}
	return out
}

// RPCPoints lists every factomd request made while a block was open in the
// reference run, plus the very first `heights` poll.
func RPCPoints(ref *Ref, blocks []uint32, first uint32) []Point {
	var out []Point
	for _, h := range blocks {
		if h == first {
			out = append(out, Point{Block: h, Class: "rpc", Index: -1, Kind: "heights"})
		}
		// The server cannot see which pegnetd function sent a request. The
		// ordinal of the request among those with the same method in its
		// block, and how many of them the block has, stand in for the site
		// (a block with two dblock-by-height requests is a NullifyBurnAddress
		// height, and the first of the two is the one it sends); both capped
		// at 3.
		total := map[string]int{}
		for _, ev := range ref.RPC[h] {
			total[ev.Method+"/"+ev.Kind]++
		}
		ord := map[string]int{}
		cap3 := func(n int) int {
			if n > 3 {
				return 3
			}
			return n
		}
		for _, ev := range ref.RPC[h] {
			k := ev.Method + "/" + ev.Kind
			o := ord[k]
			ord[k]++
			out = append(out, Point{Block: h, Class: "rpc", Index: ev.Index, Kind: ev.Method, SQL: ev.Kind,
				Site: fmt.Sprintf("#%d of %d", cap3(o), cap3(total[k]))})
		}
	}
	return out
}

// SamplePoints picks k points (k <= 0 or k >= len: all), deterministic in
// seed. The sample is stratified: points are grouped by (class, kind, call
// site, statement text) and drawn round-robin from the groups, so that rare
// sites (one-time activations, error-status updates) are hit before the bulk
// statements are repeated. The COMMIT groups come first.
func SamplePoints(points []Point, k int, seed int64) []Point {
	if k <= 0 || k >= len(points) {
		return points
	}
	rng := rand.New(rand.NewSource(seed))
	groups := map[string][]Point{}
	var keys []string
	for _, p := range points {
		s := p.sig()
		if _, ok := groups[s]; !ok {
			keys = append(keys, s)
		}
		groups[s] = append(groups[s], p)
	}
	sort.Strings(keys)
	rng.Shuffle(len(keys), func(i, j int) { keys[i], keys[j] = keys[j], keys[i] })
	// the COMMIT points (before / after) are always part of the sample
	sort.SliceStable(keys, func(i, j int) bool {
		return groups[keys[i]][0].Kind == "commit" && groups[keys[j]][0].Kind != "commit"
	})
	for _, key := range keys {
		g := groups[key]
		rng.Shuffle(len(g), func(i, j int) { g[i], g[j] = g[j], g[i] })
	}
	var out []Point
	for round := 0; len(out) < k; round++ {
		progress := false
		for _, key := range keys {
			g := groups[key]
			if round < len(g) {
				out = append(out, g[round])
				progress = true
				if len(out) == k {
					break
				}
			}
		}
		if !progress {
			break
		}
	}
	sort.SliceStable(out, func(i, j int) bool {
		if out[i].Block != out[j].Block {
			return out[i].Block < out[j].Block
		}
		if out[i].Class != out[j].Class {
			return out[i].Class < out[j].Class
		}
		return out[i].Index < out[j].Index
	})
	return out
}

// ParsePointsArg parses the -points value: "all" -> 0, otherwise K.
func ParsePointsArg(s string) (int, error) {
	if s == "all" {
		return 0, nil
	}
	k, err := strconv.Atoi(s)
	if err != nil || k <= 0 {
		return 0, fmt.Errorf("-points wants a positive number or \"all\", got %q", s)
	}
	return k, nil
}

// PointCounts summarizes a reference run: per block [tx ops incl. commit, pool ops, rpc requests].
func PointCounts(ref *Ref, blocks []uint32) (tx, pool, rpc int, sites int) {
	seen := map[string]bool{}
	for _, h := range blocks {
		for _, ev := range ref.SQL[h] {
			if ev.Class == "tx" {
				tx++
			} else {
				pool++
			}
			seen[ev.Class+"|"+ev.Kind+"|"+ev.Site+"|"+ev.SQL] = true
		}
		rpc += len(ref.RPC[h])
	}
	return tx, pool, rpc, len(seen)
}
