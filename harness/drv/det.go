package drv

import (
	"fmt"
	"os"
	"path/filepath"
	"sort"
	"time"
)

// replayJob builds the common "replay" job.
func (c *Common) replayJob(dir string, restarts []uint32, perHeight bool) *Job {
	return &Job{
		Kind: "replay", Scenario: c.Scenario, Seed: c.Seed, Dir: dir,
		DBFile: filepath.Join(dir, "pegnet.db"), DBMode: c.DBMode,
		Timeout: int(c.Timeout / time.Second), Verbose: c.Verbose,
		Restarts: restarts, PerHeight: perHeight,
	}
}

func firstHashDiff(a, b map[uint32]string) (uint32, bool) {
	var hs []uint32
	for h := range a {
		hs = append(hs, h)
	}
	for h := range b {
		if _, ok := a[h]; !ok {
			hs = append(hs, h)
		}
	}
	sort.Slice(hs, func(i, j int) bool { return hs[i] < hs[j] })
	for _, h := range hs {
		if a[h] != b[h] {
			return h, true
		}
	}
	return 0, false
}

// CmdDet: C01. N fresh OS processes replay the scenario from scratch; all
// final dumps (and, with perHeight, the dump hash after every block) must be
// identical.
func CmdDet(c *Common, procs int, perHeight bool) int {
	start := time.Now()
	if procs < 2 {
		procs = 2
	}
	root := filepath.Join(c.Work, "det")
	os.RemoveAll(root)
	type run struct {
		res   *Result
		pi    ProcInfo
		err   error
		lines []string
	}
	runs := make([]run, procs)
	Parallel(procs, c.Jobs, func(i int) {
		dir := filepath.Join(root, fmt.Sprintf("p%02d", i))
		r := &runs[i]
		r.res, r.pi, r.err = RunChild(c, c.replayJob(dir, nil, perHeight))
		if r.err == nil && r.res != nil && r.res.OK {
			r.lines, r.err = ReadLines(r.res.FinalDump)
		}
		Logf("det: process %d done (%v)", i, describe(r.res, r.pi, r.err))
	})
	out := map[string]interface{}{"cmd": "det", "scenario": c.Scenario, "seed": c.Seed, "procs": procs}
	internal := false
	for i := range runs {
		if runs[i].err != nil || runs[i].res == nil || !runs[i].res.OK {
			internal = true
			out["error"] = fmt.Sprintf("process %d: %s", i, describe(runs[i].res, runs[i].pi, runs[i].err))
			break
		}
	}
	if internal {
		out["ok"] = false
		Emit(out)
		Emit(map[string]interface{}{"cmd": "det", "summary": map[string]interface{}{"internal_error": true}})
		return 2
	}
	ok := true
	differing := 0
	var firstDiff map[string]interface{}
	for i := 1; i < procs; i++ {
		d := DiffLines(runs[0].lines, runs[i].lines, 10)
		if d == nil {
			continue
		}
		ok = false
		differing++
		if firstDiff == nil {
			firstDiff = map[string]interface{}{"procs": []int{0, i}, "diff": d, "dumps": []string{runs[0].res.FinalDump, runs[i].res.FinalDump}}
			if perHeight {
				if h, found := firstHashDiff(runs[0].res.Hashes, runs[i].res.Hashes); found {
					firstDiff["first_height"] = h
				}
			}
		}
	}
	// per-height hashes can differ even if the final dumps agree
	if ok && perHeight {
		for i := 1; i < procs; i++ {
			if h, found := firstHashDiff(runs[0].res.Hashes, runs[i].res.Hashes); found {
				ok = false
				differing++
				if firstDiff == nil {
					firstDiff = map[string]interface{}{"procs": []int{0, i}, "first_height": h, "note": "final dumps agree, intermediate dumps differ"}
				}
			}
		}
	}
	out["ok"] = ok
	if sched, blocks, err := BuiltinScenario(c.Scenario, c.Seed); err == nil {
		out["heights"] = len(blocks)
		out["first"], out["last"] = sched.PegnetActivation+1, blocks[len(blocks)-1].Height
	}
	out["synced"] = runs[0].res.Synced
	out["dump_lines"] = len(runs[0].lines)
	out["dump_sha256"] = HashLines(runs[0].lines)
	if firstDiff != nil {
		out["first_diff"] = firstDiff
	}
	out["elapsed_ms"] = time.Since(start).Milliseconds()
	Emit(out)
	Emit(map[string]interface{}{"cmd": "det", "summary": map[string]interface{}{
		"scenario": c.Scenario, "seed": c.Seed, "procs": procs, "ok": ok, "differing_procs": differing,
		"elapsed_ms": time.Since(start).Milliseconds()}})
	return 0
}

func describe(res *Result, pi ProcInfo, err error) string {
	switch {
	case err != nil:
		return "error: " + err.Error()
	case res == nil:
		return fmt.Sprintf("no result (exit %d signal %q, log %s)", pi.ExitCode, pi.Signal, pi.Log)
	case !res.OK:
		return fmt.Sprintf("failed: %s (log %s)", firstLine(res.Error), pi.Log)
	}
	return fmt.Sprintf("ok, synced %d, %d ms", res.Synced, res.ElapsedMs)
}

// CmdRestart: C09. One continuous reference run; then one run per chosen
// height that stops cleanly after it (CloseNode), builds a fresh node on the
// same file and continues. Final dumps and per-height dump hashes must match.
func CmdRestart(c *Common, at string, multi bool, perHeight bool) int {
	start := time.Now()
	root := filepath.Join(c.Work, "restart")
	os.RemoveAll(root)
	sched, blocks, err := BuiltinScenario(c.Scenario, c.Seed)
	if err != nil {
		Emit(map[string]interface{}{"cmd": "restart", "error": err.Error()})
		return 2
	}
	first, last := sched.PegnetActivation+1, blocks[len(blocks)-1].Height
	var heights []uint32
	if at == "all" {
		heights, _ = ParseBlocks("all", first, last-1)
	} else if heights, err = ParseBlocks(at, first, last-1); err != nil {
		Emit(map[string]interface{}{"cmd": "restart", "error": err.Error()})
		return 2
	}
	ref, pi, err := RunChild(c, c.replayJob(filepath.Join(root, "ref"), nil, perHeight))
	if err != nil || ref == nil || !ref.OK {
		Emit(map[string]interface{}{"cmd": "restart", "error": "reference run: " + describe(ref, pi, err)})
		return 2
	}
	refLines, err := ReadLines(ref.FinalDump)
	if err != nil {
		Emit(map[string]interface{}{"cmd": "restart", "error": err.Error()})
		return 2
	}
	Logf("restart: reference done in %d ms, %d lines", ref.ElapsedMs, len(refLines))

	type task struct {
		name string
		at   []uint32
	}
	var tasks []task
	for _, h := range heights {
		tasks = append(tasks, task{fmt.Sprintf("at%d", h), []uint32{h}})
	}
	if multi && len(heights) > 1 {
		tasks = append(tasks, task{"multi", heights})
	}
	violations, internal := 0, 0
	Parallel(len(tasks), c.Jobs, func(i int) {
		t := tasks[i]
		dir := filepath.Join(root, t.name)
		res, pi, err := RunChild(c, c.replayJob(dir, t.at, perHeight))
		out := map[string]interface{}{"cmd": "restart", "scenario": c.Scenario, "seed": c.Seed, "at": t.at}
		if len(t.at) > 8 {
			out["at"] = fmt.Sprintf("%d heights %d..%d", len(t.at), t.at[0], t.at[len(t.at)-1])
		}
		if err != nil || res == nil || !res.OK {
			out["ok"] = false
			out["error"] = describe(res, pi, err)
			cntMu.Lock()
			internal++
			cntMu.Unlock()
			Emit(out)
			return
		}
		lines, err := ReadLines(res.FinalDump)
		if err != nil {
			out["ok"], out["error"] = false, err.Error()
			Emit(out)
			return
		}
		ok := true
		if d := DiffLines(refLines, lines, 10); d != nil {
			ok = false
			out["final_equal"] = false
			out["diff"] = d
			out["dumps"] = []string{ref.FinalDump, res.FinalDump}
		} else {
			out["final_equal"] = true
		}
		if perHeight {
			if h, found := firstHashDiff(ref.Hashes, res.Hashes); found {
				ok = false
				out["first_diff_height"] = h
			}
		}
		out["ok"] = ok
		out["restart_artifact"] = res.Artifact
		out["elapsed_ms"] = res.ElapsedMs
		if !ok {
			cntMu.Lock()
			violations++
			cntMu.Unlock()
		} else {
			os.RemoveAll(dir)
		}
		Emit(out)
	})
	Emit(map[string]interface{}{"cmd": "restart", "summary": map[string]interface{}{
		"scenario": c.Scenario, "seed": c.Seed, "runs": len(tasks), "violations": violations, "internal_errors": internal,
		"ref_lines": len(refLines), "elapsed_ms": time.Since(start).Milliseconds()}})
	if internal > 0 {
		return 2
	}
	return 0
}
