package drv

import (
	"context"
	"crypto/sha256"
	"database/sql"
	"encoding/hex"
	"encoding/json"
	"fmt"
	"io"
	"net/http/httptest"
	"os"
	"path/filepath"
	"regexp"
	"sort"
	"strconv"
	"strings"
	"sync"
	"time"

	"github.com/pegnet/pegnetd/config"
	"github.com/pegnet/pegnetd/node"
	"github.com/spf13/viper"

	"verifharness/chain"
)

// ---- scenario ----

// Scenario is a materialized chain plus its fake factomd.
type Scenario struct {
	Name  string
	Seed  int64
	Sched chain.Schedule
	FC    *chain.FakeChain
	Srv   *httptest.Server
	Base  uint32 // PegnetActivation: the height a fresh node reports as synced
	First uint32
	Last  uint32
}

// OpenScenario builds the scenario, APPLIES ITS SCHEDULE to pegnetd's package
// variables (process-global) and starts a private fake factomd.
func OpenScenario(name string, seed int64) (*Scenario, error) {
	sched, blocks, err := BuiltinScenario(name, seed)
	if err != nil {
		return nil, err
	}
	sched.Apply()
	fc, err := chain.Materialize(blocks)
	if err != nil {
		return nil, fmt.Errorf("materialize %s/%d: %v", name, seed, err)
	}
	s := &Scenario{Name: name, Seed: seed, Sched: sched, FC: fc, Base: sched.PegnetActivation, First: fc.First(), Last: fc.Last()}
	if s.First != s.Base+1 {
		return nil, fmt.Errorf("scenario %s starts at %d, PegnetActivation is %d", name, s.First, s.Base)
	}
	s.Srv = fc.Serve()
	return s, nil
}

func (s *Scenario) URL() string { return chain.ServerURL(s.Srv) }
func (s *Scenario) Close()      { s.Srv.Close() }

// ---- node ----

// NewNode is chain.NewNode plus the optional db.mode configuration string of
// the real daemon (config.CustomSQLDBMode, appended to the sqlite DSN).
func NewNode(dbFile, factomdURL, dbMode string) (*node.Pegnetd, error) {
	chain.TrapFatal()
	conf := viper.New()
	conf.Set(config.SqliteDBPath, dbFile)
	conf.Set(config.Server, factomdURL)
	conf.Set(config.DBlockSyncRetryPeriod, time.Millisecond)
	if dbMode != "" {
		conf.Set(config.CustomSQLDBMode, dbMode)
	}
	return node.NewPegnetd(context.Background(), conf)
}

// dsn mirrors pegnet.Init: path + ".v4" [+ "?" + modes].
func dsn(dbFile, dbMode string) string {
	d := chain.DBPath(dbFile)
	if dbMode != "" {
		d += "?" + dbMode
	}
	return d
}

// UseHook closes the node's database handle and re-opens the same file with
// the same DSN through the wrapper driver. Tables/migrations/CheckHardForks
// have already run on the original handle. TheHook.HeightFn is pointed at the
// node.
func UseHook(n *node.Pegnetd, dbFile, dbMode string) error {
	RegisterDriver()
	if err := n.Pegnet.DB.Close(); err != nil {
		return err
	}
	db, err := sql.Open(DriverName, dsn(dbFile, dbMode))
	if err != nil {
		return err
	}
	n.Pegnet.DB = db
	// Read by the sync goroutine itself (BeginTx runs in the caller's goroutine).
	TheHook.HeightFn = func() uint32 { return n.Sync.Synced + 1 }
	return nil
}

// IsExit tells whether a SyncTo error is "the daemon would have exited":
// a trapped log.Fatal or a panic in the sync goroutine.
func IsExit(err error) (bool, string) {
	if err == nil {
		return false, ""
	}
	msg := err.Error()
	if i := strings.Index(msg, "pegnetd called log.Fatal"); i >= 0 {
		return true, firstLine(msg[i:])
	}
	if i := strings.Index(msg, "panic in DBlockSync"); i >= 0 {
		return true, firstLine(msg[i:])
	}
	return false, ""
}

func firstLine(s string) string {
	if i := strings.IndexByte(s, '\n'); i >= 0 {
		s = s[:i]
	}
	if len(s) > 300 {
		s = s[:300]
	}
	return s
}

// ---- dumps ----

// RestartArtifact is the row CheckHardForks adds whenever NewPegnetd runs on a
// non-fresh database. It is not ledger state; comparisons leave it out and
// report its presence separately.
const RestartArtifact = "pn_sync_version height=0 version=-1"

// Normalize removes the restart artifact.
func Normalize(lines []string) (out []string, artifact bool) {
	out = make([]string, 0, len(lines))
	for _, l := range lines {
		if l == RestartArtifact {
			artifact = true
			continue
		}
		out = append(out, l)
	}
	return out, artifact
}

func HashLines(lines []string) string {
	h := sha256.New()
	for _, l := range lines {
		io.WriteString(h, l)
		h.Write([]byte{'\n'})
	}
	return hex.EncodeToString(h.Sum(nil))
}

func WriteLines(path string, lines []string) error {
	if err := os.MkdirAll(filepath.Dir(path), 0777); err != nil {
		return err
	}
	return os.WriteFile(path, []byte(strings.Join(lines, "\n")+"\n"), 0666)
}

func ReadLines(path string) ([]string, error) {
	data, err := os.ReadFile(path)
	if err != nil {
		return nil, err
	}
	s := strings.TrimSuffix(string(data), "\n")
	if s == "" {
		return nil, nil
	}
	return strings.Split(s, "\n"), nil
}

// Diff is a bounded description of how two sorted dumps differ.
type Diff struct {
	OnlyRef      []string       `json:"only_ref"` // first lines only in the reference
	OnlyGot      []string       `json:"only_got"` // first lines only in the run under test
	CountOnlyRef int            `json:"n_only_ref"`
	CountOnlyGot int            `json:"n_only_got"`
	Tables       map[string]int `json:"tables"` // differing lines per table
}

// DiffLines compares two sorted dumps as multisets; nil if equal.
func DiffLines(ref, got []string, max int) *Diff {
	d := &Diff{Tables: map[string]int{}}
	table := func(l string) string {
		if i := strings.IndexByte(l, ' '); i >= 0 {
			return l[:i]
		}
		return l
	}
	i, j := 0, 0
	for i < len(ref) || j < len(got) {
		switch {
		case j >= len(got) || (i < len(ref) && ref[i] < got[j]):
			d.CountOnlyRef++
			d.Tables[table(ref[i])]++
			if len(d.OnlyRef) < max {
				d.OnlyRef = append(d.OnlyRef, clip(ref[i]))
			}
			i++
		case i >= len(ref) || got[j] < ref[i]:
			d.CountOnlyGot++
			d.Tables[table(got[j])]++
			if len(d.OnlyGot) < max {
				d.OnlyGot = append(d.OnlyGot, clip(got[j]))
			}
			j++
		default:
			i++
			j++
		}
	}
	if d.CountOnlyRef == 0 && d.CountOnlyGot == 0 {
		return nil
	}
	return d
}

func clip(s string) string {
	if len(s) > 400 {
		return s[:400] + "..."
	}
	return s
}

// DumpStore keeps the dump after every height as deltas.
type DumpStore struct {
	mu      sync.Mutex
	heights []uint32
	hash    map[uint32]string
	count   map[uint32]int
	del     map[uint32][]string // lines of the previous dump that disappeared
	add     map[uint32][]string // new lines
	last    []string
}

func NewDumpStore() *DumpStore {
	return &DumpStore{hash: map[uint32]string{}, count: map[uint32]int{}, del: map[uint32][]string{}, add: map[uint32][]string{}}
}

// Add records the (normalized, sorted) dump after height h. Heights must be
// added in increasing order.
func (s *DumpStore) Add(h uint32, lines []string) {
	s.mu.Lock()
	defer s.mu.Unlock()
	var del, add []string
	i, j := 0, 0
	for i < len(s.last) || j < len(lines) {
		switch {
		case j >= len(lines) || (i < len(s.last) && s.last[i] < lines[j]):
			del = append(del, s.last[i])
			i++
		case i >= len(s.last) || lines[j] < s.last[i]:
			add = append(add, lines[j])
			j++
		default:
			i++
			j++
		}
	}
	s.heights = append(s.heights, h)
	s.hash[h] = HashLines(lines)
	s.count[h] = len(lines)
	s.del[h], s.add[h] = del, add
	s.last = append([]string(nil), lines...)
}

func (s *DumpStore) Has(h uint32) bool {
	s.mu.Lock()
	defer s.mu.Unlock()
	_, ok := s.hash[h]
	return ok
}

func (s *DumpStore) Hash(h uint32) string {
	s.mu.Lock()
	defer s.mu.Unlock()
	return s.hash[h]
}

func (s *DumpStore) Heights() []uint32 {
	s.mu.Lock()
	defer s.mu.Unlock()
	return append([]uint32(nil), s.heights...)
}

func (s *DumpStore) Hashes() map[uint32]string {
	s.mu.Lock()
	defer s.mu.Unlock()
	out := map[uint32]string{}
	for k, v := range s.hash {
		out[k] = v
	}
	return out
}

// Get reconstructs the dump after height h.
func (s *DumpStore) Get(h uint32) []string {
	s.mu.Lock()
	defer s.mu.Unlock()
	if _, ok := s.hash[h]; !ok {
		return nil
	}
	cur := map[string]int{}
	for _, x := range s.heights {
		for _, l := range s.del[x] {
			cur[l]--
			if cur[l] == 0 {
				delete(cur, l)
			}
		}
		for _, l := range s.add[x] {
			cur[l]++
		}
		if x == h {
			break
		}
	}
	out := make([]string, 0, len(cur))
	for l, n := range cur {
		for k := 0; k < n; k++ {
			out = append(out, l)
		}
	}
	sort.Strings(out)
	return out
}

var (
	reSynced  = regexp.MustCompile(`^pn_metadata name=synced value=([0-9a-f]+)$`)
	reSyncVer = regexp.MustCompile(`^pn_sync_version height=(\d+) version=(-?\d+)$`)
)

// SyncedOf extracts the persisted sync height of a dump (base if there is no
// pn_metadata row yet).
func SyncedOf(lines []string, base uint32) uint32 {
	for _, l := range lines {
		if m := reSynced.FindStringSubmatch(l); m != nil {
			raw, err := hex.DecodeString(m[1])
			if err != nil {
				continue
			}
			var v struct{ Synced uint32 }
			if json.Unmarshal(raw, &v) == nil {
				return v.Synced
			}
		}
	}
	return base
}

// SyncHeightsOK checks that pn_sync_version holds exactly base+1..synced, each
// once (height 0, the restart artifact, left aside).
func SyncHeightsOK(lines []string, base, synced uint32) (bool, string) {
	seen := map[uint32]int{}
	for _, l := range lines {
		if m := reSyncVer.FindStringSubmatch(l); m != nil {
			h, _ := strconv.ParseUint(m[1], 10, 32)
			if h == 0 {
				continue
			}
			seen[uint32(h)]++
		}
	}
	for h := base + 1; h <= synced; h++ {
		if seen[h] != 1 {
			return false, fmt.Sprintf("height %d recorded %d times", h, seen[h])
		}
		delete(seen, h)
	}
	for h := range seen {
		return false, fmt.Sprintf("unexpected height %d (synced=%d)", h, synced)
	}
	return true, ""
}

// ---- committed height, read from outside the node ----

// CommittedReader reads pn_metadata.synced through its own read-only
// connection (plain sqlite3 driver).
type CommittedReader struct {
	db   *sql.DB
	base uint32
}

func NewCommittedReader(dbFile string, base uint32) (*CommittedReader, error) {
	db, err := sql.Open("sqlite3", "file:"+chain.DBPath(dbFile)+"?mode=ro&_busy_timeout=10000")
	if err != nil {
		return nil, err
	}
	db.SetMaxOpenConns(4)
	return &CommittedReader{db: db, base: base}, nil
}

func (r *CommittedReader) Close() { r.db.Close() }

func (r *CommittedReader) Committed() (uint32, error) {
	var data []byte
	err := r.db.QueryRow(`SELECT value FROM pn_metadata WHERE name = 'synced'`).Scan(&data)
	if err == sql.ErrNoRows {
		return r.base, nil
	}
	if err != nil {
		return 0, err
	}
	var v struct{ Synced uint32 }
	if err := json.Unmarshal(data, &v); err != nil {
		return 0, err
	}
	return v.Synced, nil
}

// ---- reference run ----

// RPCEvent is one request the fake factomd received while a block transaction
// was open.
type RPCEvent struct {
	Block   uint32 `json:"block"`
	Attempt int    `json:"attempt"`
	Index   int    `json:"index"` // arrival order within (block, attempt)
	Method  string `json:"method"`
	Kind    string `json:"kind,omitempty"` // raw-data: dblock/eblock/entry/fblock/ftx
	Height  int64  `json:"height"`
}

// Ref is the result of one continuous, fault-free, instrumented run.
type Ref struct {
	Store   *DumpStore
	SQL     map[uint32][]Event    // per block, last attempt
	RPC     map[uint32][]RPCEvent // per block, last attempt
	SnapDir string                // db snapshots: <SnapDir>/<height>.v4 (optional)
	Final   []string
	Elapsed time.Duration
}

type RefOptions struct {
	Snapshots func(h uint32) bool // copy the database file after these heights (nil: never)
	DBMode    string
	Timeout   time.Duration
	Upto      uint32 // 0 = tip
}

// RPCCounter installs a never-failing fault hook that logs in-window requests.
type RPCCounter struct {
	mu  sync.Mutex
	log map[uint32][]RPCEvent
	att map[uint32]int
}

func NewRPCCounter() *RPCCounter {
	return &RPCCounter{log: map[uint32][]RPCEvent{}, att: map[uint32]int{}}
}

// Observe records the request if a block window is open; it returns the event
// and true in that case.
func (c *RPCCounter) Observe(r chain.Req) (RPCEvent, bool) {
	blk, att, open := TheHook.Window()
	if !open {
		return RPCEvent{}, false
	}
	c.mu.Lock()
	defer c.mu.Unlock()
	if c.att[blk] != att {
		c.att[blk] = att
		c.log[blk] = nil
	}
	ev := RPCEvent{Block: blk, Attempt: att, Index: len(c.log[blk]), Method: r.Method, Kind: r.Kind, Height: r.Height}
	c.log[blk] = append(c.log[blk], ev)
	return ev, true
}

func (c *RPCCounter) Log() map[uint32][]RPCEvent {
	c.mu.Lock()
	defer c.mu.Unlock()
	out := map[uint32][]RPCEvent{}
	for k, v := range c.log {
		out[k] = append([]RPCEvent(nil), v...)
	}
	return out
}

// RefRun replays the scenario once through the real DBlockSync loop with the
// wrapper driver in recording mode: the dump after every committed block, the
// SQL operations and the factomd requests of every block.
func RefRun(sc *Scenario, dir string, opt RefOptions) (*Ref, error) {
	start := time.Now()
	if opt.Timeout == 0 {
		opt.Timeout = 10 * time.Minute
	}
	tip := sc.Last
	if opt.Upto != 0 {
		tip = opt.Upto
	}
	dbFile := filepath.Join(dir, "ref", "pegnet.db")
	os.RemoveAll(filepath.Join(dir, "ref"))
	n, err := NewNode(dbFile, sc.URL(), opt.DBMode)
	if err != nil {
		return nil, err
	}
	if err := UseHook(n, dbFile, opt.DBMode); err != nil {
		return nil, err
	}
	defer chain.CloseNode(n)
	ref := &Ref{Store: NewDumpStore(), SnapDir: filepath.Join(dir, "ref", "snap")}
	TheHook.Reset()
	TheHook.Record = true
	var cbErr error
	// the state before the first block
	if lines, err := chain.Dump(dbFile); err == nil {
		lines, _ = Normalize(lines)
		ref.Store.Add(sc.Base, lines)
	} else {
		return nil, err
	}
	if opt.Snapshots != nil && opt.Snapshots(sc.Base) {
		if err := copyFile(chain.DBPath(dbFile), filepath.Join(ref.SnapDir, fmt.Sprintf("%d.v4", sc.Base))); err != nil {
			return nil, err
		}
	}
	TheHook.AfterCommit = func(h uint32) {
		lines, err := chain.Dump(dbFile)
		if err != nil {
			cbErr = fmt.Errorf("dump after %d: %v", h, err)
			return
		}
		lines, _ = Normalize(lines)
		ref.Store.Add(h, lines)
		if opt.Snapshots != nil && opt.Snapshots(h) {
			if err := copyFile(chain.DBPath(dbFile), filepath.Join(ref.SnapDir, fmt.Sprintf("%d.v4", h))); err != nil {
				cbErr = err
			}
		}
	}
	rc := NewRPCCounter()
	sc.FC.SetFail(func(r chain.Req) bool { rc.Observe(r); return false })
	err = chain.SyncTo(n, sc.FC, tip, opt.Timeout)
	sc.FC.SetFail(nil)
	TheHook.AfterCommit = nil
	TheHook.Record = false
	if err != nil {
		return nil, fmt.Errorf("reference run: %v", err)
	}
	if cbErr != nil {
		return nil, cbErr
	}
	ref.SQL = TheHook.Log()
	ref.RPC = rc.Log()
	ref.Final = ref.Store.Get(tip)
	for h := sc.First; h <= tip; h++ {
		if !ref.Store.Has(h) {
			return nil, fmt.Errorf("reference run: no dump for height %d", h)
		}
		if oc := TheHook.Outcomes(h); len(oc) != 1 || oc[0] != "commit" {
			return nil, fmt.Errorf("reference run: block %d outcomes %v", h, oc)
		}
	}
	ref.Elapsed = time.Since(start)
	return ref, nil
}

func copyFile(src, dst string) error {
	if err := os.MkdirAll(filepath.Dir(dst), 0777); err != nil {
		return err
	}
	in, err := os.Open(src)
	if err != nil {
		return err
	}
	defer in.Close()
	out, err := os.Create(dst)
	if err != nil {
		return err
	}
	if _, err := io.Copy(out, in); err != nil {
		out.Close()
		return err
	}
	return out.Close()
}

// ---- output ----

var outMu sync.Mutex

// JSONOut is the real stdout. main() points os.Stdout at stderr, because
// pegnetd and the LXR library print with fmt.Println.
var JSONOut = os.Stdout

// Emit prints one JSON object per line on stdout.
func Emit(v interface{}) {
	data, err := json.Marshal(v)
	if err != nil {
		data = []byte(fmt.Sprintf(`{"error":%q}`, err.Error()))
	}
	outMu.Lock()
	JSONOut.Write(append(data, '\n'))
	outMu.Unlock()
}

// Logf writes to stderr.
func Logf(format string, a ...interface{}) {
	fmt.Fprintf(os.Stderr, "[runprop %s] %s\n", time.Now().Format("15:04:05.000"), fmt.Sprintf(format, a...))
}
