package drv

import (
	"database/sql"
	"encoding/json"
	"fmt"
	"os"
	"os/exec"
	"path/filepath"
	"runtime/debug"
	"sync"
	"syscall"
	"time"

	"github.com/pegnet/pegnetd/node"

	"verifharness/chain"
)

// Common holds the flags every sub-command has.
type Common struct {
	Work     string
	Scenario string
	Seed     int64
	Jobs     int           // parallel child processes
	Timeout  time.Duration // per SyncTo call in a child
	DBMode   string        // pegnetd's db.mode configuration (sqlite DSN parameters), default none
	Exe      string        // binary to re-exec for children
	Verbose  bool          // keep pegnetd's log output in the child logs
}

// Job is what a child process is asked to do (passed as a JSON file).
type Job struct {
	Kind     string `json:"kind"` // replay | kill | resume | fault | apiload
	Scenario string `json:"scenario"`
	Seed     int64  `json:"seed"`
	Dir      string `json:"dir"`    // private directory: result.json, dumps, child.log
	DBFile   string `json:"dbfile"` // app.dbpath (the sqlite file is DBFile + ".v4")
	DBMode   string `json:"dbmode,omitempty"`
	Timeout  int    `json:"timeout_sec"`
	Verbose  bool   `json:"verbose,omitempty"`

	// replay: sync to To (0 = tip), stopping cleanly (CloseNode + NewNode)
	// after each height in Restarts; PerHeight records the dump hash after
	// every committed block through the (transparent) wrapper driver.
	To        uint32   `json:"to,omitempty"`
	Restarts  []uint32 `json:"restarts,omitempty"`
	PerHeight bool     `json:"per_height,omitempty"`
	// replay: the first attempt at every block fails at the statement containing RetryAll
	RetryAll string `json:"retry_all,omitempty"`

	// kill / fault: how to get to Plan.Block-1 ("replay" from scratch in this
	// process, or "snapshot": copy SnapshotFrom to the database file), then
	// what to inject.
	Prefix       string `json:"prefix,omitempty"`
	SnapshotFrom string `json:"snapshot_from,omitempty"`
	Plan         *Plan  `json:"plan,omitempty"`
	// fault, rpc: fail request RPCIndex arriving while the first attempt at
	// RPCBlock is open; RPCIndex -1 = the first `heights` request.
	RPC      bool   `json:"rpc,omitempty"`
	RPCBlock uint32 `json:"rpc_block,omitempty"`
	RPCIndex int    `json:"rpc_index,omitempty"`

	// apiload
	Workers  int    `json:"workers,omitempty"`
	Mix      string `json:"mix,omitempty"`
	APIPause int    `json:"api_pause_us,omitempty"`
	Record   string `json:"record,omitempty"` // file for the get-sync-status records
}

// Result is what a child reports in Dir/result.json.
type Result struct {
	OK        bool              `json:"ok"`
	Error     string            `json:"error,omitempty"`
	Synced    uint32            `json:"synced"`
	ElapsedMs int64             `json:"elapsed_ms"`
	FinalDump string            `json:"final_dump,omitempty"` // file, normalized
	Artifact  bool              `json:"restart_artifact"`
	FirstDump string            `json:"first_dump,omitempty"` // resume: dump before the node was started
	Artifact1 bool              `json:"restart_artifact_first,omitempty"`
	Hashes    map[uint32]string `json:"hashes,omitempty"` // per-height dump hashes

	// replay with RetryAll: blocks whose first attempt was failed
	RetryHits int `json:"retry_hits,omitempty"`

	// fault
	Fired     *Event    `json:"fired,omitempty"`
	FiredRPC  *RPCEvent `json:"fired_rpc,omitempty"`
	Attempts  int       `json:"attempts,omitempty"`
	Outcomes  []string  `json:"outcomes,omitempty"`
	Exited    bool      `json:"exited,omitempty"`
	ExitCause string    `json:"exit_cause,omitempty"`

	// apiload
	API *APIStats `json:"api,omitempty"`
}

// ProcInfo is how the child process ended.
type ProcInfo struct {
	ExitCode int    `json:"exit_code"`
	Signal   string `json:"signal,omitempty"`
	Log      string `json:"log"` // child.log path
}

// RunChild re-executes the binary in child mode and waits for it.
func RunChild(c *Common, job *Job, extraEnv ...string) (*Result, ProcInfo, error) {
	return RunChildExe(c.Exe, job, extraEnv...)
}

func RunChildExe(exe string, job *Job, extraEnv ...string) (*Result, ProcInfo, error) {
	var pi ProcInfo
	if err := os.MkdirAll(job.Dir, 0777); err != nil {
		return nil, pi, err
	}
	jobFile := filepath.Join(job.Dir, "job.json")
	if err := WriteJSONSync(jobFile, job); err != nil {
		return nil, pi, err
	}
	resFile := filepath.Join(job.Dir, "result.json")
	os.Remove(resFile)
	pi.Log = filepath.Join(job.Dir, "child.log")
	logf, err := os.OpenFile(pi.Log, os.O_CREATE|os.O_WRONLY|os.O_APPEND, 0666)
	if err != nil {
		return nil, pi, err
	}
	defer logf.Close()
	cmd := exec.Command(exe, "child", "-job", jobFile)
	cmd.Stdout, cmd.Stderr = logf, logf
	cmd.Env = append(os.Environ(), extraEnv...)
	err = cmd.Run()
	if err != nil {
		if ee, ok := err.(*exec.ExitError); ok {
			pi.ExitCode = ee.ExitCode()
			if ws, ok := ee.Sys().(syscall.WaitStatus); ok && ws.Signaled() {
				pi.Signal = ws.Signal().String()
			}
		} else {
			return nil, pi, err
		}
	}
	data, rerr := os.ReadFile(resFile)
	if rerr != nil {
		return nil, pi, nil // no result: killed or crashed, the caller decides
	}
	res := new(Result)
	if err := json.Unmarshal(data, res); err != nil {
		return nil, pi, fmt.Errorf("%s: %v", resFile, err)
	}
	return res, pi, nil
}

// Parallel runs fn(i) for i in [0,n) on at most `workers` goroutines.
func Parallel(n, workers int, fn func(i int)) {
	if workers < 1 {
		workers = 1
	}
	var wg sync.WaitGroup
	ch := make(chan int)
	for w := 0; w < workers; w++ {
		wg.Add(1)
		go func() {
			defer wg.Done()
			for i := range ch {
				fn(i)
			}
		}()
	}
	for i := 0; i < n; i++ {
		ch <- i
	}
	close(ch)
	wg.Wait()
}

// ---- child side ----

// ChildMain executes a job file; the process exit code is 0 when a result was
// written (even a negative one), 3 on internal errors.
func ChildMain(jobFile string) int {
	data, err := os.ReadFile(jobFile)
	if err != nil {
		fmt.Fprintln(os.Stderr, err)
		return 3
	}
	job := new(Job)
	if err := json.Unmarshal(data, job); err != nil {
		fmt.Fprintln(os.Stderr, err)
		return 3
	}
	if !job.Verbose {
		chain.QuietLogs()
	}
	start := time.Now()
	res := new(Result)
	func() {
		defer func() {
			if r := recover(); r != nil {
				res.OK = false
				res.Error = fmt.Sprintf("child panic: %v\n%s", r, debug.Stack())
			}
		}()
		var err error
		switch job.Kind {
		case "replay":
			err = childReplay(job, res)
		case "kill":
			err = childKill(job, res)
		case "resume":
			err = childResume(job, res)
		case "fault":
			err = childFault(job, res)
		case "apiload":
			err = childAPILoad(job, res)
		default:
			err = fmt.Errorf("unknown job kind %q", job.Kind)
		}
		if err != nil {
			res.OK = false
			res.Error = err.Error()
		} else {
			res.OK = true
		}
	}()
	res.ElapsedMs = time.Since(start).Milliseconds()
	if err := WriteJSONSync(filepath.Join(job.Dir, "result.json"), res); err != nil {
		fmt.Fprintln(os.Stderr, err)
		return 3
	}
	return 0
}

func (j *Job) timeout() time.Duration {
	if j.Timeout <= 0 {
		return 5 * time.Minute
	}
	return time.Duration(j.Timeout) * time.Second
}

// dumpTo dumps the database, writes the normalized dump to Dir/name and
// returns the path.
func dumpTo(job *Job, name string) (path string, artifact bool, lines []string, err error) {
	lines, err = chain.Dump(job.DBFile)
	if err != nil {
		return "", false, nil, err
	}
	lines, artifact = Normalize(lines)
	path = filepath.Join(job.Dir, name)
	return path, artifact, lines, WriteLines(path, lines)
}

// prefixTo brings a node to height `to` either by replaying in this process
// or by copying a snapshot; it returns a started node at that height.
func prefixTo(job *Job, sc *Scenario, to uint32) (*node.Pegnetd, error) {
	switch job.Prefix {
	case "snapshot":
		if to > sc.Base {
			if err := copyFile(job.SnapshotFrom, chain.DBPath(job.DBFile)); err != nil {
				return nil, err
			}
		}
		n, err := NewNode(job.DBFile, sc.URL(), job.DBMode)
		if err != nil {
			return nil, err
		}
		if n.Sync.Synced != to {
			return nil, fmt.Errorf("snapshot %s is at height %d, want %d", job.SnapshotFrom, n.Sync.Synced, to)
		}
		return n, nil
	case "replay", "":
		n, err := NewNode(job.DBFile, sc.URL(), job.DBMode)
		if err != nil {
			return nil, err
		}
		if to > sc.Base {
			if err := chain.SyncTo(n, sc.FC, to, job.timeout()); err != nil {
				return nil, fmt.Errorf("prefix replay to %d: %v", to, err)
			}
		}
		return n, nil
	}
	return nil, fmt.Errorf("unknown prefix mode %q", job.Prefix)
}

func childReplay(job *Job, res *Result) error {
	sc, err := OpenScenario(job.Scenario, job.Seed)
	if err != nil {
		return err
	}
	defer sc.Close()
	tip := sc.Last
	if job.To != 0 {
		tip = job.To
	}
	hashes := map[uint32]string{}
	start := func() (*node.Pegnetd, error) {
		n, err := NewNode(job.DBFile, sc.URL(), job.DBMode)
		if err != nil {
			return nil, err
		}
		if job.RetryAll != "" && !job.PerHeight {
			if err := UseHook(n, job.DBFile, job.DBMode); err != nil {
				return nil, err
			}
			TheHook.RetryAll = job.RetryAll
		}
		if job.PerHeight {
			if err := UseHook(n, job.DBFile, job.DBMode); err != nil {
				return nil, err
			}
			TheHook.RetryAll = job.RetryAll
			TheHook.AfterCommit = func(h uint32) {
				if lines, err := chain.Dump(job.DBFile); err == nil {
					lines, _ = Normalize(lines)
					hashes[h] = HashLines(lines)
				}
			}
		}
		return n, nil
	}
	n, err := start()
	if err != nil {
		return err
	}
	for _, r := range job.Restarts {
		if r <= n.Sync.Synced || r >= tip {
			continue
		}
		if err := chain.SyncTo(n, sc.FC, r, job.timeout()); err != nil {
			return fmt.Errorf("sync to %d: %v", r, err)
		}
		if err := chain.CloseNode(n); err != nil {
			return fmt.Errorf("close at %d: %v", r, err)
		}
		if n, err = start(); err != nil {
			return fmt.Errorf("restart at %d: %v", r, err)
		}
		if n.Sync.Synced != r {
			return fmt.Errorf("restarted node is at %d, want %d", n.Sync.Synced, r)
		}
	}
	if err := chain.SyncTo(n, sc.FC, tip, job.timeout()); err != nil {
		return fmt.Errorf("sync to %d: %v", tip, err)
	}
	res.Synced = n.Sync.Synced
	res.RetryHits = TheHook.RetryAllHits
	if err := chain.CloseNode(n); err != nil {
		return err
	}
	if job.PerHeight {
		res.Hashes = hashes
	}
	res.FinalDump, res.Artifact, _, err = dumpTo(job, "final.dump")
	return err
}

func childKill(job *Job, res *Result) error {
	if job.Plan == nil || job.Plan.Action != "kill" {
		return fmt.Errorf("kill job without a kill plan")
	}
	sc, err := OpenScenario(job.Scenario, job.Seed)
	if err != nil {
		return err
	}
	defer sc.Close()
	n, err := prefixTo(job, sc, job.Plan.Block-1)
	if err != nil {
		return err
	}
	if err := UseHook(n, job.DBFile, job.DBMode); err != nil {
		return err
	}
	TheHook.Reset()
	TheHook.OnKill = func(ev Event) { WriteJSONSync(filepath.Join(job.Dir, "killed_at.json"), ev) }
	TheHook.SetPlan(job.Plan)
	err = chain.SyncTo(n, sc.FC, job.Plan.Block, job.timeout())
	// still alive: the point does not exist in this run
	res.Synced = n.Sync.Synced
	if err != nil {
		return fmt.Errorf("kill point not reached, and: %v", err)
	}
	return fmt.Errorf("kill point not reached (block %d has %v operations in this run)", job.Plan.Block, TheHook.Counts()[job.Plan.Block])
}

// recoverJournal opens the file read-write with the plain driver and reads
// from it, so that SQLite rolls back a hot journal left by the killed process
// (what any later opener, the restarted daemon included, does first). The
// canonical dump opens the file read-only and could not do that itself.
func recoverJournal(dbFile string) error {
	db, err := sql.Open("sqlite3", chain.DBPath(dbFile))
	if err != nil {
		return err
	}
	defer db.Close()
	var n int
	return db.QueryRow(`SELECT count(*) FROM sqlite_master`).Scan(&n)
}

func childResume(job *Job, res *Result) error {
	var err error
	if err = recoverJournal(job.DBFile); err != nil {
		return fmt.Errorf("re-open after kill: %v", err)
	}
	res.FirstDump, res.Artifact1, _, err = dumpTo(job, "first.dump")
	if err != nil {
		return err
	}
	sc, err := OpenScenario(job.Scenario, job.Seed)
	if err != nil {
		return err
	}
	defer sc.Close()
	tip := sc.Last
	if job.To != 0 && job.To < tip {
		tip = job.To
	}
	n, err := NewNode(job.DBFile, sc.URL(), job.DBMode)
	if err != nil {
		return fmt.Errorf("restart: %v", err)
	}
	if n.Sync.Synced < tip {
		if err := chain.SyncTo(n, sc.FC, tip, job.timeout()); err != nil {
			return fmt.Errorf("resume to %d: %v", tip, err)
		}
	}
	res.Synced = n.Sync.Synced
	if err := chain.CloseNode(n); err != nil {
		return err
	}
	res.FinalDump, res.Artifact, _, err = dumpTo(job, "final.dump")
	return err
}

func childFault(job *Job, res *Result) error {
	sc, err := OpenScenario(job.Scenario, job.Seed)
	if err != nil {
		return err
	}
	defer sc.Close()
	block := job.RPCBlock
	if job.Plan != nil {
		if job.Plan.Action != "fail" {
			return fmt.Errorf("fault job with a %q plan", job.Plan.Action)
		}
		block = job.Plan.Block
	} else if !job.RPC {
		return fmt.Errorf("fault job without a fault")
	}
	n, err := prefixTo(job, sc, block-1)
	if err != nil {
		return err
	}
	if err := UseHook(n, job.DBFile, job.DBMode); err != nil {
		return err
	}
	TheHook.Reset()
	if job.RPC {
		var mu sync.Mutex
		cnt := 0
		var fired *RPCEvent
		sc.FC.SetFail(func(r chain.Req) bool {
			mu.Lock()
			defer mu.Unlock()
			if fired != nil {
				return false
			}
			if job.RPCIndex < 0 {
				if r.Method == "heights" {
					fired = &RPCEvent{Block: block, Index: -1, Method: r.Method, Height: r.Height}
					return true
				}
				return false
			}
			blk, att, open := TheHook.Window()
			if !open || blk != block || att != 1 {
				return false
			}
			if cnt == job.RPCIndex {
				fired = &RPCEvent{Block: blk, Attempt: att, Index: cnt, Method: r.Method, Kind: r.Kind, Height: r.Height}
				cnt++
				return true
			}
			cnt++
			return false
		})
		defer func() {
			mu.Lock()
			res.FiredRPC = fired
			mu.Unlock()
		}()
	}
	if job.Plan != nil {
		TheHook.SetPlan(job.Plan)
	}
	tip := sc.Last
	if job.To != 0 && job.To < tip {
		tip = job.To
	}
	err = chain.SyncTo(n, sc.FC, tip, job.timeout())
	sc.FC.SetFail(nil)
	res.Fired = TheHook.Fired()
	res.Attempts = TheHook.Attempts(block)
	res.Outcomes = TheHook.Outcomes(block)
	res.Synced = n.Sync.Synced
	if err != nil {
		if exit, cause := IsExit(err); exit {
			// The real daemon is gone at this point. The parent starts a fresh
			// process on the same file.
			res.Exited, res.ExitCause = true, cause
			return nil
		}
		return err
	}
	if err := chain.CloseNode(n); err != nil {
		return err
	}
	res.FinalDump, res.Artifact, _, err = dumpTo(job, "final.dump")
	return err
}
