package drv

import (
	"fmt"
	"math/rand"
	"strings"

	"github.com/Factom-Asset-Tokens/factom"
	"github.com/pegnet/pegnet/modules/opr"
	"github.com/pegnet/pegnetd/fat/fat2"
	"github.com/pegnet/pegnetd/node"
	"github.com/pegnet/pegnetd/node/pegnet"

	"verifharness/chain"
	"verifharness/scen"
)

// BuiltinScenario returns the activation schedule and the abstract blocks of a
// named built-in scenario. Everything is a deterministic function of (name,
// seed): two calls (in two processes) give byte-identical chains.
//
// The drivers only use this signature; a shared scenario library can replace
// it later.
//
//	eras  101..290  every activation era of a compressed schedule; rich traffic
//	                in 101..182, empty filler blocks 183..280, full blocks
//	                281..290. Snapshot heights 144 (first snapshot, no payout:
//	                snapshot_past is empty) and 288 (staking payout to >= 4
//	                holders of non-PEG assets + developer payouts).
//	gaps  271..330  everything active early (2.0 at 274, PIP-10 at 283),
//	                AveragePeriod 6, blocks without any OPR/SPR entry and blocks
//	                with an ungradable OPR set interleaved, conversions pending
//	                across the gaps; 288 is a snapshot/dev-reward height without
//	                rates of its own.
//	ties  131..290  three addresses with exactly equal stakes at both snapshots
//	                (144, 288), equal X->PEG requests in the bank era (separate
//	                entries and twice inside one batch), equal grades everywhere.
func BuiltinScenario(name string, seed int64) (chain.Schedule, []chain.AbsBlock, error) {
	// "scen:<name>" selects a chain of the shared scenario library (harness/scen)
	if strings.HasPrefix(name, "scen:") {
		sc, err := scen.Build(strings.TrimPrefix(name, "scen:"), seed)
		if err != nil {
			return chain.Schedule{}, nil, err
		}
		return sc.Schedule, sc.Blocks, nil
	}
	switch name {
	case "eras":
		return scenarioEras(seed)
	case "gaps":
		return scenarioGaps(seed)
	case "ties":
		return scenarioTies(seed)
	case "mini":
		return scenarioMini(seed)
	}
	return chain.Schedule{}, nil, fmt.Errorf("unknown scenario %q (have: eras, gaps, ties, mini)", name)
}

// BuiltinScenarioNames lists the scenarios BuiltinScenario knows.
func BuiltinScenarioNames() []string { return []string{"eras", "gaps", "ties", "mini"} }

// ---- builder ----

type scb struct {
	seed    int64
	rng     *rand.Rand
	sched   chain.Schedule
	first   uint32
	blocks  []chain.AbsBlock
	prevWin []string
	stakers []chain.StakerKey
	miners  []string
	base    map[string]uint64 // base price per asset name, 1e8 = 1 USD
	err     error
}

const nMiners = 30

func newSCB(seed int64, sched chain.Schedule) *scb {
	b := &scb{seed: seed, rng: rand.New(rand.NewSource(seed)), sched: sched, first: sched.PegnetActivation + 1}
	for i := 0; i < nMiners; i++ {
		b.stakers = append(b.stakers, chain.NewStakerKey(chain.SeedN("miner", i)))
		b.miners = append(b.miners, chain.NewEd25519Key(chain.SeedN("miner", i)).String())
	}
	b.base = map[string]uint64{}
	for _, list := range [][]string{opr.V1Assets, opr.V2Assets, opr.V4Assets, opr.V5Assets} {
		for k, name := range list {
			if _, ok := b.base[name]; !ok {
				b.base[name] = uint64(k+1) * 1e8
			}
		}
	}
	b.base["USD"] = 1e8
	b.base["FCT"] = 4e8
	b.base["PEG"] = 1e6 // 0.01 USD: 1 pFCT = 400 PEG, the 5000 PEG bank binds quickly
	b.base["PNT"] = 1e6
	return b
}

// price is the price every record of height h reports: base * (1 +- 2%),
// pUSD fixed. OPR and SPR of one height agree exactly (tolerance bands).
func (b *scb) price(h uint32) func(i int, name string) uint64 {
	m := 1000 + (int64(h)*7919+b.seed%1000+1000)%41 - 20
	return func(i int, name string) uint64 {
		if name == "USD" {
			return 1e8
		}
		return b.base[name] * uint64(m) / 1000
	}
}

func (b *scb) oprVersion(h uint32) uint8 {
	v := uint8(1)
	if h >= b.sched.GradingV2Activation {
		v = 2
	}
	if h >= b.sched.PEGFreeFloatingPriceActivation {
		v = 3
	}
	if h >= b.sched.V4OPRUpdate {
		v = 4
	}
	if h >= b.sched.V20HeightActivation {
		v = 5
	}
	return v
}

func (b *scb) sprVersion(h uint32) uint8 {
	v := uint8(5)
	if h >= b.sched.SprSignatureActivation {
		v = 6
	}
	if h >= b.sched.V202EnhanceActivation {
		v = 7
	}
	return v
}

// ts is the DBlock time (unix seconds) of height h with Materialize's defaults.
func (b *scb) ts(h uint32) int64 {
	return int64(chain.DefaultTimestampMin+10*(h-b.first)) * 60
}

// add appends block h. nOPR/nSPR: number of records (0 = no EBlock on that
// chain). SPR records are only written from 2.0 on.
func (b *scb) add(h uint32, nOPR, nSPR int, tx []chain.RawEntry, ftx []chain.FTx) {
	if b.err != nil {
		return
	}
	blk := chain.AbsBlock{Height: h, Tx: tx, Factoid: ftx}
	if nOPR > 0 {
		v := b.oprVersion(h)
		blk.OPR = chain.GenOPRSet(b.rng, v, int32(h), b.prevWin, nOPR, b.price(h), func(i int) string { return b.miners[i%nMiners] })
		sh, _, err := chain.GradeOPRSet(v, int32(h), b.prevWin, blk.OPR)
		if err != nil {
			b.err = fmt.Errorf("height %d: %v", h, err)
			return
		}
		b.prevWin = sh // the node reads the short hashes of the last pn_grade row
	}
	if nSPR > 0 && h >= b.sched.V20HeightActivation {
		blk.SPR = chain.GenSPRSet(b.rng, b.sprVersion(h), int32(h), nSPR, b.price(h), b.stakers)
	}
	b.blocks = append(b.blocks, blk)
}

func (b *scb) batch(h uint32, k chain.SignerKey, txs ...fat2.Transaction) chain.RawEntry {
	content, err := chain.BatchJSON(txs...)
	if err != nil && b.err == nil {
		b.err = fmt.Errorf("height %d: %v", h, err)
	}
	return chain.SignedBatchEntry(content, []chain.SignerKey{k}, b.ts(h))
}

func burn(k chain.SignerKey, amount uint64) chain.FTx {
	return chain.FTx{
		FCTInputs: []chain.FTxIO{{Address: k.FAAddress(), Amount: amount}},
		ECOutputs: []chain.FTxIO{{Address: node.BurnRCD}},
		InputKeys: []chain.SignerKey{k},
	}
}

func faBytes(s string) [32]byte {
	a, err := factom.NewFAAddress(s)
	if err != nil {
		panic(err)
	}
	return a
}

func (b *scb) jitter(n int) uint64 { return uint64(b.rng.Intn(n)) * 1e5 }

// ---- eras ----

func erasSchedule() chain.Schedule {
	return chain.Schedule{
		PegnetActivation:                100,
		GradingV2Activation:             110,
		TransactionConversionActivation: 120,
		PEGPricingActivation:            125,
		OneWaypFCTConversions:           130,
		PegnetConversionLimitActivation: 135,
		PEGFreeFloatingPriceActivation:  135,
		V4OPRUpdate:                     140,
		Fat2RCDEActivation:              140,
		V20HeightActivation:             142, // so that snapshot height 144 is a 2.0 block
		V20DevRewardsHeightActivation:   155,
		SprSignatureActivation:          155,
		OneWaySmallAssetsConversions:    165,
		V202EnhanceActivation:           165,
		V204EnhanceActivation:           170,
		V204BurnMintedTokenActivation:   175,
		PIP10AverageActivation:          180,
		AveragePeriod:                   8,
		Hardforks: []pegnet.ForkEvent{
			{ActivationHeight: 0, MinimumVersion: -1},
			{ActivationHeight: 140, MinimumVersion: 1},
			{ActivationHeight: 142, MinimumVersion: 2},
		},
		PegnetdSyncVersion: 2,
	}
}

func scenarioEras(seed int64) (chain.Schedule, []chain.AbsBlock, error) {
	s := erasSchedule()
	b := newSCB(seed, s)
	A := chain.NewEd25519Key(chain.SeedN("eras-A", 0))
	B := chain.NewEd25519Key(chain.SeedN("eras-B", 0))
	C := chain.NewEd25519Key(chain.SeedN("eras-C", 0))
	D := chain.NewEd25519Key(chain.SeedN("eras-D", 0)) // never funded
	E := chain.NewRCDeKey(chain.SeedN("eras-eth", 0))
	oldBurn, newBurn := faBytes(node.GlobalOldBurnAddress), faBytes(node.GlobalBurnAddress)
	fct, usd, xbt, peg, dcr, eur := fat2.PTickerFCT, fat2.PTickerUSD, fat2.PTickerXBT, fat2.PTickerPEG, fat2.PTickerDCR, fat2.PTickerEUR
	a, bb, c, e := A.FAAddress(), B.FAAddress(), C.FAAddress(), E.FAAddress()

	const last = 290
	for h := uint32(101); h <= last; h++ {
		if h >= 183 && h <= 280 { // filler: no entries at all
			b.add(h, 0, 0, nil, nil)
			continue
		}
		nOPR, nSPR := 30, 30
		var tx []chain.RawEntry
		var ftx []chain.FTx
		switch h {
		case 105:
			ftx = []chain.FTx{burn(A, 2000e8+b.jitter(1000))}
		case 112:
			ftx = []chain.FTx{
				{ // ordinary factoid transfer: ignored
					FCTInputs:  []chain.FTxIO{{Address: a, Amount: 3e8}},
					FCTOutputs: []chain.FTxIO{{Address: bb, Amount: 2e8}},
				},
				burn(B, 1500e8+b.jitter(1000)),
				burn(C, 1000e8+b.jitter(1000)),
			}
		case 121:
			tx = []chain.RawEntry{
				b.batch(h, A, chain.Transfer(a, fct, 100e8+b.jitter(100), bb)),
				b.batch(h, A, chain.Transfer(a, fct, 50e8, e)),
				b.batch(h, D, chain.Transfer(D.FAAddress(), fct, 1e8, a)), // insufficient balance: executed=-1
			}
		case 122:
			tx = []chain.RawEntry{
				b.batch(h, A, chain.Conversion(a, fct, 200e8+b.jitter(100), usd)),
				b.batch(h, C, chain.Conversion(c, fct, 10e8, peg)), // PEG price is 0 before 125: rejected
			}
		case 123:
			tx = []chain.RawEntry{b.batch(h, B, chain.Conversion(bb, fct, 100e8+b.jitter(100), xbt))}
		case 124:
			nOPR = 5 // graded, but no winners: no rates, the conversion of 123 stays in holding
		case 126:
			tx = []chain.RawEntry{
				b.batch(h, A, chain.Conversion(a, fct, 20e8, peg)), // equation-priced PEG, no limit yet
				b.batch(h, B, chain.Conversion(bb, xbt, 1e6, eur), chain.Transfer(bb, fct, 5e8, c)),
			}
		case 128:
			nOPR = 0 // no OPR EBlock at all
			tx = []chain.RawEntry{b.batch(h, C, chain.Conversion(c, fct, 100e8, usd))}
		case 131:
			tx = []chain.RawEntry{
				b.batch(h, A, chain.Conversion(a, usd, 10e8, fct)),     // one-way pFCT: rejected at 132
				b.batch(h, C, chain.Conversion(c, usd, 100000e8, eur)), // more than C owns: rejected at 132
			}
		case 136:
			tx = []chain.RawEntry{
				b.batch(h, A, chain.Conversion(a, fct, 30e8+b.jitter(100), peg)),
				b.batch(h, B, chain.Conversion(bb, fct, 20e8+b.jitter(100), peg)),
			}
		case 137:
			tx = []chain.RawEntry{b.batch(h, C, chain.Conversion(c, usd, 50e8, peg), chain.Conversion(c, fct, 5e8, peg))}
		case 139:
			// RCD-e is only valid above Fat2RCDEActivation: ignored
			tx = []chain.RawEntry{b.batch(h, E, chain.Transfer(e, fct, 1e8, a))}
		case 140:
			tx = []chain.RawEntry{
				b.batch(h, A, chain.Conversion(a, fct, 40e8+b.jitter(100), peg)),
				b.batch(h, B, chain.Conversion(bb, fct, 40e8+b.jitter(100), peg)),
				b.batch(h, C, chain.Conversion(c, usd, 10e8, peg)),
				b.batch(h, A, chain.Transfer(a, fct, 20e8, e)),
			}
		case 141:
			// executed at 142 = 2.0: X->PEG is disabled there, executed=-2
			tx = []chain.RawEntry{
				b.batch(h, A, chain.Conversion(a, fct, 3e8, peg)),
				b.batch(h, B, chain.Conversion(bb, fct, 7e8, usd)),
			}
		case 143:
			tx = []chain.RawEntry{
				b.batch(h, E, chain.Transfer(e, fct, 5e8, a)), // RCD-e signed
				b.batch(h, A, chain.Transfer(a, fct, 11e8, oldBurn), chain.Transfer(a, usd, 13e8, oldBurn)),
			}
		case 147:
			tx = []chain.RawEntry{b.batch(h, E, chain.Conversion(e, fct, 10e8, usd))}
		case 150:
			tx = []chain.RawEntry{b.batch(h, B, chain.Conversion(bb, fct, 9e8+b.jitter(100), usd))}
		case 151:
			nOPR, nSPR = 0, 0 // 2.0 block without any price record
		case 153:
			tx = []chain.RawEntry{b.batch(h, C, chain.Conversion(c, fct, 2e8, peg))} // 2.0: rejected, -2
		case 158:
			nOPR = 0 // SPR only
			tx = []chain.RawEntry{b.batch(h, A, chain.Transfer(a, fct, 1e8+b.jitter(100), c))}
		case 160:
			tx = []chain.RawEntry{b.batch(h, A, chain.Transfer(a, fct, 17e8, newBurn), chain.Transfer(a, usd, 19e8, newBurn))}
		case 162:
			nSPR = 0 // OPR only
		case 166:
			tx = []chain.RawEntry{
				b.batch(h, A, chain.Transfer(a, fct, 2e8, newBurn)), // burnt from 2.0.2 on
				b.batch(h, B, chain.Conversion(bb, usd, 1e8, dcr)),  // small assets are one-way: rejected
			}
		case 172:
			tx = []chain.RawEntry{b.batch(h, E, chain.Transfer(e, usd, 1e8, bb), chain.Transfer(e, fct, 1e8, bb))}
		case 178:
			tx = []chain.RawEntry{b.batch(h, A, chain.Conversion(a, fct, 4e8+b.jitter(100), usd))}
		case 181:
			tx = []chain.RawEntry{b.batch(h, B, chain.Conversion(bb, usd, 3e8, xbt))} // PIP-10 pricing
		case 285:
			tx = []chain.RawEntry{b.batch(h, A, chain.Conversion(a, fct, 6e8+b.jitter(100), usd))}
		case 287:
			tx = []chain.RawEntry{b.batch(h, C, chain.Conversion(c, usd, 2e8, xbt), chain.Transfer(c, fct, 1e8, a))}
		case 289:
			tx = []chain.RawEntry{b.batch(h, E, chain.Transfer(e, fct, 1e8, c))}
		}
		b.add(h, nOPR, nSPR, tx, ftx)
	}
	return s, b.blocks, b.err
}

// ---- gaps ----

func gapsSchedule() chain.Schedule {
	return chain.Schedule{
		PegnetActivation:                270,
		GradingV2Activation:             270,
		TransactionConversionActivation: 270,
		PEGPricingActivation:            270,
		OneWaypFCTConversions:           270,
		PegnetConversionLimitActivation: 270,
		PEGFreeFloatingPriceActivation:  270,
		V4OPRUpdate:                     270,
		Fat2RCDEActivation:              270,
		V20HeightActivation:             274,
		V20DevRewardsHeightActivation:   275,
		SprSignatureActivation:          275,
		OneWaySmallAssetsConversions:    277,
		V202EnhanceActivation:           277,
		V204EnhanceActivation:           279,
		V204BurnMintedTokenActivation:   281,
		PIP10AverageActivation:          283,
		AveragePeriod:                   6,
		Hardforks: []pegnet.ForkEvent{
			{ActivationHeight: 0, MinimumVersion: -1},
			{ActivationHeight: 271, MinimumVersion: 1}, // not PegnetActivation itself: that height is never synced, a restart would back-fill it with -1
			{ActivationHeight: 274, MinimumVersion: 2},
		},
		PegnetdSyncVersion: 2,
	}
}

func scenarioGaps(seed int64) (chain.Schedule, []chain.AbsBlock, error) {
	s := gapsSchedule()
	b := newSCB(seed, s)
	A := chain.NewEd25519Key(chain.SeedN("gaps-A", 0))
	B := chain.NewEd25519Key(chain.SeedN("gaps-B", 0))
	C := chain.NewRCDeKey(chain.SeedN("gaps-C", 0))
	a, bb, c := A.FAAddress(), B.FAAddress(), C.FAAddress()
	fct, usd, xbt, eur := fat2.PTickerFCT, fat2.PTickerUSD, fat2.PTickerXBT, fat2.PTickerEUR

	// Heights without any OPR/SPR entry, and heights whose OPR set cannot be
	// graded (5 records) while there is no SPR either.
	none := map[uint32]bool{276: true, 284: true, 285: true, 288: true, 292: true, 297: true, 298: true, 299: true, 300: true, 306: true, 312: true, 313: true, 320: true}
	ungraded := map[uint32]bool{290: true, 304: true, 318: true}
	// a random extra gap or two, seed dependent
	for i := 0; i < 3; i++ {
		none[uint32(301+b.rng.Intn(28))] = true
	}
	// conversions are entered right before and inside gaps
	convAt := map[uint32]bool{275: true, 283: true, 284: true, 287: true, 289: true, 291: true, 296: true, 297: true, 299: true, 303: true, 305: true, 311: true, 312: true, 317: true, 319: true, 324: true}

	const last = 330
	for h := uint32(271); h <= last; h++ {
		nOPR, nSPR := 30, 30
		if none[h] {
			nOPR, nSPR = 0, 0
		} else if ungraded[h] {
			nOPR, nSPR = 5, 0
		}
		var tx []chain.RawEntry
		var ftx []chain.FTx
		switch {
		case h == 271:
			ftx = []chain.FTx{burn(A, 5000e8+b.jitter(1000)), burn(B, 3000e8+b.jitter(1000))}
		case h == 272:
			tx = []chain.RawEntry{
				b.batch(h, A, chain.Transfer(a, fct, 500e8, c)),
				b.batch(h, B, chain.Conversion(bb, fct, 1000e8, usd)),
			}
		case convAt[h]:
			amt := 5e8 + b.jitter(400)
			switch h % 3 {
			case 0:
				tx = []chain.RawEntry{b.batch(h, A, chain.Conversion(a, fct, amt, usd))}
			case 1:
				tx = []chain.RawEntry{b.batch(h, B, chain.Conversion(bb, usd, amt, xbt)), b.batch(h, C, chain.Conversion(c, fct, amt/2, eur))}
			default:
				tx = []chain.RawEntry{b.batch(h, C, chain.Conversion(c, fct, amt, usd), chain.Transfer(c, fct, 1e8, a))}
			}
		case h%7 == 0:
			tx = []chain.RawEntry{b.batch(h, A, chain.Transfer(a, fct, 1e8+b.jitter(100), bb))}
		}
		b.add(h, nOPR, nSPR, tx, ftx)
	}
	return s, b.blocks, b.err
}

// ---- ties ----

func tiesSchedule() chain.Schedule {
	return chain.Schedule{
		PegnetActivation:                130,
		GradingV2Activation:             130,
		TransactionConversionActivation: 130,
		PEGPricingActivation:            130,
		OneWaypFCTConversions:           130,
		PegnetConversionLimitActivation: 131,
		PEGFreeFloatingPriceActivation:  131,
		V4OPRUpdate:                     136,
		Fat2RCDEActivation:              136,
		V20HeightActivation:             140,
		V20DevRewardsHeightActivation:   141,
		SprSignatureActivation:          141,
		OneWaySmallAssetsConversions:    150,
		V202EnhanceActivation:           150,
		V204EnhanceActivation:           152,
		V204BurnMintedTokenActivation:   154,
		PIP10AverageActivation:          156,
		AveragePeriod:                   6,
		Hardforks: []pegnet.ForkEvent{
			{ActivationHeight: 0, MinimumVersion: -1},
			{ActivationHeight: 136, MinimumVersion: 1},
			{ActivationHeight: 140, MinimumVersion: 2},
		},
		PegnetdSyncVersion: 2,
	}
}

func scenarioTies(seed int64) (chain.Schedule, []chain.AbsBlock, error) {
	s := tiesSchedule()
	b := newSCB(seed, s)
	fct, usd, peg := fat2.PTickerFCT, fat2.PTickerUSD, fat2.PTickerPEG
	// T*: equal PEG requests. U*: equal stakes, never touched again.
	var T, U []chain.SignerKey
	for i := 0; i < 3; i++ {
		T = append(T, chain.NewEd25519Key(chain.SeedN("ties-T", i)))
		U = append(U, chain.NewEd25519Key(chain.SeedN("ties-U", i)))
	}
	V := chain.NewEd25519Key(chain.SeedN("ties-V", 0)) // a smaller, unique stake
	stake := 6000e8 + b.jitter(1000)                   // the three U's tie for the HIGHEST stake (dust recipient)
	fund := 3000e8 + b.jitter(1000)
	req := 100e8 + b.jitter(100) // 100 pFCT ~ 40000 PEG each: far above the 5000 PEG bank

	const last = 290
	for h := uint32(131); h <= last; h++ {
		if h >= 160 && h <= 281 {
			b.add(h, 0, 0, nil, nil)
			continue
		}
		var tx []chain.RawEntry
		var ftx []chain.FTx
		switch h {
		case 131:
			for i := 0; i < 3; i++ {
				ftx = append(ftx, burn(T[i], fund), burn(U[i], stake))
			}
			ftx = append(ftx, burn(V, 1000e8+b.jitter(1000)))
		case 132: // three equal requests in three entries, executed at 133 (pre-V4 bank)
			for i := 0; i < 3; i++ {
				tx = append(tx, b.batch(h, T[i], chain.Conversion(T[i].FAAddress(), fct, req, peg)))
			}
		case 134: // equal requests inside one batch, plus an equal one from another address
			tx = []chain.RawEntry{
				b.batch(h, T[0], chain.Conversion(T[0].FAAddress(), fct, req, peg), chain.Conversion(T[0].FAAddress(), fct, req, peg)),
				b.batch(h, T[1], chain.Conversion(T[1].FAAddress(), fct, req, peg)),
			}
		case 136: // V4 bank era, executed at 137
			for i := 0; i < 3; i++ {
				tx = append(tx, b.batch(h, T[i], chain.Conversion(T[i].FAAddress(), fct, req, peg)))
			}
		case 137: // two heights of pending requests processed with one bank
			tx = []chain.RawEntry{b.batch(h, T[2], chain.Conversion(T[2].FAAddress(), fct, req, peg), chain.Conversion(T[2].FAAddress(), fct, req, peg))}
		case 138:
			tx = []chain.RawEntry{
				b.batch(h, T[0], chain.Conversion(T[0].FAAddress(), fct, req/2, peg)),
				b.batch(h, T[1], chain.Conversion(T[1].FAAddress(), fct, req/2, peg)),
				b.batch(h, V, chain.Conversion(V.FAAddress(), fct, 500e8, usd)), // V: stake partly in pUSD
			}
		case 146: // equal transfers between the T's keep them tied among themselves
			tx = []chain.RawEntry{b.batch(h, T[0], chain.Transfer(T[0].FAAddress(), fct, 1e8, T[1].FAAddress()))}
		case 147:
			tx = []chain.RawEntry{b.batch(h, T[1], chain.Transfer(T[1].FAAddress(), fct, 1e8, T[0].FAAddress()))}
		case 157:
			tx = []chain.RawEntry{b.batch(h, V, chain.Conversion(V.FAAddress(), usd, 10e8, fat2.PTickerXBT))}
		case 286:
			tx = []chain.RawEntry{b.batch(h, V, chain.Conversion(V.FAAddress(), fct, 1e8, usd))}
		}
		b.add(h, 30, 30, tx, ftx)
	}
	return s, b.blocks, b.err
}

// ---- mini: a short chain for smoke tests of the drivers ----

func scenarioMini(seed int64) (chain.Schedule, []chain.AbsBlock, error) {
	s := gapsSchedule()
	b := newSCB(seed, s)
	A := chain.NewEd25519Key(chain.SeedN("mini-A", 0))
	B := chain.NewEd25519Key(chain.SeedN("mini-B", 0))
	a, bb := A.FAAddress(), B.FAAddress()
	fct, usd := fat2.PTickerFCT, fat2.PTickerUSD
	for h := uint32(271); h <= 282; h++ {
		var tx []chain.RawEntry
		var ftx []chain.FTx
		nOPR, nSPR := 30, 30
		switch h {
		case 271:
			ftx = []chain.FTx{burn(A, 100e8+b.jitter(100))}
		case 272:
			tx = []chain.RawEntry{b.batch(h, A, chain.Transfer(a, fct, 10e8, bb))}
		case 273, 276, 279:
			tx = []chain.RawEntry{b.batch(h, A, chain.Conversion(a, fct, 5e8+b.jitter(10), usd))}
		case 277:
			nOPR, nSPR = 0, 0
		case 280:
			tx = []chain.RawEntry{b.batch(h, B, chain.Transfer(bb, fct, 1e8, faBytes(node.GlobalBurnAddress)))}
		}
		b.add(h, nOPR, nSPR, tx, ftx)
	}
	return s, b.blocks, b.err
}
