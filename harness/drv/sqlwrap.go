package drv

import (
	"context"
	"database/sql"
	"database/sql/driver"
	"encoding/json"
	"errors"
	"fmt"
	"os"
	"path/filepath"
	"runtime"
	"strings"
	"sync"
	"syscall"

	sqlite3 "github.com/mattn/go-sqlite3"
)

// DriverName is the database/sql driver name of the wrapper. It delegates
// everything to mattn/go-sqlite3's SQLiteDriver and implements exactly the
// optional interfaces SQLiteConn/SQLiteStmt implement (ConnBeginTx,
// ConnPrepareContext, ExecerContext, QueryerContext, Pinger, StmtExecContext,
// StmtQueryContext; NOT NamedValueChecker/ColumnConverter/SessionResetter), so
// database/sql takes the same code paths as with the plain driver.
const DriverName = "sqlite3_verif"

// ErrInjected is what a failed statement returns. Deliberately not
// driver.ErrBadConn (database/sql would silently retry that).
var ErrInjected = errors.New("injected")

// Event is one driver-level operation issued while a block transaction is open
// (between the driver's BeginTx and the return of Commit/Rollback).
type Event struct {
	Block   uint32 `json:"block"`
	Attempt int    `json:"attempt"` // 1 = first BeginTx for this height in this process
	Class   string `json:"class"`   // "tx": on the block transaction's connection; "pool": any other connection
	Index   int    `json:"index"`   // position within (block, attempt, class), from 0
	Kind    string `json:"kind"`    // exec query prepare stmt_exec stmt_query commit
	SQL     string `json:"sql"`     // statement text, whitespace-collapsed, first 100 bytes
	Site    string `json:"site"`    // pegnetd call chain that issued it: Func:line>Func:line
}

// Plan is one fault to inject.
type Plan struct {
	Block   uint32 `json:"block"`
	Attempt int    `json:"attempt"` // 0 means 1
	Class   string `json:"class"`   // "tx" | "pool"
	Index   int    `json:"index"`   // for class tx, index == number of statements means the COMMIT
	After   bool   `json:"after"`   // kill only: act after the operation returned (used for COMMIT)
	Action  string `json:"action"`  // "kill" | "fail"
}

// Hook is the process-global control block of the wrapper driver.
type Hook struct {
	mu sync.Mutex

	// HeightFn tells the height of the block a BeginTx belongs to. It is called
	// in the goroutine that called DB.BeginTx (the sync goroutine).
	HeightFn func() uint32
	// Record keeps every in-block event in Log.
	Record bool
	// AfterCommit is called (in the sync goroutine, no lock held) after the
	// block transaction of `block` was committed successfully.
	AfterCommit func(block uint32)
	// OnKill is called right before SIGKILL (write what you want to keep).
	OnKill func(ev Event)

	// RetryAll: "" or a substring of a statement; the first attempt at EVERY block fails at the first
	// operation on the block transaction whose SQL contains it (e.g. the pn_sync_version insert of
	// InsertSynced, the last statement of a block), so every block is applied twice by the same process
	RetryAll     string
	retryFired   map[uint32]bool
	RetryAllHits int

	plan  *Plan
	fired *Event

	inBlock  bool
	block    uint32
	attempt  int
	txConn   *wConn
	nTx      int
	nPool    int
	attempts map[uint32]int
	// Outcomes[h] = how each attempt at block h ended: "commit", "rollback",
	// "commit_failed: ...".
	outcomes map[uint32][]string
	log      map[uint32][]Event
	counts   map[uint32][2]int // last attempt: [tx statements incl. commit, pool statements]
	idle     int               // operations outside any block window
}

// TheHook is the hook the registered driver uses.
var TheHook = &Hook{}

var registerOnce sync.Once

// RegisterDriver registers the wrapper (idempotent).
func RegisterDriver() {
	registerOnce.Do(func() {
		sql.Register(DriverName, &wDriver{inner: &sqlite3.SQLiteDriver{}, h: TheHook})
	})
}

// Reset clears all state (plan, logs, counters).
func (h *Hook) Reset() {
	h.mu.Lock()
	defer h.mu.Unlock()
	h.plan, h.fired = nil, nil
	h.retryFired, h.RetryAllHits = map[uint32]bool{}, 0
	h.inBlock, h.txConn = false, nil
	h.attempts = map[uint32]int{}
	h.outcomes = map[uint32][]string{}
	h.log = map[uint32][]Event{}
	h.counts = map[uint32][2]int{}
	h.idle = 0
}

// SetPlan installs the fault to inject (nil: none).
func (h *Hook) SetPlan(p *Plan) {
	h.mu.Lock()
	defer h.mu.Unlock()
	if p != nil && p.Attempt == 0 {
		q := *p
		q.Attempt = 1
		p = &q
	}
	h.plan, h.fired = p, nil
}

// Fired returns the event the plan was applied to, nil if it never matched.
func (h *Hook) Fired() *Event {
	h.mu.Lock()
	defer h.mu.Unlock()
	if h.fired == nil {
		return nil
	}
	e := *h.fired
	return &e
}

// Window reports whether a block transaction is open and for which block/attempt.
func (h *Hook) Window() (block uint32, attempt int, open bool) {
	h.mu.Lock()
	defer h.mu.Unlock()
	return h.block, h.attempt, h.inBlock
}

// Attempts returns how many block transactions were begun for the height.
func (h *Hook) Attempts(block uint32) int {
	h.mu.Lock()
	defer h.mu.Unlock()
	return h.attempts[block]
}

// Outcomes returns how each attempt at the height ended.
func (h *Hook) Outcomes(block uint32) []string {
	h.mu.Lock()
	defer h.mu.Unlock()
	return append([]string(nil), h.outcomes[block]...)
}

// Log returns the recorded events per block (only with Record).
func (h *Hook) Log() map[uint32][]Event {
	h.mu.Lock()
	defer h.mu.Unlock()
	out := make(map[uint32][]Event, len(h.log))
	for k, v := range h.log {
		out[k] = append([]Event(nil), v...)
	}
	return out
}

// Counts returns, per block, the number of tx-class operations (COMMIT
// included) and pool-class operations of the last attempt.
func (h *Hook) Counts() map[uint32][2]int {
	h.mu.Lock()
	defer h.mu.Unlock()
	out := make(map[uint32][2]int, len(h.counts))
	for k, v := range h.counts {
		out[k] = v
	}
	return out
}

func (h *Hook) begin(c *wConn) {
	var blk uint32
	if h.HeightFn != nil {
		blk = h.HeightFn()
	}
	h.mu.Lock()
	defer h.mu.Unlock()
	if h.attempts == nil {
		h.attempts, h.outcomes, h.log, h.counts = map[uint32]int{}, map[uint32][]string{}, map[uint32][]Event{}, map[uint32][2]int{}
	}
	h.inBlock, h.block, h.txConn = true, blk, c
	h.attempts[blk]++
	h.attempt = h.attempts[blk]
	h.nTx, h.nPool = 0, 0
	if h.Record {
		h.log[blk] = nil // keep the last attempt only
	}
}

func (h *Hook) end(outcome string) {
	h.mu.Lock()
	defer h.mu.Unlock()
	if !h.inBlock {
		return
	}
	h.outcomes[h.block] = append(h.outcomes[h.block], outcome)
	h.counts[h.block] = [2]int{h.nTx, h.nPool}
	h.inBlock, h.txConn = false, nil
}

// op is called before every driver operation. It returns the action to take
// ("" | "kill" | "fail") and the event (for after-kills).
func (h *Hook) op(c *wConn, kind, query string) (string, Event, bool) {
	h.mu.Lock()
	if !h.inBlock {
		h.idle++
		h.mu.Unlock()
		return "", Event{}, false
	}
	ev := Event{Block: h.block, Attempt: h.attempt, Kind: kind, SQL: squash(query)}
	if c == h.txConn {
		ev.Class, ev.Index = "tx", h.nTx
		h.nTx++
	} else {
		ev.Class, ev.Index = "pool", h.nPool
		h.nPool++
	}
	needSite := h.Record || (h.plan != nil && h.fired == nil && h.plan.Block == ev.Block)
	if needSite {
		ev.Site = callSite()
	}
	if h.Record {
		h.log[ev.Block] = append(h.log[ev.Block], ev)
	}
	act, after := "", false
	// (not inside NullifyBurnAddress: DBlockSync drops that function's error -- recorded finding of C10 -- so a
	// failure there is swallowed instead of retried; the retry run is about what a ROLLED BACK attempt leaves behind)
	if h.RetryAll != "" && ev.Class == "tx" && ev.Attempt == 1 && !h.retryFired[ev.Block] && strings.Contains(ev.SQL, h.RetryAll) &&
		!strings.Contains(callSite(), "NullifyBurnAddress") {
		if h.retryFired == nil {
			h.retryFired = map[uint32]bool{}
		}
		h.retryFired[ev.Block] = true
		h.RetryAllHits++
		act = "fail"
	}
	if p := h.plan; act == "" && p != nil && h.fired == nil && p.Block == ev.Block && p.Attempt == ev.Attempt && p.Class == ev.Class && p.Index == ev.Index {
		e := ev
		h.fired = &e
		act, after = p.Action, p.After
	}
	h.mu.Unlock()
	if act == "kill" && !after {
		h.kill(ev)
	}
	return act, ev, after
}

func (h *Hook) kill(ev Event) {
	if h.OnKill != nil {
		h.OnKill(ev)
	}
	syscall.Kill(os.Getpid(), syscall.SIGKILL)
	select {} // never returns
}

func squash(q string) string {
	q = strings.Join(strings.Fields(q), " ")
	if len(q) > 100 {
		q = q[:100]
	}
	return q
}

// callSite renders the pegnetd frames of the current stack, outermost first:
// "SyncBlock:576>DevelopersPayouts:741>AddToBalance:341" (line = where the frame
// calls the next one / issues the statement). Harness frames are left out;
// DBlockSync is the first element when the real loop runs.
func callSite() string {
	pcs := make([]uintptr, 64)
	n := runtime.Callers(3, pcs)
	frames := runtime.CallersFrames(pcs[:n])
	var parts []string
	for {
		f, more := frames.Next()
		if strings.Contains(f.Function, "github.com/pegnet/pegnetd/") {
			name := f.Function[strings.LastIndex(f.Function, "/")+1:]
			// node.(*Pegnetd).SyncBlock -> SyncBlock ; pegnet.(*Pegnet).AddToBalance -> AddToBalance ; srv.(*APIServer).getBank -> srv.getBank
			pkg := name
			if i := strings.Index(name, "."); i >= 0 {
				pkg, name = name[:i], name[i+1:]
			}
			name = strings.NewReplacer("(*Pegnetd).", "", "(*Pegnet).", "", "Pegnet.", "", "(*APIServer).", "").Replace(name)
			if pkg == "srv" {
				name = "srv." + name
			}
			parts = append(parts, fmt.Sprintf("%s:%d", name, f.Line))
		}
		if !more {
			break
		}
	}
	// reverse: outermost first
	for i, j := 0, len(parts)-1; i < j; i, j = i+1, j-1 {
		parts[i], parts[j] = parts[j], parts[i]
	}
	return strings.Join(parts, ">")
}

// WriteJSONSync writes v as JSON to path and fsyncs it.
func WriteJSONSync(path string, v interface{}) error {
	data, err := json.Marshal(v)
	if err != nil {
		return err
	}
	if err := os.MkdirAll(filepath.Dir(path), 0777); err != nil {
		return err
	}
	f, err := os.Create(path)
	if err != nil {
		return err
	}
	if _, err := f.Write(append(data, '\n')); err != nil {
		f.Close()
		return err
	}
	if err := f.Sync(); err != nil {
		f.Close()
		return err
	}
	return f.Close()
}

// ---- driver ----

type wDriver struct {
	inner *sqlite3.SQLiteDriver
	h     *Hook
}

func (d *wDriver) Open(dsn string) (driver.Conn, error) {
	c, err := d.inner.Open(dsn)
	if err != nil {
		return nil, err
	}
	return &wConn{inner: c.(*sqlite3.SQLiteConn), h: d.h}, nil
}

type wConn struct {
	inner *sqlite3.SQLiteConn
	h     *Hook
}

var (
	_ driver.Conn               = (*wConn)(nil)
	_ driver.ConnBeginTx        = (*wConn)(nil)
	_ driver.ConnPrepareContext = (*wConn)(nil)
	_ driver.ExecerContext      = (*wConn)(nil)
	_ driver.QueryerContext     = (*wConn)(nil)
	_ driver.Pinger             = (*wConn)(nil)
	_ driver.Execer             = (*wConn)(nil)
	_ driver.Queryer            = (*wConn)(nil)
	_ driver.StmtExecContext    = (*wStmt)(nil)
	_ driver.StmtQueryContext   = (*wStmt)(nil)
)

func (c *wConn) Close() error                   { return c.inner.Close() }
func (c *wConn) Ping(ctx context.Context) error { return c.inner.Ping(ctx) }

func (c *wConn) Begin() (driver.Tx, error) {
	return c.BeginTx(context.Background(), driver.TxOptions{})
}

func (c *wConn) BeginTx(ctx context.Context, opts driver.TxOptions) (driver.Tx, error) {
	c.h.begin(c)
	tx, err := c.inner.BeginTx(ctx, opts)
	if err != nil {
		c.h.end("begin_failed: " + err.Error())
		return nil, err
	}
	return &wTx{inner: tx, c: c}, nil
}

func (c *wConn) Prepare(query string) (driver.Stmt, error) {
	return c.PrepareContext(context.Background(), query)
}

func (c *wConn) PrepareContext(ctx context.Context, query string) (driver.Stmt, error) {
	if act, _, _ := c.h.op(c, "prepare", query); act == "fail" {
		return nil, ErrInjected
	}
	s, err := c.inner.PrepareContext(ctx, query)
	if err != nil {
		return nil, err
	}
	return &wStmt{inner: s.(*sqlite3.SQLiteStmt), c: c, query: query}, nil
}

func (c *wConn) Exec(query string, args []driver.Value) (driver.Result, error) {
	if act, _, _ := c.h.op(c, "exec", query); act == "fail" {
		return nil, ErrInjected
	}
	return c.inner.Exec(query, args)
}

func (c *wConn) ExecContext(ctx context.Context, query string, args []driver.NamedValue) (driver.Result, error) {
	if act, _, _ := c.h.op(c, "exec", query); act == "fail" {
		return nil, ErrInjected
	}
	return c.inner.ExecContext(ctx, query, args)
}

func (c *wConn) Query(query string, args []driver.Value) (driver.Rows, error) {
	if act, _, _ := c.h.op(c, "query", query); act == "fail" {
		return nil, ErrInjected
	}
	return c.inner.Query(query, args)
}

func (c *wConn) QueryContext(ctx context.Context, query string, args []driver.NamedValue) (driver.Rows, error) {
	if act, _, _ := c.h.op(c, "query", query); act == "fail" {
		return nil, ErrInjected
	}
	return c.inner.QueryContext(ctx, query, args)
}

type wStmt struct {
	inner *sqlite3.SQLiteStmt
	c     *wConn
	query string
}

func (s *wStmt) Close() error  { return s.inner.Close() }
func (s *wStmt) NumInput() int { return s.inner.NumInput() }

func (s *wStmt) Exec(args []driver.Value) (driver.Result, error) {
	if act, _, _ := s.c.h.op(s.c, "stmt_exec", s.query); act == "fail" {
		return nil, ErrInjected
	}
	return s.inner.Exec(args)
}

func (s *wStmt) ExecContext(ctx context.Context, args []driver.NamedValue) (driver.Result, error) {
	if act, _, _ := s.c.h.op(s.c, "stmt_exec", s.query); act == "fail" {
		return nil, ErrInjected
	}
	return s.inner.ExecContext(ctx, args)
}

func (s *wStmt) Query(args []driver.Value) (driver.Rows, error) {
	if act, _, _ := s.c.h.op(s.c, "stmt_query", s.query); act == "fail" {
		return nil, ErrInjected
	}
	return s.inner.Query(args)
}

func (s *wStmt) QueryContext(ctx context.Context, args []driver.NamedValue) (driver.Rows, error) {
	if act, _, _ := s.c.h.op(s.c, "stmt_query", s.query); act == "fail" {
		return nil, ErrInjected
	}
	return s.inner.QueryContext(ctx, args)
}

type wTx struct {
	inner driver.Tx
	c     *wConn
}

func (t *wTx) Commit() error {
	h := t.c.h
	blk, _, open := h.Window()
	act, ev, after := h.op(t.c, "commit", "COMMIT")
	if act == "fail" {
		// A failed COMMIT leaves no open transaction behind (go-sqlite3 rolls
		// back itself after SQLITE_BUSY; sqlite rolls back on most others).
		t.inner.Rollback()
		h.end("commit_failed: injected")
		return ErrInjected
	}
	err := t.inner.Commit()
	if err != nil {
		h.end("commit_failed: " + err.Error())
		return err
	}
	h.end("commit")
	if act == "kill" && after {
		h.kill(ev)
	}
	if open && h.AfterCommit != nil {
		h.AfterCommit(blk)
	}
	return nil
}

func (t *wTx) Rollback() error {
	err := t.inner.Rollback()
	t.c.h.end("rollback")
	return err
}
