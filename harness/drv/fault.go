package drv

import (
	"fmt"
	"math/rand"
	"os"
	"path/filepath"
	"time"
)

// CmdFault: C10. One injected fault (or one sql+rpc pair) per run; the real
// DBlockSync loop must retry and end in the fault-free ledger.
func CmdFault(c *Common, o *CrashOptions) int {
	start := time.Now()
	k, err := ParsePointsArg(o.Points)
	if err != nil {
		Emit(map[string]interface{}{"cmd": "fault", "error": err.Error()})
		return 2
	}
	if o.Kind != "sql" && o.Kind != "rpc" && o.Kind != "both" {
		Emit(map[string]interface{}{"cmd": "fault", "error": "-kind must be sql, rpc or both"})
		return 2
	}
	root := filepath.Join(c.Work, "fault")
	os.RemoveAll(root)
	sc, ref, blocks, rc := prepareRef(c, "fault", o)
	if rc != 0 {
		return rc
	}
	defer sc.Close()

	type task struct {
		sql *Point
		rpc *Point
	}
	var tasks []task
	var allSQL, allRPC []Point
	if o.Kind == "sql" || o.Kind == "both" {
		allSQL = SQLPoints(ref, blocks, false)
		for _, p := range SamplePoints(allSQL, k, c.Seed) {
			p := p
			tasks = append(tasks, task{sql: &p})
		}
	}
	if o.Kind == "rpc" || o.Kind == "both" {
		allRPC = RPCPoints(ref, blocks, sc.First)
		for _, p := range SamplePoints(allRPC, k, c.Seed+1) {
			p := p
			tasks = append(tasks, task{rpc: &p})
		}
	}
	if o.Pairs > 0 {
		if allSQL == nil {
			allSQL = SQLPoints(ref, blocks, false)
		}
		if allRPC == nil {
			allRPC = RPCPoints(ref, blocks, sc.First)
		}
		byBlock := map[uint32][]Point{}
		for _, p := range allRPC {
			if p.Index >= 0 {
				byBlock[p.Block] = append(byBlock[p.Block], p)
			}
		}
		rng := rand.New(rand.NewSource(c.Seed + 2))
		for _, p := range SamplePoints(allSQL, o.Pairs, c.Seed+2) {
			p := p
			cands := byBlock[p.Block]
			if len(cands) == 0 {
				continue
			}
			q := cands[rng.Intn(len(cands))]
			tasks = append(tasks, task{sql: &p, rpc: &q})
		}
	}
	ntx, npool, nrpc, nsites := PointCounts(ref, blocks)
	Logf("fault: %d blocks, %d tx operations (COMMIT included), %d pool operations, %d rpc requests, %d distinct sql sites; running %d faults",
		len(blocks), ntx, npool, nrpc, nsites, len(tasks))

	violations, internal, done, swallowed, exited, notFired := 0, 0, 0, 0, 0, 0
	Parallel(len(tasks), c.Jobs, func(i int) {
		t := tasks[i]
		out := faultPoint(c, o, sc, ref, root, t.sql, t.rpc)
		cntMu.Lock()
		done++
		if out["error"] != nil {
			internal++
		} else {
			if out["violation"] == true {
				violations++
			}
			if out["swallowed"] == true {
				swallowed++
			}
			if out["exited"] == true {
				exited++
			}
			if out["fired"] == nil && out["fired_rpc"] == nil {
				notFired++
			}
		}
		if done%50 == 0 {
			Logf("fault: %d/%d done, %d violations, %d errors", done, len(tasks), violations, internal)
		}
		cntMu.Unlock()
		Emit(out)
	})
	Emit(map[string]interface{}{"cmd": "fault", "summary": map[string]interface{}{
		"scenario": c.Scenario, "seed": c.Seed, "kind": o.Kind, "blocks": len(blocks),
		"tx_ops": ntx, "pool_ops": npool, "rpc_requests": nrpc, "distinct_sql_sites": nsites,
		"sql_points_total": len(allSQL), "rpc_points_total": len(allRPC), "faults_run": len(tasks),
		"violations": violations, "swallowed": swallowed, "exited": exited, "not_fired": notFired, "internal_errors": internal,
		"prefix": o.Prefix, "resume": o.Resume, "ref_ms": ref.Elapsed.Milliseconds(), "elapsed_ms": time.Since(start).Milliseconds()}})
	if internal > 0 {
		return 2
	}
	return 0
}

func faultPoint(c *Common, o *CrashOptions, sc *Scenario, ref *Ref, root string, sqlP, rpcP *Point) map[string]interface{} {
	out := map[string]interface{}{"cmd": "fault", "scenario": c.Scenario, "seed": c.Seed}
	var block uint32
	name := ""
	if sqlP != nil {
		block = sqlP.Block
		out["point"] = sqlP
		name = fmt.Sprintf("b%d_%s%d", sqlP.Block, sqlP.Class, sqlP.Index)
	}
	if rpcP != nil {
		block = rpcP.Block
		if sqlP != nil {
			out["point_rpc"] = rpcP
			out["kind"] = "pair"
			name += fmt.Sprintf("_rpc%d", rpcP.Index)
		} else {
			out["point"] = rpcP
			out["kind"] = "rpc"
			name = fmt.Sprintf("b%d_rpc%d", rpcP.Block, rpcP.Index)
		}
	} else {
		out["kind"] = "sql"
	}
	dir := filepath.Join(root, name)
	dbFile := filepath.Join(dir, "pegnet.db")
	target := resumeTarget(sc, o, block)

	fj := pointJob(c, "fault", filepath.Join(dir, "fault"), dbFile, o, ref, block)
	fj.To = target
	if sqlP != nil {
		fj.Plan = &Plan{Block: sqlP.Block, Class: sqlP.Class, Index: sqlP.Index, Action: "fail"}
	}
	if rpcP != nil {
		fj.RPC, fj.RPCBlock, fj.RPCIndex = true, rpcP.Block, rpcP.Index
	}
	res, pi, err := RunChild(c, fj)
	if err != nil || res == nil {
		out["error"] = "fault child: " + describe(res, pi, err)
		out["dir"] = dir
		return out
	}
	if res.Fired != nil {
		out["fired"] = res.Fired
	}
	if res.FiredRPC != nil {
		out["fired_rpc"] = res.FiredRPC
	}
	out["attempts"] = res.Attempts
	out["outcomes"] = res.Outcomes
	fired := res.Fired != nil || res.FiredRPC != nil
	// how did the attempt that saw the fault end?
	if fired && len(res.Outcomes) > 0 {
		first := res.Outcomes[0]
		out["propagated"] = first == "rollback"
		out["swallowed"] = first == "commit"
		if rpcP != nil && rpcP.Index < 0 {
			// a failed `heights` poll happens before any block is opened
			out["propagated"], out["swallowed"] = true, false
		}
	}
	violation := false
	var finalFile string
	if res.Exited {
		out["exited"] = true
		out["exit_cause"] = res.ExitCause
		rj := pointJob(c, "resume", filepath.Join(dir, "resume"), dbFile, o, ref, block)
		rj.To = target
		rres, rpi, rerr := RunChild(c, rj)
		if rerr != nil || rres == nil {
			out["error"] = "resume after exit: " + describe(rres, rpi, rerr)
			out["dir"] = dir
			return out
		}
		if !rres.OK {
			violation = true
			out["resume_error"] = firstLine(rres.Error)
		} else {
			finalFile = rres.FinalDump
		}
	} else if !res.OK {
		// e.g. the node is wedged: it never reaches the tip although the fault is gone
		violation = true
		out["sync_error"] = firstLine(res.Error)
	} else {
		finalFile = res.FinalDump
	}
	if finalFile != "" {
		final, err := ReadLines(finalFile)
		if err != nil {
			out["error"] = err.Error()
			return out
		}
		if d := DiffLines(ref.Store.Get(target), final, 12); d != nil {
			violation = true
			out["final_equal"] = false
			out["diff"] = d
		} else {
			out["final_equal"] = true
		}
	} else {
		out["final_equal"] = false
	}
	out["resumed_to"] = target
	out["violation"] = violation
	if !violation && !o.Keep {
		os.RemoveAll(dir)
	} else {
		out["dir"] = dir
	}
	return out
}
