(* Corr/Codec.v — executable comparison of Model/Codec.v with what the REAL fat2 / fat103 /
   factom code did on the cases printed by /verif/gen/codec (evaluated by vm_compute). *)
From Coq Require Import Uint63.
From Model Require Import Codec Db.
From Coq Require Import List ZArith Bool.
Import ListNotations.
Open Scope list_scope.
Open Scope Z_scope.

Fixpoint cmismatches_from {A} (f : A -> bool) (i : nat) (l : list A) : list nat :=
  match l with
  | [] => []
  | x :: l' => if f x then cmismatches_from f (S i) l' else i :: cmismatches_from f (S i) l'
  end.
Definition mismatches {A} (f : A -> bool) (l : list A) : list nat := cmismatches_from f 0 l.

(* byte strings travel packed into primitive 63-bit integers (Coq parses those fast): each
   word is 0x1 followed by up to seven bytes in hex; the leading 1 marks where the bytes start *)
Definition bit_at (b k : Uint63.int) : Z :=
  if Uint63.eqb (Uint63.land (Uint63.lsr b k) 1%uint63) 0%uint63 then 0 else 1.
(* byte number i (0 = least significant) of a word, as a Z, using primitive shifts only *)
Definition byte_at (w i : Uint63.int) : Z :=
  let b := Uint63.lsr w (Uint63.mul 8%uint63 i) in
  Z.double (Z.double (Z.double (Z.double (Z.double (Z.double (Z.double (bit_at b 7%uint63) + bit_at b 6%uint63)
    + bit_at b 5%uint63) + bit_at b 4%uint63) + bit_at b 3%uint63) + bit_at b 2%uint63) + bit_at b 1%uint63)
    + bit_at b 0%uint63.
Definition unpack1 (w : Uint63.int) : bytes :=
  let idx : list Uint63.int :=
    (if Uint63.ltb w 0x100%uint63 then []
    else if Uint63.ltb w 0x10000%uint63 then [0]
    else if Uint63.ltb w 0x1000000%uint63 then [1; 0]
    else if Uint63.ltb w 0x100000000%uint63 then [2; 1; 0]
    else if Uint63.ltb w 0x10000000000%uint63 then [3; 2; 1; 0]
    else if Uint63.ltb w 0x1000000000000%uint63 then [4; 3; 2; 1; 0]
    else if Uint63.ltb w 0x100000000000000%uint63 then [5; 4; 3; 2; 1; 0]
    else [6; 5; 4; 3; 2; 1; 0])%uint63 in
  map (byte_at w) idx.
Definition ub (l : list Uint63.int) : bytes := flat_map unpack1 l.
(* a 32-byte value as a big-endian integer *)
Definition zb (l : list Uint63.int) : Z := fold_left (fun a c => a * 256 + c) (ub l) 0.

(* finite oracles built from the tables the generator printed *)
Fixpoint assoc_bytes {B} (tbl : list (bytes * B)) (k : bytes) : option B :=
  match tbl with
  | [] => None
  | (k', v) :: r => if beq k' k then Some v else assoc_bytes r k
  end.
Fixpoint assoc_Z {B} (tbl : list (Z * B)) (k : Z) : option B :=
  match tbl with
  | [] => None
  | (k', v) :: r => if k' =? k then Some v else assoc_Z r k
  end.
Definition addr_oracle (tbl : list (bytes * Z)) : bytes -> option Z := fun text => assoc_bytes tbl text.
Definition text_oracle (tbl : list (Z * bytes)) : Z -> bytes :=
  fun a => match assoc_Z tbl a with Some s => s | None => [] end.

Definition transfer_eqb (a b : transfer) : bool := (tr_addr a =? tr_addr b) && (tr_amt a =? tr_amt b).
Fixpoint list_eqb {A} (f : A -> A -> bool) (a b : list A) : bool :=
  match a, b with
  | [], [] => true
  | x :: a', y :: b' => f x y && list_eqb f a' b'
  | _, _ => false
  end.
Definition tx_eqb (a b : tx) : bool :=
  (tx_addr a =? tx_addr b) && (tx_type a =? tx_type b) && (tx_amt a =? tx_amt b) &&
  list_eqb transfer_eqb (tx_transfers a) (tx_transfers b) && (tx_conv a =? tx_conv b).

(* ---- batch contents --------------------------------------------------------- *)
(* (input, text->address table, address->canonical text table, length of jsonlen.Compact,
    Some (version, transactions, ValidData ok, int64 bound ok, ValidatePegTx ok, Go re-encode/decode ok)
      when UnmarshalJSON succeeded,
    canonical encoding by json.Marshal of the decoded value without metadata when ValidData ok) *)
Definition json_case :=
  (bytes * list (bytes * Z) * list (Z * bytes) * nat *
   option (Z * list tx * bool * bool * bool * bool) * option bytes)%type.

Definition json_agrees (c : json_case) : bool :=
  let '(s, tbl, inv, clen, verdict, enc) := c in
  let o := addr_oracle tbl in
  (match compact s with Some cs => Nat.eqb (length cs) clen | None => Nat.eqb clen 0 end) &&
  match decode_batch o s, verdict with
  | None, None => true
  | Some b, Some (ver, txs, vd, i64, peg, _) =>
    (b_version b =? ver) && list_eqb tx_eqb (b_txs b) txs &&
    Bool.eqb (valid_data b) vd && Bool.eqb (inputs_within_int64 b) i64 && Bool.eqb (validate_peg_tx b) peg &&
    match enc with
    | Some e => beq (Model.Codec.encode (text_oracle inv) b) e
    | None => true
    end
  | _, _ => false
  end.

(* the property's own oracle on the implementation's verdict: whatever the Go code accepts
   (UnmarshalJSON, ValidData and the int64 bound) is in the canonical language, and Go's own
   re-encoding decodes to the same transactions *)
Definition json_canonical_on (c : json_case) : bool :=
  let '(h, tbl, inv, clen, verdict, enc) := c in
  match verdict with
  | Some (ver, txs, true, true, _, rt) => canonical_bytes h && rt
  | _ => true
  end.

(* which accepted cases use one of the tolerated variations (reported, not a failure) *)
Definition json_is_plain_canonical (c : json_case) : bool :=
  let '(h, tbl, inv, clen, verdict, enc) := c in
  match verdict, enc with
  | Some (_, _, true, true, _, _), Some e => beq h e
  | _, _ => true
  end.

(* ---- signed entries ----------------------------------------------------------- *)
(* (chain id, ExtIDs, content, timestamp, height, text->address table,
    signature answers (rcd type, pubkey, message, signature as passed, verified),
    RCD hash table, ValidExtIDs verdict (None: content does not decode),
    NewTransactionBatch verdict) *)
Definition extids_case :=
  (bytes * list bytes * bytes * Z * Z * list (bytes * Z) *
   list (Z * bytes * bytes * bytes * bool) * list (bytes * Z) *
   option bool * option (list tx))%type.

Definition sig_oracle (tbl : list (Z * bytes * bytes * bytes * bool)) : Z -> bytes -> bytes -> bytes -> bool :=
  fun ty pk m sg =>
    existsb (fun q => let '(ty', pk', m', sg', ok) := q in
                      (ty' =? ty) && beq pk' pk && beq m' m && beq sg' sg && ok) tbl.
Definition rcd_oracle (tbl : list (bytes * Z)) : bytes -> Z :=
  fun rcd => match assoc_bytes tbl rcd with Some h => h | None => -1 end.

Definition entry_of (chain : bytes) (ext : list bytes) (content : bytes) (ts : Z) : raw_entry :=
  {| re_chain := chain; re_extids := ext; re_content := content; re_ts := ts |}.

Definition extids_agrees (c : extids_case) : bool :=
  let '(chain, ext, content, ts, h, tbl, sigs, rcds, extv, full) := c in
  let e := entry_of chain ext content ts in
  let o := addr_oracle tbl in
  let so := sig_oracle sigs in
  let ro := rcd_oracle rcds in
  (match decode_batch o (re_content e), extv with
   | None, None => true
   | Some b, Some v => Bool.eqb (valid_extids so ro Gen.Consts.Fat2RCDEActivation h (map tx_addr (b_txs b)) e) v
   | _, _ => false
   end) &&
  match new_transaction_batch so ro Gen.Consts.Fat2RCDEActivation o h e, full with
  | None, None => true
  | Some b, Some txs => list_eqb tx_eqb (b_txs b) txs
  | _, _ => false
  end.

(* the property's oracle on the implementation's verdict: an entry the Go code accepts carries,
   for its single input address, an RCD hashing to that address, of a type enabled at the
   height, with a verified signature over index 0 | salt | chain | content, salt within 12 h *)
Definition extids_authorised_on (c : extids_case) : bool :=
  let '(chain, ext, content, ts, h, tbl, sigs, rcds, extv, full) := c in
  match full with
  | None => true
  | Some txs =>
    let e := entry_of chain ext content ts in
    match txs, re_extids e with
    | t0 :: _, [salt; rcd; sg] =>
      let msg := [48] ++ salt ++ re_chain e ++ re_content e in
      match rcd with
      | ty :: pk =>
        (rcd_oracle rcds rcd =? tx_addr t0) &&
        forallb (fun t => tx_addr t =? tx_addr t0) txs &&
        (if ty =? 1 then sig_oracle sigs 1 pk msg sg
         else if ty =? 14 then ((Gen.Consts.Fat2RCDEActivation <? h) || (h <? 0)) && sig_oracle sigs 14 pk msg (firstn 64 sg)
         else false) &&
        match parse_int64 salt with
        | Some sec => (Z.abs (ts - sec) <=? 43200)
        | None => false
        end
      | [] => false
      end
    | _, _ => false
    end
  end.
