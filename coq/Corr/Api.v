(* Corr/Api.v — the history queries of the real node (SelectTransactionHistoryActionsBy{Hash,Address,Height} walked page
   by page from offset 0, SelectTransactionHistoryStatus) compared with Model/Api.v evaluated on the MODEL's state after
   the same chain.  A case is (query, count the node reported, the actions of all pages in the order returned). *)
From Model Require Import Api Obs.
From Lemmas Require Import ApiReflect.
Open Scope Z_scope.

Definition api_case := (hq * Z * list (hash * Z))%type.

Definition pair_rows (l : list (hash * Z)) : list row := sort_rows (map (fun p => [fst p; snd p]) l).
(* same batches in the same (history_id) order, and the same actions: the order of the actions of one batch row is not
   fixed by the SQL text *)
Definition same_actions (a b : list (hash * Z)) : bool :=
  list_Z_eqb (map fst a) (map fst b) &&
  match rows_first_diff (pair_rows a) (pair_rows b) with None => true | Some _ => false end.

Definition api_case_ok (s : db) (c : api_case) : bool :=
  let '(q, cnt, rows) := c in
  (Z.of_nat (query_count s q) =? cnt) &&
  same_actions (walk_pages (S (length rows)) s q 0) rows.

Definition status_case_ok (s : db) (c : hash * Z * Z) : bool :=
  let '(hs, ht, ex) := c in
  let r := query_status s hs in (fst r =? ht) && (snd r =? ex).

(* the model's state after the chain; None when the model does not get through *)
Fixpoint final_state (c : cfg) (cm : db) (mem : avgcache) (bs : list block) : option db :=
  match bs with
  | [] => Some cm
  | b :: bs' => match step_block c cm mem b with Done (s', mem') => final_state c s' mem' bs' | _ => None end
  end.

(* (number of cases, indices of the query cases that disagree, indices of the status cases that disagree, whether the
   history tables of the final state are well formed in the executable sense) *)
Fixpoint bad_indices {A} (ok : A -> bool) (i : Z) (l : list A) : list Z :=
  match l with [] => [] | x :: l' => if ok x then bad_indices ok (i + 1) l' else i :: bad_indices ok (i + 1) l' end.

(* [hist_wfb]: Lemmas/ApiReflect.v, with [hist_wfb_spec : hist_wfb s = true -> hist_wf s] *)
Record api_report := { ar_ran : bool; ar_cases : Z; ar_bad : list Z; ar_bad_status : list Z; ar_wf : bool }.
Definition api_check (c : cfg) (bs : list block) (cases : list api_case) (st : list (hash * Z * Z)) : api_report :=
  match final_state c genesis empty_cache bs with
  | None => {| ar_ran := false; ar_cases := 0; ar_bad := []; ar_bad_status := []; ar_wf := true |}
  | Some s => {| ar_ran := true; ar_cases := Z.of_nat (length cases + length st);
                 ar_bad := bad_indices (api_case_ok s) 0 cases;
                 ar_bad_status := bad_indices (status_case_ok s) 0 st;
                 ar_wf := hist_wfb s |}
  end.
