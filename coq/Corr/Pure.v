(* Corr/Pure.v — executable comparison of the model with outputs observed from the Go code
   (the cases files are written by bin/check from gen/pure on every run). *)
From Model Require Import Base Arith Decimal.

Definition opt_eqb (a b : option Z) : bool :=
  match a, b with Some x, Some y => x =? y | None, None => true | _, _ => false end.

Fixpoint mismatches_from {A} (f : A -> bool) (i : nat) (l : list A) : list nat :=
  match l with
  | [] => []
  | x :: l' => if f x then mismatches_from f (S i) l' else i :: mismatches_from f (S i) l'
  end.
Definition mismatches {A} (f : A -> bool) (l : list A) : list nat := mismatches_from f 0 l.

Definition convert_case := (bool * Z * Z * Z * Z * Z * option Z)%type.
Definition convert_agrees (c : convert_case) : bool :=
  let '(pip, amt, fr, fa, tr, ta, out) := c in opt_eqb (convert pip amt fr fa tr ta) out.

Definition refund_case := (bool * Z * Z * Z * Z * Z)%type.
Definition refund_agrees (c : refund_case) : bool :=
  let '(pip, inp, y, ir, pr, out) := c in refund pip inp y ir pr =? out.

Fixpoint insert_txid (r : txid * Z) (l : list (txid * Z)) : list (txid * Z) :=
  match l with
  | [] => [r]
  | x :: l' => if txid_ltb (fst r) (fst x) then r :: l else x :: insert_txid r l'
  end.
Definition sort_txid (l : list (txid * Z)) : list (txid * Z) := fold_right insert_txid [] l.

Fixpoint assoc_eqb (a b : list (txid * Z)) : bool :=
  match a, b with
  | [], [] => true
  | x :: a', y :: b' => txid_eqb (fst x) (fst y) && (snd x =? snd y) && assoc_eqb a' b'
  | _, _ => false
  end.

Definition payouts_case := (Z * list (txid * Z) * list (txid * Z) * Z)%type.
Definition payouts_agrees (c : payouts_case) : bool :=
  let '(bank, reqs, outs, tot) := c in
  assoc_eqb (sort_txid (payouts bank reqs)) outs && (total_requested reqs =? tot).

Definition factoshi_case := (list Z * option Z)%type.
Definition factoshi_agrees (c : factoshi_case) : bool :=
  let '(s, out) := c in opt_eqb (factoid_to_factoshi s) out.
Definition factoshi_legacy_agrees (c : factoshi_case) : bool :=
  let '(s, out) := c in opt_eqb (factoid_to_factoshi_legacy s) out.
(* the property's own oracle on an implementation output: accepted => exactly the denoted value *)
Definition factoshi_exact_on (c : factoshi_case) : bool :=
  let '(s, out) := c in
  match out with
  | None => true
  | Some v => amount_syntax_ok s && opt_eqb (exact_units s) (Some v)
  end.
