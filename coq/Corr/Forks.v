(* Corr/Forks.v — the version-lock model against histories replayed on the real code
   (gen/forks: real pegnet.Init / InsertSynced / SelectSynced / CheckHardForks / NewPegnetd on a
   fresh sqlite file per history).  Executable comparison predicates only. *)
From Model Require Import Base Forks.
From Corr Require Import Pure.

(* one session as the Go replay saw it: build, blocks asked for, blocks really committed
   (-1: the start-up of this tracked build was refused by the real CheckHardForks) *)
Definition obs_session := (build * Z * Z)%type.

(* (fork table, base height = config.PegnetActivation, sessions, final build's sync version,
    verdict of the real final start-up: 0 accepted / 1 refused by a fork check / 2 refused by
    the downgrade check / 3 any other error,
    rows (height, version) of pn_sync_version afterwards, ORDER BY height) *)
Definition forks_case := (list (Z * Z) * Z * list obs_session * Z * Z * list (Z * Z))%type.

Definition model_session (s : obs_session) : session := let '(b, n, _) := s in (b, Z.to_nat n).

(* ---- the model on the same history ---------------------------------------------------- *)
Definition verdict_code (forks : list (Z * Z)) (cur : Z) (d : db) : Z :=
  let r := backfilled leb_reached forks d in
  if negb (forks_ok forks r) then 1 else if negb (no_downgrade cur r) then 2 else 0.

(* blocks the model commits in a session, -1 when the model refuses the start-up *)
Definition model_done (forks : list (Z * Z)) (base : Z) (st : state) (s : session) : Z :=
  let st' := run_session forks base st s in
  match fst s with
  | Tracked v => if fst (check_hard_forks forks v (fst st)) then Z.of_nat (length (snd st')) - Z.of_nat (length (snd st)) else -1
  | Untracked => Z.of_nat (length (snd st')) - Z.of_nat (length (snd st))
  end.

Fixpoint model_dones forks base (st : state) (h : list session) : list Z * state :=
  match h with
  | [] => ([], st)
  | s :: t => let r := model_dones forks base (run_session forks base st s) t in
              (model_done forks base st s :: fst r, snd r)
  end.

Fixpoint insert_row_sorted (x : Z * Z) (l : list (Z * Z)) : list (Z * Z) :=
  match l with
  | [] => [x]
  | y :: l' => if fst x <? fst y then x :: l else y :: insert_row_sorted x l'
  end.
Definition sort_rows (l : list (Z * Z)) : list (Z * Z) := fold_right insert_row_sorted [] l.

Fixpoint zlist_eqb (a b : list Z) : bool :=
  match a, b with
  | [], [] => true
  | x :: a', y :: b' => (x =? y) && zlist_eqb a' b'
  | _, _ => false
  end.
Fixpoint rows_eqb (a b : list (Z * Z)) : bool :=
  match a, b with
  | [], [] => true
  | x :: a', y :: b' => (fst x =? fst y) && (snd x =? snd y) && rows_eqb a' b'
  | _, _ => false
  end.

(* model = implementation on: which start-ups were refused and how many blocks each session
   committed, the verdict (with its reason) of the final start-up, the resulting table *)
Definition forks_agrees (c : forks_case) : bool :=
  let '(forks, base, sessions, cur, go_verdict, go_rows) := c in
  let h := map model_session sessions in
  let r := model_dones forks base (fresh, []) h in
  let d := fst (snd r) in
  zlist_eqb (fst r) (map (fun s : obs_session => snd s) sessions)
  && (verdict_code forks cur d =? go_verdict)
  && Bool.eqb (fst (check_hard_forks forks cur d)) (go_verdict =? 0)
  && rows_eqb (sort_rows (versions (snd (check_hard_forks forks cur d)))) go_rows.

(* the same against the behaviour before the repair (bs.Synced > ActivationHeight); used only
   to name what a disagreement looks like, never as a pass criterion *)
Definition forks_agrees_legacy (c : forks_case) : bool :=
  let '(forks, base, sessions, cur, go_verdict, go_rows) := c in
  let h := map model_session sessions in
  let d := fst (run_history_legacy forks base h) in
  Bool.eqb (fst (check_hard_forks_legacy forks cur d)) (go_verdict =? 0)
  && rows_eqb (sort_rows (versions (snd (check_hard_forks_legacy forks cur d)))) go_rows.

(* ---- the property's own oracle on the implementation's verdicts -------------------------- *)
(* heights h+1 .. h+n synced by build b *)
Fixpoint log_range (b : build) (h : Z) (n : nat) : synclog :=
  match n with O => [] | S n' => (h + 1, b) :: log_range b (h + 1) n' end.

(* Walk the observed history.  State: last synced height, the log of what the Go replay really
   committed, "a tracked start-up has been seen", "an untracked build synced after it".
   Every tracked start-up (the intermediate ones and the final one) must have been refused
   iff the characterisation holds of the log so far; for histories outside [untracked_first]
   only "refused -> characterisation" is required (Refuted/C19.v). *)
Definition startup_ok (forks : list (Z * Z)) (cur : Z) (lg : synclog) (ordered : bool) (refused : bool) : bool :=
  if ordered then Bool.eqb refused (charb forks cur lg) else implb refused (charb forks cur lg).

Fixpoint walk (forks : list (Z * Z)) (top : Z) (lg : synclog) (seen_tracked ordered : bool)
              (l : list obs_session) : bool * (synclog * bool) :=
  match l with
  | [] => (true, (lg, ordered))
  | (b, n, done) :: t =>
      let k := Z.to_nat done in
      let lg' := log_range b top k ++ lg in
      let top' := top + Z.of_nat k in
      match b with
      | Untracked =>
          walk forks top' lg' seen_tracked (ordered && negb (seen_tracked && (0 <? done))) t
      | Tracked v =>
          let r := walk forks top' lg' true ordered t in
          (startup_ok forks v lg ordered (done <? 0) && fst r, snd r)
      end
  end.

Definition forks_property_on (c : forks_case) : bool :=
  let '(forks, base, sessions, cur, go_verdict, go_rows) := c in
  if (0 <=? base) && forks_wfb base forks && (-1 <=? cur)
     && forallb (fun s : obs_session => match fst (fst s) with Tracked v => -1 <=? v | Untracked => true end) sessions
  then
    let r := walk forks base [] false true sessions in
    fst r && startup_ok forks cur (fst (snd r)) (snd (snd r)) (negb (go_verdict =? 0))
  else true.

(* false on the instances of the excluded class met on the real code: an accepted final
   start-up although the characterisation holds (only possible outside [untracked_first]) *)
Definition forks_not_excluded_class (c : forks_case) : bool :=
  let '(forks, base, sessions, cur, go_verdict, go_rows) := c in
  let r := walk forks base [] false true sessions in
  negb ((go_verdict =? 0) && charb forks cur (fst (snd r)) && negb (snd (snd r))).

(* ---- forced histories: every tracked start-up but the last was overridden (--no-hf) ------------- *)
(* node.NewPegnetd still runs CheckHardForks (its back-fill persists) and only logs the refusal: the
   table then holds any arrangement of versions *)
Definition forced_state (forks : list (Z * Z)) (base : Z) (h : list session) : state :=
  fold_left (fun st s => match fst s with
                         | Untracked => sync_blocks base Untracked (snd s) st
                         | Tracked v => sync_blocks base (Tracked v) (snd s) (snd (check_hard_forks forks v (fst st)), snd st)
                         end) h (fresh, []).

Definition forced_agrees (c : forks_case) : bool :=
  let '(forks, base, sessions, cur, go_verdict, go_rows) := c in
  let h := map model_session sessions in
  let d := fst (forced_state forks base h) in
  (verdict_code forks cur d =? go_verdict)
  && Bool.eqb (fst (check_hard_forks forks cur d)) (go_verdict =? 0)
  && rows_eqb (sort_rows (versions (snd (check_hard_forks forks cur d)))) go_rows.

(* the property's oracle on the final start-up: refused iff the characterisation holds of the log
   (only "refused -> characterisation" outside [untracked_first], as for ordinary histories) *)
Definition forced_property_on (c : forks_case) : bool :=
  let '(forks, base, sessions, cur, go_verdict, go_rows) := c in
  let h := map model_session sessions in
  if (0 <=? base) && forks_wfb base forks && (-1 <=? cur)
     && forallb (fun s : obs_session => match fst (fst s) with Tracked v => -1 <=? v | Untracked => true end) sessions
  then startup_ok forks cur (snd (forced_state forks base h)) (untracked_first h) (negb (go_verdict =? 0))
  else true.
