(* Corr/Chain.v — the property oracles evaluated on what the REAL node produced (the recorded dumps
   of a chainrun file) and the projected chain correspondences used by the per-property checks. *)
From Model Require Import Obs.
From Gen Require Import Consts.
Open Scope Z_scope.

Definition recorded (ex : list obs) : list (list row) := omap o_rows ex.

(* C03: no balance cell (ledger or snapshots) is negative *)
Definition impl_nonneg (ex : list obs) : bool :=
  forallb (forallb (fun r => match r with
                             | [t; _; _; v] => negb ((t =? 1) || (t =? 2) || (t =? 3)) || (0 <=? v)
                             | _ => true end)) (recorded ex).

(* C08: every block of the chain was applied *)
Definition impl_all_applied (ex : list obs) : bool := forallb o_ok ex.

(* per-asset supply of a dump: rows [100; ticker; total] *)
Definition supply_rows (rs : list row) : list row :=
  let cells := omap (fun r => match r with [1; _; t; v] => Some (t, v) | _ => None end) rs in
  omap (fun t => let tot := fold_right (fun c acc => if fst c =? t then snd c + acc else acc) 0 cells in
                 if tot =? 0 then None else Some [100; t; tot]) all_tickers.

(* C02/C19-style bookkeeping on a dump: pn_sync_version holds every height from first to synced, once *)
Definition impl_heights_ok (first : Z) (rs : list row) : bool :=
  let hs := omap (fun r => match r with [14; h; _] => Some h | _ => None end) rs in
  let sy := omap (fun r => match r with [13; h] => Some h | _ => None end) rs in
  match sy with
  | [s] => list_Z_eqb (filter (fun h => 0 <? h) hs) (zrange first (Z.to_nat (s - first + 1)))
  | _ => false
  end.

(* C12: a rate row recorded at one dump is still there, unchanged, in every later dump *)
(* both lists sorted by row_ltb: every row of [a] occurs in [b] (linear merge; fuel = |a| + |b|) *)
Fixpoint sub_sorted_fuel (fuel : nat) (a b : list row) : bool :=
  match fuel with
  | O => match a with [] => true | _ => false end
  | S k => match a, b with
           | [], _ => true
           | _ :: _, [] => false
           | x :: a', y :: b' => if list_Z_eqb x y then sub_sorted_fuel k a' b'
                                 else if row_ltb y x then sub_sorted_fuel k a b' else false
           end
  end.
Definition sub_sorted (a b : list row) : bool := sub_sorted_fuel (length a + length b) a b.
Fixpoint rates_immutable_from (ds : list (list row)) : bool :=
  match ds with
  | d :: ((d' :: _) as ds') => sub_sorted d d' && rates_immutable_from ds'
  | _ => true
  end.
Definition impl_rates_immutable (ds : list (list row)) : bool :=
  rates_immutable_from (map (filter (fun r => match r with 4 :: _ => true | _ => false end)) ds).

(* C17: replaying the recorded history reproduces the balances.  Every executed history action
   contributes: transfer (1): -from_amount to the sender, +amount to each output that is not a burn
   address; conversion (2): -from_amount of the source asset, +to_amount of the destination asset
   and, for a bank-era PEG request, + the refund recorded as its single output; coinbase (3):
   +to_amount of to_asset (zeroing rows carry 0); burn (4): +to_amount pFCT.  The one-time
   adjustments (mint, nullify) are not history rows: the caller passes the addresses they touch
   and those are left out of the comparison. *)
Definition hist_exec (rs : list row) (hs : Z) : Z :=
  fold_right (fun r acc => match r with [6; h; _; _; _; e] => if h =? hs then e else acc | _ => acc end) 0 rs.
Definition add_cell (m : list (Z * Z * Z)) (a t v : Z) : list (Z * Z * Z) :=
  if v =? 0 then m else
  (fix go (m : list (Z * Z * Z)) := match m with
     | [] => [(a, t, v)]
     | (a', t', v') :: m' => if (a =? a') && (t =? t') then (a, t, v + v') :: m' else (a', t', v') :: go m'
     end) m.
Fixpoint pairs_of (l : list Z) : list (Z * Z) :=
  match l with a :: v :: l' => (a, v) :: pairs_of l' | _ => [] end.
Definition history_balances (burn_new_from : Z) (rs : list row) : list (Z * Z * Z) :=
  fold_left (fun m r =>
    match r with
    | 7 :: hs :: _ :: act :: from :: fasset :: famt :: tasset :: tamt :: _ :: outs =>
      let e := hist_exec rs hs in
      if e <=? 0 then m else
      if act =? 1 then
        let m1 := add_cell m from fasset (- famt) in
        let burn := if burn_new_from <=? e then GlobalBurnAddress else 0 in
        fold_left (fun m' o => if fst o =? burn then m' else add_cell m' (fst o) fasset (snd o)) (pairs_of outs) m1
      else if act =? 2 then
        let m1 := add_cell m from fasset (- famt) in
        let m2 := add_cell m1 from tasset tamt in
        fold_left (fun m' o => add_cell m' (fst o) fasset (snd o)) (pairs_of outs) m2
      else add_cell m from tasset tamt
    | _ => m
    end) rs [].
Definition impl_history_replays (burn_new_from : Z) (skip : list Z) (rs : list row) : bool :=
  let hb := history_balances burn_new_from rs in
  let cells := omap (fun r => match r with [1; a; t; v] => Some (a, t, v) | _ => None end) rs in
  let keep x := negb (existsb (Z.eqb (fst (fst x))) skip) in
  let norm (l : list (Z * Z * Z)) := sort_rows (map (fun x => [fst (fst x); snd (fst x); snd x]) (filter (fun x => keep x && negb (snd x =? 0)) l)) in
  match rows_first_diff (norm hb) (norm cells) with None => true | Some _ => false end.

(* one report per chainrun file *)
Record chain_report := {
  cr_full : option mismatch;          (* model vs node on the full dump *)
  cr_proj : option mismatch;          (* model vs node on the property's projection *)
  cr_nonneg : bool;
  cr_applied : bool;
  cr_rates_immutable : bool;
  cr_history_replays : bool           (* on the last recorded dump *)
}.
Definition report (tags : list Z) (c : cfg) (bs : list block) (ex : list obs) : chain_report :=
  let r := run_chain2 (keep_tags tags) c genesis empty_cache bs ex None in
  {| cr_full := fst r;
     cr_proj := snd r;
     cr_nonneg := impl_nonneg ex;
     cr_applied := impl_all_applied ex;
     cr_rates_immutable := impl_rates_immutable (recorded ex);
     cr_history_replays := match rev (recorded ex) with
                           | [] => true
                           | d :: _ => impl_history_replays (c_V202EnhanceActivation c) [GlobalBurnAddress; GlobalOldBurnAddress; GlobalMintAddress] d
                           end |}.
