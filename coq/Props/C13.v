(* Props/C13.v — Conversion admission rules by height.
   Only statements, each closed by [exact]; proofs live in Lemmas/. *)
From Model Require Import Examples.
From Lemmas Require Import AdmissionLemmas LedgerLemmas HistoryLemmas ExecExact.
From Gen Require Import Consts.
Open Scope Z_scope.

(* The decision taken for a conversion when its batch comes out of holding at height h, for every
   state, every pair of assets, every rate and average pattern: insufficient funds (-1), a zero
   rate (-4), destination pFCT from OneWaypFCTConversions on (-3), destination PEG or a small-cap
   asset from OneWaySmallAssetsConversions on (-5), unconvertible (average unavailable from PIP-10
   on, or the result does not fit int64: dropped), otherwise let through. *)
Theorem C13_rule : forall c h s rates avgs t,
  is_conversion t = true -> is_empty_map rates = false ->
  check_txs c h s rates avgs [t] =
    if get_bal (bal s) (tx_addr t) (tx_type t) <? tx_amt t then Some (BRejected (-1))
    else if zero_rate rates t then Some (BRejected (-4))
    else if oneway_pfct c h t then Some (BRejected (-3))
    else if oneway_small c h t then Some (BRejected (-5))
    else match conv_of c h rates avgs t with None => Some BDropped | Some _ => None end.
Proof. exact admission_rule. Qed.
Print Assumptions C13_rule.

(* any conversion into PEG is refused from 2.0 on, with code -2, before anything else is looked at *)
Theorem C13_peg_refused_from_v20 : forall c cur rates avgs s e hh txs,
  entry_valid_at c e hh = Some txs -> c_V20HeightActivation c <= cur -> has_peg_conversion txs = true ->
  apply_held c cur rates avgs s e hh = Ok (set_executed s (e_hash e) (-2), false).
Proof. exact peg_conversion_refused_from_v20. Qed.
Print Assumptions C13_peg_refused_from_v20.

(* every conversion that is let through is executed (its batch recorded), never rejected *)
Theorem C13_let_through_is_recorded : forall c h s hs rates avgs t,
  is_conversion t = true -> check_txs c h s rates avgs [t] = None ->
  apply_batch c h s hs [t] rates avgs =
    match record_batch c h hs rates avgs [t] s with Ok s' => BApplied s' | Fail code => BFail code | Panic code => BFail code end.
Proof. exact accepted_conversion_is_recorded. Qed.
Print Assumptions C13_let_through_is_recorded.

(* "Every other well-formed conversion with sufficient funds is executed": when the rule lets a conversion through and it
   can be priced (out), the batch IS applied — never rejected, never a failed block — with exactly one debit and one
   credit of out = floor(input x source / destination) and no other balance touched; the side condition is only that the
   credited cell stays within int64 (and it is necessary: single_conversion_room_necessary). *)
Theorem C13_admissible_conversion_is_executed : forall c h s hs rates avgs t out,
  is_conversion t = true ->
  (c_PegnetConversionLimitActivation c <=? h) && is_peg_request t = false ->
  check_txs c h s rates avgs [t] = None ->
  conv_of c h rates avgs t = Some out ->
  0 <= rate_of rates (tx_type t) -> 0 <= rate_of avgs (tx_type t) ->
  0 <= rate_of rates (tx_conv t) -> 0 <= rate_of avgs (tx_conv t) ->
  conv_room s t out ->
  exists s',
    apply_batch c h s hs [t] rates avgs = BApplied s' /\
    (forall a ty, get_bal (bal s') a ty = get_bal (bal s) a ty
        - (if (a =? tx_addr t) && (ty =? tx_type t) then tx_amt t else 0)
        + (if (a =? tx_addr t) && (ty =? tx_conv t) then out else 0)) /\
    conv_floor_spec c h rates avgs t out /\
    hist s' = mark_exec hs h (hist s) /\
    htxs s' = htxs (set_to_amount s hs 0 out) /\
    Db.rates s' = Db.rates s /\ holding s' = holding s /\ is_replay s' hs = true /\ bank s' = bank s.
Proof. exact single_conversion_executes_exactly. Qed.
Print Assumptions C13_admissible_conversion_is_executed.
Example C13_admissible_hypotheses_hold_somewhere :
  let t := {| tx_addr := alice; tx_type := PTickerUSD; tx_amt := 10; tx_transfers := []; tx_conv := PTickerFCT |} in
  let s := set_bal empty_db {[ (alice, PTickerUSD) := 100 ]} in
  let rates : gmap ticker Z := {[ PTickerUSD := 100000000; PTickerFCT := 400000000 ]} in
  check_txs ex_cfg 99 s rates rates [t] = None /\ conv_of ex_cfg 99 rates rates t = Some 2.
Proof. vm_compute. split; reflexivity. Qed.

(* ... and a refused one leaves every balance untouched (C03's all-or-nothing) *)
Theorem C13_refused_is_inert : forall c cur rates avgs s e hh s' isp,
  apply_held c cur rates avgs s e hh = Ok (s', isp) ->
  bal s' = bal s \/ exists txs, entry_valid_at c e hh = Some txs /\ record_batch c cur (e_hash e) rates avgs txs s = Ok s'.
Proof. exact apply_held_all_or_nothing. Qed.
Print Assumptions C13_refused_is_inert.

(* the one-way sets regenerated from the source are the protocol's *)
Example C13_oneway_sets_from_source :
  oneway_pfct_dests = [23] /\ oneway_small_dests = [1; 21; 30; 41; 43; 47; 48; 51; 52; 56; 57; 58; 59; 60; 61; 62].
Proof. split; reflexivity. Qed.
Example C13_example :
  let t := {| tx_addr := alice; tx_type := PTickerUSD; tx_amt := 10; tx_transfers := []; tx_conv := PTickerFCT |} in
  let s := set_bal empty_db {[ (alice, PTickerUSD) := 100 ]} in
  let rates : gmap ticker Z := {[ PTickerUSD := 100000000; PTickerFCT := 400000000 ]} in
  check_txs ex_cfg 99 s rates rates [t] = None /\ check_txs ex_cfg 100 s rates rates [t] = Some (BRejected (-3)).
Proof. vm_compute. split; reflexivity. Qed.
