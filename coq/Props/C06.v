(* Props/C06.v — At-most-once execution of an entry (replay protection).
   Only statements, each closed by [exact]; proofs live in Lemmas/. *)
From Model Require Import Examples.
From Lemmas Require Import ChainLemmas.
Open Scope Z_scope.

(* Execution writes a relation row for the entry hash and relation rows are never deleted: once
   an entry hash counts as executed it does so in every later state, whatever the blocks contain. *)
Theorem C06_executed_stays_executed : forall c cm mem b s' mem',
  step_block c cm mem b = Done (s', mem') -> forall hs, replayed (rel cm) hs -> replayed (rel s') hs.
Proof. exact step_block_replay_monotone. Qed.
Print Assumptions C06_executed_stays_executed.

Example C06_example :
  exists s m, replay ex_cfg genesis empty_cache ex_chain = Done (s, m) /\
              replayed (rel s) 601 /\ replayed (rel s) 602 /\ ~ replayed (rel s) 603 /\
              get_bal (bal s) bob 23 = 30.   (* entry 601 appears twice in block 102 and is executed once *)
Proof. vm_compute. eexists _, _. repeat split; try reflexivity; auto. Qed.
