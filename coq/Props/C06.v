(* Props/C06.v — At-most-once execution of an entry (replay protection).
   Only statements, each closed by [exact]; proofs live in Lemmas/. *)
From Model Require Import Examples.
From Lemmas Require Import ChainLemmas HoldingLemmas StatusLemmas HistoryLemmas HistoryLemmas2 HistoryLemmas3 TotalityChain ExecExact WindowLemmas.
Open Scope Z_scope.

(* Execution writes a relation row for the entry hash and relation rows are never deleted: once
   an entry hash counts as executed it does so in every later state, whatever the blocks contain. *)
Theorem C06_executed_stays_executed : forall c cm mem b s' mem',
  step_block c cm mem b = Done (s', mem') -> forall hs, replayed (rel cm) hs -> replayed (rel s') hs.
Proof. exact step_block_replay_monotone. Qed.
Print Assumptions C06_executed_stays_executed.

(* A conversion placed in holding is considered for execution exactly once.  A rated block [cur]
   looks at the held heights from the most recent rated height below it up to cur-1 ([window]);
   it does look at a height g in that range ... *)
Theorem C06_held_height_is_visited : forall s cur g, 0 < cur -> last_rated_below s cur <= g < cur -> In g (window s cur).
Proof. exact held_height_visited. Qed.
(* ... and once a rated height c1 lies between g and a later block c2, that block does not look at g
   any more: whatever happened to the batch at c1 (executed, rejected, dropped) is final. *)
Theorem C06_held_height_is_not_revisited : forall s2 c1 c2 g m,
  rates s2 !! c1 = Some m -> 0 <= c1 < c2 -> g < c1 -> ~ In g (window s2 c2).
Proof. exact held_height_not_revisited. Qed.
Print Assumptions C06_held_height_is_not_revisited.
(* (recorded rates are never removed — C12_rates_immutable — so "c1 is rated" stays true in every
   later state; [apply_holding] iterates over exactly this window: apply_holding_uses_window) *)

(* "Exactly once", end to end.  In any state: a held height g below some rated height lies in the window of exactly ONE rated
   height — the least rated height above g ... *)
Theorem C06_held_height_in_exactly_one_window : forall s g r0, 0 <= g -> rated s r0 -> g < r0 ->
  exists r, rated s r /\ In g (window s r) /\ forall r', rated s r' -> In g (window s r') -> r' = r.
Proof. exact held_height_in_exactly_one_window. Qed.
Print Assumptions C06_held_height_in_exactly_one_window.
(* ... and over a whole chain (heights increasing, nothing rated beforehand): among ALL blocks of the chain exactly one looks at the
   batches held at g — the block at the first rated height above g; the window that block iterates over mid-block is the window of
   the final state (recorded rates never change), and a block that ends up unrated ran no holding pass at all
   (WindowLemmas.chain_holding_pass). *)
Theorem C06_chain_held_height_exactly_one_block : forall c h0 bs s0 m0 sf mf g b0,
  increasing_from h0 bs -> (forall k, h0 <= k -> rates s0 !! k = None) -> replay c s0 m0 bs = Done (sf, mf) ->
  0 <= g -> h0 <= g + 1 -> In b0 bs -> g < b_height b0 -> rated sf (b_height b0) ->
  exists b, In b bs /\ first_rated_above sf g (b_height b) /\ b_height b <= b_height b0 /\ In g (window sf (b_height b)) /\
            forall b', In b' bs -> rated sf (b_height b') -> In g (window sf (b_height b')) -> b' = b.
Proof. exact chain_held_height_exactly_one_block. Qed.
Print Assumptions C06_chain_held_height_exactly_one_block.
Theorem C06_chain_block_runs_holding_over_the_final_window : forall c h0 s0 m0 pre b post sf mf,
  increasing_from h0 (pre ++ b :: post) -> (forall k, h0 <= k -> rates s0 !! k = None) ->
  replay c s0 m0 (pre ++ b :: post) = Done (sf, mf) -> c_TransactionConversionActivation c <= b_height b ->
  exists cm mem s' mem', replay c s0 m0 pre = Done (cm, mem) /\ step_block c cm mem b = Done (s', mem') /\ replay c s' mem' post = Done (sf, mf) /\
    ((rates sf !! b_height b = None /\ ~ block_rated c cm b /\ rates s' = rates cm)
     \/ (exists m s1 s2, rates sf !! b_height b = Some m /\ block_rated c cm b /\ rates cm !! b_height b = None /\
          is_empty_map m = false /\ rates s1 = <[b_height b := m]> (rates cm) /\
          holding_pass_over c cm (b_height b) s1 m (fst (get_averages cm (c_AveragePeriod c) mem (last_rated_below sf (b_height b)))) (window sf (b_height b)) = Ok s2 /\
          window s1 (b_height b) = window sf (b_height b) /\
          forall g, In g (window sf (b_height b)) <-> 0 <= g /\ first_rated_above sf g (b_height b))).
Proof. exact chain_holding_pass. Qed.

(* An entry written to the chain again has no effect, whether its first copy was executed ... *)
Theorem C06_executed_entry_again_is_inert : forall c h s order e,
  is_replay s (e_hash e) = true -> apply_entry c h s order e = Ok s.
Proof. exact replayed_entry_inert. Qed.
(* ... or is still pending in holding, or was rejected (it has a history row) *)
Theorem C06_recorded_entry_again_is_inert : forall c h s order e,
  hist_has s (e_hash e) = true -> apply_entry c h s order e = Ok s.
Proof. exact recorded_entry_inert. Qed.
Print Assumptions C06_recorded_entry_again_is_inert.
(* and on the holding path a batch whose hash counts as executed is skipped *)
Theorem C06_executed_held_batch_is_skipped : forall c cur rates avgs s e hh txs,
  entry_valid_at c e hh = Some txs -> ((c_V20HeightActivation c <=? cur) && has_peg_conversion txs) = false ->
  (exists t, entry_valid_at c e cur = Some t) -> is_replay s (e_hash e) = true ->
  apply_held c cur rates avgs s e hh = Ok (s, false).
Proof. exact replayed_held_inert. Qed.

(* Executing a (non-empty) batch always leaves relation rows: from then on the entry hash counts as a replay
   (and stays one: C06_executed_stays_executed), so no later copy of it and no later visit of the holding
   table can execute it again. *)
Theorem C06_execution_marks_the_hash : forall c h hs rates avgs t txs idx s s',
  record_txs c h hs rates avgs idx (t :: txs) s = Ok s' -> is_replay s' hs = true.
Proof. exact record_txs_replayed. Qed.
Print Assumptions C06_execution_marks_the_hash.

(* At most once, for every chain: after ANY chain (no conversions into PEG, distinct batch hashes) every balance
   cell is the sum over the history rows of the EXECUTED entries, each row counted once -- an entry that had
   moved the ledger twice would break the equation.  (The invariant carried through the proof contains the
   at-most-once step explicitly: a held batch whose status counts as executed has relation rows, so the replay
   check stops it: Lemmas/HistoryLemmas3.v G_apply_held.) *)
Theorem C06_every_entry_counts_once : forall c bs s m,
  forallb block_okb bs = true ->
  replay c genesis empty_cache bs = Done (s, m) ->
  NoDup (map hb_hash (hist s)) ->
  forall a t, special_addr a = false -> get_bal (bal s) a t = hist_sum c s a t.
Proof. exact replay_accounts. Qed.
Print Assumptions C06_every_entry_counts_once.

Example C06_example :
  exists s m, replay ex_cfg genesis empty_cache ex_chain = Done (s, m) /\
              replayed (rel s) 601 /\ replayed (rel s) 602 /\ ~ replayed (rel s) 603 /\
              get_bal (bal s) bob 23 = 30.   (* entry 601 appears twice in block 102 and is executed once *)
Proof. vm_compute. eexists _, _. repeat split; try reflexivity; auto. Qed.
