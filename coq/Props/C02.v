(* Props/C02.v — Per-block atomicity and crash consistency of the balance store.
   Only statements, each closed by [exact]; proofs live in Lemmas/. *)
From Model Require Import Examples Sync SitesSpec.
From Lemmas Require Import SyncLemmas ChainLemmas RestartLemmas SitesC02.
From Gen Require Import Consts Sites.
From Coq Require Import String.
Open Scope list_scope.
Open Scope Z_scope.

(* Whatever happens between two commits — an attempt that fails at any statement or request and is
   rolled back, the process killed at any point before COMMIT returns or right after it, any
   number of restarts, API requests in between — the committed database is exactly the
   uninterrupted replay of a prefix of the chain (nothing of a later block, nothing missing), and
   the rest of the chain is still to be applied in order.  For every chain with increasing heights
   and every sequence of such events (the transitions are in Model/Sync.v). *)
Theorem C02_database_is_always_a_replayed_prefix : forall c chain h0 n todo,
  0 < h0 -> heights_from h0 chain ->
  reach c ({| n_db := genesis; n_mem := empty_cache |}, chain) (n, todo) ->
  exists done_ m, chain = done_ ++ todo /\ replay c genesis empty_cache done_ = Done (n_db n, m).
Proof. exact loop_consistent. Qed.
Print Assumptions C02_database_is_always_a_replayed_prefix.

(* Each applied block records its own height, once: the sync height becomes the block's height and
   pn_sync_version gains exactly that height (re-applying a height fails on the primary key). *)
Theorem C02_height_recorded_once : forall c cm mem b s' mem',
  step_block c cm mem b = Done (s', mem') ->
  synced s' = Some (b_height b) /\ versions cm !! (b_height b) = None /\
  versions s' = <[b_height b := PegnetdSyncVersion]> (versions cm).
Proof. exact step_block_synced. Qed.
Print Assumptions C02_height_recorded_once.

(* The shape of the transitions rests on two facts about the source, re-checked on every run
   against the tables regenerated from /repo: every write reachable from the block application
   goes through the block's sql.Tx, and the only reads that bypass it (and therefore see the
   committed database) are the reviewed ones. *)
Theorem C02_every_block_write_is_on_the_transaction :
  forall r, In r effective_sql -> is_write r = true -> eff_handle r = "tx"%string /\ eff_origin r = "root"%string.
Proof. exact sync_writes_on_tx_forall. Qed.
Theorem C02_pool_reads_are_the_reviewed_ones :
  forallb (fun r => mem (eff_origin r) expected_pool_readers) (filter on_pool effective_sql) = true.
Proof. exact sync_pool_reads_expected. Qed.

(* ... and on SQLite's atomic commit, which needs the rollback journal (or WAL) on disk and synchronous
   writes: the PRAGMA values of the connection the code opens, regenerated on every run *)
Theorem C02_journal_is_on_disk : check_journal_on_disk = true.
Proof. exact journal_on_disk. Qed.
Theorem C02_synchronous_writes : check_synchronous_on = true.
Proof. exact synchronous_on. Qed.
(* the mark of a synced height is a plain INSERT under PRIMARY KEY(height): committing a height twice is refused *)
Theorem C02_height_mark_is_a_plain_insert : check_height_mark_plain_insert = true.
Proof. exact height_mark_plain_insert. Qed.

Example C02_example :
  (* a run of the example chain with a failed attempt, a crash and an API request thrown in *)
  exists n, reach ex_cfg ({| n_db := genesis; n_mem := empty_cache |}, ex_chain) (n, skipn 2 ex_chain) /\
            get_bal (bal (n_db n)) bob 23 = 30.
Proof.
  destruct (step_block ex_cfg genesis empty_cache (nth 0 ex_chain (ex_block 0 None None []))) as [[s1 m1]| | |] eqn:E1; try (vm_compute in E1; discriminate).
  destruct (step_block ex_cfg s1 empty_cache (nth 1 ex_chain (ex_block 0 None None []))) as [[s2 m2]| | |] eqn:E2; try (vm_compute in E1; inversion E1; subst; vm_compute in E2; discriminate).
  exists {| n_db := s2; n_mem := m2 |}. split.
  - eapply r_step; [eapply r_step; [eapply r_step; [eapply r_step; [apply r_refl|]|]|]|].
    + (* a failed attempt at block 101 *) apply (t_rollback ex_cfg _ _ _ empty_cache). left; reflexivity.
    + (* block 101 commits *) apply t_commit. exact E1.
    + (* the process is killed and restarted *) apply t_crash.
    + (* block 102 commits *) cbn [n_db n_mem]. apply t_commit. exact E2.
  - vm_compute in E1. inversion E1; subst. vm_compute in E2. inversion E2; subst. vm_compute. reflexivity.
Qed.
