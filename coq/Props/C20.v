(* Props/C20.v — Canonical encoding and exact amounts at the edges.
   Only statements, each closed by [exact]; proofs live in Lemmas/. *)
From Coq Require Import ZArith List Bool.
From Model Require Import Base Decimal.
From Lemmas Require Import DecimalLemmas.
Open Scope Z_scope.

(* Human-readable amounts are converted to base units exactly or rejected, never silently
   altered: for EVERY byte string s. *)
Theorem C20_factoshi_exact_or_rejected : forall (s : list Z) (v : Z),
  factoid_to_factoshi s = Some v ->
  amount_syntax_ok s = true /\ exact_units s = Some v /\ 0 <= v <= max_uint64.
Proof. exact factoshi_sound. Qed.
Print Assumptions C20_factoshi_exact_or_rejected.

(* ... and nothing representable is refused. *)
Theorem C20_factoshi_accepts_all_representable : forall (s : list Z) (v : Z),
  amount_syntax_ok s = true -> exact_units s = Some v -> v <= max_uint64 ->
  factoid_to_factoshi s = Some v.
Proof. exact factoshi_complete. Qed.
Print Assumptions C20_factoshi_accepts_all_representable.

(* non-vacuity: an accepted string with a fractional part *)
Example C20_factoshi_example :
  factoid_to_factoshi [49;50;46;53] = Some 1250000000.   (* "12.5" *)
Proof. vm_compute. reflexivity. Qed.
Example C20_factoshi_example_reject :
  factoid_to_factoshi [49;56;52;52;54;55;52;52;48;55;51;56] = None.   (* "184467440738" *)
Proof. vm_compute. reflexivity. Qed.
