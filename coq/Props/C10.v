(* Props/C10.v — Fault transparency: transient upstream/storage errors never change the result.
   Only statements, each closed by [exact]; proofs live in Lemmas/. *)
From Model Require Import Examples Sync SitesSpec.
From Lemmas Require Import SyncLemmas RestartLemmas SitesC10.
From Gen Require Import Consts Sites.
From Coq Require Import String.
Open Scope list_scope.
Open Scope Z_scope.

(* An attempt in which any statement or request fails — wherever the error PROPAGATES — ends in a
   rollback ([t_rollback]: the database is untouched, only the in-memory cache may have moved) and
   is retried; whatever the number and position of such failures, crashes and restarts, the
   database reached is the fault-free replay of the applied prefix. *)
Theorem C10_faults_never_change_the_result : forall c chain h0 n todo,
  0 < h0 -> heights_from h0 chain ->
  reach c ({| n_db := genesis; n_mem := empty_cache |}, chain) (n, todo) ->
  exists done_ m, chain = done_ ++ todo /\ replay c genesis empty_cache done_ = Done (n_db n, m).
Proof. exact loop_consistent. Qed.
Print Assumptions C10_faults_never_change_the_result.

(* "wherever the error propagates": the places in the code reachable from the block application
   where an error result is discarded, only logged, overwritten or replaced by another variable are
   exactly the reviewed ones (regenerated from /repo on every run).  Three of them are genuine
   defects recorded in known_findings.jsonl: the discarded result of NullifyBurnAddress and the two
   logged-only errors inside it (Refuted/C10.v); the others cannot skip an effect (bad OPR/SPR
   records skipped on purpose, constant addresses, sql.ErrNoRows, validation verdicts). *)
Theorem C10_no_unreviewed_dropped_error :
  forall f cc h x, In (f, cc, h, x) discarded_errors -> exists n, In (f, cc, h, n) expected_discarded.
Proof. exact discarded_errors_expected_forall. Qed.
Print Assumptions C10_no_unreviewed_dropped_error.
Theorem C10_no_additional_site_of_a_reviewed_kind : check_discarded_counts = true.
Proof. exact discarded_errors_counts. Qed.

(* the loop model's memory after a failed attempt is sound for every later block *)
Theorem C10_cache_after_failed_attempt_is_sound : forall c cm mem' hn,
  0 < hn -> cache_from c cm mem' hn -> cache_ok c cm mem' hn.
Proof. exact cache_from_ok. Qed.

Example C10_example : exists f cc h n, In (f, cc, h, n) expected_discarded /\ f = "node.Pegnetd.DBlockSync"%string.
Proof. eexists _, _, _, _. split; [unfold expected_discarded; do 3 right; left; reflexivity|reflexivity]. Qed.
