(* Props/C20roundtrip.v — C20 (b): the canonical encoder and the decoder are inverse.
   Only statements, each closed by [exact]; proofs live in Lemmas/RoundTripScan.v,
   Lemmas/RoundTripLemmas.v and Lemmas/RoundTripLemmas2.v.  Supersedes the remark "(b) encode_decode
   is NOT proved" in Props/C20json.v.

   Hypotheses of the round trip, all boolean except the one on the address oracle:
   * the address codec (an oracle in this model) decodes its own output, and the text it produces
     is [clean_str]: bytes 32..127 without the quote and the backslash — what [print] (which does
     not escape) can put between quotes, what scan_string copies verbatim and unquote leaves alone;
   * [valid_data b]: TransactionBatch.ValidData, which MarshalJSON itself checks first;
   * [batch_in_range b]: the fields have their Go types — amounts are uint64 (the model's are
     unbounded integers) and the conversion field is 0 or a ticker 1..62 (ValidData alone lets an
     out-of-range conversion through next to a zero input amount, and a negative one next to
     transfers; see the counterexamples in Lemmas/RoundTripLemmas2.v). *)
From Coq Require Import ZArith List Bool.
From Model Require Import Codec Db.
From Lemmas Require Import CodecLemmas RoundTripScan RoundTripLemmas RoundTripLemmas2.
From Gen Require Import Consts.
Import ListNotations.
Open Scope Z_scope.

(* (1) strconv.FormatUint / ParseUint on uint64 *)
Theorem C20_decimal_roundtrip : forall n, u64 n = true ->
  all_digits (dec_of n) = true /\ canon_number (dec_of n) = true /\ dec_value (dec_of n) = n /\
  decode_u64 (JNum (dec_of n)) = Some n.
Proof.
  intros n H. exact (conj (dec_of_digits n H) (conj (dec_of_canon n H)
                      (conj (dec_value_dec_of n H) (decode_u64_dec_of n H)))).
Qed.
Print Assumptions C20_decimal_roundtrip.

(* PTicker.String / UnmarshalJSON on 1..62, through both ways the decoder reads a ticker *)
Theorem C20_ticker_roundtrip : forall t, tk t = true ->
  clean_str (ticker_string t) = true /\
  decode_quoted_ticker (JStr (ticker_string t)) = Some t /\
  decode_raw_ticker (JStr (ticker_string t)) = Some t.
Proof. exact ticker_roundtrip. Qed.
Print Assumptions C20_ticker_roundtrip.

(* (3) the parser round trip: on the class the encoder stays in ... *)
Theorem C20_parser_roundtrip : forall v, pr_jv v = true -> parse_json (print v) = Some v.
Proof. exact parse_print. Qed.
Print Assumptions C20_parser_roundtrip.

(* ... and exactly: it holds for v iff every number / string / key of v is a literal the scanner
   accepts whole; every value the parser returns is such a value, so json.Compact is idempotent *)
Theorem C20_parser_roundtrip_exact : forall v, gp_jv v = true <-> parse_json (print v) = Some v.
Proof. exact gp_jv_iff. Qed.
Print Assumptions C20_parser_roundtrip_exact.

Theorem C20_reparse : forall s v, parse_json s = Some v -> parse_json (print v) = Some v.
Proof. exact parse_print_parse. Qed.
Print Assumptions C20_reparse.

Theorem C20_compact_idempotent : forall s c, compact s = Some c -> compact c = Some c.
Proof. exact compact_idempotent. Qed.
Print Assumptions C20_compact_idempotent.

(* (2) tree level, for every batch the encoder can express (weaker than validity) *)
Theorem C20_tree_roundtrip : forall text_of_addr addr_of_text b,
  (forall a, In a (batch_addrs b) -> addr_ok text_of_addr addr_of_text a) ->
  batch_encodable b = true ->
  decode_batch_j addr_of_text (batch_j text_of_addr b) = Some b.
Proof. exact decode_batch_j_rt. Qed.
Print Assumptions C20_tree_roundtrip.

Theorem C20_decode_encode_encodable : forall text_of_addr addr_of_text b,
  (forall a, In a (batch_addrs b) -> addr_ok text_of_addr addr_of_text a) ->
  batch_encodable b = true ->
  decode_batch addr_of_text (Codec.encode text_of_addr b) = Some b.
Proof. exact decode_encode_encodable. Qed.
Print Assumptions C20_decode_encode_encodable.

(* (4) C20 (b) *)
Theorem C20_decode_encode_roundtrip :
  forall (text_of_addr : Z -> bytes) (addr_of_text : bytes -> option Z) (b : batch),
  (forall a, In a (batch_addrs b) ->
     addr_of_text (text_of_addr a) = Some a /\ clean_str (text_of_addr a) = true) ->
  valid_data b = true -> batch_in_range b = true ->
  decode_batch addr_of_text (Codec.encode text_of_addr b) = Some b.
Proof. exact decode_encode_roundtrip. Qed.
Print Assumptions C20_decode_encode_roundtrip.

(* the encoder's output is canonical in the sense of C20 (a) *)
Theorem C20_encode_canonical : forall text_of_addr addr_of_text b,
  (forall a, In a (batch_addrs b) ->
     addr_of_text (text_of_addr a) = Some a /\ clean_str (text_of_addr a) = true) ->
  valid_data b = true -> batch_in_range b = true ->
  canonical_bytes (Codec.encode text_of_addr b) = true.
Proof. exact encode_canonical. Qed.
Print Assumptions C20_encode_canonical.

(* what the decoder returns is always in range, so every ACCEPTED content survives re-encoding *)
Theorem C20_decoded_in_range : forall addr_of_text s b,
  decode_batch addr_of_text s = Some b -> batch_in_range b = true.
Proof. exact decode_batch_range. Qed.
Print Assumptions C20_decoded_in_range.

Theorem C20_reencode_accepted : forall addr_of_text text_of_addr s b,
  decode_batch addr_of_text s = Some b -> valid_data b = true ->
  (forall a, In a (batch_addrs b) ->
     addr_of_text (text_of_addr a) = Some a /\ clean_str (text_of_addr a) = true) ->
  decode_batch addr_of_text (Codec.encode text_of_addr b) = Some b /\
  canonical_bytes (Codec.encode text_of_addr b) = true.
Proof. exact reencode_accepted. Qed.
Print Assumptions C20_reencode_accepted.

Theorem C20_encode_injective : forall text_of_addr addr_of_text b1 b2,
  (forall a, In a (batch_addrs b1 ++ batch_addrs b2) ->
     addr_of_text (text_of_addr a) = Some a /\ clean_str (text_of_addr a) = true) ->
  valid_data b1 = true -> batch_in_range b1 = true -> valid_data b2 = true -> batch_in_range b2 = true ->
  Codec.encode text_of_addr b1 = Codec.encode text_of_addr b2 -> b1 = b2.
Proof. exact encode_injective. Qed.
Print Assumptions C20_encode_injective.

(* non-vacuity and necessity of the hypotheses: Lemmas/RoundTripLemmas2.v, section 6 *)
Check roundtrip_hypotheses_satisfiable.
Check roundtrip_instance.
Check no_roundtrip_without_transfers_and_conversion.
Check no_roundtrip_conversion_out_of_range.
Check no_roundtrip_transfers_with_negative_conversion.
Check no_roundtrip_amount_not_uint64.
Check no_roundtrip_unclean_address_text.
Check roundtrip_without_validity.
