(* Props/C05.v — Spend authorisation, entry level: what fat2.TransactionBatch.ValidExtIDs
   (fat103.Validate + factom.ValidateRCD) accepts.  Only statements, each closed by [exact];
   proofs live in Lemmas/ExtIDsLemmas.v.  The signature check and the RCD hash are the section
   variables of Model/Codec.v: after the section closed they are explicit arguments, so every
   theorem below holds for EVERY signature predicate and hash function.
   Refuted/C05.v holds the statements that are false of the faithful model. *)
From Coq Require Import ZArith List Bool.
From Model Require Import Codec Db.
From Lemmas Require Import CodecLemmas ExtIDsLemmas.
From Gen Require Import Consts.
Import ListNotations.
Open Scope Z_scope.

(* 0 | salt | chain | content determines salt, chain id and content, for chain ids whose first
   byte is not a digit (the salt may be written +N, 0N, 000N: ParseInt accepts those, so it is
   the SALT TEXT that is determined, not only its value) *)
Theorem C05_message_injective : forall salt chain content salt' chain' content',
  salt_syntax salt -> salt_syntax salt' ->
  length chain = 32%nat -> length chain' = 32%nat ->
  (forall c r, chain = c :: r -> is_digit c = false) ->
  (forall c r, chain' = c :: r -> is_digit c = false) ->
  [48] ++ salt ++ chain ++ content = [48] ++ salt' ++ chain' ++ content' ->
  salt = salt' /\ chain = chain' /\ content = content'.
Proof. exact message_injective. Qed.
Print Assumptions C05_message_injective.

(* the transaction chain satisfies the premise *)
Example C05_transaction_chain_first_byte_not_digit : is_digit TransactionChainFirstByte = false.
Proof. vm_compute. reflexivity. Qed.

(* accepted => exactly three ExtIDs: salt within the window, an RCD hashing to the input
   address, of an enabled type, with the right sizes, and a signature that verifies on
   0 | salt | chain | content (RCD-e: on the first 64 of the 65 signature bytes) *)
Theorem C05_accepted_extids_shape : forall sig_ok rcd_hash act h inputs a e,
  inputs <> [] -> Forall (fun x => x = a) inputs ->
  valid_extids sig_ok rcd_hash act h inputs e = true ->
  exists salt rcd sig sec,
    re_extids e = [salt; rcd; sig] /\
    parse_int64 salt = Some sec /\ - salt_window <= re_ts e - sec <= salt_window /\
    rcd_hash rcd = a /\
    ( (exists pk, rcd = 1 :: pk /\ length pk = 32%nat /\ length sig = 64%nat /\
                  sig_ok 1 pk (signed_message 0 e) sig = true)
      \/ (exists pk, rcd = 14 :: pk /\ rcde_enabled act h = true /\ length pk = 64%nat /\
                     length sig = 65%nat /\ sig_ok 14 pk (signed_message 0 e) (firstn 64 sig) = true) ).
Proof. exact valid_extids_single_spec. Qed.
Print Assumptions C05_accepted_extids_shape.

Theorem C05_invalid_extids_rejected : forall sig_ok rcd_hash act h inputs a e,
  inputs <> [] -> Forall (fun x => x = a) inputs ->
  ( length (re_extids e) <> 3%nat
    \/ (forall salt, nth_error (re_extids e) 0 = Some salt -> parse_int64 salt = None)
    \/ (exists salt sec, nth_error (re_extids e) 0 = Some salt /\ parse_int64 salt = Some sec /\
                         salt_window < Z.abs (re_ts e - sec))
    \/ (exists rcd, nth_error (re_extids e) 1 = Some rcd /\
                    (rcd = [] \/ (exists ty pk, rcd = ty :: pk /\ ty <> 1 /\ ty <> 14)
                     \/ (exists pk, rcd = 1 :: pk /\ length pk <> 32%nat)
                     \/ (exists pk, rcd = 14 :: pk /\ (length pk <> 64%nat \/ rcde_enabled act h = false))
                     \/ rcd_hash rcd <> a))
    \/ (exists rcd sig, nth_error (re_extids e) 1 = Some rcd /\ nth_error (re_extids e) 2 = Some sig /\
                        ( (exists pk, rcd = 1 :: pk /\ (length sig <> 64%nat \/ sig_ok 1 pk (signed_message 0 e) sig = false))
                          \/ (exists pk, rcd = 14 :: pk /\ (length sig <> 65%nat \/
                                sig_ok 14 pk (signed_message 0 e) (firstn 64 sig) = false)))) ) ->
  valid_extids sig_ok rcd_hash act h inputs e = false.
Proof. exact invalid_extids_rejected. Qed.
Print Assumptions C05_invalid_extids_rejected.

(* the exact inequality of the window: |timestamp - salt| <= 43200 s, both ends accepted *)
Theorem C05_salt_window : forall sig_ok rcd_hash act h inputs a e,
  inputs <> [] -> Forall (fun x => x = a) inputs ->
  valid_extids sig_ok rcd_hash act h inputs e = true ->
  exists salt sec, nth_error (re_extids e) 0 = Some salt /\ parse_int64 salt = Some sec /\
                   Z.abs (re_ts e - sec) <= 43200.
Proof. exact salt_window_accepted. Qed.
Print Assumptions C05_salt_window.

(* RCD-e needs height > activation (or a negative height, the wallet-side convention) *)
Theorem C05_rcde_not_before_activation : forall sig_ok rcd_hash act h inputs a e,
  inputs <> [] -> Forall (fun x => x = a) inputs ->
  0 <= h <= act -> valid_extids sig_ok rcd_hash act h inputs e = true ->
  exists salt pk sig, re_extids e = [salt; 1 :: pk; sig].
Proof. exact rcde_not_before_activation. Qed.
Print Assumptions C05_rcde_not_before_activation.

(* one RCD-1 signature, one entry: the verified triple determines ExtIDs, chain and content *)
Theorem C05_rcd1_triple_determines_entry : forall sig_ok rcd_hash act h inputs a e e' pk sig,
  inputs <> [] -> Forall (fun x => x = a) inputs ->
  valid_extids sig_ok rcd_hash act h inputs e = true -> valid_extids sig_ok rcd_hash act h inputs e' = true ->
  nth_error (re_extids e) 1 = Some (1 :: pk) -> nth_error (re_extids e') 1 = Some (1 :: pk) ->
  nth_error (re_extids e) 2 = Some sig -> nth_error (re_extids e') 2 = Some sig ->
  signed_message 0 e = signed_message 0 e' ->
  length (re_chain e) = 32%nat -> length (re_chain e') = 32%nat ->
  (forall c r, re_chain e = c :: r -> is_digit c = false) ->
  (forall c r, re_chain e' = c :: r -> is_digit c = false) ->
  re_extids e = re_extids e' /\ re_chain e = re_chain e' /\ re_content e = re_content e'.
Proof. exact rcd1_triple_determines_entry. Qed.
Print Assumptions C05_rcd1_triple_determines_entry.

(* non-vacuity: a toy signature scheme (the signature of a message is 64 copies of its length
   mod 251) and a toy hash; an RCD-1 entry inside the window is accepted, and is rejected one
   second outside it, with a wrong signature byte, and with a foreign RCD *)
Definition toy_sig (ty : Z) (pk msg sg : bytes) : bool :=
  beq sg (repeat (Z.of_nat (length msg) mod 251) 64).
Definition toy_hash (rcd : bytes) : Z := fold_left (fun a c => a * 256 + c) rcd 0.
Definition toy_chain : bytes := 207 :: repeat 7 31.
Definition toy_content : bytes := [123; 125].
Definition toy_rcd1 : bytes := 1 :: repeat 9 32.
Definition toy_entry (salt : bytes) (sg : bytes) (ts : Z) : raw_entry :=
  {| re_chain := toy_chain; re_extids := [salt; toy_rcd1; sg]; re_content := toy_content; re_ts := ts |}.
Definition toy_salt : bytes := [49; 53; 56; 48; 48; 48; 48; 48; 48; 48].   (* 1580000000 *)
Definition toy_good_sig : bytes := repeat ((1 + 10 + 32 + 2) mod 251) 64.

Example C05_example_accepted :
  valid_extids toy_sig toy_hash Fat2RCDEActivation 100 [toy_hash toy_rcd1]
               (toy_entry toy_salt toy_good_sig (1580000000 + 43200)) = true.
Proof. vm_compute. reflexivity. Qed.
Example C05_example_window_edge_rejected :
  valid_extids toy_sig toy_hash Fat2RCDEActivation 100 [toy_hash toy_rcd1]
               (toy_entry toy_salt toy_good_sig (1580000000 + 43201)) = false.
Proof. vm_compute. reflexivity. Qed.
Example C05_example_bad_signature_rejected :
  valid_extids toy_sig toy_hash Fat2RCDEActivation 100 [toy_hash toy_rcd1]
               (toy_entry toy_salt (0 :: repeat 45 63) 1580000000) = false.
Proof. vm_compute. reflexivity. Qed.
Example C05_example_foreign_key_rejected :
  valid_extids toy_sig toy_hash Fat2RCDEActivation 100 [5]
               (toy_entry toy_salt toy_good_sig 1580000000) = false.
Proof. vm_compute. reflexivity. Qed.
