(* Props/C07.v — Conversions execute later, at the next graded block's rates, exactly.
   Only statements, each closed by [exact]; proofs live in Lemmas/. *)
From Coq Require Import ZArith List Bool.
From Model Require Import Base Arith.
From Model Require Import Block Examples.
From Model Require Import Ledger.
From Lemmas Require Import ArithLemmas HoldingLemmas NoWinners NoWinnersStatus HistoryLemmas StatusLemmas ExecExact WindowLemmas.
Open Scope Z_scope.

(* The amount credited is floor(input x source rate / destination rate); once averaging is
   active the source rate is min(spot, average), the destination rate max(spot, average);
   the conversion is refused exactly when a rate (or, then, an average) is zero, the amount
   is negative or the quotient does not fit in int64.  For all int64 amounts and all uint64 rates. *)
Theorem C07_convert_exact : forall pip10 amt fr fa tr ta,
  0 <= fr -> 0 <= fa -> 0 <= tr -> 0 <= ta ->
  (convert_defined pip10 amt fr fa tr ta /\
   convert pip10 amt fr fa tr ta = Some ((amt * rate_src pip10 fr fa) / rate_dst pip10 tr ta))
  \/ (~ convert_defined pip10 amt fr fa tr ta /\ convert pip10 amt fr fa tr ta = None).
Proof. exact convert_spec. Qed.
Print Assumptions C07_convert_exact.

Theorem C07_convert_is_floor : forall pip10 amt fr fa tr ta out,
  0 <= fr -> 0 <= fa -> 0 <= tr -> 0 <= ta ->
  convert pip10 amt fr fa tr ta = Some out ->
  let rs := rate_src pip10 fr fa in let rd := rate_dst pip10 tr ta in
  out * rd <= amt * rs < (out + 1) * rd.
Proof. exact convert_floor. Qed.
Print Assumptions C07_convert_is_floor.

(* a conversion never yields more USD value (at the block's spot rates) than was put in *)
Theorem C07_convert_value_nonincreasing : forall pip10 amt fr fa tr ta out,
  0 <= fr -> 0 <= fa -> 0 <= tr -> 0 <= ta ->
  convert pip10 amt fr fa tr ta = Some out -> out * tr <= amt * fr.
Proof. exact convert_value_nonincreasing. Qed.
Print Assumptions C07_convert_value_nonincreasing.

(* A conversion submitted in block h is NOT executed by block h: the batch gets its history rows
   (status pending) and a holding row at h, and no balance moves.  (That a held batch is then
   executed only by a block that has rates, with that block's rates and the averages of the last
   rated height before it, is the structure of [sync_block] / [apply_holding]; the chain-level tie
   replays graded / ungraded patterns, including unrated snapshot heights, through the real node.) *)
Theorem C07_conversion_waits_in_holding : forall c h s order e txs s',
  entry_valid_at c e h = Some txs -> has_conversions txs = true ->
  is_replay s (e_hash e) = false -> hist_has s (e_hash e) = false ->
  apply_entry c h s order e = Ok s' ->
  bal s' = bal s /\ holding s' = holding s ++ [{| h_entry := e; h_height := h |}] /\
  exists s1, insert_history s e order h txs = Ok s1.
Proof. exact conversion_waits_in_holding. Qed.
Print Assumptions C07_conversion_waits_in_holding.

(* ... and it is not executed by any later block that has no graded rates either: in a block without winners the
   status of every earlier batch is untouched (the batch-status table only grows), for every block content and every
   committed state.  With C06's window theorems (a rated block looks at exactly the heights since the previous rated
   one) this is "the first later block that has graded rates". *)
Theorem C07_pending_conversion_waits_through_unrated_blocks : forall c cm mem b s' mem' r,
  step_block c cm mem b = Done (s', mem') ->
  (forall g, grade_opr c cm b = Done g -> no_winners g) ->
  (c_V20HeightActivation c <= b_height b -> forall g, grade_spr c cm b = Done g -> no_winners g) ->
  In r (hist cm) -> In r (hist s').
Proof. exact no_winners_pending_stays_pending. Qed.
Print Assumptions C07_pending_conversion_waits_through_unrated_blocks.

(* The positive half.  A block that has graded rates (it records a rate map m for its own height, which was unrated
   before) runs the holding pass with exactly that map m — the block's OWN rates — and with the averages taken at the
   last rated height before it; the recorded rates survive to the end of the block. *)
Theorem C07_rated_block_executes_holding_at_its_own_rates : forall c cm mem b s s' mem' m,
  sync_block c cm mem b s = Done (s', mem') ->
  c_TransactionConversionActivation c <= b_height b ->
  rates s !! b_height b = None -> rates s' !! b_height b = Some m ->
  block_rated c cm b /\ is_empty_map m = false /\
  exists s1 s2,
    let h := b_height b in
    let avgs := fst (get_averages cm (c_AveragePeriod c) mem (last_rated_below s1 h)) in
    rates s1 !! h = Some m /\ rates s1 = <[h := m]> (rates s) /\
    apply_holding c cm h s1 m avgs = Ok s2 /\
    last_rated_below s1 h = last_rated_below s h /\
    mem' = snd (get_averages cm (c_AveragePeriod c) mem (last_rated_below s1 h)) /\
    rates s2 = rates s1 /\ rates s' = rates s1.
Proof. exact sync_block_holding_uses_own_rates. Qed.
Print Assumptions C07_rated_block_executes_holding_at_its_own_rates.
(* ... and in that pass a held conversion that the admission rule lets through is executed exactly: one debit of the
   input, one credit of out = floor(input x source rate / destination rate) computed from the rates and averages the pass
   was given, no other cell of anybody changes, the batch status becomes the executing height and the recorded
   to_amount is out.  (Room: the credited cell stays within int64.) *)
Theorem C07_held_conversion_executes_exactly : forall c cur rates avgs s e hh t out,
  entry_valid_at c e hh = Some [t] -> (exists txs, entry_valid_at c e cur = Some txs) ->
  is_replay s (e_hash e) = false ->
  (c_V20HeightActivation c <=? cur) && has_peg_conversion [t] = false ->
  is_conversion t = true ->
  (c_PegnetConversionLimitActivation c <=? cur) && is_peg_request t = false ->
  check_txs c cur s rates avgs [t] = None -> conv_of c cur rates avgs t = Some out ->
  0 <= rate_of rates (tx_type t) -> 0 <= rate_of avgs (tx_type t) ->
  0 <= rate_of rates (tx_conv t) -> 0 <= rate_of avgs (tx_conv t) ->
  valid_ticker (tx_type t) = true ->
  (tx_amt t = 0 -> get_bal (bal s) (tx_addr t) (tx_type t) <= max_int64) ->
  get_bal (bal s) (tx_addr t) (tx_conv t) - (if tx_conv t =? tx_type t then tx_amt t else 0) + out <= max_int64 ->
  exists s', apply_held c cur rates avgs s e hh = Ok (s', false) /\
    (forall a ty, get_bal (bal s') a ty = get_bal (bal s) a ty
        - (if (a =? tx_addr t) && (ty =? tx_type t) then tx_amt t else 0)
        + (if (a =? tx_addr t) && (ty =? tx_conv t) then out else 0)) /\
    conv_floor_spec c cur rates avgs t out /\
    hist s' = mark_exec (e_hash e) cur (hist s) /\
    Forall (fun x => x = cur) (status_of s' (e_hash e)) /\
    htxs s' = htxs (set_to_amount s (e_hash e) 0 out) /\
    (forall r, In r (htxs s') -> ht_hash r = e_hash e -> ht_index r = 0 -> ht_to_amount r = out) /\
    Db.rates s' = Db.rates s /\ holding s' = holding s /\ is_replay s' (e_hash e) = true /\ bank s' = bank s.
Proof. exact held_conversion_executes_exactly. Qed.
Print Assumptions C07_held_conversion_executes_exactly.

(* "The FIRST later block that has graded rates": if r is the first rated height above g, every height strictly between is
   unrated (those blocks run no holding pass) and no later height's window contains g any more — with
   C06_chain_held_height_exactly_one_block, a batch held at g is looked at by the block at r and by no other block of the chain. *)
Theorem C07_waits_until_the_first_rated_height : forall sf g r k,
  first_rated_above sf g r -> (g < k < r -> rates sf !! k = None) /\ (r < k -> 0 <= r -> ~ In g (window sf k)).
Proof. exact chain_waits_until_first_rated. Qed.
Print Assumptions C07_waits_until_the_first_rated_height.

(* in the example chain the conversion entered at 102 is pending through the unrated block 103 and
   executes at 104 with 104's rates: 20 pFCT at 4 USD -> 80 pUSD *)
Example C07_chain_example :
  exists s m, replay ex_cfg genesis empty_cache ex_chain = Done (s, m) /\
              existsb (fun r => (hb_hash r =? 602) && (hb_height r =? 102) && (hb_exec r =? 104)) (hist s) = true /\
              get_bal (bal s) alice 2 = 80.
Proof. vm_compute. eexists _, _. repeat split; reflexivity. Qed.

Example C07_convert_example :
  convert true 1000 300 250 7 9 = Some (1000 * 250 / 9) /\ convert false 1000 300 250 7 9 = Some (1000 * 300 / 7).
Proof. vm_compute. split; reflexivity. Qed.
