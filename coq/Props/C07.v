(* Props/C07.v — Conversions execute later, at the next graded block's rates, exactly.
   Only statements, each closed by [exact]; proofs live in Lemmas/. *)
From Coq Require Import ZArith List Bool.
From Model Require Import Base Arith.
From Lemmas Require Import ArithLemmas.
Open Scope Z_scope.

(* The amount credited is floor(input x source rate / destination rate); once averaging is
   active the source rate is min(spot, average), the destination rate max(spot, average);
   the conversion is refused exactly when a rate (or, then, an average) is zero, the amount
   is negative or the quotient does not fit in int64.  For all int64 amounts and all uint64 rates. *)
Theorem C07_convert_exact : forall pip10 amt fr fa tr ta,
  0 <= fr -> 0 <= fa -> 0 <= tr -> 0 <= ta ->
  (convert_defined pip10 amt fr fa tr ta /\
   convert pip10 amt fr fa tr ta = Some ((amt * rate_src pip10 fr fa) / rate_dst pip10 tr ta))
  \/ (~ convert_defined pip10 amt fr fa tr ta /\ convert pip10 amt fr fa tr ta = None).
Proof. exact convert_spec. Qed.
Print Assumptions C07_convert_exact.

Theorem C07_convert_is_floor : forall pip10 amt fr fa tr ta out,
  0 <= fr -> 0 <= fa -> 0 <= tr -> 0 <= ta ->
  convert pip10 amt fr fa tr ta = Some out ->
  let rs := rate_src pip10 fr fa in let rd := rate_dst pip10 tr ta in
  out * rd <= amt * rs < (out + 1) * rd.
Proof. exact convert_floor. Qed.
Print Assumptions C07_convert_is_floor.

(* a conversion never yields more USD value (at the block's spot rates) than was put in *)
Theorem C07_convert_value_nonincreasing : forall pip10 amt fr fa tr ta out,
  0 <= fr -> 0 <= fa -> 0 <= tr -> 0 <= ta ->
  convert pip10 amt fr fa tr ta = Some out -> out * tr <= amt * fr.
Proof. exact convert_value_nonincreasing. Qed.
Print Assumptions C07_convert_value_nonincreasing.

Example C07_convert_example :
  convert true 1000 300 250 7 9 = Some (1000 * 250 / 9) /\ convert false 1000 300 250 7 9 = Some (1000 * 300 / 7).
Proof. vm_compute. split; reflexivity. Qed.
