(* Props/C07.v — Conversions execute later, at the next graded block's rates, exactly.
   Only statements, each closed by [exact]; proofs live in Lemmas/. *)
From Coq Require Import ZArith List Bool.
From Model Require Import Base Arith.
From Model Require Import Block Examples.
From Lemmas Require Import ArithLemmas HoldingLemmas NoWinners NoWinnersStatus.
Open Scope Z_scope.

(* The amount credited is floor(input x source rate / destination rate); once averaging is
   active the source rate is min(spot, average), the destination rate max(spot, average);
   the conversion is refused exactly when a rate (or, then, an average) is zero, the amount
   is negative or the quotient does not fit in int64.  For all int64 amounts and all uint64 rates. *)
Theorem C07_convert_exact : forall pip10 amt fr fa tr ta,
  0 <= fr -> 0 <= fa -> 0 <= tr -> 0 <= ta ->
  (convert_defined pip10 amt fr fa tr ta /\
   convert pip10 amt fr fa tr ta = Some ((amt * rate_src pip10 fr fa) / rate_dst pip10 tr ta))
  \/ (~ convert_defined pip10 amt fr fa tr ta /\ convert pip10 amt fr fa tr ta = None).
Proof. exact convert_spec. Qed.
Print Assumptions C07_convert_exact.

Theorem C07_convert_is_floor : forall pip10 amt fr fa tr ta out,
  0 <= fr -> 0 <= fa -> 0 <= tr -> 0 <= ta ->
  convert pip10 amt fr fa tr ta = Some out ->
  let rs := rate_src pip10 fr fa in let rd := rate_dst pip10 tr ta in
  out * rd <= amt * rs < (out + 1) * rd.
Proof. exact convert_floor. Qed.
Print Assumptions C07_convert_is_floor.

(* a conversion never yields more USD value (at the block's spot rates) than was put in *)
Theorem C07_convert_value_nonincreasing : forall pip10 amt fr fa tr ta out,
  0 <= fr -> 0 <= fa -> 0 <= tr -> 0 <= ta ->
  convert pip10 amt fr fa tr ta = Some out -> out * tr <= amt * fr.
Proof. exact convert_value_nonincreasing. Qed.
Print Assumptions C07_convert_value_nonincreasing.

(* A conversion submitted in block h is NOT executed by block h: the batch gets its history rows
   (status pending) and a holding row at h, and no balance moves.  (That a held batch is then
   executed only by a block that has rates, with that block's rates and the averages of the last
   rated height before it, is the structure of [sync_block] / [apply_holding]; the chain-level tie
   replays graded / ungraded patterns, including unrated snapshot heights, through the real node.) *)
Theorem C07_conversion_waits_in_holding : forall c h s order e txs s',
  entry_valid_at c e h = Some txs -> has_conversions txs = true ->
  is_replay s (e_hash e) = false -> hist_has s (e_hash e) = false ->
  apply_entry c h s order e = Ok s' ->
  bal s' = bal s /\ holding s' = holding s ++ [{| h_entry := e; h_height := h |}] /\
  exists s1, insert_history s e order h txs = Ok s1.
Proof. exact conversion_waits_in_holding. Qed.
Print Assumptions C07_conversion_waits_in_holding.

(* ... and it is not executed by any later block that has no graded rates either: in a block without winners the
   status of every earlier batch is untouched (the batch-status table only grows), for every block content and every
   committed state.  With C06's window theorems (a rated block looks at exactly the heights since the previous rated
   one) this is "the first later block that has graded rates". *)
Theorem C07_pending_conversion_waits_through_unrated_blocks : forall c cm mem b s' mem' r,
  step_block c cm mem b = Done (s', mem') ->
  (forall g, grade_opr c cm b = Done g -> no_winners g) ->
  (c_V20HeightActivation c <= b_height b -> forall g, grade_spr c cm b = Done g -> no_winners g) ->
  In r (hist cm) -> In r (hist s').
Proof. exact no_winners_pending_stays_pending. Qed.
Print Assumptions C07_pending_conversion_waits_through_unrated_blocks.

(* in the example chain the conversion entered at 102 is pending through the unrated block 103 and
   executes at 104 with 104's rates: 20 pFCT at 4 USD -> 80 pUSD *)
Example C07_chain_example :
  exists s m, replay ex_cfg genesis empty_cache ex_chain = Done (s, m) /\
              existsb (fun r => (hb_hash r =? 602) && (hb_height r =? 102) && (hb_exec r =? 104)) (hist s) = true /\
              get_bal (bal s) alice 2 = 80.
Proof. vm_compute. eexists _, _. repeat split; reflexivity. Qed.

Example C07_convert_example :
  convert true 1000 300 250 7 9 = Some (1000 * 250 / 9) /\ convert false 1000 300 250 7 9 = Some (1000 * 300 / 7).
Proof. vm_compute. split; reflexivity. Qed.
