(* Props/C04.v — Supply conservation: value is created or destroyed only by protocol events.
   Only statements, each closed by [exact]; proofs live in Lemmas/. *)
From Model Require Import Examples.
From Lemmas Require Import DbLemmas SupplyLemmas RewardLemmas HistoryLemmas HistoryLemmas2 HistoryLemmas3.
From Gen Require Import Consts.
Open Scope Z_scope.

(* Only AddToBalance / SubFromBalance change a balance, and by exactly their amount. *)
Theorem C04_add_creates_exactly : forall s a t v s' t',
  add_to_balance s a t v = Ok s' -> supply s' t' = supply s t' + (if t =? t' then v else 0).
Proof. exact supply_add. Qed.
Print Assumptions C04_add_creates_exactly.
Theorem C04_sub_destroys_exactly : forall s a t v s' t',
  sub_from_balance s a t v = SubOk s' -> supply s' t' = supply s t' - (if t =? t' then v else 0).
Proof. exact supply_sub. Qed.
Print Assumptions C04_sub_destroys_exactly.

(* Recording a batch changes the supply of every asset by exactly the sum of its transactions'
   events: each transfer -input + (outputs - outputs to the burn address), each conversion -input of
   the source and +floor(in*src/dst) of the destination (PEG requests of the bank era: the input only,
   the yield is issued by the bank pass).  For every batch, every state, every asset. *)
Theorem C04_batch_supply_delta : forall c h hs rates avgs txs t' idx s s',
  record_txs c h hs rates avgs idx txs s = Ok s' ->
  supply s' t' = supply s t' + txs_delta c h rates avgs txs t'.
Proof. exact supply_record_txs. Qed.
Print Assumptions C04_batch_supply_delta.

(* A transfer moves value without creating or destroying any: if the outputs add up to the input
   (the decoder guarantees it) and none goes to the burn address, no asset's supply changes. *)
Theorem C04_transfer_conserves : forall c h rates avgs t t',
  is_conversion t = false -> is_peg_request t = false ->
  sum_out (tx_transfers t) = tx_amt t -> burned_out c h (tx_transfers t) = 0 ->
  tx_delta c h rates avgs t t' = 0.
Proof. exact transfer_conserves. Qed.
Print Assumptions C04_transfer_conserves.

(* Mining / staking rewards and FCT burns credit exactly the decided amounts, to the named
   addresses, and touch nothing else. *)
Theorem C04_rewards_exact : forall ts ws s s' a t,
  pay_winners s ts ws = Ok s' ->
  get_bal (bal s') a t = get_bal (bal s) a t + (if t =? PTickerPEG then owed ws a else 0).
Proof. exact pay_winners_exact. Qed.
Print Assumptions C04_rewards_exact.
Theorem C04_burns_exact : forall h fs s s' a t,
  apply_factoid_block h s fs = Ok s' ->
  get_bal (bal s') a t = get_bal (bal s) a t + (if t =? PTickerFCT then burned_by fs a else 0).
Proof. exact factoid_block_exact. Qed.
Print Assumptions C04_burns_exact.

(* non-vacuity: in the example chain 100 pFCT are created by the burn, 20 pFCT destroyed and 80 pUSD
   created by the conversion, 5 PEG by the miner reward; the transfer changes no supply *)
(* Chain level: after EVERY chain, every balance cell outside the three special addresses is exactly the sum of
   what the recorded, executed history rows stand for (transfers move, conversions debit the input and credit the
   converted amount, coinbase rows are the rewards / developer / staking payouts, burn rows the burnt FCT): no
   value exists that a recorded protocol event did not create, and none disappeared without one.  Hypotheses as
   for C17_history_replays_every_chain (no conversion into PEG in the chain; distinct batch-row hashes). *)
Theorem C04_every_cell_is_accounted_for : forall c bs s m,
  forallb block_okb bs = true ->
  replay c genesis empty_cache bs = Done (s, m) ->
  NoDup (map hb_hash (hist s)) ->
  forall a t, special_addr a = false -> get_bal (bal s) a t = hist_sum c s a t.
Proof. exact replay_accounts. Qed.
Print Assumptions C04_every_cell_is_accounted_for.

Example C04_example :
  exists s m, replay ex_cfg genesis empty_cache ex_chain = Done (s, m) /\
              supply s PTickerFCT = 80 /\ supply s PTickerUSD = 80 /\ supply s PTickerPEG = 5.
Proof. vm_compute. eexists _, _. repeat split; reflexivity. Qed.
