(* Props/C15.v — Scheduled issuance: developer rewards and one-time ledger adjustments.
   Only statements, each closed by [exact]; proofs live in Lemmas/.  The tables (address list,
   percentages, amounts, minted supply, activation heights) are regenerated from /repo on every run. *)
From Model Require Import Examples.
From Lemmas Require Import DbLemmas IssuanceLemmas BlockLemmas IssuanceLedger.
From Gen Require Import Consts.
Open Scope Z_scope.

(* developer rewards total exactly 2,000 PEG x 144 per payout from 2.0.2 on, 2,000 PEG before *)
Theorem C15_dev_total_from_v202 : fold_right (fun d acc => dev_post d + acc) 0 dev_rewards = PerBlockDevelopers * SnapshotRate.
Proof. exact dev_total_post. Qed.
Print Assumptions C15_dev_total_from_v202.
Theorem C15_dev_total_before_v202 : fold_right (fun d acc => dev_pre d + acc) 0 dev_rewards = PerBlockDevelopers.
Proof. exact dev_total_pre. Qed.
Example C15_amounts : PerBlockDevelopers = 2000 * 100000000 /\ SnapshotRate = 144.
Proof. split; reflexivity. Qed.

(* ... and on the LEDGER: a developer payout creates exactly that much PEG and nothing else (for every state) *)
Theorem C15_dev_payout_on_the_ledger : forall c h ts s s',
  fst (developers_payouts c h ts s) = Ok s' ->
  supply s' PTickerPEG = supply s PTickerPEG +
    (if c_V202EnhanceActivation c <=? h then PerBlockDevelopers * SnapshotRate else PerBlockDevelopers) /\
  forall t, t <> PTickerPEG -> supply s' t = supply s t.
Proof. exact developers_payouts_total. Qed.
Print Assumptions C15_dev_payout_on_the_ledger.
(* the 2.0.4 mint creates, for every asset, exactly what the regenerated mint list says, all of it on the mint address *)
Theorem C15_mint_on_the_ledger : forall s s', mint_tokens s = Ok s' -> forall t, supply s' t = supply s t + listed t mint_list.
Proof. exact mint_tokens_supply. Qed.
Theorem C15_mint_only_on_the_mint_address : forall s s' a t,
  mint_tokens s = Ok s' -> a <> GlobalMintAddress -> get_bal (bal s') a t = get_bal (bal s) a t.
Proof. exact mint_tokens_only_mint_address. Qed.
Print Assumptions C15_mint_on_the_ledger.
Check developers_payouts_total_example.
Check mint_tokens_supply_example.

(* every listed amount is the binary64 product the code computes, recomputed with Coq's floats *)
Theorem C15_amounts_are_the_percentages :
  forallb (fun d => (dev_pre d =? dev_reward (PerBlockDevelopers / 100) (dev_bits d) false) &&
                    (dev_post d =? dev_reward (PerBlockDevelopers / 100) (dev_bits d) true)) dev_rewards = true.
Proof. exact dev_amounts_are_the_float_products. Qed.
Print Assumptions C15_amounts_are_the_percentages.
Theorem C15_percentages_sum_to_100 : fold_right (fun d acc => Z_of_f (f_of_bits (dev_bits d)) + acc) 0 dev_rewards = 100.
Proof. exact dev_percentages_sum. Qed.
Theorem C15_dev_addresses_distinct : NoDup (map dev_addr dev_rewards).
Proof. exact dev_addresses_distinct. Qed.

(* cadence: paid iff the height is at or above the activation and a multiple of 144 *)
Theorem C15_dev_cadence : forall c h, dev_due c h = true <-> c_V20DevRewardsHeightActivation c <= h /\ (144 | h).
Proof. exact dev_due_iff. Qed.
Print Assumptions C15_dev_cadence.

(* the four one-time adjustments have four distinct mainnet heights, none of them a payout height *)
Theorem C15_one_time_heights_distinct :
  NoDup [V20DevRewardsHeightActivation; V202EnhanceActivation; V204EnhanceActivation; V204BurnMintedTokenActivation] /\
  forallb (fun h => negb (h mod SnapshotRate =? 0)) [V20DevRewardsHeightActivation; V202EnhanceActivation; V204EnhanceActivation; V204BurnMintedTokenActivation] = true.
Proof. exact mainnet_one_time_heights_distinct. Qed.
Print Assumptions C15_one_time_heights_distinct.

(* the minted supply: positive amounts within int64, distinct valid tickers *)
Theorem C15_mint_list_wellformed :
  forallb (fun m => (0 <? snd m) && valid_ticker (fst m) && (snd m <? two63)) mint_list = true /\
  (fix nd (l : list Z) := match l with [] => true | x :: r => negb (existsb (Z.eqb x) r) && nd r end) (map fst mint_list) = true.
Proof. exact mint_list_wellformed. Qed.

(* the scheduled steps never make a balance negative *)
Theorem C15_scheduled_steps_keep_balances_valid : forall c cm h ts s, nonneg cm -> nonneg s -> nonneg (nullify_burn c cm h ts s).
Proof. exact nullify_burn_nonneg. Qed.
Print Assumptions C15_scheduled_steps_keep_balances_valid.
