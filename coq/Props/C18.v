(* Props/C18.v — API isolation: reads cannot disturb sync and see only committed blocks.
   Only statements, each closed by [exact]; proofs live in Lemmas/. *)
From Model Require Import Examples Sync SitesSpec.
From Lemmas Require Import SyncLemmas RestartLemmas SitesC18.
From Gen Require Import Consts Sites.
From Coq Require Import String.
Open Scope list_scope.
Open Scope Z_scope.

(* API requests are transitions of the loop model that read the committed database and may replace
   the rate-average cache by the averages of a height that is already rated ([t_api]): interleaved
   anywhere, any number of times, with block application, failures, crashes and restarts, they
   never change the database the daemon computes. *)
Theorem C18_api_requests_cannot_change_the_ledger : forall c chain h0 n todo,
  0 < h0 -> heights_from h0 chain ->
  reach c ({| n_db := genesis; n_mem := empty_cache |}, chain) (n, todo) ->
  exists done_ m, chain = done_ ++ todo /\ replay c genesis empty_cache done_ = Done (n_db n, m).
Proof. exact loop_consistent. Qed.
Print Assumptions C18_api_requests_cannot_change_the_ledger.

(* what the handlers can do, from the source (regenerated on every run): no SQL statement reachable
   from an API handler writes, every one of them runs on the connection pool (so it sees committed
   blocks only: the block's writes are on its own sql.Tx) *)
Theorem C18_api_never_writes : forall r, In r api_effective_sql -> eff_rw r = "R"%string.
Proof. exact api_never_writes_forall. Qed.
Theorem C18_api_reads_committed_state_only : forall r, In r api_effective_sql -> eff_handle r = "pool"%string.
Proof. exact api_reads_pool_only_forall. Qed.
Print Assumptions C18_api_reads_committed_state_only.

(* the only daemon fields shared between the two goroutine roots are the sync height and the three
   fields of the average cache; after the repairs every conflicting pair of accesses holds a common
   mutex or goes through sync/atomic *)
Theorem C18_shared_fields_are_the_reviewed_ones : check_sync_written_fields = true /\ check_no_other_shared_writes = true.
Proof. exact (conj shared_fields_expected shared_fields_no_other_writes). Qed.
Theorem C18_locking_discipline : check_conflicting_fields = true.
Proof. exact shared_fields_conflicts. Qed.
Print Assumptions C18_locking_discipline.

Example C18_example : conflicting_fields = [] /\ (exists r, In r api_effective_sql).
Proof. split; [vm_compute; reflexivity|]. eexists. unfold api_effective_sql. left. reflexivity. Qed.
