(* Props/C03.v — No overdraft; batches are all-or-nothing.
   Only statements, each closed by [exact]; proofs live in Lemmas/. *)
From Model Require Import Examples.
From Lemmas Require Import DbLemmas LedgerLemmas BlockLemmas ChainLemmas.
From Gen Require Import Consts.
Open Scope Z_scope.

(* No balance is ever negative: for EVERY chain (any number of blocks, any entries, any grader
   verdicts) and every state reached by replaying it from the empty ledger.  This is proved from
   the checks the code performs, not from the CHECK(>= 0) constraint of the table. *)
Theorem C03_no_negative_balance : forall (c : cfg) (chain : list block) (s : db) (m : avgcache),
  replay c genesis empty_cache chain = Done (s, m) -> forall a t, 0 <= get_bal (bal s) a t.
Proof. exact replay_nonneg. Qed.
Print Assumptions C03_no_negative_balance.

(* ... and block by block, from any non-negative committed state *)
Theorem C03_block_preserves_nonneg : forall c cm mem b s' mem',
  nonneg cm -> step_block c cm mem b = Done (s', mem') -> nonneg s'.
Proof. exact step_block_nonneg. Qed.
Print Assumptions C03_block_preserves_nonneg.

(* A batch taken out of holding is applied completely or not at all: whatever happens to it
   (skipped, invalid by now, replay, rejected with any code, dropped), either every balance is
   exactly as it was, or the whole batch was recorded. *)
Theorem C03_held_batch_all_or_nothing : forall c cur rates avgs s e hh s' isp,
  apply_held c cur rates avgs s e hh = Ok (s', isp) ->
  bal s' = bal s \/
  exists txs, entry_valid_at c e hh = Some txs /\ record_batch c cur (e_hash e) rates avgs txs s = Ok s'.
Proof. exact apply_held_all_or_nothing. Qed.
Print Assumptions C03_held_batch_all_or_nothing.

(* The same for a batch arriving in a block. *)
Theorem C03_arriving_batch_all_or_nothing : forall c h s order e s',
  apply_entry c h s order e = Ok s' ->
  bal s' = bal s \/
  exists txs s1, entry_valid_at c e h = Some txs /\ has_conversions txs = false /\ bal s1 = bal s /\
                 record_batch c h (e_hash e) ∅ ∅ txs s1 = Ok s'.
Proof. exact apply_entry_all_or_nothing. Qed.
Print Assumptions C03_arriving_batch_all_or_nothing.

(* A batch that is being recorded never spends more than the input address holds at that moment:
   the first (and, by the recursive structure, every) debit is covered by the current balance. *)
Theorem C03_debit_covered : forall c h hs rates avgs idx t txs s s',
  record_txs c h hs rates avgs idx (t :: txs) s = Ok s' ->
  tx_amt t = 0 \/ tx_amt t < 0 \/ 0 < tx_amt t <= get_bal (bal s) (tx_addr t) (tx_type t).
Proof. exact record_txs_first_debit_covered. Qed.
Print Assumptions C03_debit_covered.

(* non-vacuity: the example chain (burn, transfer, held conversion, a repeated entry, an overdraft
   attempt, a graded block) replays successfully; the overdraft is rejected (-1) and leaves alice's
   balance alone *)
Example C03_example :
  exists s m, replay ex_cfg genesis empty_cache ex_chain = Done (s, m) /\
              get_bal (bal s) alice PTickerFCT = 50 /\ get_bal (bal s) bob PTickerFCT = 30 /\
              get_bal (bal s) alice PTickerUSD = 80 /\
              existsb (fun r => (hb_hash r =? 603) && (hb_exec r =? -1)) (hist s) = true.
Proof. vm_compute. eexists _, _. repeat split; reflexivity. Qed.
