(* Props/C09.v — Restart independence: results do not depend on where the daemon was restarted.
   Only statements, each closed by [exact]; proofs live in Lemmas/. *)
From Model Require Import Examples.
From Lemmas Require Import RestartLemmas.
Open Scope Z_scope.

(* Whatever two caches are in memory — as long as each was produced by earlier calls on this chain
   or is empty, as after a restart — and wherever the daemon is restarted (cache dropped) while
   the rest of the chain is replayed, the resulting database is the same.  For every chain whose
   heights increase (the sync loop applies Synced+1), every set of restart heights R1, R2. *)
Theorem C09_restart_independent : forall (c : cfg) (bs : list block) (hn : Z) (cm : db) (mem1 mem2 : avgcache) (R1 R2 : list Z),
  0 < hn -> cache_ok c cm mem1 hn -> cache_ok c cm mem2 hn -> heights_from hn bs ->
  run_chain_restarts c R1 cm mem1 bs = run_chain_restarts c R2 cm mem2 bs.
Proof. exact restart_independent. Qed.
Print Assumptions C09_restart_independent.

(* In particular: any number of restarts anywhere = one continuous run, from a fresh start. *)
Theorem C09_restarts_do_not_matter : forall (c : cfg) (bs : list block) (hn : Z) (cm : db) (R : list Z),
  0 < hn -> heights_from hn bs ->
  run_chain_restarts c R cm empty_cache bs = run_chain_restarts c [] cm empty_cache bs.
Proof. exact restarts_do_not_matter. Qed.
Print Assumptions C09_restarts_do_not_matter.

(* Pricing: the averages a block uses are a function of the committed database alone. *)
Theorem C09_averages_from_database_only : forall (c : cfg) (cm : db) (mem : avgcache) (hn hq : Z),
  cache_ok c cm mem hn -> fst (get_averages cm (c_AveragePeriod c) mem hq) = compute_avgs cm (c_AveragePeriod c) hq.
Proof. exact get_averages_ok. Qed.
Print Assumptions C09_averages_from_database_only.

(* The machine before the repair (incremental append trimmed by count, reload by height window)
   did depend on the cache: AveragePeriod 4, rated heights 1,2,3,5,6,7 — a continuously running
   node and a freshly started one disagree on the average at height 7 (525 vs 600). *)
Definition legacy_db : db :=
  set_rates empty_db (list_to_map (map (fun hv => (fst hv, {[ 2 := snd hv ]})) [(1, 100); (2, 200); (3, 300); (5, 500); (6, 600); (7, 700)])).
Definition legacy_continuous : avgcache_legacy :=
  fold_left (fun m h => snd (get_averages_legacy legacy_db 4 m h)) [1; 2; 3; 5; 6] empty_cache_legacy.
Example C09_legacy_machine_depended_on_the_cache :
  fst (get_averages_legacy legacy_db 4 legacy_continuous 7) !! 2 = Some 525 /\
  fst (get_averages_legacy legacy_db 4 empty_cache_legacy 7) !! 2 = Some 600 /\
  fst (get_averages legacy_db 4 empty_cache 7) !! 2 = Some 600.
Proof. vm_compute. repeat split; reflexivity. Qed.

(* non-vacuity: the example chain satisfies the hypotheses and restarting before every block
   changes nothing *)
Example C09_example :
  heights_from 101 ex_chain /\
  run_chain_restarts ex_cfg [101; 102; 103; 104] genesis empty_cache ex_chain =
  run_chain_restarts ex_cfg [] genesis empty_cache ex_chain /\
  (exists s, run_chain_restarts ex_cfg [] genesis empty_cache ex_chain = Done s).
Proof. split; [cbn; lia|]. split; [vm_compute; reflexivity|]. vm_compute. eexists; reflexivity. Qed.
