(* Props/C12.v — Recorded rates follow the winning records and are immutable.
   Only statements, each closed by [exact]; proofs live in Lemmas/. *)
From Model Require Import Examples.
From Coq Require Import Reals.
From Lemmas Require Import ChainLemmas HoldingLemmas NoWinners NoWinnersStatus BandLemmas.
Open Scope Z_scope.

(* Rates once recorded for a height never change: whatever a later block contains, every rate
   map present in the committed database is present, unchanged, afterwards. *)
Theorem C12_rates_immutable : forall c cm mem b s' mem',
  step_block c cm mem b = Done (s', mem') ->
  forall h r, rates cm !! h = Some r -> rates s' !! h = Some r.
Proof. exact step_block_rates_immutable. Qed.
Print Assumptions C12_rates_immutable.

(* A block records rates for no other height than its own. *)
Theorem C12_rates_only_for_own_height : forall c cm mem b s' mem' k,
  k <> b_height b -> step_block c cm mem b = Done (s', mem') -> rates s' !! k = rates cm !! k.
Proof. exact step_block_rates_only_own_height. Qed.
Print Assumptions C12_rates_only_for_own_height.

(* A block without winners records no rates: when the OPR verdict for the block (and, from 2.0 on, the SPR verdict)
   has no winners, the whole body of the loop leaves pn_rate exactly as it was -- whatever else the block contains,
   in every era, on every committed state.  (The verdicts are the graders' for the arguments the code passes.) *)
Theorem C12_block_without_winners_records_no_rates : forall c cm mem b s' mem',
  step_block c cm mem b = Done (s', mem') ->
  (forall g, grade_opr c cm b = Done g -> no_winners g) ->
  (c_V20HeightActivation c <= b_height b -> forall g, grade_spr c cm b = Done g -> no_winners g) ->
  rates s' = rates cm.
Proof. exact no_winners_no_rates. Qed.
Print Assumptions C12_block_without_winners_records_no_rates.
(* ... and executes no pending conversion: the batch-status table only grows in such a block -- every row recorded
   before it is still there, unchanged, so a batch that was pending stays pending (the holding pass, the only code
   that changes the status of an earlier batch, runs only when the block recorded rates) *)
Theorem C12_block_without_winners_changes_no_status : forall c cm mem b s' mem',
  step_block c cm mem b = Done (s', mem') ->
  (forall g, grade_opr c cm b = Done g -> no_winners g) ->
  (c_V20HeightActivation c <= b_height b -> forall g, grade_spr c cm b = Done g -> no_winners g) ->
  exists ext, hist s' = hist cm ++ ext.
Proof. exact no_winners_no_status_change. Qed.
Print Assumptions C12_block_without_winners_changes_no_status.
(* satisfiable: block 103 of the example chain (no OPR entries) applies, records nothing and leaves the pending
   conversion pending; block 104 (a winner) does record rates *)
Check no_winners_no_rates_example.
Check no_winners_status_example.

(* what is recorded from 2.0 on: only OPR winners -> the OPR's rates, only SPR winners -> the SPR's,
   neither -> no rates; both, per asset: the OPR value if it is inside the tolerance band around the
   SPR value (1% / 0.1% before the developer-reward activation, then 10%, 25% from 2.0.2), otherwise
   rate 0 from 2.0.2 on and no rates at all for the block before.  The band predicate is the binary64
   computation the code performs (Model/Band.v). *)
Theorem C12_only_opr : forall c h o, o <> [] -> select_rates c h o [] = RSel o.
Proof. exact select_rates_only_opr. Qed.
Theorem C12_only_spr : forall c h s, s <> [] -> select_rates c h [] s = RSel s.
Proof. exact select_rates_only_spr. Qed.
Theorem C12_no_winners_no_rates : forall c h, select_rates c h [] [] = RErr.
Proof. exact select_rates_none. Qed.
Theorem C12_band_rule : forall c h n ov sv,
  band_filter c h (h <? c_V20DevRewardsHeightActivation c) [(n, ov)] [(n, sv)] =
    let v0 := h <? c_V20DevRewardsHeightActivation c in
    let tol := if v0 then (if 100000 <=? sv then tol_01 else tol_1)
               else (if c_V202EnhanceActivation c <=? h then tol_25 else tol_10) in
    if in_band tol ov sv then RSel [(n, ov)]
    else if negb v0 && (c_V202EnhanceActivation c <=? h) then RSel [(n, 0)]
    else RErr.
Proof. exact band_one_asset. Qed.
Print Assumptions C12_band_rule.
(* The band predicate is a binary64 computation; its link to the real-number rule "kept iff |o - s| <= T x s", for EVERY
   pair of uint64 quotes and each of the four tolerances (T = 1/10, 1/4, 1/100, 1/1000), with eps = 2^-50 covering the
   roundings of float64(o), float64(s), 1 +/- tol and the two products (Flocq; Lemmas/BandLemmas.v): *)
Theorem C12_band_sound : forall tol T o s, band_tol tol T ->
  0 <= o < 2 ^ 64 -> 0 < s < 2 ^ 64 -> in_band tol o s = true ->
  (Rabs (IZR o - IZR s) <= (T + eps50) * IZR s)%R.
Proof. exact band_sound. Qed.
Theorem C12_band_complete : forall tol T o s, band_tol tol T ->
  0 <= o < 2 ^ 64 -> 0 < s < 2 ^ 64 ->
  (Rabs (IZR o - IZR s) <= (T - eps50) * IZR s)%R -> in_band tol o s = true.
Proof. exact band_complete. Qed.
Print Assumptions C12_band_complete.
(* for the band in force today (25 %) and quotes below 2^50 the predicate IS the integer rule *)
Theorem C12_band_25_exact : forall o s, 0 <= o < 2 ^ 53 -> 0 < s < 2 ^ 50 ->
  in_band tol_25 o s = (4 * Z.abs (o - s) <=? s).
Proof. exact band_25_exact. Qed.
(* eps cannot be 0: 1 + 0.001 rounds below 1001/1000, so a quote exactly 0.1 % above is dropped (closed era) ... *)
Example C12_band_01_upper_edge : in_band tol_01 100100 100000 = false /\ in_band tol_01 100099 100000 = true.
Proof. vm_compute. split; reflexivity. Qed.
(* ... and above 2^53 a quote strictly more than 10 % away can be kept *)
Example C12_band_needs_eps : in_band tol_10 6306855386940901 5733504897219000 = true /\
  10 * (6306855386940901 - 5733504897219000) > 5733504897219000.
Proof. exact band_sound_needs_eps. Qed.
Example C12_band_edges :
  in_band tol_10 110000 100000 = true /\ in_band tol_10 110001 100000 = false /\
  in_band tol_25 125000 100000 = true /\ in_band tol_25 125001 100000 = false /\
  in_band tol_25 75000 100000 = true /\ in_band tol_25 74999 100000 = false.
Proof. vm_compute. repeat split; reflexivity. Qed.

Example C12_example :
  exists s m, replay ex_cfg genesis empty_cache ex_chain = Done (s, m) /\
              (exists r, rates s !! 104 = Some r /\ r !! 23 = Some 400000000) /\ rates s !! 103 = None.
Proof. vm_compute. eexists _, _. split; [reflexivity|]. split; [eexists; split; reflexivity|reflexivity]. Qed.
