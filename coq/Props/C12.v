(* Props/C12.v — Recorded rates follow the winning records and are immutable.
   Only statements, each closed by [exact]; proofs live in Lemmas/. *)
From Model Require Import Examples.
From Lemmas Require Import ChainLemmas.
Open Scope Z_scope.

(* Rates once recorded for a height never change: whatever a later block contains, every rate
   map present in the committed database is present, unchanged, afterwards. *)
Theorem C12_rates_immutable : forall c cm mem b s' mem',
  step_block c cm mem b = Done (s', mem') ->
  forall h r, rates cm !! h = Some r -> rates s' !! h = Some r.
Proof. exact step_block_rates_immutable. Qed.
Print Assumptions C12_rates_immutable.

(* A block records rates for no other height than its own. *)
Theorem C12_rates_only_for_own_height : forall c cm mem b s' mem' k,
  k <> b_height b -> step_block c cm mem b = Done (s', mem') -> rates s' !! k = rates cm !! k.
Proof. exact step_block_rates_only_own_height. Qed.
Print Assumptions C12_rates_only_for_own_height.

Example C12_example :
  exists s m, replay ex_cfg genesis empty_cache ex_chain = Done (s, m) /\
              (exists r, rates s !! 104 = Some r /\ r !! 23 = Some 400000000) /\ rates s !! 103 = None.
Proof. vm_compute. eexists _, _. split; [reflexivity|]. split; [eexists; split; reflexivity|reflexivity]. Qed.
