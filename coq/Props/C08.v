(* Props/C08.v — Sync liveness: no chain content can crash the daemon or wedge a block.
   Only statements, each closed by [exact]; proofs live in Lemmas/.

   Full statement (NOT proved for the whole of [step_block]): from every reachable state and for every
   block content [step_block] returns [Done].  Proved: the part a third party controls.  The entries of
   the transaction chain are processed to the end whatever they contain (totality of [apply_tx_block]
   and of the holding pass outside the PEG-bank era), from the invariants [hist_closed] / [bal_room]
   that every reachable state is proved to satisfy; and the exact list of failure codes that remain
   when nothing is assumed about the entries; and, for every height of the live era (from 2.0.2 on), the
   WHOLE block function: [step_block] returns [Done] under named hypotheses (C08_step_block_total), with
   the chain-level corollary.  Not covered by a totality theorem: heights below the 2.0.2 activation
   (PEG bank, legacy snapshot failure, PEG-equation SUM, factoid burns: closed eras, with the recorded
   finding on mixed bank-era batches); those are tied by the adversarial chains run through the real node. *)
From Model Require Import Examples.
From Lemmas Require Import StatusLemmas TotalityLemmas TotalityHolding TotalityInvariant TotalityRange TotalityCodes TotalityExamples TotalityMain TotalityBlockParts TotalityAdjust TotalityBlock TotalityChain TotalityBlockExamples.
Open Scope Z_scope.

(* an entry that does not decode, does not validate, or carries a key type not yet active is skipped *)
Theorem C08_invalid_entry_is_skipped_partial : forall c h s order e,
  entry_valid_at c e h = None -> apply_entry c h s order e = Ok s.
Proof. exact invalid_entry_inert. Qed.
Print Assumptions C08_invalid_entry_is_skipped_partial.

(* an entry written to the chain again — after execution, or while its first copy is pending or was
   rejected — is skipped (this is the repaired behaviour: it used to violate a UNIQUE constraint and
   wedge the block) *)
Theorem C08_executed_entry_is_skipped_partial : forall c h s order e,
  is_replay s (e_hash e) = true -> apply_entry c h s order e = Ok s.
Proof. exact replayed_entry_inert. Qed.
Theorem C08_recorded_entry_is_skipped_partial : forall c h s order e,
  hist_has s (e_hash e) = true -> apply_entry c h s order e = Ok s.
Proof. exact recorded_entry_inert. Qed.
Print Assumptions C08_recorded_entry_is_skipped_partial.

(* a transaction block consisting only of garbage is applied successfully and changes nothing *)
Theorem C08_garbage_block_is_applied_partial : forall c h s es,
  Forall (fun e => entry_valid_at c e h = None) es -> apply_tx_block c h s es = Ok s.
Proof. exact all_invalid_block_inert. Qed.
Print Assumptions C08_garbage_block_is_applied_partial.

(* ---- totality of the transaction-chain processing ------------------------------------------------------------
   [hist_closed s]: every hash with a transaction row or a holding row has a batch row (an invariant of every
   reachable state: C08_reachable_state_ok).  [bal_room s n]: every cell is >= 0 and has room for n more below
   max_int64.  [entry_wf c h e]: IF the entry validates at h, its input tickers are tickers and its signer is not
   the burn address (what the decoder and the signature check guarantee; nothing is asked of entries that do not
   validate).  [block_credit c h es]: the transfers of the valid, conversion-free batches of the block. *)

(* whatever is written on the transaction chain -- garbage, repeated hashes, overdrafts, negative amounts,
   conversions -- the block's entries are processed to the end, from every closed state with room *)
Theorem C08_tx_block_total : forall c h s es n,
  hist_closed s -> Forall (fun e => entry_wf c h e = true) es -> 0 <= n ->
  bal_room s (block_credit c h es + n) ->
  exists s', apply_tx_block c h s es = Ok s' /\ hist_closed s' /\ bal_room s' n.
Proof. exact apply_tx_block_total. Qed.
Print Assumptions C08_tx_block_total.

(* with NO hypothesis on the entries: the only failures left are these four codes; no uniqueness failure,
   no "no rates", no conversion error, no reject code escaping as an error, no panic *)
Theorem C08_tx_block_failure_codes_from_closed : forall c h es s,
  hist_closed s -> fails_within arrival_codes (apply_tx_block c h s es).
Proof. exact apply_tx_block_failures. Qed.
Print Assumptions C08_tx_block_failure_codes_from_closed.

(* the holding pass of a rated block, outside the PEG-bank era (in particular from 2.0 on), cannot fail *)
Theorem C08_holding_total_outside_bank_era : forall c cur rates avgs cm s n,
  outside_bank_era c cur -> is_empty_map rates = false -> rates_nonneg rates -> rates_nonneg avgs ->
  holding_wf_basic c cm cur (holding_window s cur) = true -> 0 <= n ->
  bal_room s (holding_credit c cm cur rates avgs (holding_window s cur) + n) ->
  exists s', apply_holding c cm cur s rates avgs = Ok s' /\ keys s' = keys s /\ bal_room s' n.
Proof. exact apply_holding_total_outside_bank_era. Qed.
Print Assumptions C08_holding_total_outside_bank_era.

(* ... in the bank era too, as long as no held batch carries a PEG request (the recorded finding lives exactly
   in the excluded case: Lemmas/TotalityExamples.v bank_era_mixed_batch_fails) *)
Theorem C08_holding_total : forall c cur rates avgs,
  is_empty_map rates = false -> rates_nonneg rates -> rates_nonneg avgs ->
  forall cm s n, holding_wf c cm cur (holding_window s cur) = true -> bank_row_ready c cur s -> 0 <= n ->
  bal_room s (holding_credit c cm cur rates avgs (holding_window s cur) + n) ->
  exists s', apply_holding c cm cur s rates avgs = Ok s' /\ keys s' = keys s /\ bal_room s' n.
Proof. exact apply_holding_total. Qed.
Print Assumptions C08_holding_total.

(* the two invariants are facts about every state the daemon can reach, not assumptions *)
Theorem C08_reachable_state_ok : forall c bs s m,
  replay c genesis empty_cache bs = Done (s, m) -> hist_closed s /\ bal_room s 0.
Proof. exact reachable_state_ok. Qed.
Print Assumptions C08_reachable_state_ok.

(* so: after ANY chain, the entries of the next block are processed to the end (given room for its transfers) *)
Theorem C08_tx_block_applies_after_any_chain : forall c bs s m h es,
  replay c genesis empty_cache bs = Done (s, m) ->
  Forall (fun e => entry_wf c h e = true) es ->
  (forall a t, get_bal (bal s) a t + block_credit c h es <= max_int64) ->
  exists s', apply_tx_block c h s es = Ok s' /\ hist_closed s' /\ bal_room s' 0.
Proof. exact C08_tx_block_applies. Qed.
Print Assumptions C08_tx_block_applies_after_any_chain.

(* hypotheses satisfiable (a 12-entry block of repeated hashes, garbage, overdrafts, negative amounts on the state
   after the example chain; the holding pass at three heights) and each one necessary: Lemmas/TotalityExamples.v *)
Check apply_tx_block_total_instance.
Check apply_holding_total_instance.
Check holding_then_block_total_instance.
Check bank_era_mixed_batch_fails.
Check burn_signer_fails.
Check full_cell_fails.

(* ---- the whole block function, live era ----------------------------------------------------------------------
   [block_hyps c cm mem b] (Lemmas/TotalityBlock.v; [block_hypsb] is the same as one boolean) names what is asked:
   the block lies in the live era (transaction, 2.0, developer-reward and 2.0.2 activations passed); nothing is
   recorded for its height yet; the grader oracles answer and the winning records carry distinct asset names with
   values below 2^63; decoded batches (arriving and held) have what the decoder and the signature check guarantee;
   the synthetic hashes the block writes are fresh; every stake converts; and there is room below 2^63 for what
   the block credits.  Under these NOTHING on the three chains can make the block fail: it is applied, and the
   invariants hold again. *)
Theorem C08_step_block_total : forall c cm mem b,
  hist_closed cm -> bal_room cm 0 -> block_hyps c cm mem b ->
  exists s' mem', step_block c cm mem b = Done (s', mem') /\ hist_closed s' /\ bal_room s' 0 /\
                  HistoryLemmas3.cache_nonneg mem' /\
                  (forall k, k <> b_height b -> grades s' !! k = grades cm !! k) /\
                  (forall r, In r (winners s') -> In r (winners cm) \/ fst (fst (fst (fst r))) = b_height b).
Proof. exact step_block_total. Qed.
Print Assumptions C08_step_block_total.

(* chains: strictly increasing heights, every block meeting its hypotheses in the state it finds *)
Theorem C08_replay_total : forall c bs h,
  increasing_from h bs -> chain_hyps c genesis empty_cache bs ->
  exists s m, replay c genesis empty_cache bs = Done (s, m) /\ hist_closed s /\ bal_room s 0.
Proof. exact replay_total_genesis. Qed.
Print Assumptions C08_replay_total.

(* hypotheses satisfiable on live-era blocks (unrated, rated with held conversions and hostile entries, both
   snapshot kinds, the three one-time adjustment heights); and for each excluded case the model really is Stuck:
   Lemmas/TotalityBlockExamples.v *)
Check replay_total_live_chain.
Check replay_total_activation_heights.

Example C08_example :
  (* in the example chain entry 601 appears twice in block 102 and an overdraft is attempted in 103:
     every block applies *)
  exists s m, replay ex_cfg genesis empty_cache ex_chain = Done (s, m).
Proof. vm_compute. eexists _, _. reflexivity. Qed.
