(* Props/C08.v — Sync liveness: no chain content can crash the daemon or wedge a block.
   Only statements, each closed by [exact]; proofs live in Lemmas/.

   Full statement (NOT proved for the whole model): from every reachable state and for every block
   content [step_block] returns [Done].  The model has failure results exactly where the code can
   return an error or panic; the theorems below show that the classes of content a third party
   controls on the transaction chain are harmless, and the chain-level tie runs adversarial chains
   through the real node.  What is missing for the full statement is an invariant argument over
   the uniqueness constraints of the history tables and over the int64 domain of the balances. *)
From Model Require Import Examples.
From Lemmas Require Import StatusLemmas.
Open Scope Z_scope.

(* an entry that does not decode, does not validate, or carries a key type not yet active is skipped *)
Theorem C08_invalid_entry_is_skipped_partial : forall c h s order e,
  entry_valid_at c e h = None -> apply_entry c h s order e = Ok s.
Proof. exact invalid_entry_inert. Qed.
Print Assumptions C08_invalid_entry_is_skipped_partial.

(* an entry written to the chain again — after execution, or while its first copy is pending or was
   rejected — is skipped (this is the repaired behaviour: it used to violate a UNIQUE constraint and
   wedge the block) *)
Theorem C08_executed_entry_is_skipped_partial : forall c h s order e,
  is_replay s (e_hash e) = true -> apply_entry c h s order e = Ok s.
Proof. exact replayed_entry_inert. Qed.
Theorem C08_recorded_entry_is_skipped_partial : forall c h s order e,
  hist_has s (e_hash e) = true -> apply_entry c h s order e = Ok s.
Proof. exact recorded_entry_inert. Qed.
Print Assumptions C08_recorded_entry_is_skipped_partial.

(* a transaction block consisting only of garbage is applied successfully and changes nothing *)
Theorem C08_garbage_block_is_applied_partial : forall c h s es,
  Forall (fun e => entry_valid_at c e h = None) es -> apply_tx_block c h s es = Ok s.
Proof. exact all_invalid_block_inert. Qed.
Print Assumptions C08_garbage_block_is_applied_partial.

Example C08_example :
  (* in the example chain entry 601 appears twice in block 102 and an overdraft is attempted in 103:
     every block applies *)
  exists s m, replay ex_cfg genesis empty_cache ex_chain = Done (s, m).
Proof. vm_compute. eexists _, _. reflexivity. Qed.
