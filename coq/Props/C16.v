(* Props/C16.v — PEG conversion bank (legacy era): limit, proportional yield, refund.
   Only statements, each closed by [exact]; proofs live in Lemmas/. *)
From Model Require Import Examples.
From Lemmas Require Import ArithLemmas PayoutLemmas HistoryLemmas4 BankLemmas.
From Gen Require Import Consts.
Open Scope Z_scope.

(* The PEG created by the conversions of one bank never exceeds the bank; every request receives its
   full amount if the total fits, and when it does not the bank is handed out to the last unit. *)
Theorem C16_bank_not_exceeded : forall bank (rs : requests),
  reqs_ok rs -> txids_nodup rs -> 0 <= bank < two64 ->
  sum_snd (payouts bank rs) <= bank /\
  (bank <= total_requested_big rs -> rs <> [] -> sum_snd (payouts bank rs) = bank) /\
  (total_requested_big rs < bank -> payouts bank rs = rs).
Proof. exact payouts_never_exceed_bank. Qed.
Print Assumptions C16_bank_not_exceeded.

(* each proportional share is floor(request * bank / total) (no wrap-around), never more than the bank *)
Theorem C16_share_is_floor : forall req bank total,
  0 <= req <= total -> 0 <= bank < two64 ->
  payout_big req bank total = (if (req =? 0) || (bank =? 0) || (total =? 0) then 0 else req * bank / total) /\
  0 <= payout_big req bank total <= bank.
Proof. exact payout_big_bounds. Qed.
Print Assumptions C16_share_is_floor.

(* the unconverted part is refunded in the source asset so that yield plus refund never exceeds
   the value of the input *)
Theorem C16_refund_bound : forall pip10 inp y ir pr,
  0 <= ir -> 0 <= pr -> 0 <= y ->
  forall maxy, convert pip10 inp ir ir pr pr = Some maxy -> y <= maxy ->
  y * pr + refund pip10 inp y ir pr * ir <= inp * ir.
Proof. exact refund_bound. Qed.
Print Assumptions C16_refund_bound.

(* the yields are a function of the set of requests, not of map iteration order *)
Theorem C16_order_independent : forall bank (a b : requests),
  Permutation.Permutation a b -> List.NoDup (map fst a) -> Permutation.Permutation (payouts bank a) (payouts bank b).
Proof. exact payouts_perm. Qed.
Print Assumptions C16_order_independent.

(* The same at the level of the LEDGER (recordPegnetRequests on entries made of PEG requests): the PEG supply grows
   by exactly the sum of the yields, which is at most the bank (all of it when the requests reach it, exactly what
   was asked below it); from V4OPRUpdate on the bank row keeps its amount and records used = PEG created and
   requested = the total asked for; before, no bank row is written.  For every state, every set of entries. *)
Theorem C16_peg_created_within_bank : forall c h s batches rates avgs bankamt bh s',
  pure_peg_batches batches -> 0 <= bankamt < two64 ->
  record_peg_requests c h s batches rates avgs bankamt bh = Ok s' ->
  let rs := map (fun r => (pr_txid r, pr_amt r)) (reqs_of c h rates avgs batches) in
  supply s' PTickerPEG = supply s PTickerPEG + sum_snd (payouts bankamt rs) /\
  sum_snd (payouts bankamt rs) <= bankamt /\
  (bankamt <= total_requested_big rs -> rs <> [] -> sum_snd (payouts bankamt rs) = bankamt) /\
  (total_requested_big rs < bankamt -> payouts bankamt rs = rs) /\
  (c_V4OPRUpdate c <= bh -> exists amount u q, bank s !! bh = Some (amount, u, q) /\
      bank s' = <[bh := (amount, sum_snd (payouts bankamt rs), total_requested rs)]> (bank s)) /\
  (bh < c_V4OPRUpdate c -> bank s' = bank s).
Proof. exact peg_created_within_bank. Qed.
Print Assumptions C16_peg_created_within_bank.
(* hypotheses satisfiable: two entries asking for more than the 5000 PEG bank create exactly 5000 PEG *)
Check peg_created_within_bank_hyps.

Example C16_example :
  BankBaseAmount = 5000 * 100000000 /\
  sum_snd (payouts BankBaseAmount [((7, 0), 400000000000); ((8, 0), 400000000000); ((9, 1), 1)]) = BankBaseAmount /\
  payouts BankBaseAmount [((7, 0), 100); ((8, 0), 200)] = [((7, 0), 100); ((8, 0), 200)].
Proof. vm_compute. repeat split; reflexivity. Qed.
