(* Props/C11.v — Grading rewards and FCT burns are issued exactly as decided, once.
   Only statements, each closed by [exact]; proofs live in Lemmas/. *)
From Model Require Import Examples.
From Lemmas Require Import RewardLemmas.
From Gen Require Import Consts.
From Coq Require Import String.
Open Scope Z_scope.

(* The reward step pays each winner of the verdict its Payout() at its payout address, in PEG, and
   changes no other cell: after it every balance is the old one plus what the winners naming that
   address are owed (a record whose address does not decode is skipped).  For every verdict. *)
Theorem C11_winners_paid_exactly : forall ts ws s s' a t,
  pay_winners s ts ws = Ok s' ->
  get_bal (bal s') a t = get_bal (bal s) a t + (if t =? PTickerPEG then owed ws a else 0).
Proof. exact pay_winners_exact. Qed.
Print Assumptions C11_winners_paid_exactly.

(* Before 2.0 each valid burn credits exactly its input amount of pFCT to its input address and
   nothing else in a factoid block credits anything. *)
Theorem C11_burns_credited_exactly : forall h fs s s' a t,
  apply_factoid_block h s fs = Ok s' ->
  get_bal (bal s') a t = get_bal (bal s) a t + (if t =? PTickerFCT then burned_by fs a else 0).
Proof. exact factoid_block_exact. Qed.
Print Assumptions C11_burns_credited_exactly.

(* what counts as a burn: exactly one FCT input, no FCT output, one EC output of amount 0 to the burn RCD *)
Theorem C11_burn_shape : forall f a v,
  is_burn f = Some (a, v) -> f_inputs f = [(a, v)] /\ f_outputs f = [] /\ f_ecoutputs f = [(BurnRCD, 0)] /\ 0 <= v.
Proof. exact is_burn_shape. Qed.
Print Assumptions C11_burn_shape.

(* the grader version chosen for a height (the ladder regenerated from node/opr.go and node/spr.go)
   is the protocol's table whenever the activations are in mainnet order *)
Theorem C11_opr_grader_version : forall c h,
  c_GradingV2Activation c <= c_PEGFreeFloatingPriceActivation c <= c_V4OPRUpdate c ->
  c_V4OPRUpdate c <= c_V20HeightActivation c ->
  opr_version c h =
    if c_V20HeightActivation c <=? h then 5 else if c_V4OPRUpdate c <=? h then 4
    else if c_PEGFreeFloatingPriceActivation c <=? h then 3 else if c_GradingV2Activation c <=? h then 2 else opr_version_ladder_init.
Proof. exact opr_version_table. Qed.
Print Assumptions C11_opr_grader_version.
Theorem C11_spr_grader_version : forall c h,
  c_V20HeightActivation c <= c_SprSignatureActivation c <= c_V202EnhanceActivation c ->
  spr_version c h = if c_V202EnhanceActivation c <=? h then 7 else if c_SprSignatureActivation c <=? h then 6 else 5.
Proof. exact spr_version_table. Qed.
Print Assumptions C11_spr_grader_version.

(* the ladders the translator read off the source are the expected ones *)
Example C11_ladders_from_source :
  opr_version_ladder_names = [("GradingV2Activation", 2); ("PEGFreeFloatingPriceActivation", 3); ("V4OPRUpdate", 4); ("V20HeightActivation", 5)]%string /\
  spr_version_ladder_names = [("V20HeightActivation", 5); ("SprSignatureActivation", 6); ("V202EnhanceActivation", 7)]%string /\
  opr_version_ladder_init = 1 /\ spr_version_ladder_init = 5.
Proof. repeat split; reflexivity. Qed.

Example C11_example :
  exists s m, replay ex_cfg genesis empty_cache ex_chain = Done (s, m) /\ get_bal (bal s) bob PTickerPEG = 5 /\
              get_bal (bal s) alice PTickerPEG = 0.
Proof. vm_compute. eexists _, _. repeat split; reflexivity. Qed.
