(* Props/C11.v — Grading rewards and FCT burns are issued exactly as decided, once.
   Only statements, each closed by [exact]; proofs live in Lemmas/. *)
From Model Require Import Examples.
From Lemmas Require Import RewardLemmas NoWinners SprFilter.
From Gen Require Import Consts.
From Coq Require Import String.
Open Scope Z_scope.

(* The reward step pays each winner of the verdict its Payout() at its payout address, in PEG, and
   changes no other cell: after it every balance is the old one plus what the winners naming that
   address are owed (a record whose address does not decode is skipped).  For every verdict. *)
Theorem C11_winners_paid_exactly : forall ts ws s s' a t,
  pay_winners s ts ws = Ok s' ->
  get_bal (bal s') a t = get_bal (bal s) a t + (if t =? PTickerPEG then owed ws a else 0).
Proof. exact pay_winners_exact. Qed.
Print Assumptions C11_winners_paid_exactly.

(* Before 2.0 each valid burn credits exactly its input amount of pFCT to its input address and
   nothing else in a factoid block credits anything. *)
Theorem C11_burns_credited_exactly : forall h fs s s' a t,
  apply_factoid_block h s fs = Ok s' ->
  get_bal (bal s') a t = get_bal (bal s) a t + (if t =? PTickerFCT then burned_by fs a else 0).
Proof. exact factoid_block_exact. Qed.
Print Assumptions C11_burns_credited_exactly.

(* what counts as a burn: exactly one FCT input, no FCT output, one EC output of amount 0 to the burn RCD *)
Theorem C11_burn_shape : forall f a v,
  is_burn f = Some (a, v) -> f_inputs f = [(a, v)] /\ f_outputs f = [] /\ f_ecoutputs f = [(BurnRCD, 0)] /\ 0 <= v.
Proof. exact is_burn_shape. Qed.
Print Assumptions C11_burn_shape.

(* the grader version chosen for a height (the ladder regenerated from node/opr.go and node/spr.go)
   is the protocol's table whenever the activations are in mainnet order *)
Theorem C11_opr_grader_version : forall c h,
  c_GradingV2Activation c <= c_PEGFreeFloatingPriceActivation c <= c_V4OPRUpdate c ->
  c_V4OPRUpdate c <= c_V20HeightActivation c ->
  opr_version c h =
    if c_V20HeightActivation c <=? h then 5 else if c_V4OPRUpdate c <=? h then 4
    else if c_PEGFreeFloatingPriceActivation c <=? h then 3 else if c_GradingV2Activation c <=? h then 2 else opr_version_ladder_init.
Proof. exact opr_version_table. Qed.
Print Assumptions C11_opr_grader_version.
Theorem C11_spr_grader_version : forall c h,
  c_V20HeightActivation c <= c_SprSignatureActivation c <= c_V202EnhanceActivation c ->
  spr_version c h = if c_V202EnhanceActivation c <=? h then 7 else if c_SprSignatureActivation c <=? h then 6 else 5.
Proof. exact spr_version_table. Qed.
Print Assumptions C11_spr_grader_version.

(* Staking records: which SPR-chain entries can be paid at all.  GradeS hands the staking grader exactly the
   entries that carry at least two external ids and whose declared staker id (ExtIDs[1]) is one of the 100 largest
   positive PEG balances of the COMMITTED database; the indices are in chain order, each once ... *)
Theorem C11_spr_entries_handed_to_the_grader : forall cm si i,
  In i (spr_incl cm si) <->
  exists e, nth_error (si_entries si) (Z.to_nat i) = Some e /\ 0 <= i /\ 2 <= se_nexts e /\
            exists a, se_staker e = Some a /\ In a (top100 cm).
Proof. exact spr_incl_spec. Qed.
Print Assumptions C11_spr_entries_handed_to_the_grader.
(* ... the verdict that pays is the grader's verdict for (version of the height, exactly those entries); an entry
   whose staker id is not a top holder is never among them ... *)
Theorem C11_spr_verdict_is_for_the_filtered_entries : forall c cm b v,
  grade_spr c cm b = Done (Some v) ->
  exists si, b_spr b = Some si /\
    find (fun a => (fst (fst a) =? spr_version c (b_height b)) && list_Z_eqb (snd (fst a)) (spr_incl cm si)) (si_alts si)
      = Some (spr_version c (b_height b), spr_incl cm si, Some v) /\
    In (spr_version c (b_height b), spr_incl cm si, Some v) (si_alts si) /\
    (forall i e, 0 <= i -> nth_error (si_entries si) (Z.to_nat i) = Some e ->
       (forall a, se_staker e = Some a -> ~ In a (top100 cm)) -> ~ In i (spr_incl cm si)).
Proof. exact grade_spr_uses_filtered_entries. Qed.
Print Assumptions C11_spr_verdict_is_for_the_filtered_entries.
(* ... and "top holder" means: at most 100 addresses, each with a positive PEG balance, none twice, and an address
   with a positive balance is left out only when 100 others hold at least as much. *)
Theorem C11_top_holders : forall cm,
  (List.length (top100 cm) <= 100)%nat /\
  List.NoDup (top100 cm) /\
  (forall a, In a (top100 cm) -> 0 < get_bal (bal cm) a PTickerPEG) /\
  (forall a, 0 < get_bal (bal cm) a PTickerPEG -> ~ In a (top100 cm) ->
     List.length (top100 cm) = 100%nat /\
     forall a', In a' (top100 cm) -> get_bal (bal cm) a' PTickerPEG >= get_bal (bal cm) a PTickerPEG).
Proof. exact top100_spec. Qed.
Print Assumptions C11_top_holders.
(* Before 2.0 the SPR chain plays no part in a block at all, and from 2.0 on an SPR verdict without winners ("blocks
   without enough valid records") changes nothing in the block: the whole block function returns what it returns
   without the SPR entries — nobody is paid and no rates come from them. *)
Theorem C11_spr_ignored_before_v20 : forall c cm mem b s,
  b_height b < c_V20HeightActivation c ->
  sync_block c cm mem b s =
  sync_block c cm mem {| b_height := b_height b; b_ts := b_ts b; b_opr := b_opr b; b_spr := None;
                         b_tx := b_tx b; b_factoid := b_factoid b |} s.
Proof. exact sync_block_ignores_spr_before_v20. Qed.
Theorem C11_spr_without_winners_pays_nothing : forall c cm mem b s g,
  grade_spr c cm b = Done g -> no_winners g -> grade_spr_err c cm b = false ->
  sync_block c cm mem b s = sync_block c cm mem (without_spr b) s.
Proof. exact sync_block_spr_no_winners_is_no_spr. Qed.
Print Assumptions C11_spr_without_winners_pays_nothing.
(* (The signature of a staking record is verified inside the staking grader, an oracle here; that the declared id is
   not bound to the signing key is the behaviour listed in DESIGN.md section 15.) *)

(* the ladders the translator read off the source are the expected ones *)
Example C11_ladders_from_source :
  opr_version_ladder_names = [("GradingV2Activation", 2); ("PEGFreeFloatingPriceActivation", 3); ("V4OPRUpdate", 4); ("V20HeightActivation", 5)]%string /\
  spr_version_ladder_names = [("V20HeightActivation", 5); ("SprSignatureActivation", 6); ("V202EnhanceActivation", 7)]%string /\
  opr_version_ladder_init = 1 /\ spr_version_ladder_init = 5.
Proof. repeat split; reflexivity. Qed.

Example C11_example :
  exists s m, replay ex_cfg genesis empty_cache ex_chain = Done (s, m) /\ get_bal (bal s) bob PTickerPEG = 5 /\
              get_bal (bal s) alice PTickerPEG = 0.
Proof. vm_compute. eexists _, _. repeat split; reflexivity. Qed.
