(* Props/C19.v — Version lock: a database synced across a hard fork by an old build is refused.
   Only statements, each closed by [exact]; proofs live in Lemmas/ForksLemmas.v, the model in
   Model/Forks.v (check_hard_forks, sessions, the ghost log [synced_log] of which build really
   synced which height).

   Reading guide.  [refuses forks base h cur]: after the history h (a list of sessions
   (build, blocks), each tracked session itself starting with the real check and syncing
   nothing when refused) on a fresh database whose first block is base+1, the start-up of a
   build with sync version cur is refused by CheckHardForks.  An untracked build is recorded
   by the code's back-fill as version -1; the table entry {0, -1} therefore lets it pass, which is
   the conjunct [0 <= m] below.

   Hypotheses, all needed (witnesses in Refuted/C19.v):
     0 <= base                       heights are uint32; COALESCE(min(height), 0)
     base < A \/ m <= -1             a fork at or below the base height that demands a version
                                     gets a -1 row from the back-fill on ANY database (and is
                                     checked on an empty one): every database would be refused
     -1 <= cur                       COALESCE(MAX(version), -1)
     untracked_first h               (for "if" only) an untracked build that syncs blocks AFTER a
                                     tracked build leaves heights without rows that nothing
                                     ever notices: version_lock_iff_any_order_refuted *)
From Coq Require Import ZArith List Bool.
From Model Require Import Base Forks.
From Gen Require Consts.
From Lemmas Require Import ForksLemmas.
Open Scope Z_scope.

(* For all fork tables and all histories (unbounded): refused if and only if some block at or
   above a fork height was synced by a build older than the fork requires (or untracked), or
   some block was synced by a newer build than the one starting. *)
Theorem C19_version_lock_iff : forall (forks : list (Z * Z)) (base : Z) (h : list session) (cur : Z),
  0 <= base ->
  (forall A m, In (A, m) forks -> base < A \/ m <= -1) ->
  -1 <= cur ->
  untracked_first h = true ->
  (refuses forks base h cur = true <->
   (exists A m b, In (A, m) forks /\ A <= b /\
      ((In (b, Untracked) (synced_log forks base h) /\ 0 <= m) \/
       (exists v, In (b, Tracked v) (synced_log forks base h) /\ v < m)))
   \/ (exists b v, In (b, Tracked v) (synced_log forks base h) /\ cur < v)).
Proof. exact version_lock_iff. Qed.
Print Assumptions C19_version_lock_iff.

(* "only if" for EVERY history, in whatever order tracked and untracked builds ran: a refusal
   is always justified *)
Theorem C19_refusal_justified : forall (forks : list (Z * Z)) (base : Z) (h : list session) (cur : Z),
  0 <= base ->
  (forall A m, In (A, m) forks -> base < A \/ m <= -1) ->
  -1 <= cur ->
  refuses forks base h cur = true ->
  (exists A m b, In (A, m) forks /\ A <= b /\
      ((In (b, Untracked) (synced_log forks base h) /\ 0 <= m) \/
       (exists v, In (b, Tracked v) (synced_log forks base h) /\ v < m)))
  \/ (exists b v, In (b, Tracked v) (synced_log forks base h) /\ cur < v).
Proof. exact version_lock_refusal_justified. Qed.
Print Assumptions C19_refusal_justified.

(* "Databases synced entirely with adequate builds are always accepted": every history *)
Theorem C19_adequate_always_accepted : forall (forks : list (Z * Z)) (base : Z) (h : list session) (cur : Z),
  0 <= base ->
  (forall A m, In (A, m) forks -> base < A \/ m <= -1) ->
  -1 <= cur ->
  (forall b bld, In (b, bld) (synced_log forks base h) ->
     bver bld <= cur /\ forall A m, In (A, m) forks -> A <= b -> m <= bver bld) ->
  accepts forks base h cur = true.
Proof. exact adequate_always_accepted. Qed.
Print Assumptions C19_adequate_always_accepted.

(* the same for the fork table, base height and sync version that the repository carries now
   (regenerated into Gen/Consts.v on every run): the hypotheses on them are discharged by
   computation *)
Theorem C19_version_lock_iff_repo_table : forall (h : list session),
  untracked_first h = true ->
  let lg := synced_log Consts.hardforks Consts.PegnetActivation h in
  (refuses Consts.hardforks Consts.PegnetActivation h Consts.PegnetdSyncVersion = true <->
   (exists A m b, In (A, m) Consts.hardforks /\ A <= b /\
      ((In (b, Untracked) lg /\ 0 <= m) \/ (exists v, In (b, Tracked v) lg /\ v < m)))
   \/ (exists b v, In (b, Tracked v) lg /\ Consts.PegnetdSyncVersion < v)).
Proof. exact version_lock_iff_repo_table. Qed.
Print Assumptions C19_version_lock_iff_repo_table.

(* the executable oracle used on the implementation's verdicts (Corr/Forks.v) is the
   right-hand side of the theorem *)
Theorem C19_oracle_is_the_characterisation : forall forks cur lg,
  charb forks cur lg = true <-> below_fork forks lg \/ newer_build cur lg.
Proof. exact charb_spec. Qed.
Print Assumptions C19_oracle_is_the_characterisation.

(* the ghost log is what it is meant to be: a block commit never fails from a reachable
   state, so a session that starts syncs all its blocks *)
Theorem C19_commit_never_conflicts : forall base b st,
  inv base st -> exists st', sync_block base b st = Some st'.
Proof. exact sync_block_total. Qed.
Print Assumptions C19_commit_never_conflicts.

(* before the repair (bs.Synced > ActivationHeight): a legacy database synced exactly to a fork
   height was accepted although the fork block was applied by the untracked build *)
Theorem C19_pre_repair_accepted_fork_height :
  exists forks base h cur,
    0 <= base /\ forks_wf base forks /\ -1 <= cur /\ untracked_first h = true /\
    below_fork_lit forks (snd (run_history_legacy forks base h)) /\
    accepts_legacy forks base h cur = true /\
    accepts forks base h cur = false.
Proof. exact legacy_check_accepted_fork_height. Qed.
Print Assumptions C19_pre_repair_accepted_fork_height.

(* ---- non-vacuity ------------------------------------------------------------------------- *)
Definition ex_forks : list (Z * Z) := [(0, -1); (12, 1); (14, 2)].

(* the hypotheses are satisfiable together, on a table with real forks *)
Example C19_hypotheses_example :
  0 <= 10 /\ (forall A m, In (A, m) ex_forks -> 10 < A \/ m <= -1) /\ -1 <= 2 /\
  untracked_first [(Untracked, 1%nat); (Tracked 1, 2%nat); (Tracked 2, 3%nat)] = true.
Proof.
  split; [discriminate|]. split; [apply forks_wfb_spec; vm_compute; reflexivity|].
  split; [discriminate|reflexivity].
Qed.

(* upgraded in time across both forks (legacy start, then build 1, then build 2): accepted,
   and the log holds the six blocks with the builds that synced them *)
Example C19_accept_example :
  refuses ex_forks 10 [(Untracked, 1%nat); (Tracked 1, 2%nat); (Tracked 2, 3%nat)] 2 = false /\
  synced_log ex_forks 10 [(Untracked, 1%nat); (Tracked 1, 2%nat); (Tracked 2, 3%nat)]
  = [(16, Tracked 2); (15, Tracked 2); (14, Tracked 2); (13, Tracked 1); (12, Tracked 1); (11, Untracked)].
Proof. split; vm_compute; reflexivity. Qed.

(* the fork block 14 synced by build 1: refused, for the reason the theorem names *)
Example C19_refuse_old_build_example :
  refuses ex_forks 10 [(Tracked 1, 4%nat)] 2 = true /\
  In (14, 2) ex_forks /\ In (14, Tracked 1) (synced_log ex_forks 10 [(Tracked 1, 4%nat)]).
Proof. split; [vm_compute; reflexivity|]. split; vm_compute; tauto. Qed.

(* legacy database synced exactly to the fork height 12 (the repaired case): refused, and the
   refusal persists: the next tracked session syncs nothing *)
Example C19_refuse_legacy_at_fork_height_example :
  refuses ex_forks 10 [(Untracked, 2%nat)] 1 = true /\
  In (12, Untracked) (synced_log ex_forks 10 [(Untracked, 2%nat)]) /\
  synced_log ex_forks 10 [(Untracked, 2%nat); (Tracked 1, 5%nat)] = [(12, Untracked); (11, Untracked)].
Proof. split; [vm_compute; reflexivity|]. split; [vm_compute; tauto|vm_compute; reflexivity]. Qed.

(* downgrade: blocks synced by build 2, build 1 starts *)
Example C19_refuse_downgrade_example :
  refuses ex_forks 10 [(Tracked 2, 1%nat)] 1 = true /\
  In (11, Tracked 2) (synced_log ex_forks 10 [(Tracked 2, 1%nat)]).
Proof. split; [vm_compute; reflexivity|vm_compute; tauto]. Qed.

(* adequate builds throughout: the premise of C19_adequate_always_accepted holds of a real history *)
Example C19_adequate_example :
  forall b bld, In (b, bld) (synced_log ex_forks 10 [(Tracked 0, 1%nat); (Tracked 1, 2%nat); (Tracked 2, 3%nat)]) ->
    bver bld <= 2 /\ forall A m, In (A, m) ex_forks -> A <= b -> m <= bver bld.
Proof.
  intros b bld H. vm_compute in H.
  repeat (destruct H as [H|H]; [inversion H; subst; clear H; split; [discriminate|];
    intros A m Hf Hle; vm_compute in Hf;
    repeat (destruct Hf as [Hf|Hf]; [inversion Hf; subst; clear Hf; cbn; lia|]); destruct Hf|]).
  destruct H.
Qed.

(* the repository's own table, base height and sync version satisfy the hypotheses *)
Example C19_repo_table_example :
  0 <= Consts.PegnetActivation /\
  forks_wfb Consts.PegnetActivation Consts.hardforks = true /\
  -1 <= Consts.PegnetdSyncVersion.
Proof. exact repo_table_wellformed. Qed.

(* a reachable state for C19_commit_never_conflicts *)
Example C19_inv_example : inv 10 (run_history ex_forks 10 [(Untracked, 1%nat); (Tracked 1, 2%nat)]).
Proof. exact (run_history_inv ex_forks 10 _). Qed.
