(* Props/C01.v — Deterministic replay: same chain, same ledger.
   Only statements, each closed by [exact]; proofs live in Lemmas/. *)
From Model Require Import Examples.
From Lemmas Require Import PayoutLemmas SitesC01.
From Model Require Import SitesSpec.
From Gen Require Import Consts Sites.
Open Scope Z_scope.

(* The model of a block is a function: the replay of a chain is determined by the chain (the model
   has no hidden input: no clock, no iteration order).  What has to be shown is that the places
   where the CODE iterates over a Go map or sorts cannot make its result depend on the order. *)

(* (1) the proportional payout with dust (staking payouts, PEG bank yields) is a function of the SET
   of requests: every enumeration of the same map gives every txid the same payout; the dust goes
   to the unique maximum under (amount, then txid order) *)
Theorem C01_payouts_order_independent : forall bank (a b : requests),
  Permutation.Permutation a b -> List.NoDup (map fst a) -> Permutation.Permutation (payouts bank a) (payouts bank b).
Proof. exact payouts_perm. Qed.
Print Assumptions C01_payouts_order_independent.
Theorem C01_dust_recipient_unique : forall (a b : requests),
  Permutation.Permutation a b -> List.NoDup (map fst a) -> dust_winner a = dust_winner b.
Proof. exact dust_winner_perm. Qed.
Print Assumptions C01_dust_recipient_unique.

(* (1b) the staking list: stakes are collected from a Go map and sorted; since the repair equal stakes
   are ordered by address, so the sorted list — whose positions become the payout txids and decide
   the dust recipient — is the same for every enumeration of the map *)
Theorem C01_staking_order_independent : forall (a b : list (addr * Z)),
  Permutation.Permutation a b -> List.NoDup (map fst a) -> sort_stakes a = sort_stakes b.
Proof. exact sort_stakes_order_independent. Qed.
Print Assumptions C01_staking_order_independent.

(* (2) the source has no other iteration over a map, and no other sort, in the code reachable from
   block application than the ones reviewed (regenerated from /repo on every run) *)
Theorem C01_no_unreviewed_map_iteration : forallb (fun k => mem2 k expected_map_ranges) map_range_keys = true.
Proof. exact map_ranges_expected. Qed.
Theorem C01_no_unreviewed_sort : forallb (fun k => mem2 k expected_sort_calls) sort_call_keys = true.
Proof. exact sort_calls_expected. Qed.

Example C01_example :
  payouts 10 [((1, 0), 7); ((2, 0), 7); ((1, 1), 7)] = [((1, 0), 4); ((2, 0), 3); ((1, 1), 3)] /\
  Permutation.Permutation (payouts 10 [((2, 0), 7); ((1, 1), 7); ((1, 0), 7)]) [((1, 0), 4); ((2, 0), 3); ((1, 1), 3)].
Proof.
  split; [vm_compute; reflexivity|]. vm_compute.
  apply Permutation.perm_trans with [((1, 1), 3); ((2, 0), 3); ((1, 0), 4)]; [apply Permutation.perm_swap|].
  apply Permutation.perm_trans with [((1, 1), 3); ((1, 0), 4); ((2, 0), 3)]; [apply Permutation.perm_skip, Permutation.perm_swap|].
  apply Permutation.perm_trans with [((1, 0), 4); ((1, 1), 3); ((2, 0), 3)]; [apply Permutation.perm_swap|].
  apply Permutation.perm_skip, Permutation.perm_swap.
Qed.
