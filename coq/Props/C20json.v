(* Props/C20json.v — Canonical encoding of FAT-2 batch contents (the JSON part of C20).
   Only statements, each closed by [exact]; proofs live in Lemmas/CodecLemmas.v.

   (a) accepted_is_canonical is proved at full strength, for ALL byte strings and every base58
   oracle: whatever UnmarshalJSON + ValidData accept parses to an object with exactly the
   members version (the literal 1) and transactions (a non-empty array); every transaction has
   exactly input and one of transfers (non-empty array) / conversion, plus optional metadata;
   every tuple exactly address, amount (and type); no unknown and no duplicate key at any level;
   tickers written exactly as one of the 62 names.  The tolerated variations are the ones written
   into [canon_*] in Model/Codec.v and nothing else: ASCII case of key letters, member order,
   inter-token white space, escapes inside an address string, the literal null in place of an
   address or an amount (decoded as the zero address / 0), arbitrary metadata values, and --
   below the JSON layer -- alternative base58 spellings of one address (oracle; see the report).
   (b) the round trip decode (encode b) = Some b is proved in Props/C20roundtrip.v (parser round
   trip parse_json (print j) = Some j included); Model.Codec.encode is in addition compared with
   json.Marshal, and Go's own re-encoding is re-decoded, on every accepted case of the
   correspondence run (Corr.Codec.json_agrees / json_canonical_on). *)
From Coq Require Import ZArith List Bool.
From Model Require Import Codec Db.
From Lemmas Require Import CodecLemmas.
From Gen Require Import Consts.
Import ListNotations.
Open Scope Z_scope.

(* The heart: for field names that are pairwise different lower-case ASCII words, what the
   struct decoder accounts for (last member per field, name length + 4 + raw value length) never
   exceeds the real length of the members, and equality forces the canonical member shape. *)
Theorem C20_length_accounting : forall names : list bytes,
  NoDup names -> Forall plain_name names -> forall ms,
  (asum names ms <= wsum ms)%nat /\ (asum names ms = wsum ms -> canon_members names ms = true).
Proof. intros names ND PL ms. split; [apply asum_le_wsum; assumption|apply asum_eq_canon; assumption]. Qed.
Print Assumptions C20_length_accounting.

(* a raw key that encoding/json matches to a field name (after unescaping and Unicode case
   folding, U+017F and U+212A included) is at least as long as the name; equal length only for
   an ASCII-case variant *)
Theorem C20_matched_key_length : forall name raw, plain_name name -> key_is name raw = true ->
  (length name <= length raw)%nat /\ (length name = length raw -> lower_key raw = name).
Proof. exact key_is_length. Qed.
Print Assumptions C20_matched_key_length.

(* the parser only keeps well-formed raw texts (numbers in JSON syntax, strings without bare quotes) *)
Theorem C20_parser_keeps_wellformed : forall s j, parse_json s = Some j -> wf_jv j = true.
Proof. exact parse_json_wf. Qed.
Print Assumptions C20_parser_keeps_wellformed.

(* level by level, on parsed values *)
Theorem C20_tuple_canonical : forall addr_of_text j tr, wf_jv j = true ->
  decode_tuple addr_of_text j = Some tr -> canon_tuple j = true.
Proof. exact decode_tuple_canonical. Qed.
Print Assumptions C20_tuple_canonical.

Theorem C20_input_canonical : forall addr_of_text j a n t, wf_jv j = true ->
  decode_typed_tuple addr_of_text j = Some (a, n, t) -> 0 < t ->
  canon_input j = true /\ t < PTickerMax /\ 0 <= n <= max_uint64.
Proof. exact decode_typed_tuple_canonical. Qed.
Print Assumptions C20_input_canonical.

Theorem C20_transaction_canonical : forall addr_of_text j t, wf_jv j = true ->
  decode_transaction addr_of_text j = Some t -> tx_validate t = true -> canon_tx j = true.
Proof. exact decode_transaction_canonical. Qed.
Print Assumptions C20_transaction_canonical.

Theorem C20_batch_canonical : forall addr_of_text j b, wf_jv j = true ->
  decode_batch_j addr_of_text j = Some b -> valid_data b = true -> canon_batch j = true.
Proof. exact decode_batch_canonical. Qed.
Print Assumptions C20_batch_canonical.

(* (a) for every byte string offered as batch content *)
Theorem C20_accepted_is_canonical : forall (addr_of_text : bytes -> option Z) (bytes : bytes) (b : batch),
  decode_batch addr_of_text bytes = Some b -> valid_data b = true -> canonical_bytes bytes = true.
Proof. exact accepted_is_canonical. Qed.
Print Assumptions C20_accepted_is_canonical.

(* what Validate establishes for every transaction of an accepted batch *)
Theorem C20_tx_validate_facts : forall t, tx_validate t = true ->
  tx_addr t <> Fat2CoinbaseAddress /\
  0 < tx_type t < PTickerMax /\
  ( (tx_transfers t <> [] /\ tx_conv t <= 0 /\ sum_transfers (tx_transfers t) = tx_amt t)
    \/ (tx_transfers t = [] /\ tx_conv t <> 0 /\ tx_conv t <> tx_type t /\
        (0 < tx_conv t < PTickerMax \/ tx_amt t = 0)) ).
Proof. exact tx_validate_spec. Qed.
Print Assumptions C20_tx_validate_facts.

Theorem C20_valid_data_facts : forall b, valid_data b = true ->
  b_version b = 1 /\ b_txs b <> [] /\
  Forall (fun t => tx_validate t = true) (b_txs b) /\
  exists a, Forall (fun t => tx_addr t = a) (b_txs b).
Proof. exact valid_data_spec. Qed.
Print Assumptions C20_valid_data_facts.

Theorem C20_input_amounts_within_int64 : forall b, inputs_within_int64 b = true ->
  Forall (fun t => tx_amt t <= max_int64) (b_txs b).
Proof. exact inputs_within_int64_spec. Qed.
Print Assumptions C20_input_amounts_within_int64.

Theorem C20_pegtx_no_peg_conversion : forall b, validate_peg_tx b = true ->
  valid_data b = true /\ Forall (fun t => tx_conv t <> PTickerPEG) (b_txs b).
Proof. exact validate_peg_tx_spec. Qed.
Print Assumptions C20_pegtx_no_peg_conversion.

(* ---- non-vacuity ------------------------------------------------------------------- *)
Definition ex_addr_text : bytes := [70; 65; 51; 90; 116; 71; 84; 117; 78; 116; 66; 68; 117; 78; 67; 119; 112; 78; 86; 110; 105; 80; 76; 74; 118; 49; 103; 114; 90; 99; 122; 110; 115; 90; 75; 122; 109; 100; 52; 70; 90; 118; 50; 84; 100; 107; 99; 101; 66; 50; 101; 102].
Definition ex_oracle (t : bytes) : option Z := if beq t ex_addr_text then Some 77 else None.
(* {"version":1,"transactions":[{"input":{"address":"FA3ZtGTuNtBDuNCwpNVniPLJv1grZcznsZKzmd4FZv2TdkceB2ef","amount":5,"type":"pUSD"},"conversion":"PEG"}]} *)
Definition ex_good : bytes := [123; 34; 118; 101; 114; 115; 105; 111; 110; 34; 58; 49; 44; 34; 116; 114; 97; 110; 115; 97; 99; 116; 105; 111; 110; 115; 34; 58; 91; 123; 34; 105; 110; 112; 117; 116; 34; 58; 123; 34; 97; 100; 100; 114; 101; 115; 115; 34; 58; 34; 70; 65; 51; 90; 116; 71; 84; 117; 78; 116; 66; 68; 117; 78; 67; 119; 112; 78; 86; 110; 105; 80; 76; 74; 118; 49; 103; 114; 90; 99; 122; 110; 115; 90; 75; 122; 109; 100; 52; 70; 90; 118; 50; 84; 100; 107; 99; 101; 66; 50; 101; 102; 34; 44; 34; 97; 109; 111; 117; 110; 116; 34; 58; 53; 44; 34; 116; 121; 112; 101; 34; 58; 34; 112; 85; 83; 68; 34; 125; 44; 34; 99; 111; 110; 118; 101; 114; 115; 105; 111; 110; 34; 58; 34; 80; 69; 71; 34; 125; 93; 125].
(* the same batch with upper-case keys, members reordered, white space and an escaped address character *)
Definition ex_variation : bytes := [32; 123; 34; 84; 82; 65; 78; 83; 65; 67; 84; 73; 79; 78; 83; 34; 58; 32; 91; 123; 34; 99; 111; 110; 118; 101; 114; 115; 105; 111; 110; 34; 58; 34; 80; 69; 71; 34; 44; 34; 73; 110; 112; 117; 116; 34; 58; 123; 34; 116; 121; 112; 101; 34; 58; 34; 112; 85; 83; 68; 34; 44; 34; 97; 109; 111; 117; 110; 116; 34; 58; 53; 44; 34; 97; 100; 100; 114; 101; 115; 115; 34; 58; 34; 92; 117; 48; 48; 52; 54; 65; 51; 90; 116; 71; 84; 117; 78; 116; 66; 68; 117; 78; 67; 119; 112; 78; 86; 110; 105; 80; 76; 74; 118; 49; 103; 114; 90; 99; 122; 110; 115; 90; 75; 122; 109; 100; 52; 70; 90; 118; 50; 84; 100; 107; 99; 101; 66; 50; 101; 102; 34; 125; 125; 93; 44; 10; 34; 118; 101; 114; 115; 105; 111; 110; 34; 58; 49; 125].
(* type dropped and 28 junk bytes added: the length check passes (ticker 0), Validate refuses *)
Definition ex_compensated : bytes := [123; 34; 118; 101; 114; 115; 105; 111; 110; 34; 58; 49; 44; 34; 116; 114; 97; 110; 115; 97; 99; 116; 105; 111; 110; 115; 34; 58; 91; 123; 34; 105; 110; 112; 117; 116; 34; 58; 123; 34; 97; 100; 100; 114; 101; 115; 115; 34; 58; 34; 70; 65; 51; 90; 116; 71; 84; 117; 78; 116; 66; 68; 117; 78; 67; 119; 112; 78; 86; 110; 105; 80; 76; 74; 118; 49; 103; 114; 90; 99; 122; 110; 115; 90; 75; 122; 109; 100; 52; 70; 90; 118; 50; 84; 100; 107; 99; 101; 66; 50; 101; 102; 34; 44; 34; 97; 109; 111; 117; 110; 116; 34; 58; 53; 44; 34; 120; 34; 58; 34; 120; 120; 120; 120; 120; 120; 120; 120; 120; 120; 120; 120; 120; 120; 120; 120; 120; 120; 120; 120; 120; 34; 125; 44; 34; 99; 111; 110; 118; 101; 114; 115; 105; 111; 110; 34; 58; 34; 80; 69; 71; 34; 125; 93; 125].
Definition ex_duplicate : bytes := [123; 34; 118; 101; 114; 115; 105; 111; 110; 34; 58; 49; 44; 34; 118; 101; 114; 115; 105; 111; 110; 34; 58; 49; 44; 34; 116; 114; 97; 110; 115; 97; 99; 116; 105; 111; 110; 115; 34; 58; 91; 123; 34; 105; 110; 112; 117; 116; 34; 58; 123; 34; 97; 100; 100; 114; 101; 115; 115; 34; 58; 34; 70; 65; 51; 90; 116; 71; 84; 117; 78; 116; 66; 68; 117; 78; 67; 119; 112; 78; 86; 110; 105; 80; 76; 74; 118; 49; 103; 114; 90; 99; 122; 110; 115; 90; 75; 122; 109; 100; 52; 70; 90; 118; 50; 84; 100; 107; 99; 101; 66; 50; 101; 102; 34; 44; 34; 97; 109; 111; 117; 110; 116; 34; 58; 53; 44; 34; 116; 121; 112; 101; 34; 58; 34; 112; 85; 83; 68; 34; 125; 44; 34; 99; 111; 110; 118; 101; 114; 115; 105; 111; 110; 34; 58; 34; 80; 69; 71; 34; 125; 93; 125].

Example C20_example_accepted :
  option_map valid_data (decode_batch ex_oracle ex_good) = Some true /\ canonical_bytes ex_good = true.
Proof. vm_compute. split; reflexivity. Qed.
Example C20_example_variation_accepted :
  decode_batch ex_oracle ex_variation = decode_batch ex_oracle ex_good /\ canonical_bytes ex_variation = true.
Proof. vm_compute. split; reflexivity. Qed.
Example C20_example_length_compensation_rejected_by_validate :
  option_map valid_data (decode_batch ex_oracle ex_compensated) = Some false /\ canonical_bytes ex_compensated = false.
Proof. vm_compute. split; reflexivity. Qed.
Example C20_example_duplicate_key_rejected : decode_batch ex_oracle ex_duplicate = None.
Proof. vm_compute. reflexivity. Qed.
