(* Props/C17.v — History and status tell the truth about the ledger.
   Only statements, each closed by [exact]; proofs live in Lemmas/. *)
From Model Require Import Examples.
From Lemmas Require Import StatusLemmas LedgerLemmas.
From Corr Require Import Chain.
Open Scope Z_scope.

(* a batch that is rejected gets exactly the (negative) reject code as its status and no balance moves *)
Theorem C17_rejected_status_and_no_effect : forall c cur rates avgs s e hh txs code,
  entry_valid_at c e hh = Some txs -> ((c_V20HeightActivation c <=? cur) && has_peg_conversion txs) = false ->
  (exists t, entry_valid_at c e cur = Some t) -> is_replay s (e_hash e) = false ->
  apply_batch c cur s (e_hash e) txs rates avgs = BRejected code ->
  exists s', apply_held c cur rates avgs s e hh = Ok (s', false) /\ bal s' = bal s /\
             Forall (fun x => x = code) (status_of s' (e_hash e)).
Proof. exact rejected_held_status. Qed.
Print Assumptions C17_rejected_status_and_no_effect.

(* effects only with an execution: whenever a held batch changes a balance the complete batch was
   recorded (and recording sets the status to the executing height) *)
Theorem C17_effects_only_when_executed : forall c cur rates avgs s e hh s' isp,
  apply_held c cur rates avgs s e hh = Ok (s', isp) ->
  bal s' = bal s \/ exists txs, entry_valid_at c e hh = Some txs /\ record_batch c cur (e_hash e) rates avgs txs s = Ok s'.
Proof. exact apply_held_all_or_nothing. Qed.
Print Assumptions C17_effects_only_when_executed.

(* paging: the data query is the count query's predicate with LIMIT/OFFSET over a fixed order;
   following nextoffset page by page returns every matching action exactly once, in order *)
Theorem C17_paging_exact : forall (A : Type) (l : list A) (lim : nat), (0 < lim)%nat -> pages (S (length l)) l 0 lim = l.
Proof. exact @paging_exact. Qed.
Print Assumptions C17_paging_exact.

(* replaying the recorded history reproduces the balances: checked on the model's own example ... *)
Example C17_history_replays_on_the_model :
  match replay ex_cfg genesis empty_cache ex_chain with
  | Done (s, _) => impl_history_replays (c_V202EnhanceActivation ex_cfg) [] (sort_rows (dump_db s)) = true
  | _ => False
  end.
Proof. vm_compute. reflexivity. Qed.
(* ... and, by the same executable oracle, on every dump the real node produces (bin/props/c17.py). *)
Example C17_status_example :
  exists s m, replay ex_cfg genesis empty_cache ex_chain = Done (s, m) /\
              status_of s 601 = [102] /\ status_of s 602 = [104] /\ status_of s 603 = [-1].
Proof. vm_compute. eexists _, _. repeat split; reflexivity. Qed.
