(* Props/C17.v — History and status tell the truth about the ledger.
   Only statements, each closed by [exact]; proofs live in Lemmas/. *)
From Model Require Import Examples.
From Model Require Import Api.
From Lemmas Require Import StatusLemmas LedgerLemmas HistoryLemmas HistoryLemmas2 HistoryLemmas3 HistoryLemmas4 ApiLemmas ApiReflect ApiInvariant.
From Corr Require Import Chain.
Open Scope Z_scope.

(* a batch that is rejected gets exactly the (negative) reject code as its status and no balance moves *)
Theorem C17_rejected_status_and_no_effect : forall c cur rates avgs s e hh txs code,
  entry_valid_at c e hh = Some txs -> ((c_V20HeightActivation c <=? cur) && has_peg_conversion txs) = false ->
  (exists t, entry_valid_at c e cur = Some t) -> is_replay s (e_hash e) = false ->
  apply_batch c cur s (e_hash e) txs rates avgs = BRejected code ->
  exists s', apply_held c cur rates avgs s e hh = Ok (s', false) /\ bal s' = bal s /\
             Forall (fun x => x = code) (status_of s' (e_hash e)).
Proof. exact rejected_held_status. Qed.
Print Assumptions C17_rejected_status_and_no_effect.

(* effects only with an execution: whenever a held batch changes a balance the complete batch was
   recorded (and recording sets the status to the executing height) *)
Theorem C17_effects_only_when_executed : forall c cur rates avgs s e hh s' isp,
  apply_held c cur rates avgs s e hh = Ok (s', isp) ->
  bal s' = bal s \/ exists txs, entry_valid_at c e hh = Some txs /\ record_batch c cur (e_hash e) rates avgs txs s = Ok s'.
Proof. exact apply_held_all_or_nothing. Qed.
Print Assumptions C17_effects_only_when_executed.

(* paging: the data query is the count query's predicate with LIMIT/OFFSET over a fixed order;
   following nextoffset page by page returns every matching action exactly once, in order *)
Theorem C17_paging_exact : forall (A : Type) (l : list A) (lim : nat), (0 < lim)%nat -> pages (S (length l)) l 0 lim = l.
Proof. exact @paging_exact. Qed.
Print Assumptions C17_paging_exact.


(* ---- the history queries of the API (Model/Api.v: historyQueryBuilder / historySelectHelper) -------------------------
   [hist_wf s]: one batch row per hash, the primary keys of the transaction and lookup tables, every lookup row has its
   transaction row and every transaction row its batch row.  Under it the count the API reports is the number of actions
   the data query yields, for every field, filter and order ... *)
Theorem C17_api_count_is_the_number_of_actions : forall s q, hist_wf s -> query_count s q = length (query_all s q).
Proof. exact count_is_length. Qed.
Print Assumptions C17_api_count_is_the_number_of_actions.
(* ... following the pages from offset 0 (LIMIT 50, next offset while below the count) returns every matching action
   exactly once, in order, nothing twice and nothing left out ... *)
Theorem C17_api_pages_return_everything_once : forall s q fuel,
  hist_wf s -> (S (length (query_all s q)) <= fuel)%nat -> walk_pages fuel s q 0 = query_all s q.
Proof. exact walk_pages_all_wf. Qed.
Print Assumptions C17_api_pages_return_everything_once.
(* ... a query by entry hash returns exactly the recorded actions of that entry ... *)
Theorem C17_api_by_hash_complete : forall s q h,
  hist_wf s -> q_field q = ByHash h -> q_actions q = [] -> q_asset q = None -> q_txindex q = None ->
  In h (map hb_hash (hist s)) -> query_all s q = map htx_key (filter (fun t => ht_hash t =? h) (htxs s)).
Proof. exact hash_query_complete. Qed.
(* ... a query by address returns exactly the actions that involve the address (have a lookup row), each once ... *)
Theorem C17_api_by_address_exactly_once : forall s q a,
  hist_wf s -> q_field q = ByAddress a -> q_actions q = [] -> q_asset q = None ->
  NoDup (query_all s q) /\ forall k, In k (query_all s q) <-> In (k, a) (lookups s).
Proof. exact address_query_exactly_once. Qed.
Print Assumptions C17_api_by_address_exactly_once.
(* ... a query by height the actions of the batches entered at that height, each once ... *)
Theorem C17_api_by_height_complete : forall s q hh,
  hist_wf s -> q_field q = ByHeight hh -> q_actions q = [] -> q_asset q = None ->
  Permutation (query_all s q) (map htx_key (filter (at_height s hh) (htxs s))) /\ NoDup (query_all s q).
Proof. intros s q hh Hw Hf Ha Hs. split; [exact (height_query_complete s q hh Hw Hf Ha Hs) | exact (height_query_nodup s q hh Hw Hf Ha Hs)]. Qed.
(* ... descending order is the same set of actions, and the status look-up is the batch row's (height, executed). *)
Theorem C17_api_desc_same_actions : forall s q, Permutation (query_all s (flip_desc q)) (query_all s q).
Proof. exact desc_is_permutation. Qed.
Theorem C17_api_status : forall s b, hist_wf s -> In b (hist s) -> query_status s (hb_hash b) = (hb_height b, hb_exec b).
Proof. exact query_status_spec. Qed.
Print Assumptions C17_api_status.
(* Every state the model can reach has well-formed history tables except, possibly, for "one batch row per hash": the primary keys
   of the transaction and lookup tables and both foreign-key facts are invariants of every chain, whatever it contains ... *)
Theorem C17_history_tables_well_formed_after_every_chain : forall c bs s m,
  replay c genesis empty_cache bs = Done (s, m) -> hist_wf_weak s.
Proof. exact replay_hist_wf_weak. Qed.
Print Assumptions C17_history_tables_well_formed_after_every_chain.
(* ... so the API theorems hold after every chain whose batch hashes are distinct (the hypothesis of C17_history_replays_every_chain) *)
Theorem C17_api_after_every_chain : forall c bs s m,
  replay c genesis empty_cache bs = Done (s, m) -> NoDup (map hb_hash (hist s)) -> hist_wf s.
Proof. exact replay_hist_wf. Qed.
(* and that hypothesis is needed: a reachable state with two batch rows for one hash (a factoid transaction id equal to a mock id of
   the zeroing at the developer-reward activation), where the query by hash returns every action twice *)
Check reachable_duplicate_batch_hash.

(* [hist_wfb] is an executable test of hist_wf (sound: hist_wfb s = true -> hist_wf s); the chain correspondence evaluates it on
   the model's final state of every chain, so on those states the two statements below hold unconditionally. *)
Theorem C17_api_on_a_tested_state : forall s q fuel,
  hist_wfb s = true -> (S (length (query_all s q)) <= fuel)%nat ->
  query_count s q = length (query_all s q) /\ walk_pages fuel s q 0 = query_all s q.
Proof. exact api_walk_on_tested_state. Qed.
Print Assumptions C17_api_on_a_tested_state.
(* "one batch row per hash" is NOT implied by the schema (UNIQUE(entry_hash, height) only): with a second batch row for a
   hash the address count (60) falls short of the joined rows (120) and the walk omits 20 of them — the shape of the one
   id reuse at 260118 (DESIGN.md section 15).  The check evaluates hist_wf on the final state of every chain it runs. *)
Example C17_api_second_batch_row_breaks_paging :
  exists s', insert_hbatch ex_dup_db (ex_b 7 101 0) = Ok s' /\
    let q := ex_q (ByAddress 5) false in
    query_count s' q = 60%nat /\ length (query_all s' q) = 120%nat /\
    length (walk_pages 10 s' q 0) = 100%nat /\
    query_all s' (ex_q (ByHash 7) false) = query_all ex_dup_db (ex_q (ByHash 7) false) ++ query_all ex_dup_db (ex_q (ByHash 7) false) /\
    query_count ex_dup_db q = 60%nat /\ length (query_all ex_dup_db q) = 60%nat.
Proof. exact dup_hash_breaks_count. Qed.

(* ---- the credited amounts are the recorded amounts ---------------------------------------------------------
   [row_effect burn r] is what an EXECUTED history row stands for (transfer: -from_amount on the sender,
   +amount on each output that is not the burn address; conversion: -from_amount of the source asset,
   +to_amount of the destination asset (+ the recorded refund outputs); coinbase / burn: +to_amount);
   [rows_effect burn a t rows] sums it on the cell (a, t).  Whenever a batch is recorded, its rows carry
   the converted amounts, every batch row of that hash says "executed at h", no other history row moves,
   and EVERY cell moves by exactly what the rows of the batch stand for. *)
Theorem C17_recorded_amounts_are_the_credited_amounts : forall c h hs rates avgs txs s s',
  record_batch c h hs rates avgs txs s = Ok s' ->
  no_deferred c h txs = true ->                 (* no bank-era PEG request in the batch (those are paid by the bank pass) *)
  convs_fit c h rates avgs txs = true ->        (* converted amounts are int64 values (implied by non-negative rates) *)
  rows_of hs (htxs s) = map fst (history_rows_of hs txs) ->   (* the rows as insert_history left them *)
  rows_of hs (htxs s') = exec_rows c h rates avgs hs 0 txs /\
  rows_not hs (htxs s') = rows_not hs (htxs s) /\
  hist s' = match txs with [] => hist s | _ => mark_exec hs h (hist s) end /\
  (forall a t, get_bal (bal s') a t =
               get_bal (bal s) a t + rows_effect (burn_addr c h) a t (rows_of hs (htxs s'))).
Proof. exact record_batch_history. Qed.
Print Assumptions C17_recorded_amounts_are_the_credited_amounts.

(* arrival path: a transfer-only batch not seen before is either executed -- rows, status h and every cell
   accounted for -- or stays as inserted with status 0 / -1 and no cell moves *)
Theorem C17_arriving_batch_history : forall c h s order e txs s',
  apply_entry c h s order e = Ok s' ->
  entry_valid_at c e h = Some txs ->
  is_replay s (e_hash e) = false -> hist_has s (e_hash e) = false ->
  has_conversions txs = false -> rows_of (e_hash e) (htxs s) = [] ->
  rows_not (e_hash e) (htxs s') = rows_not (e_hash e) (htxs s) /\
  ( ( txs <> [] /\
      rows_of (e_hash e) (htxs s') = exec_rows c h ∅ ∅ (e_hash e) 0 txs /\
      hist s' = hist s ++ [batch_row e h order h] /\
      forall a t, get_bal (bal s') a t =
                  get_bal (bal s) a t + rows_effect (burn_addr c h) a t (rows_of (e_hash e) (htxs s')) )
    \/
    ( rows_of (e_hash e) (htxs s') = pend_rows (e_hash e) 0 txs /\ bal s' = bal s /\
      (hist s' = hist s ++ [batch_row e h order 0] \/ hist s' = hist s ++ [batch_row e h order (-1)]) ) ).
Proof. exact apply_entry_history. Qed.
Print Assumptions C17_arriving_batch_history.

(* holding path: a held batch looked at by a rated block is either executed with the full accounting, or no
   row and no cell moves and its status is left alone or set to a negative code *)
Theorem C17_held_batch_history : forall c cur rates avgs s e hh s' isp txs,
  apply_held c cur rates avgs s e hh = Ok (s', isp) ->
  entry_valid_at c e hh = Some txs ->
  no_deferred c cur txs = true -> convs_fit c cur rates avgs txs = true ->
  rows_of (e_hash e) (htxs s) = map fst (history_rows_of (e_hash e) txs) ->
  isp = false /\
  ( ( apply_batch c cur s (e_hash e) txs rates avgs = BApplied s' /\
      rows_of (e_hash e) (htxs s') = exec_rows c cur rates avgs (e_hash e) 0 txs /\
      rows_not (e_hash e) (htxs s') = rows_not (e_hash e) (htxs s) /\
      hist s' = match txs with [] => hist s | _ => mark_exec (e_hash e) cur (hist s) end /\
      forall a t, get_bal (bal s') a t =
                  get_bal (bal s) a t + rows_effect (burn_addr c cur) a t (rows_of (e_hash e) (htxs s')) )
    \/
    ( htxs s' = htxs s /\ bal s' = bal s /\
      (hist s' = hist s \/ exists code, code < 0 /\ hist s' = mark_exec (e_hash e) code (hist s)) ) ).
Proof. exact apply_held_history. Qed.
Print Assumptions C17_held_batch_history.

(* the coinbase-style writers: the rows they append account for every cell they move *)
Theorem C17_rewards_history : forall s ts ws s',
  pay_winners s ts ws = Ok s' -> payouts_fit ws = true ->
  htxs s' = htxs s ++ winner_rows ws /\ hist s' = hist s ++ winner_batches ts ws /\
  forall burn a t, get_bal (bal s') a t = get_bal (bal s) a t + rows_effect burn a t (winner_rows ws).
Proof. exact pay_winners_history. Qed.
Print Assumptions C17_rewards_history.
Theorem C17_burns_history : forall h s fs s',
  apply_factoid_block h s fs = Ok s' ->
  htxs s' = htxs s ++ burn_rows fs /\ hist s' = hist s ++ burn_batches h fs /\
  forall burn a t, get_bal (bal s') a t = get_bal (bal s) a t + rows_effect burn a t (burn_rows fs).
Proof. exact apply_factoid_block_history. Qed.
Print Assumptions C17_burns_history.
(* the two passes of the legacy PEG bank (Lemmas/HistoryLemmas4.v): the first pass debits a PEG request and leaves
   its row as inserted; the second writes to_amount := yield and outputs := [(sender, refund)] and credits exactly
   those -- the accounting equation closes for any yield.  (Why the chain theorem still excludes conversions into
   PEG: a batch dropped because one of its conversions overflows is nevertheless paid by the bank pass --
   bank_pays_a_dropped_peg_batch, mirrored closed-era behaviour, DESIGN section 15.) *)
Check record_batch_history2.
Check record_peg_requests_history.
Check hist_ok_record_peg_requests.
Check bank_era_hist_ok_example.
Check bank_pays_a_dropped_peg_batch.
(* developer rewards and staking payouts: Lemmas/HistoryLemmas.v *)
Check developers_payouts_history.
Check snapshot_payouts_history.
(* the hypotheses are satisfiable on the example chain *)
Check record_batch_history_hyps.
Check apply_entry_history_hyps.
Check apply_held_history_hyps.
Check pay_winners_history_hyps.

(* ---- replaying the recorded history reproduces every address's balances: EVERY chain -------------------------
   [accounts c s]: every cell (a, t) with a outside the three special addresses (the two burn addresses and the
   mint address: the one-time adjustments) equals [hist_sum c s a t], the sum over ALL transaction rows whose
   batch counts as executed (first batch row of the hash, status > 0) of what the row stands for.
   Hypotheses: [block_okb] for every block -- heights positive, no transaction converts INTO PEG (the PEG-bank
   payout of the legacy era is not covered: recorded finding on mixed batches), the graders' payouts are uint64
   values and reported prices non-negative; and the final batch-row hashes are distinct (no collision between
   an entry hash and the synthetic ids the daemon makes up for coinbase rows: true of SHA-256 hashes except for
   the one id reuse recorded in DESIGN section 15, nullify-burn at 260118). *)
Theorem C17_history_replays_every_chain : forall c bs s m,
  forallb block_okb bs = true ->
  replay c genesis empty_cache bs = Done (s, m) ->
  NoDup (map hb_hash (hist s)) ->
  accounts c s.
Proof. exact replay_accounts. Qed.
Print Assumptions C17_history_replays_every_chain.
(* hypotheses satisfiable, and the theorem applied: alice's pUSD after the example chain is 80 both ways *)
Check replay_accounts_hyps.
Check replay_accounts_example.

(* the same statement as an executable oracle (Corr.Chain.impl_history_replays), on the model's own example ... *)
Example C17_history_replays_on_the_model :
  match replay ex_cfg genesis empty_cache ex_chain with
  | Done (s, _) => impl_history_replays (c_V202EnhanceActivation ex_cfg) [] (sort_rows (dump_db s)) = true
  | _ => False
  end.
Proof. vm_compute. reflexivity. Qed.
(* ... and, by the same executable oracle, on every dump the real node produces (bin/props/c17.py). *)
Example C17_status_example :
  exists s m, replay ex_cfg genesis empty_cache ex_chain = Done (s, m) /\
              status_of s 601 = [102] /\ status_of s 602 = [104] /\ status_of s 603 = [-1].
Proof. vm_compute. eexists _, _. repeat split; reflexivity. Qed.
