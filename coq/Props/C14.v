(* Props/C14.v — Holder staking payouts: snapshot minimum, proportional, capped.
   Only statements, each closed by [exact]; proofs live in Lemmas/. *)
From Model Require Import Examples.
From Lemmas Require Import ArithLemmas PayoutLemmas IssuanceLedger.
From Gen Require Import Consts.
Open Scope Z_scope.

(* The total paid at a snapshot never exceeds the cap, equals it to the last unit whenever the
   total stake reaches it (the dust rule completes it), and below the cap everybody receives
   exactly his stake.  For every set of stakes (uint64 amounts, distinct payout ids). *)
Theorem C14_total_capped_and_exact : forall bank (rs : requests),
  reqs_ok rs -> txids_nodup rs -> 0 <= bank < two64 ->
  sum_snd (payouts bank rs) <= bank /\
  (bank <= total_requested_big rs -> rs <> [] -> sum_snd (payouts bank rs) = bank) /\
  (total_requested_big rs < bank -> payouts bank rs = rs).
Proof. exact payouts_never_exceed_bank. Qed.
Print Assumptions C14_total_capped_and_exact.

(* On the LEDGER (SnapshotPayouts, for every state and rate table): the snapshots rotate -- the new current snapshot
   is the ledger as the block's transaction sees it at that moment, the past one is what was current --, only PEG is
   created, by exactly the sum of the payouts computed from the sorted positive stakes, which never exceeds
   4500 PEG x 144, equals it when the stakes reach it, and is exactly the stakes below it. *)
Theorem C14_snapshot_on_the_ledger : forall c h ts rates s s',
  snapshot_payouts c h ts rates s = Ok s' ->
  let rs := snapshot_reqs c h rates s in
  snap_cur s' = bal s /\ snap_past s' = snap_cur s /\
  (forall t, supply s' t = supply s t + (if t =? PTickerPEG then sum_snd (payouts staking_cap rs) else 0)) /\
  sum_snd (payouts staking_cap rs) <= staking_cap /\
  (staking_cap <= total_requested_big rs -> rs <> [] -> sum_snd (payouts staking_cap rs) = staking_cap) /\
  (total_requested_big rs < staking_cap -> payouts staking_cap rs = rs).
Proof. exact snapshot_payouts_ledger. Qed.
Print Assumptions C14_snapshot_on_the_ledger.

(* the cap is 4,500 PEG x 144 *)
Example C14_cap : PerBlockAssetHolders * SnapshotRate = 4500 * 100000000 * 144.
Proof. reflexivity. Qed.

(* The stake of an address depends on the two snapshots only through the per-asset minimum: funds
   that arrived after the previous snapshot earn nothing. *)
Theorem C14_minimum_of_two_snapshots : forall c h rates past cur past' cur' a,
  (forall t, Z.min (get_bal cur a t) (get_bal past a t) = Z.min (get_bal cur' a t) (get_bal past' a t)) ->
  stake_of c h rates past cur a = stake_of c h rates past' cur' a.
Proof. exact stake_depends_on_minimum_only. Qed.
Print Assumptions C14_minimum_of_two_snapshots.

(* An address absent from the previous snapshot has no stake (and is filtered out: not paid). *)
Theorem C14_absent_not_paid : forall c h rates past cur a,
  (forall t, get_bal past a t = 0) -> (forall t, 0 <= get_bal cur a t) -> stake_of c h rates past cur a = Some 0.
Proof. exact stake_absent_is_zero. Qed.
Print Assumptions C14_absent_not_paid.

(* The payout is a function of the stakes, not of the order in which Go's map iteration visits them *)
Theorem C14_order_independent : forall bank (a b : requests),
  Permutation.Permutation a b -> List.NoDup (map fst a) -> Permutation.Permutation (payouts bank a) (payouts bank b).
Proof. exact payouts_perm. Qed.
Print Assumptions C14_order_independent.

(* the payout ids of one snapshot are distinct, so the hypotheses above are met by the code's requests *)
Theorem C14_payout_ids_distinct : forall (txh : Z) (lst : list (addr * Z)),
  List.NoDup (map fst (map (fun x : Z * (addr * Z) => ((txh, fst x), snd (snd x))) (index_from 0 lst))).
Proof. exact staking_txids_distinct. Qed.
Print Assumptions C14_payout_ids_distinct.

Example C14_example :
  (* three stakes above the cap: proportional shares plus the dust to the largest; total = cap *)
  let rs : requests := [((288, 0), 300000000000000); ((288, 1), 300000000000000); ((288, 2), 400000000000001)] in
  sum_snd (payouts (PerBlockAssetHolders * SnapshotRate) rs) = PerBlockAssetHolders * SnapshotRate /\
  (* two small stakes: paid 1:1 *)
  payouts (PerBlockAssetHolders * SnapshotRate) [((288, 0), 5); ((288, 1), 7)] = [((288, 0), 5); ((288, 1), 7)].
Proof. vm_compute. split; reflexivity. Qed.
