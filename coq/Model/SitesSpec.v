(* Expected structure of the source, written by hand from reading the code as it is now, and
   the boolean checks that compare the regenerated tables of Gen/Sites.v with it.
   Definitions only; the obligations are proved in Lemmas/SitesLemmas.v by computation.

   Function names are package.Function or package.Type.Method, as gen/sites prints them.
   Nothing here refers to a line number or to a hash: an edit that does not change which
   function talks to the database on which handle, which error results are dropped, which
   maps are ranged over and which shared fields are touched leaves every check below true. *)
From Coq Require Import String List Bool Arith.
From Gen Require Import Sites.
Import ListNotations.
Open Scope string_scope.

(* ------------------------------------------------------------------ small library *)

Definition mem (s : string) (l : list string) : bool := existsb (String.eqb s) l.

Definition eqb2 (a b : string * string) : bool :=
  (fst a =? fst b) && (snd a =? snd b).
Definition mem2 (a : string * string) (l : list (string * string)) : bool := existsb (eqb2 a) l.

Definition eqb3 (a b : string * string * string) : bool :=
  match a, b with (a1, a2, a3), (b1, b2, b3) => (a1 =? b1) && (a2 =? b2) && (a3 =? b3) end.
Definition mem3 (a : string * string * string) (l : list (string * string * string)) : bool :=
  existsb (eqb3 a) l.

Definition subset (l1 l2 : list string) : bool := forallb (fun s => mem s l2) l1.
Definition subset2 (l1 l2 : list (string * string)) : bool := forallb (fun s => mem2 s l2) l1.
Definition subset3 (l1 l2 : list (string * string * string)) : bool := forallb (fun s => mem3 s l2) l1.

Definition count3 (a : string * string * string) (l : list (string * string * string)) : nat :=
  length (filter (eqb3 a) l).

(* ------------------------------------------------------------------ projections of the rows *)

(* effective_sql / api_effective_sql : (function, handle, R|W|?, sql prefix, origin of the handle) *)
Definition eff_row := (string * string * string * string * string)%type.
Definition eff_fn (r : eff_row) : string := match r with (f, _, _, _, _) => f end.
Definition eff_handle (r : eff_row) : string := match r with (_, h, _, _, _) => h end.
Definition eff_rw (r : eff_row) : string := match r with (_, _, rw, _, _) => rw end.
Definition eff_origin (r : eff_row) : string := match r with (_, _, _, _, o) => o end.

(* everything that is not positively a SELECT counts as a write: INSERT/UPDATE/DELETE/REPLACE/
   CREATE/ALTER/DROP/BEGIN..., the start of a new transaction, and text the scanner could not
   resolve ("?") *)
Definition is_read (r : eff_row) : bool := eff_rw r =? "R".
Definition is_write (r : eff_row) : bool := negb (is_read r).
Definition on_tx (r : eff_row) : bool := (eff_handle r =? "tx") && (eff_origin r =? "root").
Definition on_pool (r : eff_row) : bool := eff_handle r =? "pool".

(* ------------------------------------------------------------------ C02: handles *)

(* what DBlockSync calls inside the window BeginTx .. Commit with the transaction *)
Definition expected_sync_roots : list string :=
  [ "node.Pegnetd.NullifyBurnAddress"; "node.Pegnetd.SyncBlock"; "pegnet.Pegnet.InsertSynced" ].

(* The functions that choose the pool (p.DB) for a read while a block is being applied, i.e. that
   see the committed state and not the pending one. The model gives exactly these the
   [committed] view.
     SelectTransactionBatchesInHoldingAtHeight  <- ApplyTransactionBatchesInHolding
     IsIncludedTopPEGAddress                    <- GradeS
     SelectPreviousWinners                      <- Grade
     SelectIssuances                            <- InsertRates (PEGPriceIsEquation phase)
     SelectBalances (-> selectBalances(p.DB))   <- NullifyBurnAddress, NullifyMintedTokens
     SelectRates                                <- GetPegNetRateAverages *)
Definition expected_pool_readers : list string :=
  [ "pegnet.Pegnet.SelectTransactionBatchesInHoldingAtHeight";
    "pegnet.Pegnet.IsIncludedTopPEGAddress";
    "pegnet.Pegnet.SelectPreviousWinners";
    "pegnet.Pegnet.SelectIssuances";
    "pegnet.Pegnet.SelectBalances";
    "pegnet.Pegnet.SelectRates" ].

(* who, inside the block application, calls them *)
Definition expected_pool_reader_calls : list (string * string) :=
  [ ("node.Pegnetd.ApplyTransactionBatchesInHolding", "pegnet.Pegnet.SelectTransactionBatchesInHoldingAtHeight");
    ("node.Pegnetd.GradeS", "pegnet.Pegnet.IsIncludedTopPEGAddress");
    ("node.Pegnetd.Grade", "pegnet.Pegnet.SelectPreviousWinners");
    ("pegnet.Pegnet.InsertRates", "pegnet.Pegnet.SelectIssuances");
    ("node.Pegnetd.NullifyBurnAddress", "pegnet.Pegnet.SelectBalances");
    ("node.Pegnetd.NullifyMintedTokens", "pegnet.Pegnet.SelectBalances");
    ("node.Pegnetd.GetPegNetRateAverages", "pegnet.Pegnet.SelectRates") ].

Definition sync_scope : list string := "node.Pegnetd.DBlockSync" :: sync_reachable.

Definition check_sync_roots : bool :=
  subset sync_roots expected_sync_roots && subset expected_sync_roots sync_roots.

Definition check_sync_writes_on_tx : bool :=
  forallb on_tx (filter is_write effective_sql).

(* every statement of the block application runs on the block's transaction or on the pool:
   no nil handle, no handle of unknown provenance, no transaction other than the root one *)
Definition check_sync_handles_known : bool :=
  forallb (fun r => on_tx r || on_pool r) effective_sql.

Definition check_sync_pool_reads_expected : bool :=
  forallb (fun r => mem (eff_origin r) expected_pool_readers) (filter on_pool effective_sql).

Definition check_sync_pool_readers_present : bool :=
  forallb (fun f => existsb (fun r => on_pool r && (eff_origin r =? f)) effective_sql) expected_pool_readers.

Definition pool_reader_calls : list (string * string) :=
  map (fun e => match e with (c, d, _) => (c, d) end)
      (filter (fun e => match e with (c, d, _) => mem d expected_pool_readers && mem c sync_scope end) call_edges).

Definition check_pool_reader_calls : bool :=
  subset2 pool_reader_calls expected_pool_reader_calls && subset2 expected_pool_reader_calls pool_reader_calls.

(* ------------------------------------------------------------------ C18: the API *)

Definition expected_api_roots : list string :=
  [ "srv.APIServer.getBank"; "srv.APIServer.getGlobalRichList"; "srv.APIServer.getGraded";
    "srv.APIServer.getMiningDominance"; "srv.APIServer.getPegnetBalances"; "srv.APIServer.getPegnetIssuance";
    "srv.APIServer.getPegnetRates"; "srv.APIServer.getRichList"; "srv.APIServer.getSyncStatus";
    "srv.APIServer.getTransactionStatus"; "srv.APIServer.getTransactions"; "srv.APIServer.properties";
    "srv.APIServer.sendTransaction" ].

Definition check_api_roots : bool :=
  subset api_roots expected_api_roots && subset expected_api_roots api_roots.

Definition check_api_never_writes : bool := forallb is_read api_effective_sql.
Definition check_api_reads_pool_only : bool := forallb on_pool api_effective_sql.

(* getBank passes a nil QueryAble to SelectBankEntry, which replaces nil by the pool; this is the
   only nil handle an API handler passes, and the callee has the guard *)
Definition api_nil_calls : list (string * string) :=
  map (fun e => match e with (c, d, _) => (c, d) end)
      (filter (fun e => match e with (c, _, h) => (h =? "nil") && mem c api_reachable end) call_edges).
Definition expected_api_nil_calls : list (string * string) :=
  [ ("srv.APIServer.getBank", "pegnet.Pegnet.SelectBankEntry") ].
Definition check_api_nil_calls : bool :=
  subset2 api_nil_calls expected_api_nil_calls
  && forallb (fun e => existsb (fun g => fst g =? snd e) nil_defaults_to_pool) api_nil_calls.

(* ------------------------------------------------------------------ C10: error results that do not propagate *)

(* (function, callee, how, number of such sites). Scope: DBlockSync and everything reachable from
   the sync roots. how:
     blank       `_ =`, `x, _ :=` or a bare call statement
     logged      the error is tested and the branch can complete normally (it only logs / is empty)
     dropped     the error is tested and the branch returns a plain value or a nil error instead
     overwritten the variable is assigned again before it is read (on some path)
     unchecked   the function can end without the variable having been read (on some path)
     wrong-var   `if E != nil { return <another error variable> }`; the callee column names what
                 produced E
   Each entry was checked against the source; the remark says what the site is. *)
Definition expected_discarded : list (string * string * string * nat) :=
  [ (* Refund: both Convert errors blanked; arguments were validated by the caller *)
    ("conversions.Refund", "conversions.Convert", "blank", 2);
    (* a held batch that fails re-validation is marked rejected (-2); the validation error itself is
       deliberately not returned (the error of the status update is: fixed, see known_findings) *)
    ("node.Pegnetd.ApplyTransactionBatchesInHolding", "fat2.TransactionBatch.ValidatePegTx", "wrong-var", 1);
    ("node.Pegnetd.ApplyTransactionBatchesInHolding", "fat2.TransactionBatch.Validate", "wrong-var", 1);
    (* the two bare d.NullifyBurnAddress(ctx, tx, h) calls at the two activation heights: KNOWN FINDING C10 *)
    ("node.Pegnetd.DBlockSync", "node.Pegnetd.NullifyBurnAddress", "blank", 2);
    (* addr, err := NewFAAddress(dev.DevAddress) immediately followed by _, err = AddToBalance(...): constant addresses *)
    ("node.Pegnetd.DevelopersPayouts", "factom.NewFAAddress", "overwritten", 1);
    (* only sql.ErrNoRows falls through (below genesis); every other error is returned *)
    ("node.Pegnetd.Grade", "pegnet.Pegnet.SelectPreviousWinners", "logged", 1);
    (* bad OPR / SPR entries are skipped on purpose: empty `if err != nil {}` *)
    ("node.Pegnetd.Grade", "grader.BlockGrader.AddOPR", "logged", 1);
    ("node.Pegnetd.GradeS", "graderStake.BlockGrader.AddSPR", "logged", 1);
    (* constant burn addresses: error only logged (old and new address) *)
    ("node.Pegnetd.NullifyBurnAddress", "factom.NewFAAddress", "logged", 2);
    (* inside NullifyBurnAddress: KNOWN FINDING C10 (same call site family as the discarded result) *)
    ("node.Pegnetd.NullifyBurnAddress", "pegnet.Pegnet.selectBalances", "logged", 1);
    ("node.Pegnetd.NullifyBurnAddress", "pegnet.Pegnet.SubFromBalance", "logged", 1);
    (* err_s of GradeS is looked at only in the branch height >= V20HeightActivation *)
    ("node.Pegnetd.SyncBlock", "node.Pegnetd.GradeS", "unchecked", 1);
    (* if errRate != nil { return err }  -- err is nil there: KNOWN FINDING C12 (closed era) *)
    ("node.Pegnetd.SyncBlock", "node.Pegnetd.GetAssetRates|node.Pegnetd.GetAssetRatesV0", "wrong-var", 1);
    (* first pass of applyTransactionBatch: a Convert error makes the function return nil (batch silently not applied) *)
    ("node.Pegnetd.applyTransactionBatch", "conversions.Convert", "dropped", 1);
    (* constant burn address: error only logged *)
    ("node.Pegnetd.recordBatch", "factom.NewFAAddress", "logged", 1);
    (* pegAmt, _ := Convert(...): "caught earlier" *)
    ("node.Pegnetd.recordPegnetRequests", "conversions.Convert", "blank", 1) ].



Definition disc_key (r : string * string * string * string) : string * string * string :=
  match r with (f, c, h, _) => (f, c, h) end.
Definition exp_key (r : string * string * string * nat) : string * string * string :=
  match r with (f, c, h, _) => (f, c, h) end.
Definition exp_count (r : string * string * string * nat) : nat :=
  match r with (_, _, _, n) => n end.

Definition discarded_keys : list (string * string * string) := map disc_key discarded_errors.
Definition expected_discarded_keys : list (string * string * string) := map exp_key expected_discarded.

(* no site that is not expected *)
Definition check_discarded_expected : bool := subset3 discarded_keys expected_discarded_keys.
(* every expected site is still there *)
Definition check_discarded_present : bool := subset3 expected_discarded_keys discarded_keys.
(* no additional site of a kind that is already expected *)
Definition check_discarded_counts : bool :=
  forallb (fun e => Nat.leb (count3 (exp_key e) discarded_keys) (exp_count e)) expected_discarded.

(* ------------------------------------------------------------------ C01: iteration order *)

(* (function, canonical ranged expression # occurrence within the function). Canonical form:
   var:<type> for locals and arguments, field:<Type>.<field>, call:<callee>, global:<pkg>.<name>. *)
Definition expected_map_ranges : list (string * string) :=
  [ (* Payouts: copy loop, proportional loop, search for the maximum (ties resolved by SortTxIDS) *)
    ("conversions.ConversionSupplySet.Payouts", "field:ConversionSupplySet.ConversionRequests#1");
    ("conversions.ConversionSupplySet.Payouts", "field:ConversionSupplySet.ConversionRequests#2");
    ("conversions.ConversionSupplySet.Payouts", "field:ConversionSupplySet.ConversionRequests#3");
    (* averages: trim loop in collectRatesAtHeight, reset loop, averaging loop over ratesOverPeriod; rates of one height *)
    ("node.Pegnetd.GetPegNetRateAverages", "var:map[fat2.PTicker][]uint64#1");
    ("node.Pegnetd.GetPegNetRateAverages", "var:map[fat2.PTicker]uint64#1");
    ("node.Pegnetd.GetPegNetRateAverages", "var:map[fat2.PTicker][]uint64#2");
    ("node.Pegnetd.GetPegNetRateAverages", "var:map[fat2.PTicker][]uint64#3");
    (* staked -> list (sorted afterwards by (stake, address)); balance increase per payout *)
    ("node.Pegnetd.SnapshotPayouts", "var:map[factom.FAAddress]*big.Int#1");
    ("node.Pegnetd.SnapshotPayouts", "call:conversions.ConversionSupplySet.Payouts#1");
    (* PEG payouts and refunds *)
    ("node.Pegnetd.recordPegnetRequests", "var:map[string]uint64#1");
    (* history rows of the staking payouts *)
    ("pegnet.Pegnet.InsertStakingCoinbase", "var:map[string]uint64#1") ].

Definition map_range_keys : list (string * string) :=
  map (fun r => match r with (f, _, c, _) => (f, c) end) map_ranges.

Definition check_map_ranges_expected : bool := subset2 map_range_keys expected_map_ranges.
Definition check_map_ranges_present : bool := subset2 expected_map_ranges map_range_keys.

Definition expected_sort_calls : list (string * string) :=
  [ ("conversions.ConversionSupplySet.Payouts", "transactionid.SortTxIDS");
    ("node.Pegnetd.SnapshotPayouts", "sort.Slice") ].

Definition sort_call_keys : list (string * string) :=
  map (fun r => match r with (f, s, _) => (f, s) end) sort_calls.

Definition check_sort_calls_expected : bool := subset2 sort_call_keys expected_sort_calls.
Definition check_sort_calls_present : bool := subset2 expected_sort_calls sort_call_keys.

(* ------------------------------------------------------------------ C18: shared fields *)

(* shared_fields : (field, function, R|W, mutexes held, S|A|SA). BlockSync.Synced without a suffix is
   the field of the BlockSync that Pegnetd.Sync points to; [local]/[param]/[expr] are other values. *)
Definition fld_row := (string * string * string * string * string)%type.
Definition fld_name (r : fld_row) : string := match r with (f, _, _, _, _) => f end.
Definition fld_fn (r : fld_row) : string := match r with (_, g, _, _, _) => g end.
Definition fld_rw (r : fld_row) : string := match r with (_, _, rw, _, _) => rw end.
Definition fld_mutex (r : fld_row) : string := match r with (_, _, _, m, _) => m end.
Definition fld_scope (r : fld_row) : string := match r with (_, _, _, _, s) => s end.
Definition in_sync (r : fld_row) : bool := (fld_scope r =? "S") || (fld_scope r =? "SA").
Definition in_api (r : fld_row) : bool := (fld_scope r =? "A") || (fld_scope r =? "SA").
Definition is_w (r : fld_row) : bool := fld_rw r =? "W".

Definition fields_where (p : fld_row -> bool) : list string := map fld_name (filter p shared_fields).

Definition expected_sync_written_fields : list string :=
  [ "BlockSync.Synced"; "Pegnetd.LastAverages"; "Pegnetd.LastAveragesData"; "Pegnetd.LastAveragesHeight" ].

(* get-rich-list and get-global-rich-list call GetPegNetRateAverages, which rewrites the cache *)
Definition expected_api_written_fields : list string :=
  [ "Pegnetd.LastAverages"; "Pegnetd.LastAveragesData"; "Pegnetd.LastAveragesHeight" ].

(* of the fields the sync loop writes, the ones API handlers read (GetCurrentSync; the cache) *)
Definition expected_api_read_sync_written : list string :=
  [ "BlockSync.Synced"; "Pegnetd.LastAverages"; "Pegnetd.LastAveragesData"; "Pegnetd.LastAveragesHeight" ].

Definition check_sync_written_fields : bool :=
  subset (fields_where (fun r => in_sync r && is_w r)) expected_sync_written_fields
  && subset expected_sync_written_fields (fields_where (fun r => in_sync r && is_w r)).

Definition check_api_written_fields : bool :=
  subset (fields_where (fun r => in_api r && is_w r)) expected_api_written_fields
  && subset expected_api_written_fields (fields_where (fun r => in_api r && is_w r)).

Definition api_read_sync_written : list string :=
  filter (fun f => mem f (fields_where (fun r => in_api r && negb (is_w r)))) expected_sync_written_fields.

Definition check_api_read_sync_written : bool :=
  subset api_read_sync_written expected_api_read_sync_written
  && subset expected_api_read_sync_written api_read_sync_written.

(* Locking discipline. Two accesses conflict when they are to the same field, one from each root,
   at least one is a write, and they do not hold a common mutex (the scanner reports the mutexes
   held lexically in the accessing function; an empty string is "none"). *)
Definition unprotected_pair (a b : fld_row) : bool :=
  (fld_name a =? fld_name b) && in_sync a && in_api b && (is_w a || is_w b)
  && ((fld_mutex a =? "") || (fld_mutex b =? "") || negb (fld_mutex a =? fld_mutex b)).

Definition conflicting_fields : list string :=
  filter (fun f => existsb (fun a => existsb (fun b => (fld_name a =? f) && unprotected_pair a b) shared_fields) shared_fields)
         expected_sync_written_fields.

(* After the repairs (known_findings: average cache mutex, sync height published atomically after
   COMMIT) the discipline "every field written by one root and accessed by the other is accessed
   under a common mutex or through sync/atomic" holds for all four fields: no conflict is left.
   A new unprotected access, or a removed lock, makes the list non-empty again. *)
Definition expected_conflicting_fields : list string := [].

Definition check_conflicting_fields : bool :=
  subset conflicting_fields expected_conflicting_fields && subset expected_conflicting_fields conflicting_fields.

(* no field of Pegnetd / BlockSync other than the expected ones is written by either root *)
Definition check_no_other_shared_writes : bool :=
  forallb (fun r => implb (is_w r) (mem (fld_name r) expected_sync_written_fields)) shared_fields.

(* ------------------------------------------------------------------ C02: durability settings *)
(* The crash-consistency argument rests on SQLite's atomic commit: the rollback journal (or the WAL)
   has to be on disk and synchronous writes must not be switched off.  The PRAGMA values of the
   connection pegnet.Init() opens are regenerated into Gen/Schema.v on every run. *)
From Gen Require Import Schema.
Definition pragma (name : string) : string :=
  match find (fun p => fst p =? name) db_pragmas with Some p => snd p | None => "" end.
Definition check_journal_on_disk : bool :=
  mem (pragma "journal_mode") ["delete"; "truncate"; "persist"; "wal"].
Definition check_synchronous_on : bool :=
  mem (pragma "synchronous") ["1"; "2"; "3"].

(* ------------------------------------------------------------------ C02: a height is recorded once *)
(* The mark of a synced height (InsertSynced -> MarkHeightSynced -> markHeightSyncedVersion) is a plain INSERT:
   PRIMARY KEY(height) then makes a second application of the same height fail and roll back.  (INSERT OR REPLACE /
   OR IGNORE would let a sync loop with a stale in-memory height commit a height again.)  The scanner prints every
   text the statement variable can hold, joined by " || ": a statement chosen by a condition is not a plain INSERT. *)
Definition height_mark_sites : list (string * string * string * string * string) :=
  filter (fun r => match r with (f, _, _, _, _) => f =? "pegnet.Pegnet.markHeightSyncedVersion" end) sql_sites.
Definition check_height_mark_plain_insert : bool :=
  negb (match height_mark_sites with [] => true | _ => false end) &&
  forallb (fun r => match r with (_, _, _, rw, q) => (rw =? "W") && (q =? "INSERT INTO ""pn_sync_version"" (""height"",") end) height_mark_sites.
