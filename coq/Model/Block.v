(* Model/Block.v — node/sync.go SyncBlock and the body of the DBlockSync loop: grading glue,
   rate selection, snapshots and staking payouts, developer rewards, the one-time adjustments,
   and the sync-height bump.  Definitions only; mirrors the Go control flow including its quirks.

   Two databases are in play while a block is applied: [cm], the committed database (what a read
   through the connection pool sees), and the pending state of the block's sql.Tx, threaded
   through as [s].  Calls that leave the repository (the OPR / SPR graders) are inputs of the
   block: a table from the arguments the code passes to the verdict the library returned. *)
From Model Require Export Ledger Avg Band.
From Gen Require Import Consts.
Open Scope Z_scope.

(* ---- inputs ------------------------------------------------------------------------------- *)
(* one SPR-chain entry as GradeS sees it *)
Record spr_entry := {
  se_nexts : Z;                (* number of ExtIDs *)
  se_staker : option Z         (* ExtIDs[1] as an address when it is 32 bytes long *)
}.
Record opr_in := {
  (* (grader version, previous winners passed to NewGrader (None = nil)) -> what Grade() returned;
     None = NewGrader returned an error *)
  oi_alts : list (Z * option (list Z) * option verdict)
}.
Record spr_in := {
  si_entries : list spr_entry;
  (* (grader version, indices of the entries handed to AddSPR) -> verdict *)
  si_alts : list (Z * list Z * option verdict)
}.
Record block := {
  b_height : Z;
  b_ts : Z;                        (* dblock timestamp, unix seconds *)
  b_opr : option opr_in;           (* None: the dblock has no OPR EBlock *)
  b_spr : option spr_in;
  b_tx : option (list entry);
  b_factoid : list ftx
}.

Inductive outcome (A : Type) :=
| Done (a : A)
| Stuck (code : Z)          (* SyncBlock returned an error: rolled back, retried for ever *)
| Crashed (code : Z)        (* panic *)
| OracleMiss (what : Z).    (* the inputs do not say what the library returns for the arguments
                               the model computed: model and harness disagree about them *)
Arguments Done {A} _. Arguments Stuck {A} _. Arguments Crashed {A} _. Arguments OracleMiss {A} _.
Definition obind {A B} (r : outcome A) (f : A -> outcome B) : outcome B :=
  match r with Done a => f a | Stuck c => Stuck c | Crashed c => Crashed c | OracleMiss w => OracleMiss w end.
Notation "'let!' x := r 'in' k" := (obind r (fun x => k)) (at level 200, x pattern, r at level 100, k at level 200, only parsing).
Definition of_res {A} (r : res A) : outcome A :=
  match r with Ok a => Done a | Fail c => Stuck c | Panic c => Crashed c end.

Fixpoint list_Z_eqb (a b : list Z) : bool :=
  match a, b with [], [] => true | x :: a', y :: b' => (x =? y) && list_Z_eqb a' b' | _, _ => false end.
Definition opt_list_eqb (a b : option (list Z)) : bool :=
  match a, b with None, None => true | Some x, Some y => list_Z_eqb x y | _, _ => false end.

Section WithCfg.
Variable c : cfg.

(* ---- mock transaction ids -------------------------------------------------------------------- *)
(* fmt.Sprintf("%0Nd", n) read back with hex.DecodeString: decimal digits taken as hex digits *)
Fixpoint dec_as_hex_fuel (fuel : nat) (n : Z) : Z :=
  match fuel with
  | O => 0
  | S k => if n <=? 0 then 0 else n mod 10 + 16 * dec_as_hex_fuel k (n / 10)
  end.
Definition dec_as_hex (n : Z) : Z := dec_as_hex_fuel 40 n.
Definition mock_hash (h : Z) : Z := dec_as_hex h.                                  (* "%064d" *)
Definition mock_hash_dev (j h : Z) : Z := dec_as_hex j * 16 ^ 62 + dec_as_hex h.    (* "%02d%062d" *)

(* ---- grading glue ---------------------------------------------------------------------------- *)
Definition ladder_version (init : Z) (ladder : list (Z * Z)) (h : Z) : Z :=
  fold_left (fun v st => if fst st <=? h then snd st else v) ladder init.
Definition opr_ladder : list (Z * Z) :=
  [(c_GradingV2Activation c, 2); (c_PEGFreeFloatingPriceActivation c, 3); (c_V4OPRUpdate c, 4); (c_V20HeightActivation c, 5)].
Definition spr_ladder : list (Z * Z) :=
  [(c_V20HeightActivation c, 5); (c_SprSignatureActivation c, 6); (c_V202EnhanceActivation c, 7)].
Definition opr_version (h : Z) : Z := ladder_version opr_version_ladder_init opr_ladder h.
Definition spr_version (h : Z) : Z := ladder_version spr_version_ladder_init spr_ladder h.

(* SelectPreviousWinners: the short hashes of the most recent pn_grade row below h (pool read) *)
Definition prev_winners (cm : db) (h : Z) : option (list Z) :=
  let k := map_fold (fun k _ acc => if (k <? h) && (acc <? k) then k else acc) (-1) (grades cm) in
  grades cm !! k.

Definition grade_opr (cm : db) (b : block) : outcome (option verdict) :=
  match b_opr b with
  | None => Done None
  | Some oi =>
    let key_v := opr_version (b_height b) in
    let key_p := prev_winners cm (b_height b) in
    match find (fun a => (fst (fst a) =? key_v) && opt_list_eqb (snd (fst a)) key_p) (oi_alts oi) with
    | None => OracleMiss 1
    | Some (_, None) => Stuck 20            (* NewGrader error: SyncBlock returns it *)
    | Some (_, Some v) => Done (Some v)
    end
  end.

(* IsIncludedTopPEGAddress: the 100 largest positive PEG balances of the committed database.
   Ties at the 100th place follow SQLite's row order, which the model does not have: it orders
   equal balances by address. *)
Definition peg_holders (cm : db) : list (addr * Z) :=
  omap (fun kv => let '((a, t), v) := kv in if (t =? PTickerPEG) && (0 <? v) then Some (a, v) else None)
       (map_to_list (bal cm)).
Definition holder_before (x y : addr * Z) : bool := (snd y <? snd x) || ((snd x =? snd y) && (fst x <? fst y)).
Fixpoint insert_holder (x : addr * Z) (l : list (addr * Z)) : list (addr * Z) :=
  match l with [] => [x] | y :: l' => if holder_before x y then x :: l else y :: insert_holder x l' end.
Definition top100 (cm : db) : list addr := map fst (firstn 100 (fold_right insert_holder [] (peg_holders cm))).

Definition grade_spr (cm : db) (b : block) : outcome (option verdict) :=
  match b_spr b with
  | None => Done None
  | Some si =>
    let top := top100 cm in
    let incl := snd (fold_left (fun acc e =>
                        let '(i, l) := acc in
                        (i + 1, if (2 <=? se_nexts e) &&
                                   match se_staker e with Some a => existsb (Z.eqb a) top | None => false end
                                then l ++ [i] else l)) (si_entries si) (0, [])) in
    let key_v := spr_version (b_height b) in
    match find (fun a => (fst (fst a) =? key_v) && list_Z_eqb (snd (fst a)) incl) (si_alts si) with
    | None => OracleMiss 2
    | Some (_, None) => Done None           (* a NewGrader error is only looked at from 2.0 on: see sync_block *)
    | Some (_, Some v) => Done (Some v)
    end
  end.
(* whether GradeS returned an error (err_s) *)
Definition grade_spr_err (cm : db) (b : block) : bool :=
  match b_spr b with
  | None => false
  | Some si =>
    let top := top100 cm in
    let incl := snd (fold_left (fun acc e =>
                        let '(i, l) := acc in
                        (i + 1, if (2 <=? se_nexts e) &&
                                   match se_staker e with Some a => existsb (Z.eqb a) top | None => false end
                                then l ++ [i] else l)) (si_entries si) (0, [])) in
    match find (fun a => (fst (fst a) =? spr_version (b_height b)) && list_Z_eqb (snd (fst a)) incl) (si_alts si) with
    | Some (_, None) => true
    | _ => false
    end
  end.

(* ---- rate selection (GetAssetRates / GetAssetRatesV0) ------------------------------------------ *)
Inductive rate_sel := RSel (l : list (Z * Z)) | RErr.
(* both lists non-empty *)
Fixpoint band_filter (h : Z) (v0 : bool) (o s : list (Z * Z)) : rate_sel :=
  match o, s with
  | (on, ov) :: o', (sn, sv) :: s' =>
    if on =? sn then
      let tol := if v0 then (if 100000 <=? sv then tol_01 else tol_1)
                 else (if c_V202EnhanceActivation c <=? h then tol_25 else tol_10) in
      if in_band tol ov sv then
        match band_filter h v0 o' s' with RSel l => RSel ((on, ov) :: l) | RErr => RErr end
      else if (negb v0) && (c_V202EnhanceActivation c <=? h) then
        match band_filter h v0 o' s' with RSel l => RSel ((sn, 0) :: l) | RErr => RErr end
      else RErr
    else band_filter h v0 o' s'
  | _, _ => RSel []
  end.
Definition select_rates (h : Z) (o s : list (Z * Z)) : rate_sel :=
  let v0 := h <? c_V20DevRewardsHeightActivation c in
  match o, s with
  | [], [] => RErr
  | _, [] => RSel o
  | [], _ => RSel s
  | _, _ => if Nat.eqb (length o) (length s) then band_filter h v0 o s else RErr
  end.

(* ---- snapshots and staking payouts --------------------------------------------------------------- *)
Definition addrs_of (m : gmap (addr * ticker) Z) : list addr :=
  remove_dups (map (fun kv => fst (fst kv)) (map_to_list m)).

(* the stake of one address in pUSD: None = a Convert error (fails the block) *)
Definition stake_of (h : Z) (rates : gmap ticker Z) (past cur : gmap (addr * ticker) Z) (a : addr) : option Z :=
  fold_left (fun acc t =>
      match acc with
      | None => None
      | Some tot =>
        if t =? PTickerPEG then Some tot
        else
          let b := Z.min (get_bal cur a t) (get_bal past a t) in
          if b =? 0 then Some tot
          else if ((rate_of rates t =? 0) || (rate_of rates PTickerUSD =? 0)) && (c_V202EnhanceActivation c <=? h) then Some tot
          else match convert_h c h b (rate_of rates t) (rate_of rates t) (rate_of rates PTickerUSD) (rate_of rates PTickerUSD) with
               | None => None
               | Some v => Some (tot + v)
               end
      end) all_tickers (Some 0).

Definition stake_before (x y : addr * Z) : bool := (snd x <? snd y) || ((snd x =? snd y) && (fst x <? fst y)).
Fixpoint insert_stake (x : addr * Z) (l : list (addr * Z)) : list (addr * Z) :=
  match l with [] => [x] | y :: l' => if stake_before x y then x :: l else y :: insert_stake x l' end.
Definition sort_stakes (l : list (addr * Z)) : list (addr * Z) := fold_right insert_stake [] l.

Fixpoint index_from {A} (i : Z) (l : list A) : list (Z * A) :=
  match l with [] => [] | x :: l' => (i, x) :: index_from (i + 1) l' end.

Definition coinbase_row (hs : hash) (idx : Z) (a : addr) (asset amt : Z) : htx :=
  {| ht_hash := hs; ht_index := idx; ht_action := 3; ht_from := a; ht_from_asset := 0; ht_from_amount := 0;
     ht_to_asset := asset; ht_to_amount := amt; ht_outputs := [] |}.

Definition snapshot_payouts (h ts : Z) (rates : gmap ticker Z) (s : db) : res db :=
  (* SnapshotCurrent: past := current; current := pn_addresses as the block's transaction sees it *)
  let s1 := set_snaps s (bal s) (snap_cur s) in
  let past := snap_past s1 in let cur := snap_cur s1 in
  (* the inner join keeps the addresses present in both snapshots; the MIN of a cell missing on
     either side is 0, so every address of the current snapshot may be enumerated *)
  let joined := addrs_of cur in
  let stakes := map (fun a => (a, stake_of h rates past cur a)) joined in
  if existsb (fun x => match snd x with None => true | Some _ => false end) stakes then Fail E_CONVERT
  else
    let stakes' := map (fun x => (fst x, default 0 (snd x))) stakes in
    if existsb (fun x => two64 <=? snd x) stakes' then Fail E_STAKE_RANGE
    else
      let lst := sort_stakes (filter (fun x => 0 <? snd x) stakes') in
      match lst with
      | [] => Ok s1
      | _ =>
        let txh := mock_hash h in
        let indexed := index_from 0 lst in                              (* (i, (address, stake)) *)
        let reqs : requests := map (fun x => ((txh, fst x), snd (snd x))) indexed in
        let pays := payouts (PerBlockAssetHolders * SnapshotRate) reqs in
        let? s2 := insert_hbatch s1 {| hb_hash := txh; hb_height := h; hb_order := 0; hb_ts := ts; hb_exec := h |} in
        let addr_of_idx i := match find (fun x => fst x =? i) indexed with Some x => fst (snd x) | None => 0 end in
        let? s3 := fold_left (fun r p =>
                      let? s' := r in
                      let i := snd (fst p) in
                      if two63 <=? snd p then Fail E_SQLARG
                      else insert_htx s' (coinbase_row txh i (addr_of_idx i) PTickerPEG (snd p)) [addr_of_idx i])
                    pays (Ok s2) in
        fold_left (fun r p => let? s' := r in add_to_balance s' (addr_of_idx (snd (fst p))) PTickerPEG (snd p)) pays (Ok s3)
      end.

(* ---- developer rewards ------------------------------------------------------------------------------ *)
Definition developers_payouts (h ts : Z) (s : db) : res db * db :=
  (* returns (result, state reached): the caller drops the error and keeps what was done *)
  let after := c_V202EnhanceActivation c <=? h in
  let step := fun (acc : (Z * Z) * (res db * db)) (d : Z * Z * Z * Z) =>
    let '((i, j), (r, reached)) := acc in
    match r with
    | Ok s0 =>
      let '(a, _, pre, post) := d in
      let reward := if after then post else pre in
      let hs := mock_hash_dev j h in
      let nxt := ((if 9 <? i + 1 then 0 else i + 1), j + 1) in
      match add_to_balance s0 a PTickerPEG reward with
      | Ok s1 =>
        match insert_hbatch s1 {| hb_hash := hs; hb_height := h; hb_order := 0; hb_ts := ts; hb_exec := h |} with
        | Ok s2 =>
          match insert_htx s2 (coinbase_row hs i a PTickerPEG reward) [a] with
          | Ok s3 => (nxt, (Ok s3, s3))
          | Fail e => (nxt, (Fail e, s2)) | Panic e => (nxt, (Panic e, s2))
          end
        | Fail e => (nxt, (Fail e, s1)) | Panic e => (nxt, (Panic e, s1))
        end
      | Fail e => (nxt, (Fail e, s0)) | Panic e => (nxt, (Panic e, s0))
      end
    | _ => acc
    end in
  snd (fold_left step dev_rewards ((0, 1), (Ok s, s))).

(* ---- one-time adjustments ------------------------------------------------------------------------------ *)
Definition mint_tokens (s : db) : res db :=
  fold_left (fun r m => let? s' := r in add_to_balance s' GlobalMintAddress (fst m) (snd m)) mint_list (Ok s).

(* SubFromBalance whose transaction-level refusal (insufficient balance) is ignored *)
Definition sub_ignoring_txerr (s : db) (a : addr) (t : ticker) (v : Z) : res db :=
  match sub_from_balance s a t v with
  | SubOk s' => Ok s'
  | SubInsufficient => Ok s
  | SubFail code => Fail code
  end.
Definition nullify_minted (cm : db) (s : db) : res db :=
  fold_left (fun r m => let? s' := r in sub_ignoring_txerr s' GlobalMintAddress (fst m) (get_bal (bal cm) GlobalMintAddress (fst m)))
            mint_list (Ok s).

(* NullifyBurnAddress: every error inside is dropped or ends the function early, and the caller
   discards the result: the function returns the state it reached *)
Definition nullify_burn (cm : db) (h ts : Z) (s : db) : db :=
  let newera := c_V202EnhanceActivation c <=? h in
  let a := if newera then GlobalBurnAddress else GlobalOldBurnAddress in
  let step := fun (acc : (Z * Z) * (bool * db)) (t : Z) =>
    let '((i, j), (live, s0)) := acc in
    if negb live then acc else
    let value := get_bal (bal cm) a t in
    let s1 := match sub_ignoring_txerr s0 a t value with Ok s' => s' | _ => s0 end in
    let nxt := ((if 9 <? i + 1 then 0 else i + 1), j + 1) in
    if newera then (nxt, (true, s1))
    else
      let hs := mock_hash (h - j) in
      match insert_hbatch s1 {| hb_hash := hs; hb_height := h; hb_order := 0; hb_ts := ts; hb_exec := h |} with
      | Ok s2 =>
        (* -payout of a uint64: 0 stays 0, anything else has the high bit set and is refused *)
        if 0 <? value then (nxt, (false, s2))
        else match insert_htx s2 (coinbase_row hs i a t 0) [a] with
             | Ok s3 => (nxt, (true, s3))
             | _ => (nxt, (false, s2))
             end
      | _ => (nxt, (false, s1))
      end in
  snd (snd (fold_left step all_tickers ((0, if newera then 50 else 0), (true, s)))).

(* ---- SyncBlock -------------------------------------------------------------------------------------------- *)
Definition first_assets (v : option verdict) : list (Z * Z) :=
  match v with Some v' => match v_winners v' with [] => [] | _ => v_assets v' end | None => [] end.
Definition has_winners (v : option verdict) : bool :=
  match v with Some v' => match v_winners v' with [] => false | _ => true end | None => false end.

Definition peg_phase (h : Z) : Z :=
  if c_PEGFreeFloatingPriceActivation c <=? h then 3 else if c_PEGPricingActivation c <=? h then 2 else 1.

Definition sync_block (cm : db) (mem : avgcache) (b : block) (s : db) : outcome (db * avgcache) :=
  let h := b_height b in let ts := b_ts b in
  let! s := of_res (if h =? c_V204EnhanceActivation c then mint_tokens s else Ok s) in
  let! s := of_res (if h =? c_V204BurnMintedTokenActivation c then nullify_minted cm s else Ok s) in
  let! graded := grade_opr cm b in
  let! gradedS := if c_V20HeightActivation c <=? h then grade_spr cm b else Done None in
  (* rates *)
  let! st :=
    if h <? c_V20HeightActivation c then
      match graded with
      | None => Done (s, false, false)
      | Some v =>
        let! s1 := of_res (insert_grade h s v) in
        match v_winners v with
        | [] => Done (s1, false, false)
        | _ => let! s2 := of_res (insert_rates cm h s1 (v_assets v) (peg_phase h)) in Done (s2, true, false)
        end
      end
    else
      if grade_spr_err cm b then Stuck 21 else
      let! s1 := match graded with Some v => of_res (insert_grade h s v) | None => Done s end in
      let o := first_assets graded in let sp := first_assets gradedS in
      match o, sp with
      | [], [] => Done (s1, false, false)
      | _, _ => match select_rates h o sp with
                | RErr => Done (s1, false, true)          (* `return err` with err == nil: the block ends here, successfully *)
                | RSel l => let! s2 := of_res (insert_rates cm h s1 l 3) in Done (s2, true, false)
                end
      end in
  let '(s, is_rates, ended) := st in
  if ended then Done (s, mem) else
  (* transactions *)
  let! st2 :=
    if c_TransactionConversionActivation c <=? h then
      let rates0 := default ∅ (rates s !! h) in
      let! st :=
        if (c_V20HeightActivation c <=? h) && (h mod SnapshotRate =? 0) then
          let rates1 := if is_empty_map rates0 && (c_V202EnhanceActivation c <=? h)
                        then default ∅ (rates s !! (last_rated_below s h)) else rates0 in
          let! s' := of_res (snapshot_payouts h ts rates1 s) in Done (s', rates1)
        else Done (s, rates0) in
      let '(s, rates1) := st in
      let! st :=
        if is_rates then
          let! s1 := of_res (if (c_V4OPRUpdate c <=? h) && (h <? c_V20HeightActivation c) then insert_bank s h BankBaseAmount else Ok s) in
          let '(avgs, mem') := get_averages cm (c_AveragePeriod c) mem (last_rated_below s1 h) in
          let! s2 := of_res (apply_holding c cm h s1 rates1 avgs) in Done (s2, mem')
        else Done (s, mem) in
      let '(s, mem') := st in
      let! s := match b_tx b with Some es => of_res (apply_tx_block c h s es) | None => Done s end in
      Done (s, mem')
    else Done (s, mem) in
  let '(s, mem') := st2 in
  let! s := if h <? c_V20HeightActivation c then of_res (apply_factoid_block h s (b_factoid b)) else Done s in
  let! s := match graded with Some v => of_res (pay_winners s ts (v_winners v)) | None => Done s end in
  let! s := if c_V20HeightActivation c <=? h
            then match gradedS with Some v => of_res (pay_winners s ts (v_winners v)) | None => Done s end
            else Done s in
  (* the error of DevelopersPayouts fails the block (it used to be only traced: known_findings, fixed) *)
  let! s := if (c_V20DevRewardsHeightActivation c <=? h) && (h mod SnapshotRate =? 0)
            then of_res (fst (developers_payouts h ts s)) else Done s in
  Done (s, mem').

(* ---- the body of the DBlockSync loop for one height --------------------------------------------------------- *)
Definition insert_synced (s : db) (h : Z) : res db :=
  match versions s !! h with
  | Some _ => Fail E_VERSION_PK
  | None => Ok (set_synced s (Some h) (<[h := PegnetdSyncVersion]> (versions s)))
  end.

Definition step_block (cm : db) (mem : avgcache) (b : block) : outcome (db * avgcache) :=
  let h := b_height b in
  let s := cm in
  let s := if h =? c_V20DevRewardsHeightActivation c then nullify_burn cm h (b_ts b) s else s in
  let s := if h =? c_V202EnhanceActivation c then nullify_burn cm h (b_ts b) s else s in
  let! r := sync_block cm mem b s in
  let '(s', mem') := r in
  let! s'' := of_res (insert_synced s' h) in
  Done (s'', mem').

End WithCfg.
