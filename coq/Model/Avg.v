(* Model/Avg.v — node/average.go: GetPegNetRateAverages and its cache.  Definitions only.
   As repaired (known_findings: "fix: rebuild the rate-average window ..."): the window is always
   the rated heights among [h-P+1, h], read through the pool (the committed database); only the
   same-height cache remains.  [get_averages_legacy] keeps the pre-repair incremental machine for
   the record of the finding. *)
From Model Require Export Db.
Open Scope Z_scope.

Fixpoint zrange (lo : Z) (n : nat) : list Z := match n with O => [] | S k => lo :: zrange (lo + 1) k end.

Definition all_tickers : list Z := zrange 1 62.

(* the in-memory cache: LastAveragesHeight, LastAverages (LastAveragesData is rebuilt on every miss) *)
Record avgcache := { ac_height : Z; ac_avgs : gmap ticker Z }.
Definition empty_cache : avgcache := {| ac_height := 0; ac_avgs := ∅ |}.

(* heights of the window for [h]: max(1, h-P+1) .. h *)
Definition window_heights (P h : Z) : list Z :=
  let lo := Z.max 1 (h - P + 1) in zrange lo (Z.to_nat (h - lo + 1)).

(* the values of ticker [t] at the rated heights of the window, oldest first *)
Definition samples (cm : db) (P h : Z) (t : ticker) : list Z :=
  omap (fun k => match rates cm !! k with Some m => m !! t | None => None end) (window_heights P h).

Definition count_zeros (l : list Z) : Z := Z.of_nat (length (filter (fun v => v =? 0) l)).
Definition number_missing (P : Z) (l : list Z) : Z :=
  count_zeros l + (if Z.of_nat (length l) <? P then P - Z.of_nat (length l) else 0).
Definition sum_list (l : list Z) : Z := fold_right Z.add 0 l.

(* average of one asset: 0 unless at least [req] of the last P heights carry a non-zero rate;
   the sum is a uint64 *)
Definition avg_of (P req : Z) (l : list Z) : Z :=
  if P - number_missing P l <? req then 0
  else match l with [] => 0 | _ => wrap64 (sum_list l) / Z.of_nat (length l) end.

(* only non-zero averages are stored: a missing key reads as 0, exactly like a Go map *)
Definition compute_avgs (cm : db) (P : Z) (h : Z) : gmap ticker Z :=
  fold_right (fun t m => let a := avg_of P (P / 2) (samples cm P h t) in
                         if a =? 0 then m else <[t := a]> m) ∅ all_tickers.

Definition get_averages (cm : db) (P : Z) (mem : avgcache) (h : Z) : gmap ticker Z * avgcache :=
  if ac_height mem =? h then (ac_avgs mem, mem)
  else let a := compute_avgs cm P h in (a, {| ac_height := h; ac_avgs := a |}).

(* ---- the machine before the repair --------------------------------------------------------
   data: per ticker the list of samples; adjacent height: append with trim-by-count; otherwise
   reload by height window. *)
Record avgcache_legacy := { al_height : Z; al_avgs : gmap ticker Z; al_data : gmap ticker (list Z) }.
Definition empty_cache_legacy : avgcache_legacy := {| al_height := 0; al_avgs := ∅; al_data := ∅ |}.

Fixpoint trim_to (n : nat) (l : list Z) : list Z :=
  if Nat.ltb n (length l) then match l with [] => [] | _ :: l' => trim_to n l' end else l.
(* collectRatesAtHeight: make room (every list shorter than P), then append the rates of h *)
Definition collect_at (cm : db) (P : Z) (d : gmap ticker (list Z)) (h : Z) : gmap ticker (list Z) :=
  let d1 := fmap (fun l => skipn (length l - (Z.to_nat P - 1)) l) d in
  match rates cm !! h with
  | None => d1
  | Some m => fold_right (fun t acc => match m !! t with
                                       | Some v => <[t := default [] (acc !! t) ++ [v]]> acc
                                       | None => acc end) d1 all_tickers
  end.
Definition avgs_of_data (P : Z) (d : gmap ticker (list Z)) : gmap ticker Z :=
  fold_right (fun t m => let a := avg_of P (P / 2) (default [] (d !! t)) in
                         if a =? 0 then m else <[t := a]> m) ∅ all_tickers.
Definition get_averages_legacy (cm : db) (P : Z) (mem : avgcache_legacy) (h : Z)
  : gmap ticker Z * avgcache_legacy :=
  if al_height mem =? h then (al_avgs mem, mem)
  else
    let d := if (al_height mem + 1 =? h)
             then collect_at cm P (al_data mem) h
             else fold_left (collect_at cm P) (window_heights P h) (fmap (fun _ => []) (al_data mem)) in
    let a := avgs_of_data P d in
    (a, {| al_height := h; al_avgs := a; al_data := d |}).
