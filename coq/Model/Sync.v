(* Model/Sync.v — the DBlockSync loop around the block function, with everything that can happen
   between two commits: a failed attempt (any injected fault whose error propagates: rollback and
   retry), a crash at any point before COMMIT returns (the open transaction is lost with the
   process), a crash right after COMMIT, a restart, and API requests (which read the committed
   database and may rebuild the rate-average cache).  Definitions only.

   A node is the committed database plus the in-memory cache; [todo] is the part of the chain not
   yet applied.  What SQLite guarantees (a transaction's writes are invisible to other connections
   and are lost unless COMMIT returns) is built into the shape of the transitions: only [t_commit]
   changes the database.  That every write of a block goes through that transaction is checked on
   the source (Gen/Sites.v, Lemmas/SitesLemmas.v). *)
From Model Require Export Obs.
Open Scope Z_scope.

Record node := { n_db : db; n_mem : avgcache }.

Section Loop.
Variable c : cfg.

(* the cache an interrupted attempt or an API request can leave behind: the cached averages of some
   height that is already rated in the committed database (or the empty cache) *)
Definition cache_from (cm : db) (mem' : avgcache) (hnext : Z) : Prop :=
  mem' = empty_cache \/
  exists hq, hq < hnext /\ mem' = {| ac_height := hq; ac_avgs := compute_avgs cm (c_AveragePeriod c) hq |}.

Inductive trans : node * list block -> node * list block -> Prop :=
| t_commit n b rest s' mem' :
    (* the attempt ran to the end and COMMIT returned *)
    step_block c (n_db n) (n_mem n) b = Done (s', mem') ->
    trans (n, b :: rest) ({| n_db := s'; n_mem := mem' |}, rest)
| t_rollback n b rest mem' :
    (* the attempt failed somewhere (a fault in any statement or request, or a deterministic error):
       the transaction is rolled back; the cache may or may not have been rebuilt before the failure *)
    (mem' = n_mem n \/ cache_from (n_db n) mem' (b_height b)) ->
    trans (n, b :: rest) ({| n_db := n_db n; n_mem := mem' |}, b :: rest)
| t_crash n todo :
    (* the process dies (SIGKILL at any statement, before or after COMMIT returned — after it the
       node is simply in the next state) and a fresh process starts on the database file *)
    trans (n, todo) ({| n_db := n_db n; n_mem := empty_cache |}, todo)
| t_api n b rest mem' :
    (* an API request between two statements of the sync routine: reads the committed database; the
       rich-list methods ask for the averages of the most recent rated height, under the cache mutex *)
    cache_from (n_db n) mem' (b_height b) ->
    trans (n, b :: rest) ({| n_db := n_db n; n_mem := mem' |}, b :: rest).

Inductive reach : node * list block -> node * list block -> Prop :=
| r_refl x : reach x x
| r_step x y z : reach x y -> trans y z -> reach x z.

End Loop.

(* What the loop body does when the directory-block request INSIDE NullifyBurnAddress fails: the
   function returns early, DBlockSync discards its result, and the block is applied and committed
   without the zeroing (known finding, C10): *)
Definition step_block_nullify_failed (c : cfg) (cm : db) (mem : avgcache) (b : block) : outcome (db * avgcache) :=
  let h := b_height b in
  obind (sync_block c cm mem b cm) (fun r =>
    let '(s', mem') := r in obind (of_res (insert_synced s' h)) (fun s'' => Done (s'', mem'))).
