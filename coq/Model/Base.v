(* Model/Base.v — common types of the pegnetd model.  Definitions only. *)
From Coq Require Export ZArith List Bool Lia.
Export ListNotations.
Open Scope Z_scope.

(* Everything numeric is an unbounded Z; the Go code's uint64 / int64 range checks
   and wrap-arounds are written explicitly where the code has them. *)
Definition ticker := Z.   (* fat2.PTicker: 1..PTickerMax-1 valid, 0 invalid *)
Definition addr   := Z.   (* factom.FAAddress: the 32 bytes as a big-endian integer *)
Definition hash   := Z.   (* entry hash / txid bytes as a big-endian integer *)
Definition height := Z.

Definition two63 : Z := 9223372036854775808.
Definition two64 : Z := 18446744073709551616.
Definition max_int64 : Z := 9223372036854775807.
Definition wrap64 (x : Z) : Z := x mod two64.

(* Activation schedule: config/activations.go (+ fat2.Fat2RCDEActivation, node.AveragePeriod). *)
Record cfg := {
  c_PegnetActivation : Z;
  c_GradingV2Activation : Z;
  c_TransactionConversionActivation : Z;
  c_PEGPricingActivation : Z;
  c_OneWaypFCTConversions : Z;
  c_PegnetConversionLimitActivation : Z;
  c_PEGFreeFloatingPriceActivation : Z;
  c_V4OPRUpdate : Z;
  c_V20HeightActivation : Z;
  c_V20DevRewardsHeightActivation : Z;
  c_SprSignatureActivation : Z;
  c_OneWaySmallAssetsConversions : Z;
  c_V202EnhanceActivation : Z;
  c_V204EnhanceActivation : Z;
  c_V204BurnMintedTokenActivation : Z;
  c_PIP10AverageActivation : Z;
  c_Fat2RCDEActivation : Z;
  c_AveragePeriod : Z
}.

(* result of a Go function that returns an error *)
Inductive res (A : Type) : Type :=
| Ok (a : A)
| Fail (code : Z)      (* a non-nil error: the block is rolled back and retried *)
| Panic (code : Z).    (* the goroutine panics *)
Arguments Ok {A} _.
Arguments Fail {A} _.
Arguments Panic {A} _.

Definition rbind {A B} (r : res A) (f : A -> res B) : res B :=
  match r with Ok a => f a | Fail c => Fail c | Panic c => Panic c end.

Notation "'let?' x := r 'in' k" := (rbind r (fun x => k))
  (at level 200, x name, r at level 100, k at level 200, only parsing).

Definition is_ok {A} (r : res A) : bool := match r with Ok _ => true | _ => false end.
