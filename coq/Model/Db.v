(* Model/Db.v — the SQLite balance store as maps and lists; one definition per SQL
   statement shape of node/pegnet/*.go.  Definitions only. *)
From stdpp Require Export gmap.
From Model Require Export Base Arith.
Open Scope Z_scope.

(* ---- pn_history_* ------------------------------------------------------- *)
(* pn_history_txbatch row (history_id is the position in the list) *)
Record hbatch := {
  hb_hash : hash;
  hb_height : Z;
  hb_order : Z;        (* blockorder *)
  hb_ts : Z;
  hb_exec : Z          (* 0 pending, <0 rejected, >0 height it was applied at *)
}.
(* pn_history_transaction row *)
Record htx := {
  ht_hash : hash;
  ht_index : Z;
  ht_action : Z;       (* 1 transfer, 2 conversion, 3 coinbase, 4 burn *)
  ht_from : addr;
  ht_from_asset : Z;   (* ticker; 0 = "" ; -1 = "FCT" *)
  ht_from_amount : Z;
  ht_to_asset : Z;     (* ticker; 0 = "" *)
  ht_to_amount : Z;
  ht_outputs : list (addr * Z)
}.

(* ---- pn_transaction_batch_holding --------------------------------------- *)
Record transfer := { tr_addr : addr; tr_amt : Z }.
Record tx := {
  tx_addr : addr;            (* input address *)
  tx_type : ticker;          (* input type *)
  tx_amt : Z;                (* input amount, uint64 *)
  tx_transfers : list transfer;
  tx_conv : ticker           (* 0 = no conversion *)
}.
(* an entry of the transaction chain as the ledger sees it after decoding: [e_batch] is
   [Some] when UnmarshalJSON + ValidData + signatures + salt window succeed (Model/Codec.v
   is about that step); [e_rcde] says that some signature uses the RCD-e type, which is
   only accepted above Fat2RCDEActivation *)
Record entry := {
  e_hash : hash;
  e_ts : Z;                  (* entry timestamp (unix) *)
  e_batch : option (list tx);
  e_rcde : bool
}.
Record held := { h_entry : entry; h_height : Z }.

(* ---- the database -------------------------------------------------------- *)
Record db := {
  bal : gmap (addr * ticker) Z;          (* pn_addresses; a missing cell is 0 *)
  snap_cur : gmap (addr * ticker) Z;     (* snapshot_current *)
  snap_past : gmap (addr * ticker) Z;    (* snapshot_past *)
  rates : gmap Z (gmap ticker Z);        (* pn_rate: height -> ticker -> value; key present = the height is rated *)
  holding : list held;                   (* pn_transaction_batch_holding, insertion (rowid) order *)
  rel : gmap hash (list (addr * Z * bool * bool));  (* pn_address_transactions, grouped by entry hash *)
  hist : list hbatch;                    (* pn_history_txbatch, insertion order *)
  htxs : list htx;                       (* pn_history_transaction *)
  lookups : list (hash * Z * addr);      (* pn_history_lookup *)
  bank : gmap Z (Z * Z * Z);             (* pn_bank: height -> (amount, used, requested) *)
  grades : gmap Z (list Z);              (* pn_grade: height -> winners' short hashes *)
  winners : list (Z * Z * hash * Z * addr);  (* pn_winners: (height, position, entryhash, payout, address) *)
  synced : option Z;                     (* pn_metadata 'synced' *)
  versions : gmap Z Z                    (* pn_sync_version: height -> version *)
}.

Definition empty_db : db := {|
  bal := ∅; snap_cur := ∅; snap_past := ∅; rates := ∅; holding := []; rel := ∅; hist := [];
  htxs := []; lookups := []; bank := ∅; grades := ∅; winners := []; synced := None; versions := ∅ |}.

(* record-update helpers *)
Definition set_bal (s : db) v := {| bal := v; snap_cur := snap_cur s; snap_past := snap_past s; rates := rates s;
  holding := holding s; rel := rel s; hist := hist s; htxs := htxs s; lookups := lookups s; bank := bank s;
  grades := grades s; winners := winners s; synced := synced s; versions := versions s |}.
Definition set_snaps (s : db) c p := {| bal := bal s; snap_cur := c; snap_past := p; rates := rates s;
  holding := holding s; rel := rel s; hist := hist s; htxs := htxs s; lookups := lookups s; bank := bank s;
  grades := grades s; winners := winners s; synced := synced s; versions := versions s |}.
Definition set_rates (s : db) v := {| bal := bal s; snap_cur := snap_cur s; snap_past := snap_past s; rates := v;
  holding := holding s; rel := rel s; hist := hist s; htxs := htxs s; lookups := lookups s; bank := bank s;
  grades := grades s; winners := winners s; synced := synced s; versions := versions s |}.
Definition set_holding (s : db) v := {| bal := bal s; snap_cur := snap_cur s; snap_past := snap_past s; rates := rates s;
  holding := v; rel := rel s; hist := hist s; htxs := htxs s; lookups := lookups s; bank := bank s;
  grades := grades s; winners := winners s; synced := synced s; versions := versions s |}.
Definition set_rel (s : db) v := {| bal := bal s; snap_cur := snap_cur s; snap_past := snap_past s; rates := rates s;
  holding := holding s; rel := v; hist := hist s; htxs := htxs s; lookups := lookups s; bank := bank s;
  grades := grades s; winners := winners s; synced := synced s; versions := versions s |}.
Definition set_hist (s : db) v := {| bal := bal s; snap_cur := snap_cur s; snap_past := snap_past s; rates := rates s;
  holding := holding s; rel := rel s; hist := v; htxs := htxs s; lookups := lookups s; bank := bank s;
  grades := grades s; winners := winners s; synced := synced s; versions := versions s |}.
Definition set_htxs (s : db) v l := {| bal := bal s; snap_cur := snap_cur s; snap_past := snap_past s; rates := rates s;
  holding := holding s; rel := rel s; hist := hist s; htxs := v; lookups := l; bank := bank s;
  grades := grades s; winners := winners s; synced := synced s; versions := versions s |}.
Definition set_bank (s : db) v := {| bal := bal s; snap_cur := snap_cur s; snap_past := snap_past s; rates := rates s;
  holding := holding s; rel := rel s; hist := hist s; htxs := htxs s; lookups := lookups s; bank := v;
  grades := grades s; winners := winners s; synced := synced s; versions := versions s |}.
Definition set_grades (s : db) g w := {| bal := bal s; snap_cur := snap_cur s; snap_past := snap_past s; rates := rates s;
  holding := holding s; rel := rel s; hist := hist s; htxs := htxs s; lookups := lookups s; bank := bank s;
  grades := g; winners := w; synced := synced s; versions := versions s |}.
Definition set_synced (s : db) v vs := {| bal := bal s; snap_cur := snap_cur s; snap_past := snap_past s; rates := rates s;
  holding := holding s; rel := rel s; hist := hist s; htxs := htxs s; lookups := lookups s; bank := bank s;
  grades := grades s; winners := winners s; synced := v; versions := vs |}.

(* error codes of [Fail] (what made the Go function return a non-nil error) *)
Definition E_UNIQUE_HIST : Z := 1.      (* UNIQUE(entry_hash,height) / PRIMARY KEY(entry_hash,tx_index) *)
Definition E_UNIQUE_HOLDING : Z := 2.   (* UNIQUE(entry_hash) of the holding table *)
Definition E_UNCAUGHT : Z := 3.         (* "uncaught: insufficient balance" *)
Definition E_NORATES : Z := 4.          (* "rates must exist if TransactionBatch contains conversions" *)
Definition E_CONVERT : Z := 5.          (* a Convert error that is returned *)
Definition E_BADCOLUMN : Z := 6.        (* AddToBalance on ticker 0: no such column *)
Definition E_BANKROW : Z := 7.          (* bank entry not added / not updated / duplicate *)
Definition E_UNIQUE_RATE : Z := 8.      (* UNIQUE(height, token) of pn_rate *)
Definition E_SQLARG : Z := 9.           (* database/sql refuses a uint64 with the high bit set *)
Definition E_UNIQUE_GRADE : Z := 10.    (* pn_grade / pn_winners uniqueness *)
Definition E_STAKE_RANGE : Z := 11.     (* stake not a uint64 *)
Definition E_VERSION_PK : Z := 12.      (* PRIMARY KEY(height) of pn_sync_version *)
Definition E_DUP_TXID : Z := 13.        (* AddConversion: txid already exists *)
Definition E_OVERFLOW_CELL : Z := 14.   (* a balance cell or column sum left the int64 range (SQLite would store a REAL) *)

(* ---- pn_addresses --------------------------------------------------------- *)
Definition get_bal (m : gmap (addr * ticker) Z) (a : addr) (t : ticker) : Z := default 0 (m !! (a, t)).
Definition valid_ticker (t : ticker) : bool := (0 <? t) && (t <? 63).

(* AddToBalance: upsert "col = col + value"; the value is bound as a uint64 SQL argument *)
Definition add_to_balance (s : db) (a : addr) (t : ticker) (v : Z) : res db :=
  if negb (valid_ticker t) then Fail E_BADCOLUMN
  else if two63 <=? v then Fail E_SQLARG
  (* SQLite would store a REAL once the cell leaves the int64 range and every later read of it into a
     uint64 fails: the model stops here instead — cells above 2^63-1 are outside its domain *)
  else if max_int64 <? get_bal (bal s) a t + v then Fail E_OVERFLOW_CELL
  else Ok (set_bal s (<[(a, t) := get_bal (bal s) a t + v]> (bal s))).

(* SubFromBalance: returns (txErr?, db) *)
Inductive sub_result := SubOk (s : db) | SubInsufficient | SubFail (code : Z).
Definition sub_from_balance (s : db) (a : addr) (t : ticker) (v : Z) : sub_result :=
  if v =? 0 then match add_to_balance s a t 0 with Ok s' => SubOk s' | Fail c => SubFail c | Panic c => SubFail c end
  else if negb (valid_ticker t) then SubFail E_BADCOLUMN        (* SelectPendingBalance: invalid token type *)
  else if get_bal (bal s) a t <? v then SubInsufficient
  else if two63 <=? v then SubFail E_SQLARG
  else SubOk (set_bal s (<[(a, t) := get_bal (bal s) a t - v]> (bal s))).

(* per-asset issuance: SUM(col) over pn_addresses *)
Definition supply_of (m : gmap (addr * ticker) Z) (t : ticker) : Z :=
  map_fold (fun k v acc => if snd k =? t then acc + v else acc) 0 m.
Definition supply (s : db) (t : ticker) : Z := supply_of (bal s) t.

(* ---- pn_rate --------------------------------------------------------------- *)
Definition rate_of (r : gmap ticker Z) (t : ticker) : Z := default 0 (r !! t).
Definition rates_at (s : db) (h : Z) : option (gmap ticker Z) := rates s !! h.
Definition is_rated (s : db) (h : Z) : bool := match rates s !! h with Some _ => true | None => false end.

(* SELECT MAX(height) FROM pn_rate WHERE height < h; the Go code gets 0 (and an empty
   map) when there is none *)
Definition last_rated_below (s : db) (h : Z) : Z :=
  map_fold (fun k _ acc => if (k <? h) && (acc <? k) then k else acc) 0 (rates s).

(* ---- pn_address_transactions ---------------------------------------------- *)
Definition is_replay (s : db) (hs : hash) : bool :=
  match rel s !! hs with Some (_ :: _) => true | _ => false end.
(* INSERT ... ON CONFLICT DO NOTHING on PRIMARY KEY(entry_hash, address) *)
Definition insert_relation (s : db) (a : addr) (hs : hash) (idx : Z) (to conv : bool) : db :=
  let rows := default [] (rel s !! hs) in
  if existsb (fun r => fst (fst (fst r)) =? a) rows then s
  else set_rel s (<[hs := rows ++ [(a, idx, to || conv, conv)]]> (rel s)).

(* ---- pn_history_txbatch / _transaction -------------------------------------- *)
Definition hist_has (s : db) (hs : hash) : bool := existsb (fun r => hb_hash r =? hs) (hist s).
Definition hist_has_at (s : db) (hs : hash) (h : Z) : bool :=
  existsb (fun r => (hb_hash r =? hs) && (hb_height r =? h)) (hist s).
Definition htx_has (s : db) (hs : hash) (i : Z) : bool :=
  existsb (fun r => (ht_hash r =? hs) && (ht_index r =? i)) (htxs s).

(* UPDATE pn_history_txbatch SET executed = ? WHERE entry_hash = ?  (every row with that hash) *)
Definition set_executed (s : db) (hs : hash) (code : Z) : db :=
  set_hist s (map (fun r => if hb_hash r =? hs
                            then {| hb_hash := hb_hash r; hb_height := hb_height r; hb_order := hb_order r;
                                    hb_ts := hb_ts r; hb_exec := code |}
                            else r) (hist s)).

Definition upd_htx (s : db) (hs : hash) (i : Z) (f : htx -> htx) : db :=
  set_htxs s (map (fun r => if (ht_hash r =? hs) && (ht_index r =? i) then f r else r) (htxs s)) (lookups s).
Definition set_to_amount (s : db) (hs : hash) (i : Z) (amt : Z) : db :=
  upd_htx s hs i (fun r => {| ht_hash := ht_hash r; ht_index := ht_index r; ht_action := ht_action r;
     ht_from := ht_from r; ht_from_asset := ht_from_asset r; ht_from_amount := ht_from_amount r;
     ht_to_asset := ht_to_asset r; ht_to_amount := amt; ht_outputs := ht_outputs r |}).
Definition set_peg_request_amounts (s : db) (hs : hash) (i : Z) (amt : Z) (out : list (addr * Z)) : db :=
  upd_htx s hs i (fun r => {| ht_hash := ht_hash r; ht_index := ht_index r; ht_action := ht_action r;
     ht_from := ht_from r; ht_from_asset := ht_from_asset r; ht_from_amount := ht_from_amount r;
     ht_to_asset := ht_to_asset r; ht_to_amount := amt; ht_outputs := out |}).

(* insert one batch row; UNIQUE(entry_hash, height) *)
Definition insert_hbatch (s : db) (r : hbatch) : res db :=
  if hist_has_at s (hb_hash r) (hb_height r) then Fail E_UNIQUE_HIST
  else Ok (set_hist s (hist s ++ [r])).
(* insert one transaction row + its lookup rows; PRIMARY KEY(entry_hash, tx_index);
   lookups are ON CONFLICT DO NOTHING *)
Definition add_lookup (l : list (hash * Z * addr)) (k : hash * Z * addr) : list (hash * Z * addr) :=
  if existsb (fun x => (fst (fst x) =? fst (fst k)) && (snd (fst x) =? snd (fst k)) && (snd x =? snd k)) l
  then l else l ++ [k].
Definition insert_htx (s : db) (r : htx) (lk : list addr) : res db :=
  if htx_has s (ht_hash r) (ht_index r) then Fail E_UNIQUE_HIST
  else Ok (set_htxs s (htxs s ++ [r])
             (fold_left (fun l a => add_lookup l (ht_hash r, ht_index r, a)) lk (lookups s))).

(* ---- pn_transaction_batch_holding -------------------------------------------- *)
Definition holding_has (s : db) (hs : hash) : bool := existsb (fun x => e_hash (h_entry x) =? hs) (holding s).
Definition insert_holding (s : db) (e : entry) (h : Z) : res db :=
  if holding_has s (e_hash e) then Fail E_UNIQUE_HOLDING
  else Ok (set_holding s (holding s ++ [{| h_entry := e; h_height := h |}])).
Definition holding_at (s : db) (h : Z) : list entry :=
  map h_entry (filter (fun x => h_height x =? h) (holding s)).

(* ---- pn_bank -------------------------------------------------------------------- *)
Definition insert_bank (s : db) (h amount : Z) : res db :=
  match bank s !! h with
  | Some _ => Fail E_BANKROW
  | None => Ok (set_bank s (<[h := (amount, -1, -1)]> (bank s)))
  end.
Definition update_bank (s : db) (h used requested : Z) : res db :=
  match bank s !! h with
  | None => Fail E_BANKROW
  | Some (amount, _, _) => Ok (set_bank s (<[h := (amount, used, requested)]> (bank s)))
  end.
