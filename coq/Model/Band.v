(* Model/Band.v — the binary64 arithmetic of node/sync.go (tolerance band of GetAssetRates /
   GetAssetRatesV0, percentage products of DevelopersPayouts) with Coq's primitive floats, which
   are IEEE-754 binary64 with round-to-nearest-even like Go's float64 on amd64.  Definitions only. *)
From Coq Require Import ZArith Floats Uint63.
From Model Require Import Base.
Open Scope Z_scope.

(* float64(x) for a uint64 x.  [of_uint63] is exact rounding for x < 2^63; above that the low bit
   is folded into a sticky bit and the result doubled (exact: doubling only changes the exponent). *)
Definition f_of_Z (x : Z) : float :=
  if x <? two63 then PrimFloat.of_uint63 (Uint63.of_Z x)
  else (PrimFloat.of_uint63 (Uint63.of_Z (Z.lor (x / 2) (x mod 2))) * 2)%float.

(* lo <= float64(o) <= hi with lo/hi = float64(s) * (1 -/+ tol), all in binary64 *)
Definition in_band (tol : float) (o s : Z) : bool :=
  let fs := f_of_Z s in let fo := f_of_Z o in
  let hi := (fs * (1 + tol))%float in
  let lo := (fs * (1 - tol))%float in
  (PrimFloat.leb lo fo && PrimFloat.leb fo hi)%bool.

Definition tol_10 : float := 0.1%float.
Definition tol_25 : float := 0.25%float.
Definition tol_1 : float := 0.01%float.
Definition tol_01 : float := 0.001%float.

(* uint64(f) for a non-negative finite f below 2^63 (truncation toward zero) *)
Definition Z_of_f (f : float) : Z :=
  let '(m, e) := PrimFloat.frshiftexp f in
  (* f = m * 2^(e - shift), m in [0.5, 1) *)
  let ez := Uint63.to_Z e - FloatOps.shift in
  let mi := Uint63.to_Z (PrimFloat.normfr_mantissa m) in   (* m * 2^53 *)
  if ez - 53 <? 0 then mi / 2 ^ (53 - ez) else mi * 2 ^ (ez - 53).

(* float64 from its bit pattern (math.Float64bits), for finite positive values *)
Definition f_of_bits (b : Z) : float :=
  let e := (b / 2 ^ 52) mod 2048 in
  let m := b mod 2 ^ 52 in
  if e =? 0 then PrimFloat.ldshiftexp (PrimFloat.of_uint63 (Uint63.of_Z m)) (Uint63.of_Z (FloatOps.shift - 1074))
  else PrimFloat.ldshiftexp (PrimFloat.of_uint63 (Uint63.of_Z (m + 2 ^ 52))) (Uint63.of_Z (FloatOps.shift + e - 1075)).

(* DevelopersPayouts: uint64((PerBlockDevelopers / 100) * pct [* SnapshotRate]) *)
Definition dev_reward (per100 : Z) (pct_bits : Z) (times144 : bool) : Z :=
  let p := (f_of_Z per100 * f_of_bits pct_bits)%float in
  Z_of_f (if times144 then (p * 144)%float else p).
